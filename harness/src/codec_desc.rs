//! Canonical descriptions of wire values (property C13). The very same format is produced by the Lean
//! model (`Iggy/Codec/Desc.lean`); the judge compares the two strings.
//!
//! Format (no spaces anywhere):
//!   numbers: decimal; byte strings and names: lowercase hex; bool: `0`/`1`; absent option: `-`
//!   identifier   `num:<u32>` | `str:<hex>`
//!   consumer     `c:<identifier>` | `g:<identifier>`
//!   partitioning `bal:<hex>` | `pid:<hex>` | `key:<hex>`      (hex of the value bytes)
//!   strategy     `offset:<u64>` | `timestamp:<u64>` | `first:<u64>` | `last:<u64>` | `next:<u64>`
//!   headers      `-` (absent OR empty: normalised) | `[<keyhex>=<kind code>:<valuehex>,...]` sorted by key bytes
//!   message      `{id=<u128>;h=<headers>;p=<hex>}`   (id 0 = "server assigns one")
//!   expiry       `default` | `never` | `ns:<nanoseconds>`
//!   max size     `default` | `unlimited` | `custom:<u64>`
//!   opt string   `-` | `s:<hex>`
//!   permissions  `-` | `{g=<10 bits>;s=<streams>}`; streams `-` (absent OR empty) |
//!                `[<id>:<6 bits>:<topics>,...]` sorted by id; topics `-` (absent OR empty) |
//!                `(<id>:<4 bits>/...)` sorted by id
//!   command      `<Variant>{field=value;...}`
use iggy::compression::compression_algorithm::CompressionAlgorithm;
use iggy::consumer::{Consumer, ConsumerKind};
use iggy::identifier::{IdKind, Identifier};
use iggy::messages::poll_messages::{PollingKind, PollingStrategy};
use iggy::messages::send_messages::{Message, Partitioning, PartitioningKind};
use iggy::models::header::{HeaderKey, HeaderValue};
use iggy::models::permissions::Permissions;
use iggy::models::user_status::UserStatus;
use iggy::utils::expiry::IggyExpiry;
use iggy::utils::topic_size::MaxTopicSize;
use server::state::command::EntryCommand;
use server::state::entry::StateEntry;
use server::streaming::models::messages::RetainedMessage;
use server::ServerCommand;
use std::collections::HashMap;

pub fn hx(b: &[u8]) -> String {
    const D: &[u8; 16] = b"0123456789abcdef";
    let mut s = String::with_capacity(b.len() * 2);
    for x in b {
        s.push(D[(x >> 4) as usize] as char);
        s.push(D[(x & 15) as usize] as char);
    }
    s
}

pub fn unhex(s: &str) -> Option<Vec<u8>> {
    let s = s.as_bytes();
    if s.len() % 2 != 0 {
        return None;
    }
    let v = |c: u8| -> Option<u8> {
        match c {
            b'0'..=b'9' => Some(c - b'0'),
            b'a'..=b'f' => Some(c - b'a' + 10),
            b'A'..=b'F' => Some(c - b'A' + 10),
            _ => None,
        }
    };
    let mut out = Vec::with_capacity(s.len() / 2);
    for i in 0..s.len() / 2 {
        out.push(v(s[2 * i])? * 16 + v(s[2 * i + 1])?);
    }
    Some(out)
}

fn b(x: bool) -> char {
    if x {
        '1'
    } else {
        '0'
    }
}

pub fn ident(i: &Identifier) -> String {
    match i.kind {
        IdKind::Numeric if i.value.len() == 4 => {
            format!("num:{}", u32::from_le_bytes(i.value[..4].try_into().unwrap()))
        }
        IdKind::Numeric => format!("num?:{}", hx(&i.value)),
        IdKind::String => format!("str:{}", hx(&i.value)),
    }
}

pub fn consumer(c: &Consumer) -> String {
    match c.kind {
        ConsumerKind::Consumer => format!("c:{}", ident(&c.id)),
        ConsumerKind::ConsumerGroup => format!("g:{}", ident(&c.id)),
    }
}

pub fn partitioning(p: &Partitioning) -> String {
    let k = match p.kind {
        PartitioningKind::Balanced => "bal",
        PartitioningKind::PartitionId => "pid",
        PartitioningKind::MessagesKey => "key",
    };
    format!("{k}:{}", hx(&p.value))
}

pub fn strategy(s: &PollingStrategy) -> String {
    let k = match s.kind {
        PollingKind::Offset => "offset",
        PollingKind::Timestamp => "timestamp",
        PollingKind::First => "first",
        PollingKind::Last => "last",
        PollingKind::Next => "next",
    };
    format!("{k}:{}", s.value)
}

pub fn opt_u32(o: Option<u32>) -> String {
    match o {
        None => "-".into(),
        Some(x) => x.to_string(),
    }
}

pub fn opt_u8(o: Option<u8>) -> String {
    match o {
        None => "-".into(),
        Some(x) => x.to_string(),
    }
}

pub fn opt_str(o: &Option<String>) -> String {
    match o {
        None => "-".into(),
        Some(x) => format!("s:{}", hx(x.as_bytes())),
    }
}

pub fn headers(h: &Option<HashMap<HeaderKey, HeaderValue>>) -> String {
    match h {
        None => "-".into(),
        Some(m) if m.is_empty() => "-".into(),
        Some(m) => {
            let mut v: Vec<(&[u8], u8, &[u8])> = m
                .iter()
                .map(|(k, v)| (k.as_str().as_bytes(), v.kind.as_code(), &v.value[..]))
                .collect();
            v.sort();
            let parts: Vec<String> = v
                .iter()
                .map(|(k, c, x)| format!("{}={}:{}", hx(k), c, hx(x)))
                .collect();
            format!("[{}]", parts.join(","))
        }
    }
}

/// `zero_id`: print the id as 0 (the frame carried 0 and the decoder drew a fresh one).
pub fn message(m: &Message, zero_id: bool) -> String {
    format!(
        "{{id={};h={};p={}}}",
        if zero_id { 0 } else { m.id },
        headers(&m.headers),
        hx(&m.payload)
    )
}

pub fn expiry(e: &IggyExpiry) -> String {
    match e {
        IggyExpiry::ServerDefault => "default".into(),
        IggyExpiry::NeverExpire => "never".into(),
        IggyExpiry::ExpireDuration(d) => format!("ns:{}", d.get_duration().as_nanos()),
    }
}

pub fn max_size(m: &MaxTopicSize) -> String {
    match m {
        MaxTopicSize::ServerDefault => "default".into(),
        MaxTopicSize::Unlimited => "unlimited".into(),
        MaxTopicSize::Custom(x) => format!("custom:{}", x.as_bytes_u64()),
    }
}

pub fn compression(c: &CompressionAlgorithm) -> &'static str {
    match c {
        CompressionAlgorithm::None => "none",
        CompressionAlgorithm::Gzip => "gzip",
    }
}

pub fn status(s: &UserStatus) -> &'static str {
    match s {
        UserStatus::Active => "active",
        UserStatus::Inactive => "inactive",
    }
}

pub fn permissions(p: &Option<Permissions>) -> String {
    let Some(p) = p else { return "-".into() };
    let g = &p.global;
    let gs: String = [
        g.manage_servers,
        g.read_servers,
        g.manage_users,
        g.read_users,
        g.manage_streams,
        g.read_streams,
        g.manage_topics,
        g.read_topics,
        g.poll_messages,
        g.send_messages,
    ]
    .iter()
    .map(|x| b(*x))
    .collect();
    let streams = match &p.streams {
        None => "-".to_string(),
        Some(m) if m.is_empty() => "-".to_string(),
        Some(m) => {
            let mut ids: Vec<&u32> = m.keys().collect();
            ids.sort();
            let parts: Vec<String> = ids
                .iter()
                .map(|id| {
                    let s = &m[id];
                    let f: String = [
                        s.manage_stream,
                        s.read_stream,
                        s.manage_topics,
                        s.read_topics,
                        s.poll_messages,
                        s.send_messages,
                    ]
                    .iter()
                    .map(|x| b(*x))
                    .collect();
                    let topics = match &s.topics {
                        None => "-".to_string(),
                        Some(t) if t.is_empty() => "-".to_string(),
                        Some(t) => {
                            let mut tids: Vec<&u32> = t.keys().collect();
                            tids.sort();
                            let tp: Vec<String> = tids
                                .iter()
                                .map(|tid| {
                                    let x = &t[tid];
                                    let f: String = [
                                        x.manage_topic,
                                        x.read_topic,
                                        x.poll_messages,
                                        x.send_messages,
                                    ]
                                    .iter()
                                    .map(|x| b(*x))
                                    .collect();
                                    format!("{tid}:{f}")
                                })
                                .collect();
                            format!("({})", tp.join("/"))
                        }
                    };
                    format!("{id}:{f}:{topics}")
                })
                .collect();
            format!("[{}]", parts.join(","))
        }
    };
    format!("{{g={gs};s={streams}}}")
}

pub fn variant_name(c: &ServerCommand) -> &'static str {
    use ServerCommand::*;
    match c {
        Ping(_) => "Ping",
        GetStats(_) => "GetStats",
        GetMe(_) => "GetMe",
        GetClient(_) => "GetClient",
        GetClients(_) => "GetClients",
        GetUser(_) => "GetUser",
        GetUsers(_) => "GetUsers",
        CreateUser(_) => "CreateUser",
        DeleteUser(_) => "DeleteUser",
        UpdateUser(_) => "UpdateUser",
        UpdatePermissions(_) => "UpdatePermissions",
        ChangePassword(_) => "ChangePassword",
        LoginUser(_) => "LoginUser",
        LogoutUser(_) => "LogoutUser",
        GetPersonalAccessTokens(_) => "GetPersonalAccessTokens",
        CreatePersonalAccessToken(_) => "CreatePersonalAccessToken",
        DeletePersonalAccessToken(_) => "DeletePersonalAccessToken",
        LoginWithPersonalAccessToken(_) => "LoginWithPersonalAccessToken",
        SendMessages(_) => "SendMessages",
        PollMessages(_) => "PollMessages",
        FlushUnsavedBuffer(_) => "FlushUnsavedBuffer",
        GetConsumerOffset(_) => "GetConsumerOffset",
        StoreConsumerOffset(_) => "StoreConsumerOffset",
        DeleteConsumerOffset(_) => "DeleteConsumerOffset",
        GetStream(_) => "GetStream",
        GetStreams(_) => "GetStreams",
        CreateStream(_) => "CreateStream",
        DeleteStream(_) => "DeleteStream",
        UpdateStream(_) => "UpdateStream",
        PurgeStream(_) => "PurgeStream",
        GetTopic(_) => "GetTopic",
        GetTopics(_) => "GetTopics",
        CreateTopic(_) => "CreateTopic",
        DeleteTopic(_) => "DeleteTopic",
        UpdateTopic(_) => "UpdateTopic",
        PurgeTopic(_) => "PurgeTopic",
        CreatePartitions(_) => "CreatePartitions",
        DeletePartitions(_) => "DeletePartitions",
        GetConsumerGroup(_) => "GetConsumerGroup",
        GetConsumerGroups(_) => "GetConsumerGroups",
        CreateConsumerGroup(_) => "CreateConsumerGroup",
        DeleteConsumerGroup(_) => "DeleteConsumerGroup",
        JoinConsumerGroup(_) => "JoinConsumerGroup",
        LeaveConsumerGroup(_) => "LeaveConsumerGroup",
        GetSnapshotFile(_) => "GetSnapshotFile",
    }
}

pub const VARIANTS: [&str; 45] = [
    "Ping",
    "GetStats",
    "GetMe",
    "GetClient",
    "GetClients",
    "GetUser",
    "GetUsers",
    "CreateUser",
    "DeleteUser",
    "UpdateUser",
    "UpdatePermissions",
    "ChangePassword",
    "LoginUser",
    "LogoutUser",
    "GetPersonalAccessTokens",
    "CreatePersonalAccessToken",
    "DeletePersonalAccessToken",
    "LoginWithPersonalAccessToken",
    "SendMessages",
    "PollMessages",
    "FlushUnsavedBuffer",
    "GetConsumerOffset",
    "StoreConsumerOffset",
    "DeleteConsumerOffset",
    "GetStream",
    "GetStreams",
    "CreateStream",
    "DeleteStream",
    "UpdateStream",
    "PurgeStream",
    "GetTopic",
    "GetTopics",
    "CreateTopic",
    "DeleteTopic",
    "UpdateTopic",
    "PurgeTopic",
    "CreatePartitions",
    "DeletePartitions",
    "GetConsumerGroup",
    "GetConsumerGroups",
    "CreateConsumerGroup",
    "DeleteConsumerGroup",
    "JoinConsumerGroup",
    "LeaveConsumerGroup",
    "GetSnapshotFile",
];

/// `zero_ids[i]`: message i carried id 0 on the wire (only meaningful for SendMessages).
pub fn command(c: &ServerCommand, zero_ids: &[bool]) -> String {
    use ServerCommand::*;
    let n = variant_name(c);
    let body = match c {
        Ping(_) | GetStats(_) | GetMe(_) | GetClients(_) | GetUsers(_) | LogoutUser(_)
        | GetPersonalAccessTokens(_) | GetStreams(_) => String::new(),
        GetClient(x) => format!("id={}", x.client_id),
        GetUser(x) => format!("user={}", ident(&x.user_id)),
        DeleteUser(x) => format!("user={}", ident(&x.user_id)),
        CreateUser(x) => create_user_body(x),
        UpdateUser(x) => update_user_body(x),
        UpdatePermissions(x) => update_permissions_body(x),
        ChangePassword(x) => change_password_body(x),
        LoginUser(x) => format!(
            "user={};pass={};version={};context={}",
            hx(x.username.as_bytes()),
            hx(x.password.as_bytes()),
            opt_str(&x.version),
            opt_str(&x.context)
        ),
        CreatePersonalAccessToken(x) => create_pat_body(x),
        DeletePersonalAccessToken(x) => format!("name={}", hx(x.name.as_bytes())),
        LoginWithPersonalAccessToken(x) => format!("token={}", hx(x.token.as_bytes())),
        SendMessages(x) => {
            let msgs: Vec<String> = x
                .messages
                .iter()
                .enumerate()
                .map(|(i, m)| message(m, zero_ids.get(i).copied().unwrap_or(false)))
                .collect();
            format!(
                "stream={};topic={};part={};msgs=[{}]",
                ident(&x.stream_id),
                ident(&x.topic_id),
                partitioning(&x.partitioning),
                msgs.join(",")
            )
        }
        PollMessages(x) => format!(
            "consumer={};stream={};topic={};partition={};strategy={};count={};auto={}",
            consumer(&x.consumer),
            ident(&x.stream_id),
            ident(&x.topic_id),
            opt_u32(x.partition_id),
            strategy(&x.strategy),
            x.count,
            b(x.auto_commit)
        ),
        FlushUnsavedBuffer(x) => format!(
            "stream={};topic={};partition={};fsync={}",
            ident(&x.stream_id),
            ident(&x.topic_id),
            x.partition_id,
            b(x.fsync)
        ),
        GetConsumerOffset(x) => format!(
            "consumer={};stream={};topic={};partition={}",
            consumer(&x.consumer),
            ident(&x.stream_id),
            ident(&x.topic_id),
            opt_u32(x.partition_id)
        ),
        DeleteConsumerOffset(x) => format!(
            "consumer={};stream={};topic={};partition={}",
            consumer(&x.consumer),
            ident(&x.stream_id),
            ident(&x.topic_id),
            opt_u32(x.partition_id)
        ),
        StoreConsumerOffset(x) => format!(
            "consumer={};stream={};topic={};partition={};offset={}",
            consumer(&x.consumer),
            ident(&x.stream_id),
            ident(&x.topic_id),
            opt_u32(x.partition_id),
            x.offset
        ),
        GetStream(x) => format!("stream={}", ident(&x.stream_id)),
        DeleteStream(x) => format!("stream={}", ident(&x.stream_id)),
        PurgeStream(x) => format!("stream={}", ident(&x.stream_id)),
        GetTopics(x) => format!("stream={}", ident(&x.stream_id)),
        CreateStream(x) => create_stream_body(x),
        UpdateStream(x) => update_stream_body(x),
        GetTopic(x) => st(&x.stream_id, &x.topic_id),
        DeleteTopic(x) => st(&x.stream_id, &x.topic_id),
        PurgeTopic(x) => st(&x.stream_id, &x.topic_id),
        GetConsumerGroups(x) => st(&x.stream_id, &x.topic_id),
        CreateTopic(x) => create_topic_body(x),
        UpdateTopic(x) => update_topic_body(x),
        CreatePartitions(x) => format!(
            "{};count={}",
            st(&x.stream_id, &x.topic_id),
            x.partitions_count
        ),
        DeletePartitions(x) => format!(
            "{};count={}",
            st(&x.stream_id, &x.topic_id),
            x.partitions_count
        ),
        GetConsumerGroup(x) => stg(&x.stream_id, &x.topic_id, &x.group_id),
        DeleteConsumerGroup(x) => stg(&x.stream_id, &x.topic_id, &x.group_id),
        JoinConsumerGroup(x) => stg(&x.stream_id, &x.topic_id, &x.group_id),
        LeaveConsumerGroup(x) => stg(&x.stream_id, &x.topic_id, &x.group_id),
        CreateConsumerGroup(x) => create_group_body(x),
        GetSnapshotFile(x) => {
            let t: Vec<String> = x
                .snapshot_types
                .iter()
                .map(|t| t.as_code().to_string())
                .collect();
            format!(
                "compression={};types=[{}]",
                x.compression.as_code(),
                t.join(",")
            )
        }
    };
    format!("{n}{{{body}}}")
}

fn st(s: &Identifier, t: &Identifier) -> String {
    format!("stream={};topic={}", ident(s), ident(t))
}

fn stg(s: &Identifier, t: &Identifier, g: &Identifier) -> String {
    format!("stream={};topic={};group={}", ident(s), ident(t), ident(g))
}

fn create_stream_body(x: &iggy::streams::create_stream::CreateStream) -> String {
    format!("id={};name={}", opt_u32(x.stream_id), hx(x.name.as_bytes()))
}

fn update_stream_body(x: &iggy::streams::update_stream::UpdateStream) -> String {
    format!("stream={};name={}", ident(&x.stream_id), hx(x.name.as_bytes()))
}

fn create_topic_body(x: &iggy::topics::create_topic::CreateTopic) -> String {
    format!(
        "stream={};id={};partitions={};compression={};expiry={};maxsize={};rf={};name={}",
        ident(&x.stream_id),
        opt_u32(x.topic_id),
        x.partitions_count,
        compression(&x.compression_algorithm),
        expiry(&x.message_expiry),
        max_size(&x.max_topic_size),
        opt_u8(x.replication_factor),
        hx(x.name.as_bytes())
    )
}

fn update_topic_body(x: &iggy::topics::update_topic::UpdateTopic) -> String {
    format!(
        "stream={};topic={};compression={};expiry={};maxsize={};rf={};name={}",
        ident(&x.stream_id),
        ident(&x.topic_id),
        compression(&x.compression_algorithm),
        expiry(&x.message_expiry),
        max_size(&x.max_topic_size),
        opt_u8(x.replication_factor),
        hx(x.name.as_bytes())
    )
}

fn create_group_body(x: &iggy::consumer_groups::create_consumer_group::CreateConsumerGroup) -> String {
    format!(
        "stream={};topic={};id={};name={}",
        ident(&x.stream_id),
        ident(&x.topic_id),
        opt_u32(x.group_id),
        hx(x.name.as_bytes())
    )
}

fn create_user_body(x: &iggy::users::create_user::CreateUser) -> String {
    format!(
        "user={};pass={};status={};perms={}",
        hx(x.username.as_bytes()),
        hx(x.password.as_bytes()),
        status(&x.status),
        permissions(&x.permissions)
    )
}

fn update_user_body(x: &iggy::users::update_user::UpdateUser) -> String {
    format!(
        "user={};name={};status={}",
        ident(&x.user_id),
        opt_str(&x.username),
        match &x.status {
            None => "-",
            Some(s) => status(s),
        }
    )
}

fn update_permissions_body(x: &iggy::users::update_permissions::UpdatePermissions) -> String {
    format!(
        "user={};perms={}",
        ident(&x.user_id),
        permissions(&x.permissions)
    )
}

fn change_password_body(x: &iggy::users::change_password::ChangePassword) -> String {
    format!(
        "user={};cur={};new={}",
        ident(&x.user_id),
        hx(x.current_password.as_bytes()),
        hx(x.new_password.as_bytes())
    )
}

fn create_pat_body(
    x: &iggy::personal_access_tokens::create_personal_access_token::CreatePersonalAccessToken,
) -> String {
    format!("name={};expiry={}", hx(x.name.as_bytes()), expiry(&x.expiry))
}

pub fn retained(m: &RetainedMessage) -> String {
    format!(
        "RetainedMessage{{offset={};state={};ts={};id={};checksum={};h={};p={}}}",
        m.offset,
        m.message_state.as_code(),
        m.timestamp,
        m.id,
        m.checksum,
        match &m.headers {
            None => "-".to_string(),
            Some(h) if h.is_empty() => "-".to_string(),
            Some(h) => hx(h),
        },
        hx(&m.payload)
    )
}

pub fn state_entry(e: &StateEntry) -> String {
    let ts: u64 = e.timestamp.into();
    format!(
        "StateEntry{{index={};term={};leader={};version={};flags={};ts={};user={};checksum={};context={};command={}}}",
        e.index,
        e.term,
        e.leader_id,
        e.version,
        e.flags,
        ts,
        e.user_id,
        e.checksum,
        hx(&e.context),
        hx(&e.command)
    )
}

pub fn entry_command(c: &EntryCommand) -> String {
    use EntryCommand::*;
    let inner = match c {
        CreateStream(x) => format!("CreateStream{{{}}}", create_stream_body(x)),
        UpdateStream(x) => format!("UpdateStream{{{}}}", update_stream_body(x)),
        DeleteStream(x) => format!("DeleteStream{{stream={}}}", ident(&x.stream_id)),
        PurgeStream(x) => format!("PurgeStream{{stream={}}}", ident(&x.stream_id)),
        CreateTopic(x) => format!("CreateTopic{{{}}}", create_topic_body(x)),
        UpdateTopic(x) => format!("UpdateTopic{{{}}}", update_topic_body(x)),
        DeleteTopic(x) => format!("DeleteTopic{{{}}}", st(&x.stream_id, &x.topic_id)),
        PurgeTopic(x) => format!("PurgeTopic{{{}}}", st(&x.stream_id, &x.topic_id)),
        CreatePartitions(x) => format!(
            "CreatePartitions{{{};count={}}}",
            st(&x.stream_id, &x.topic_id),
            x.partitions_count
        ),
        DeletePartitions(x) => format!(
            "DeletePartitions{{{};count={}}}",
            st(&x.stream_id, &x.topic_id),
            x.partitions_count
        ),
        CreateConsumerGroup(x) => format!("CreateConsumerGroup{{{}}}", create_group_body(x)),
        DeleteConsumerGroup(x) => format!(
            "DeleteConsumerGroup{{{}}}",
            stg(&x.stream_id, &x.topic_id, &x.group_id)
        ),
        CreateUser(x) => format!("CreateUser{{{}}}", create_user_body(x)),
        UpdateUser(x) => format!("UpdateUser{{{}}}", update_user_body(x)),
        DeleteUser(x) => format!("DeleteUser{{user={}}}", ident(&x.user_id)),
        ChangePassword(x) => format!("ChangePassword{{{}}}", change_password_body(x)),
        UpdatePermissions(x) => format!("UpdatePermissions{{{}}}", update_permissions_body(x)),
        CreatePersonalAccessToken(x) => format!(
            "CreatePersonalAccessTokenWithHash{{{};hash={}}}",
            create_pat_body(&x.command),
            hx(x.hash.as_bytes())
        ),
        DeletePersonalAccessToken(x) => {
            format!("DeletePersonalAccessToken{{name={}}}", hx(x.name.as_bytes()))
        }
    };
    format!("EntryCommand{{{inner}}}")
}
