//! `journal` mode: the real `FileState` on a file — applies, injected append failures, concurrent
//! applies, the real loader on mutated files (C11).
use crate::util::{hex_decode, hex_encode};
use iggy::bytes_serializable::BytesSerializable;
use iggy::identifier::Identifier;
use iggy::streams::create_stream::CreateStream;
use iggy::streams::delete_stream::DeleteStream;
use iggy::topics::create_topic::CreateTopic;
use iggy::users::create_user::CreateUser;
use iggy::utils::timestamp::verif_clock;
use server::state::command::EntryCommand;
use server::state::file::FileState;
use server::state::State;
use server::streaming::persistence::persister::{FilePersister, PersisterKind};
use server::versioning::SemanticVersion;
use std::io::{BufRead, Write};
use std::sync::Arc;

fn new_state(path: &str) -> FileState {
    FileState::new(
        path,
        &SemanticVersion::current().unwrap(),
        Arc::new(PersisterKind::File(FilePersister)),
        None,
    )
}

/// command templates: `stream <id> <name>` | `delstream <id>` | `topic <sid> <tid> <name> <parts>` | `user <name>`
fn command(f: &[&str]) -> EntryCommand {
    match f[0] {
        "stream" => EntryCommand::CreateStream(CreateStream {
            stream_id: Some(f[1].parse().unwrap()),
            name: f[2].to_string(),
        }),
        "delstream" => EntryCommand::DeleteStream(DeleteStream {
            stream_id: Identifier::numeric(f[1].parse().unwrap()).unwrap(),
        }),
        "topic" => EntryCommand::CreateTopic(CreateTopic {
            stream_id: Identifier::numeric(f[1].parse().unwrap()).unwrap(),
            topic_id: Some(f[2].parse().unwrap()),
            name: f[3].to_string(),
            partitions_count: f[4].parse().unwrap(),
            ..Default::default()
        }),
        "user" => EntryCommand::CreateUser(CreateUser {
            username: f[1].to_string(),
            password: "secret-hash".to_string(),
            ..Default::default()
        }),
        other => panic!("unknown command template {other}"),
    }
}

/// verdict of the real loader on the current file, relative to the true history `orig`
/// (index, command bytes): `E` error · `P<n>` the first n true entries · `D` a different history · `X` panic
async fn verdict(path: &str, orig: &[(u64, Vec<u8>)]) -> String {
    let p = path.to_string();
    let res = tokio::spawn(async move { new_state(&p).load_entries().await }).await;
    match res {
        Err(_) => "X".into(),
        Ok(Err(_)) => "E".into(),
        Ok(Ok(entries)) => {
            if entries.len() > orig.len() {
                return "D".into();
            }
            for (e, o) in entries.iter().zip(orig.iter()) {
                if e.index != o.0 || e.command[..] != o.1[..] {
                    return "D".into();
                }
            }
            format!("P{}", entries.len())
        }
    }
}

/// declared context/command lengths of a (possibly mutated) file, walking it as the loader does;
/// returns true if some declared length is absurd (the loader would try to allocate it)
fn has_huge_length(b: &[u8]) -> bool {
    let mut pos = 0usize;
    while pos + 52 <= b.len() {
        let ctx = u32::from_le_bytes(b[pos + 48..pos + 52].try_into().unwrap()) as usize;
        if ctx > (1 << 24) {
            return true;
        }
        let p2 = pos + 52 + ctx;
        if p2 + 8 > b.len() {
            return false;
        }
        let cl = u32::from_le_bytes(b[p2 + 4..p2 + 8].try_into().unwrap()) as usize;
        if cl > (1 << 24) {
            return true;
        }
        pos = p2 + 8 + cl;
    }
    false
}

pub async fn run(dir: &str) {
    std::fs::create_dir_all(dir).unwrap();
    let path = format!("{dir}/log");
    let _ = std::fs::remove_file(&path);
    let mut state = Arc::new(new_state(&path));
    let mut orig: Vec<(u64, Vec<u8>)> = vec![];
    let stdin = std::io::stdin();
    let out = std::io::stdout();
    for line in stdin.lock().lines() {
        let line = line.unwrap();
        let f: Vec<&str> = line.split_whitespace().collect();
        if f.is_empty() {
            continue;
        }
        let res: String = match f[0] {
            "clock" => {
                verif_clock::set(f[1].parse().unwrap());
                "ok".into()
            }
            "new" => {
                let _ = std::fs::remove_file(&path);
                state = Arc::new(new_state(&path));
                orig.clear();
                match state.init().await {
                    Ok(e) => format!("ok {}", e.len()),
                    Err(e) => format!("err {}", e.as_string()),
                }
            }
            "reopen" => {
                // a restart: new FileState on the same file
                state = Arc::new(new_state(&path));
                match state.init().await {
                    Ok(e) => format!(
                        "ok {} {}",
                        e.len(),
                        e.iter().map(|x| x.index.to_string()).collect::<Vec<_>>().join(",")
                    ),
                    Err(e) => format!("err {}", e.as_string()),
                }
            }
            "apply" => {
                // apply <user> <template…> -> ok <index> <command bytes hex>
                let cmd = command(&f[2..]);
                let bytes = cmd.to_bytes();
                match state.apply(f[1].parse().unwrap(), cmd).await {
                    Ok(()) => {
                        let idx = state.current_index();
                        orig.push((idx, bytes.to_vec()));
                        format!("ok {} {}", idx, hex_encode(&bytes))
                    }
                    Err(e) => format!("err {}", e.as_string()),
                }
            }
            "fail-in" => {
                server::verif::fail_append_in(f[1].parse().unwrap());
                "ok".into()
            }
            "concurrent" => {
                // concurrent <k> : k applies issued at once on the same FileState
                let k: usize = f[1].parse().unwrap();
                let mut hs = vec![];
                for i in 0..k {
                    let st = state.clone();
                    let cmd = command(&["stream", &format!("{}", 100 + i), &format!("c{i}")]);
                    hs.push(tokio::spawn(async move {
                        let b = cmd.to_bytes();
                        st.apply(1, cmd).await.map(|_| b)
                    }));
                }
                let mut okc = 0;
                for h in hs {
                    if let Ok(Ok(_)) = h.await {
                        okc += 1;
                    }
                }
                format!("ok {okc}")
            }
            "dump" => format!("ok {}", hex_encode(&std::fs::read(&path).unwrap_or_default())),
            "set" => {
                std::fs::write(&path, hex_decode(f.get(1).unwrap_or(&""))).unwrap();
                "ok".into()
            }
            "load" => {
                let p = path.clone();
                let res = tokio::spawn(async move { new_state(&p).load_entries().await }).await;
                match res {
                    Err(_) => "panic".into(),
                    Ok(Err(e)) => format!("err {}", e.as_string()),
                    Ok(Ok(e)) => format!(
                        "ok {} {}",
                        e.len(),
                        e.iter().map(|x| x.index.to_string()).collect::<Vec<_>>().join(",")
                    ),
                }
            }
            "sweep-bytes" => {
                // sweep-bytes quick|full : every byte position x replacement values -> verdicts
                let base = std::fs::read(&path).unwrap();
                let full = f[1] == "full";
                let mut lines = vec![];
                for i in 0..base.len() {
                    let vals: Vec<u8> = if full {
                        (0..=255u8).collect()
                    } else {
                        vec![base[i].wrapping_add(1), base[i] ^ 0x80, 0x00, 0xFF]
                    };
                    let mut vs = vec![];
                    for v in vals {
                        if v == base[i] {
                            vs.push("-".to_string());
                            continue;
                        }
                        let mut m = base.clone();
                        m[i] = v;
                        if has_huge_length(&m) {
                            vs.push("H".to_string());
                            continue;
                        }
                        std::fs::write(&path, &m).unwrap();
                        vs.push(verdict(&path, &orig).await);
                    }
                    lines.push(vs.join(","));
                }
                std::fs::write(&path, &base).unwrap();
                format!("ok {}", lines.join(";"))
            }
            "sweep-trunc" => {
                let base = std::fs::read(&path).unwrap();
                let mut vs = vec![];
                for k in 0..base.len() {
                    std::fs::write(&path, &base[..k]).unwrap();
                    vs.push(verdict(&path, &orig).await);
                }
                std::fs::write(&path, &base).unwrap();
                format!("ok {}", vs.join(","))
            }
            "verdict" => format!("ok {}", verdict(&path, &orig).await),
            "version" => format!(
                "ok {}",
                SemanticVersion::current().unwrap().get_numeric_version().unwrap()
            ),
            "quit" => break,
            other => format!("err unknown-op-{other}"),
        };
        let mut o = out.lock();
        writeln!(o, "{res}").unwrap();
        o.flush().unwrap();
    }
}
