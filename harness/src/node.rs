//! `node` mode: one server incarnation. Real `System` on a data directory, the real TCP server on
//! 127.0.0.1:0, real SDK `TcpClient` sessions; plus direct `System` calls for things that have no wire
//! command (background save, maintenance pass, cache eviction, graceful shutdown).
use crate::util::*;
use ahash::AHashMap;
use iggy::client::*;
use iggy::compression::compression_algorithm::CompressionAlgorithm;
use iggy::identifier::Identifier;
use iggy::locking::IggySharedMutFn;
use iggy::models::permissions::{
    GlobalPermissions, Permissions, StreamPermissions, TopicPermissions,
};
use iggy::models::user_status::UserStatus;
use iggy::tcp::client::TcpClient;
use iggy::tcp::config::TcpClientConfig;
use iggy::utils::duration::IggyDuration;
use iggy::utils::personal_access_token_expiry::PersonalAccessTokenExpiry;
use iggy::utils::timestamp::verif_clock;
use server::channels::commands::clean_personal_access_tokens::{
    CleanPersonalAccessTokensCommand, CleanPersonalAccessTokensExecutor,
};
use server::channels::commands::maintain_messages::{
    MaintainMessagesCommand, MaintainMessagesExecutor, MessagesMaintainer,
};
use server::channels::server_command::ServerCommand;
use server::configs::server::ServerConfig;
use server::configs::system::SystemConfig;
use server::streaming::systems::system::{SharedSystem, System};
use server::tcp::tcp_server;
use std::collections::HashMap;
use std::io::Write;
use std::str::FromStr;
use std::sync::atomic::{AtomicBool, Ordering};
use std::sync::Arc;

pub static PANICKED: AtomicBool = AtomicBool::new(false);
/// index (1-based) of the op line being executed — stamped on crash images
pub static OP_INDEX: std::sync::atomic::AtomicU64 = std::sync::atomic::AtomicU64::new(0);
static IMAGE_NO: std::sync::atomic::AtomicU64 = std::sync::atomic::AtomicU64::new(0);

fn copy_tree(from: &std::path::Path, to: &std::path::Path) {
    let _ = std::fs::create_dir_all(to);
    if let Ok(rd) = std::fs::read_dir(from) {
        for e in rd.flatten() {
            let p = e.path();
            let dest = to.join(e.file_name());
            if p.is_dir() {
                copy_tree(&p, &dest);
            } else {
                let _ = std::fs::copy(&p, &dest);
            }
        }
    }
}

struct Node {
    system: SharedSystem,
    addr: String,
    conns: HashMap<u32, iggy::clients::client::IggyClient>,
    http_addr: Option<String>,
    hl: HashMap<u32, iggy::clients::client::IggyClient>,
    producers: HashMap<u32, iggy::clients::producer::IggyProducer>,
    consumers: HashMap<u32, iggy::clients::consumer::IggyConsumer>,
    /// per consumer: stream, topic, partition (None: group), last offset yielded per partition
    cons_meta: HashMap<u32, (String, String, Option<u32>, HashMap<u32, u64>)>,
    tokens: Vec<String>,
    raws: HashMap<u32, tokio::net::TcpStream>,
    maintain_cmd: Option<MaintainMessagesCommand>,
    nowait: bool,
    dir: String,
}

fn kv(line: &str) -> HashMap<String, String> {
    line.split_whitespace()
        .filter_map(|t| t.split_once('='))
        .map(|(k, v)| (k.to_string(), v.to_string()))
        .collect()
}

pub fn perms_parse(s: &str) -> Option<Permissions> {
    if s == "-" {
        return None;
    }
    let (g, streams) = match s.split_once('/') {
        Some((g, st)) => (g, Some(st)),
        None => (s, None),
    };
    let b: Vec<bool> = g.chars().map(|c| c == '1').collect();
    let global = GlobalPermissions {
        manage_servers: b[0],
        read_servers: b[1],
        manage_users: b[2],
        read_users: b[3],
        manage_streams: b[4],
        read_streams: b[5],
        manage_topics: b[6],
        read_topics: b[7],
        poll_messages: b[8],
        send_messages: b[9],
    };
    let streams = streams.map(|st| {
        let mut m = AHashMap::new();
        for ent in st.split(';').filter(|e| !e.is_empty()) {
            let f: Vec<&str> = ent.splitn(3, ':').collect();
            let sid: u32 = f[0].parse().unwrap();
            let b: Vec<bool> = f[1].chars().map(|c| c == '1').collect();
            let topics = f.get(2).map(|ts| {
                let mut tm = AHashMap::new();
                for te in ts.split('+').filter(|e| !e.is_empty()) {
                    let (tid, tb) = te.split_once('=').unwrap();
                    let tb: Vec<bool> = tb.chars().map(|c| c == '1').collect();
                    tm.insert(
                        tid.parse().unwrap(),
                        TopicPermissions {
                            manage_topic: tb[0],
                            read_topic: tb[1],
                            poll_messages: tb[2],
                            send_messages: tb[3],
                        },
                    );
                }
                tm
            });
            m.insert(
                sid,
                StreamPermissions {
                    manage_stream: b[0],
                    read_stream: b[1],
                    manage_topics: b[2],
                    read_topics: b[3],
                    poll_messages: b[4],
                    send_messages: b[5],
                    topics,
                },
            );
        }
        m
    });
    Some(Permissions { global, streams })
}

fn bit(b: bool) -> char {
    if b {
        '1'
    } else {
        '0'
    }
}

pub fn perms_str(p: &Option<Permissions>) -> String {
    let Some(p) = p else { return "-".into() };
    let g = &p.global;
    let mut s: String = [
        g.manage_servers,
        g.read_servers,
        g.manage_users,
        g.read_users,
        g.manage_streams,
        g.read_streams,
        g.manage_topics,
        g.read_topics,
        g.poll_messages,
        g.send_messages,
    ]
    .iter()
    .map(|b| bit(*b))
    .collect();
    // an empty stream / topic table travels and is journalled as an absent one (it grants nothing either way):
    // one canonical text for both
    if let Some(streams) = p.streams.as_ref().filter(|m| !m.is_empty()) {
        s.push('/');
        let mut ids: Vec<&u32> = streams.keys().collect();
        ids.sort();
        let ents: Vec<String> = ids
            .iter()
            .map(|sid| {
                let sp = &streams[sid];
                let mut e = format!(
                    "{}:{}",
                    sid,
                    [
                        sp.manage_stream,
                        sp.read_stream,
                        sp.manage_topics,
                        sp.read_topics,
                        sp.poll_messages,
                        sp.send_messages
                    ]
                    .iter()
                    .map(|b| bit(*b))
                    .collect::<String>()
                );
                if let Some(topics) = sp.topics.as_ref().filter(|m| !m.is_empty()) {
                    e.push(':');
                    let mut tids: Vec<&u32> = topics.keys().collect();
                    tids.sort();
                    let tents: Vec<String> = tids
                        .iter()
                        .map(|tid| {
                            let tp = &topics[tid];
                            format!(
                                "{}={}",
                                tid,
                                [
                                    tp.manage_topic,
                                    tp.read_topic,
                                    tp.poll_messages,
                                    tp.send_messages
                                ]
                                .iter()
                                .map(|b| bit(*b))
                                .collect::<String>()
                            )
                        })
                        .collect();
                    e.push_str(&tents.join("+"));
                }
                e
            })
            .collect();
        s.push_str(&ents.join(";"));
    }
    s
}

pub async fn run() {
    let default_hook = std::panic::take_hook();
    std::panic::set_hook(Box::new(move |info| {
        PANICKED.store(true, Ordering::SeqCst);
        default_hook(info);
    }));

    // stdin is read by a plain OS thread: a tokio blocking task parked in read() would keep the
    // runtime from shutting down the way the real server's `main` does.
    let (ltx, lrx) = flume::unbounded::<String>();
    std::thread::spawn(move || {
        let stdin = std::io::stdin();
        let mut line = String::new();
        loop {
            line.clear();
            match stdin.read_line(&mut line) {
                Ok(0) | Err(_) => break,
                Ok(_) => {
                    if ltx.send(line.clone()).is_err() {
                        break;
                    }
                }
            }
        }
    });
    let cfg_line = lrx.recv_async().await.expect("cfg line");
    let c = kv(&cfg_line);
    let get = |k: &str, d: &str| c.get(k).cloned().unwrap_or_else(|| d.to_string());
    let dir = get("dir", "/tmp/iggy-verif-node");

    if let Some(t) = c.get("clock") {
        verif_clock::set(t.parse().unwrap());
    }

    let mut server_cfg = ServerConfig::default();
    let mut sys = SystemConfig::default();
    sys.path = dir.clone();
    sys.partition.messages_required_to_save = get("save", "1000").parse().unwrap();
    sys.partition.enforce_fsync = get("fsync", "0") == "1";
    sys.partition.validate_checksum = get("validate", "0") == "1";
    sys.segment.size = get("seg", "1000000000").parse::<u64>().unwrap().into();
    sys.segment.cache_indexes = get("idxcache", "1") == "1";
    sys.segment.server_confirmation = match get("confirm", "wait").as_str() {
        "nowait" => iggy::confirmation::Confirmation::NoWait,
        _ => iggy::confirmation::Confirmation::Wait,
    };
    sys.segment.message_expiry = expiry(&get("default_expiry", "never"));
    sys.segment.archive_expired = false;
    let cache = get("cache", "0");
    sys.cache.enabled = cache != "0";
    if sys.cache.enabled {
        sys.cache.size = server::configs::resource_quota::MemoryResourceQuota::Bytes(
            cache.parse::<u64>().unwrap().into(),
        );
    }
    sys.message_deduplication.enabled = get("dedup", "0") == "1";
    sys.message_deduplication.max_entries = 1_000_000;
    sys.message_deduplication.expiry = IggyDuration::from_str("10h").unwrap();
    sys.topic.delete_oldest_segments = get("delete_oldest", "0") == "1";
    sys.topic.max_size = max_size(&get("default_max", "unlimited"));
    sys.recovery.recreate_missing_state = get("recreate_missing", "1") == "1";
    let enc = get("enc", "-");
    if enc != "-" {
        ENCRYPTED.store(true, Ordering::Relaxed);
        sys.encryption.enabled = true;
        sys.encryption.key = enc;
    }
    sys.state.enforce_fsync = false;
    let nowait = get("confirm", "wait") == "nowait";
    server_cfg.system = Arc::new(sys);
    server_cfg.data_maintenance.messages.cleaner_enabled = true;
    server_cfg.data_maintenance.messages.archiver_enabled = false;
    server_cfg.personal_access_token.max_tokens_per_user =
        get("pat_max", "100").parse().unwrap();
    server_cfg.tcp.address = "127.0.0.1:0".to_string();

    // crash images (C04): after every completed file mutation (hook H2b) the data directory is copied
    if let Some(images) = c.get("images") {
        let images = images.clone();
        let data_dir = dir.clone();
        let _ = std::fs::create_dir_all(&images);
        server::verif::set_fs_callback(Box::new(move |kind, path, len| {
            let op = OP_INDEX.load(Ordering::SeqCst);
            if op == 0 {
                return; // start-up, before the first op
            }
            let k = IMAGE_NO.fetch_add(1, Ordering::SeqCst) + 1;
            copy_tree(
                std::path::Path::new(&data_dir),
                std::path::Path::new(&format!("{images}/{k}")),
            );
            let rel = path.strip_prefix(&data_dir).unwrap_or(path).trim_start_matches('/');
            use std::io::Write as _;
            if let Ok(mut f) = std::fs::OpenOptions::new()
                .create(true)
                .append(true)
                .open(format!("{images}/events.log"))
            {
                let _ = writeln!(f, "{k} {op} {kind} {rel} {len}");
            }
        }));
    }

    let system = SharedSystem::new(System::new(
        server_cfg.system.clone(),
        server_cfg.data_maintenance.clone(),
        server_cfg.personal_access_token.clone(),
    ));
    let _ = system.write().await.get_stats().await;
    if let Err(e) = system.write().await.init().await {
        println!("init-error {}", e.as_string());
        std::io::stdout().flush().unwrap();
        std::process::exit(0);
    }
    let addr = tcp_server::start(server_cfg.tcp.clone(), system.clone()).await;
    // the HTTP API too (transport `http` of `conn`): tokens are issued on the virtual clock and validated
    // by the jsonwebtoken crate on the real one, hence the long expiry
    let http_addr = if get("http", "0") == "1" {
        let mut hc = server_cfg.http.clone();
        hc.enabled = true;
        hc.address = "127.0.0.1:0".to_string();
        // the generators send a multi-megabyte message now and then (JSON + base64 makes it larger still)
        hc.max_request_size = iggy::utils::byte_size::IggyByteSize::from(64_000_000u64);
        hc.jwt.access_token_expiry =
            iggy::utils::expiry::IggyExpiry::ExpireDuration(IggyDuration::from_str("1000000h").unwrap());
        Some(server::http::http_server::start(hc, system.clone()).await.to_string())
    } else {
        None
    };

    // a correctly populated MaintainMessagesCommand (its fields are private)
    let (tx, rx) = flume::unbounded::<MaintainMessagesCommand>();
    let mut mcfg = server_cfg.data_maintenance.messages.clone();
    mcfg.interval = IggyDuration::from_str("1000h").unwrap();
    MessagesMaintainer::new(&mcfg, tx).start();
    let maintain_cmd = tokio::time::timeout(std::time::Duration::from_secs(5), rx.recv_async())
        .await
        .ok()
        .and_then(|r| r.ok());

    let mut node = Node {
        system,
        addr: addr.to_string(),
        conns: HashMap::new(),
        http_addr,
        hl: HashMap::new(),
        producers: HashMap::new(),
        consumers: HashMap::new(),
        cons_meta: HashMap::new(),
        // raw tokens survive the incarnation in a side file OUTSIDE the data directory
        tokens: std::fs::read_to_string(format!("{dir}.tokens"))
            .map(|t| t.lines().map(|l| l.to_string()).collect())
            .unwrap_or_default(),
        raws: HashMap::new(),
        maintain_cmd,
        nowait,
        dir,
    };
    println!("ready {}", node.addr);
    std::io::stdout().flush().unwrap();

    while let Ok(line) = lrx.recv_async().await {
        let line = line.trim().to_string();
        if line.is_empty() || line.starts_with('#') {
            continue;
        }
        PANICKED.store(false, Ordering::SeqCst);
        OP_INDEX.fetch_add(1, Ordering::SeqCst);
        let f: Vec<&str> = line.split_whitespace().collect();
        // a panic inside the SDK (client side) must not take the harness down
        let mut res = {
            use futures::FutureExt;
            match std::panic::AssertUnwindSafe(node.op(&f)).catch_unwind().await {
                Ok(r) => r,
                Err(_) => "client-panic".to_string(),
            }
        };
        if PANICKED.load(Ordering::SeqCst) {
            res = format!("panic ({res})");
        }
        println!("{res}");
        std::io::stdout().flush().unwrap();
        if f[0] == "shutdown" {
            // like the real `main`: return and let the runtime shut down (in-flight file writes of
            // tokio::fs are mandatory blocking tasks and complete during runtime shutdown)
            return;
        }
    }
    // stdin closed without a shutdown: this is a crash
    std::process::exit(0);
}

/// `#5` → "5", `@name` → "name": the high-level builders take plain strings
fn hl_name(s: &str) -> String {
    s.trim_start_matches(['#', '@']).to_string()
}

fn dir_size(path: &str) -> u64 {
    let mut total = 0;
    if let Ok(rd) = std::fs::read_dir(path) {
        for e in rd.flatten() {
            let p = e.path();
            if p.is_dir() {
                total += dir_size(p.to_str().unwrap());
            } else if let Ok(m) = e.metadata() {
                total += m.len() + 1;
            }
        }
    }
    total
}

fn ls(path: &str, base: &str, out: &mut Vec<String>) {
    if let Ok(rd) = std::fs::read_dir(path) {
        let mut ents: Vec<_> = rd.flatten().collect();
        ents.sort_by_key(|e| e.file_name());
        for e in ents {
            let p = e.path();
            let rel = p.to_str().unwrap()[base.len()..].trim_start_matches('/').to_string();
            if p.is_dir() {
                out.push(format!("{rel}/"));
                ls(p.to_str().unwrap(), base, out);
            } else {
                out.push(format!("{rel}={}", e.metadata().map(|m| m.len()).unwrap_or(0)));
            }
        }
    }
}

fn scan(path: &str, needle: &[u8]) -> Vec<String> {
    let mut hits = vec![];
    if let Ok(rd) = std::fs::read_dir(path) {
        for e in rd.flatten() {
            let p = e.path();
            if p.is_dir() {
                hits.extend(scan(p.to_str().unwrap(), needle));
            } else if let Ok(data) = std::fs::read(&p) {
                if !needle.is_empty() && data.windows(needle.len()).any(|w| w == needle) {
                    hits.push(p.to_str().unwrap().to_string());
                }
            }
        }
    }
    hits
}

macro_rules! r {
    ($e:expr) => {
        match $e {
            Ok(v) => v,
            Err(e) => return err_name(&e),
        }
    };
}

static STAMP: std::sync::atomic::AtomicU64 = std::sync::atomic::AtomicU64::new(1);
fn stamp() -> u64 {
    STAMP.fetch_add(1, Ordering::SeqCst)
}

struct Lcg(u64);
impl Lcg {
    fn next(&mut self, n: u64) -> u64 {
        self.0 = self
            .0
            .wrapping_mul(6364136223846793005)
            .wrapping_add(1442695040888963407);
        (self.0 >> 33) % n.max(1)
    }
}

impl Node {
    fn c(&self, s: &str) -> Option<&iggy::clients::client::IggyClient> {
        self.conns.get(&s.parse::<u32>().unwrap())
    }

    /// number of clients the server knows
    async fn clients_count(&self) -> usize {
        let sys = self.system.read().await;
        let root = server::streaming::session::Session::stateless(1, "127.0.0.1:1".parse().unwrap());
        sys.get_clients(&root).await.map(|c| c.len()).unwrap_or(0)
    }

    /// after a disconnect: wait until the server has noticed it (its connection task has run delete_client)
    async fn wait_clients_below(&self, before: usize) {
        for _ in 0..1500 {
            if self.clients_count().await < before {
                break;
            }
            tokio::time::sleep(std::time::Duration::from_millis(2)).await;
        }
        tokio::time::sleep(std::time::Duration::from_millis(4)).await;
    }

    async fn settle(&self) {
        // hook H5: wait until every write request handed to a persister task has been carried out (not while
        // the schedule point is held - the task waits there; at most 3 s: a task closed with requests left
        // never reports them), then until the data directory stops changing
        if !server::verif::is_held("persister-write") {
            let t0 = std::time::Instant::now();
            while server::verif::pending_writes() > 0 && t0.elapsed().as_secs() < 3 {
                tokio::time::sleep(std::time::Duration::from_millis(2)).await;
            }
        }
        let mut last = u64::MAX;
        let mut stable = 0;
        while stable < 5 {
            tokio::time::sleep(std::time::Duration::from_millis(15)).await;
            let s = dir_size(&self.dir);
            if s == last {
                stable += 1;
            } else {
                stable = 0;
                last = s;
            }
        }
    }

    async fn worker_client(&self) -> Result<TcpClient, String> {
        let mut cfg = TcpClientConfig::default();
        cfg.server_address = self.addr.clone();
        cfg.reconnection.enabled = false;
        cfg.heartbeat_interval = IggyDuration::from_str("1000h").unwrap();
        let client = TcpClient::create(Arc::new(cfg)).map_err(|e| err_name(&e))?;
        client.connect().await.map_err(|e| err_name(&e))?;
        client
            .login_user("iggy", "iggy")
            .await
            .map_err(|e| err_name(&e))?;
        Ok(client)
    }

    /// stress <s> <t> <pid> <producers> <consumers> <batches> <maxbatch> <seed> <bgsave 0|1> <idbase> <logfile>
    /// Real concurrency: every worker has its own connection and runs as its own task on the
    /// multi-threaded runtime. Every request is stamped (global counter) before it is sent and after its
    /// answer arrived. The log holds one trace line per request.
    async fn stress(&mut self, f: &[&str]) -> String {
        let (s, t) = (f[1].to_string(), f[2].to_string());
        let pid: u32 = f[3].parse().unwrap();
        let np: u64 = f[4].parse().unwrap();
        let nc: u64 = f[5].parse().unwrap();
        let batches: u64 = f[6].parse().unwrap();
        let maxb: u64 = f[7].parse().unwrap();
        let seed: u64 = f[8].parse().unwrap();
        let bg = f[9] == "1";
        let idbase: u64 = f[10].parse().unwrap();
        let logfile = f[11].to_string();
        let log = Arc::new(std::sync::Mutex::new(Vec::<String>::new()));
        let acked = Arc::new(std::sync::atomic::AtomicU64::new(0));
        let done = Arc::new(AtomicBool::new(false));
        let mut prods = vec![];
        for p in 0..np {
            let client = match self.worker_client().await {
                Ok(c) => c,
                Err(e) => return e,
            };
            let (s, t, log, acked) = (s.clone(), t.clone(), log.clone(), acked.clone());
            prods.push(tokio::spawn(async move {
                let mut rng = Lcg(seed ^ (p + 1).wrapping_mul(0x9E3779B97F4A7C15));
                for seq in 0..batches {
                    let n = 1 + rng.next(maxb);
                    let spec: Vec<String> = (0..n)
                        .map(|k| {
                            let id = idbase + (p + 1) * 1_000_000 + seq * 1000 + k;
                            format!("{id}:{}:{id}:0", 8 + rng.next(40))
                        })
                        .collect();
                    let spec = spec.join(",");
                    let mut msgs = messages(&spec);
                    let b = stamp();
                    let res = client
                        .send_messages(
                            &ident(&s),
                            &ident(&t),
                            &iggy::messages::send_messages::Partitioning::partition_id(pid),
                            &mut msgs,
                        )
                        .await;
                    let e = stamp();
                    let r = match res {
                        Ok(()) => {
                            acked.fetch_add(n, Ordering::SeqCst);
                            "ok".to_string()
                        }
                        Err(e) => err_name(&e),
                    };
                    log.lock().unwrap().push(format!(
                        "x-ack {b} {e} {p} {seq} {s} {t} {pid} {spec}\t{r}"
                    ));
                    if rng.next(3) == 0 {
                        tokio::task::yield_now().await;
                    }
                }
            }));
        }
        let mut cons = vec![];
        for c in 0..nc {
            let client = match self.worker_client().await {
                Ok(c) => c,
                Err(e) => return e,
            };
            let (s, t, log, acked, done) =
                (s.clone(), t.clone(), log.clone(), acked.clone(), done.clone());
            cons.push(tokio::spawn(async move {
                let mut rng = Lcg(seed ^ (c + 101).wrapping_mul(0xC2B2AE3D27D4EB4F));
                let mut polls = 0;
                while !done.load(Ordering::SeqCst) && polls < 4000 {
                    polls += 1;
                    let hi = acked.load(Ordering::SeqCst) + 3;
                    // mostly near the head, where appends are happening
                    let off = if rng.next(3) == 0 {
                        rng.next(hi)
                    } else {
                        hi.saturating_sub(1 + rng.next(2 * maxb + 4))
                    };
                    let count = 1 + rng.next(2 * maxb + 3) as u32;
                    let b = stamp();
                    let res = client
                        .poll_messages(
                            &ident(&s),
                            &ident(&t),
                            Some(pid),
                            &consumer(&format!("c:#{}", 50 + c)),
                            &strategy(&format!("offset:{off}")),
                            count,
                            false,
                        )
                        .await;
                    let e = stamp();
                    let r = match res {
                        Ok(p) => format!(
                            "ok {} {} {}",
                            p.partition_id,
                            p.current_offset,
                            p.messages.iter().map(polled).collect::<Vec<_>>().join(",")
                        ),
                        Err(e) => err_name(&e),
                    };
                    log.lock().unwrap().push(format!(
                        "x-poll {b} {e} {s} {t} {pid} {off} {count}\t{r}"
                    ));
                }
            }));
        }
        let bgtask = if bg {
            let (system, done) = (self.system.clone(), done.clone());
            Some(tokio::spawn(async move {
                let mut n = 0u64;
                while !done.load(Ordering::SeqCst) {
                    let _ = system.read().await.persist_messages().await;
                    n += 1;
                    tokio::time::sleep(std::time::Duration::from_micros(300)).await;
                }
                n
            }))
        } else {
            None
        };
        let mut failed = false;
        for h in prods {
            failed |= h.await.is_err();
        }
        done.store(true, Ordering::SeqCst);
        for h in cons {
            failed |= h.await.is_err();
        }
        if let Some(h) = bgtask {
            let _ = h.await;
        }
        if failed {
            return "err worker-panicked".into();
        }
        if self.nowait {
            self.settle().await;
        }
        let lines = log.lock().unwrap();
        let nack = lines.iter().filter(|l| l.starts_with("x-ack")).count();
        let npoll = lines.len() - nack;
        if std::fs::write(&logfile, lines.join("\n") + "\n").is_err() {
            return "err cannot-write-log".into();
        }
        format!("ok acks={nack} polls={npoll}")
    }

    async fn op(&mut self, f: &[&str]) -> String {
        match f[0] {
            "clock" => {
                verif_clock::set(f[1].parse().unwrap());
                "ok".into()
            }
            "conn" => {
                use iggy::clients::client::IggyClient;
                let id: u32 = f[1].parse().unwrap();
                if f.get(2) == Some(&"http") {
                    let Some(addr) = &self.http_addr else {
                        return "err http-not-enabled".into();
                    };
                    let cfg = iggy::http::config::HttpClientConfig {
                        api_url: format!("http://{addr}"),
                        retries: 0,
                    };
                    let client = r!(iggy::http::client::HttpClient::create(Arc::new(cfg)));
                    self.conns.insert(id, IggyClient::new(Box::new(client)));
                    return "ok".into();
                }
                let mut cfg = TcpClientConfig::default();
                cfg.server_address = self.addr.clone();
                cfg.reconnection.enabled = false;
                cfg.heartbeat_interval = IggyDuration::from_str("1000h").unwrap();
                let client = r!(TcpClient::create(Arc::new(cfg)));
                // the transport is connected directly: `IggyClient::connect` would also spawn a heartbeat task
                r!(client.connect().await);
                self.conns.insert(id, IggyClient::new(Box::new(client)));
                "ok".into()
            }
            "close" => {
                let id: u32 = f[1].parse().unwrap();
                if let Some(c) = self.conns.remove(&id) {
                    let before = self.clients_count().await;
                    // an HTTP connection is not a server-side client (get_me is not available there)
                    let is_tcp = !matches!(c.get_me().await, Err(iggy::error::IggyError::FeatureUnavailable));
                    let _ = c.disconnect().await;
                    drop(c);
                    // let the server notice the disconnect
                    if is_tcp {
                        self.wait_clients_below(before).await;
                    } else {
                        for _ in 0..50 {
                            tokio::time::sleep(std::time::Duration::from_millis(2)).await;
                        }
                    }
                }
                "ok".into()
            }
            "shutdown" => {
                let res = self.system.write().await.shutdown().await;
                if self.nowait {
                    let mut last = u64::MAX;
                    let mut stable = 0;
                    while stable < 3 {
                        tokio::time::sleep(std::time::Duration::from_millis(20)).await;
                        let s = dir_size(&self.dir);
                        if s == last {
                            stable += 1;
                        } else {
                            stable = 0;
                            last = s;
                        }
                    }
                }
                match res {
                    Ok(()) => "ok".into(),
                    Err(e) => err_name(&e),
                }
            }
            "save" => match self.system.read().await.persist_messages().await {
                Ok(_) => "ok".into(),
                Err(e) => err_name(&e),
            },
            "maintain" => {
                let Some(cmd) = self.maintain_cmd.clone() else {
                    return "err no-maintain-command".into();
                };
                let mut ex = MaintainMessagesExecutor;
                ex.execute(&self.system, cmd).await;
                "ok".into()
            }
            "clean-pats" => {
                let mut ex = CleanPersonalAccessTokensExecutor;
                ex.execute(&self.system, CleanPersonalAccessTokensCommand)
                    .await;
                "ok".into()
            }
            "cacheinfo" => {
                // s/t/p=<cached message count> for every partition, sorted
                let sys = self.system.read().await;
                let mut out = vec![];
                for stream in sys.get_streams() {
                    for topic in stream.get_topics() {
                        for p in topic.get_partitions() {
                            let p = p.read().await;
                            let n = p.cache.as_ref().map(|c| c.len()).unwrap_or(0);
                            out.push((stream.stream_id, topic.topic_id, p.partition_id, n));
                        }
                    }
                }
                out.sort();
                format!(
                    "ok {}",
                    out.iter()
                        .map(|(s, t, p, n)| format!("{s}/{t}/{p}={n}"))
                        .collect::<Vec<_>>()
                        .join(",")
                )
            }
            "evict" => {
                // evict <s> <t> <p> <bytes> : what clean_cache would do to one partition
                let sys = self.system.read().await;
                let stream = r!(sys.get_stream(&ident(f[1])));
                let topic = r!(stream.get_topic(&ident(f[2])));
                let p = r!(topic.get_partition(f[3].parse().unwrap()));
                let mut p = p.write().await;
                match p.cache.as_mut() {
                    Some(c) => {
                        c.evict_by_size(f[4].parse().unwrap());
                        format!("ok {}", c.len())
                    }
                    None => "ok 0".into(),
                }
            }
            "hold" => {
                server::verif::hold(f[1]);
                "ok".into()
            }
            "release" => {
                server::verif::release(f[1]);
                // let the released task run
                self.settle().await;
                "ok".into()
            }
            "settle" => {
                // no-wait confirmation: wait until the persister task has nothing left to write
                self.settle().await;
                "ok".into()
            }
            "stress" => self.stress(f).await,
            // ---- the SDK's high-level clients (C20) ----
            "hl" => {
                // hl <h> : IggyClient over its own TCP connection, logged in as root
                use iggy::clients::client::IggyClient;
                let mut cfg = TcpClientConfig::default();
                cfg.server_address = self.addr.clone();
                cfg.reconnection.enabled = false;
                cfg.heartbeat_interval = IggyDuration::from_str("1000h").unwrap();
                let tcp = r!(TcpClient::create(Arc::new(cfg)));
                let client = IggyClient::new(Box::new(tcp));
                r!(client.connect().await);
                r!(client.login_user("iggy", "iggy").await);
                let me = r!(client.get_me().await);
                self.hl.insert(f[1].parse().unwrap(), client);
                format!("ok client={}", me.client_id)
            }
            "producer" => {
                // producer <p> <h> <stream> <topic> <batch|-> <interval_us|-> <partitioning|->
                let Some(client) = self.hl.get(&f[2].parse::<u32>().unwrap()) else {
                    return "err no-such-hl-client".into();
                };
                let mut b = r!(client.producer(&hl_name(f[3]), &hl_name(f[4])));
                b = match f[5] {
                    "-" => b.without_batch_size(),
                    n => b.batch_size(n.parse().unwrap()),
                };
                b = match f[6] {
                    "-" => b.without_send_interval(),
                    us => b.send_interval(IggyDuration::from(us.parse::<u64>().unwrap())),
                };
                b = match f[7] {
                    "-" => b.without_partitioning(),
                    x => b.partitioning(partitioning(x)),
                };
                let mut producer = b
                    .do_not_create_stream_if_not_exists()
                    .do_not_create_topic_if_not_exists()
                    .send_retries(None, None)
                    .build();
                r!(producer.init().await);
                self.producers.insert(f[1].parse().unwrap(), producer);
                "ok".into()
            }
            "psend" => {
                // psend <p> send <msgs> | one <msg> | part <partitioning|-> <msgs> | to <s> <t> <partitioning|-> <msgs>
                let Some(p) = self.producers.get(&f[1].parse::<u32>().unwrap()) else {
                    return "err no-such-producer".into();
                };
                let opt_part = |x: &str| {
                    if x == "-" {
                        None
                    } else {
                        Some(Arc::new(partitioning(x)))
                    }
                };
                match f[2] {
                    "send" => r!(p.send(messages(f[3])).await),
                    "one" => r!(p.send_one(messages(f[3]).remove(0)).await),
                    "part" => r!(p.send_with_partitioning(messages(f[4]), opt_part(f[3])).await),
                    "to" => r!(p
                        .send_to(
                            Arc::new(ident(f[3])),
                            Arc::new(ident(f[4])),
                            messages(f[6]),
                            opt_part(f[5])
                        )
                        .await),
                    _ => return "err bad-psend".into(),
                }
                "ok".into()
            }
            "consumer" => {
                // consumer <c> <h> <name> <stream> <topic> <pid|group> <strategy> <batch> <mode> <replay 0|1>
                use iggy::clients::consumer::{AutoCommit, AutoCommitWhen};
                let Some(client) = self.hl.get(&f[2].parse::<u32>().unwrap()) else {
                    return "err no-such-hl-client".into();
                };
                let b = if f[6] == "group" {
                    r!(client.consumer_group(f[3], &hl_name(f[4]), &hl_name(f[5])))
                } else {
                    r!(client.consumer(f[3], &hl_name(f[4]), &hl_name(f[5]), f[6].parse().unwrap()))
                };
                let mode = match f[9] {
                    "disabled" => AutoCommit::Disabled,
                    "polling" => AutoCommit::When(AutoCommitWhen::PollingMessages),
                    "each" => AutoCommit::When(AutoCommitWhen::ConsumingEachMessage),
                    "all" => AutoCommit::When(AutoCommitWhen::ConsumingAllMessages),
                    m if m.starts_with("nth:") => AutoCommit::When(
                        AutoCommitWhen::ConsumingEveryNthMessage(m[4..].parse().unwrap()),
                    ),
                    m if m.starts_with("int:") => {
                        AutoCommit::Interval(IggyDuration::from(m[4..].parse::<u64>().unwrap()))
                    }
                    _ => return "err bad-mode".into(),
                };
                let mut b = b
                    .polling_strategy(strategy(f[7]))
                    .batch_size(f[8].parse().unwrap())
                    .auto_commit(mode)
                    .without_poll_interval()
                    .polling_retry_interval(IggyDuration::from(1000u64));
                if f[10] == "1" {
                    b = b.allow_replay();
                }
                let mut consumer = b.build();
                r!(consumer.init().await);
                let cid: u32 = f[1].parse().unwrap();
                self.consumers.insert(cid, consumer);
                self.cons_meta.insert(
                    cid,
                    (f[4].to_string(), f[5].to_string(), f[6].parse().ok(), HashMap::new()),
                );
                "ok".into()
            }
            "cnext" => {
                // cnext <c> <k> <timeout_ms> : up to k messages from the consumer's Stream
                use futures::StreamExt;
                let Some(c) = self.consumers.get_mut(&f[1].parse::<u32>().unwrap()) else {
                    return "err no-such-consumer".into();
                };
                let cid: u32 = f[1].parse().unwrap();
                let k: usize = f[2].parse().unwrap();
                let t = std::time::Duration::from_millis(f[3].parse().unwrap());
                let mut out = vec![];
                let mut end = "";
                let meta = self.cons_meta.get(&cid).cloned();
                let mut lasts: HashMap<u32, u64> = meta.as_ref().map(|m| m.3.clone()).unwrap_or_default();
                for _ in 0..k {
                    let mut res = tokio::time::timeout(t, c.next()).await;
                    if res.is_err() {
                        // nothing within the time allowed: if the partition(s) hold messages beyond what this
                        // consumer has yielded it may just be slow (a loaded machine) - give it more time before
                        // calling it a stall
                        let mut left = false;
                        if let Some((st, tp, pid, _)) = &meta {
                            let sys = self.system.read().await;
                            if let Ok(stream) = sys.get_stream(&ident(st)) {
                                if let Ok(topic) = stream.get_topic(&ident(tp)) {
                                    for p in topic.get_partitions() {
                                        let p = p.read().await;
                                        if pid.map_or(true, |x| x == p.partition_id)
                                            && p.should_increment_offset
                                            && lasts.get(&p.partition_id).map_or(true, |l| p.current_offset > *l)
                                        {
                                            left = true;
                                        }
                                    }
                                }
                            }
                        }
                        if left {
                            for _ in 0..5 {
                                res = tokio::time::timeout(t, c.next()).await;
                                if res.is_ok() {
                                    break;
                                }
                            }
                        }
                    }
                    if let Ok(Some(Ok(m))) = &res {
                        lasts.insert(m.partition_id, m.message.offset);
                    }
                    match res {
                        Err(_) => {
                            end = "stall";
                            break;
                        }
                        Ok(None) => {
                            end = "end";
                            break;
                        }
                        Ok(Some(Ok(m))) => out.push(format!(
                            "{}:{}:{}",
                            m.partition_id, m.message.offset, m.message.id
                        )),
                        Ok(Some(Err(e))) => {
                            out.push(err_name(&e).replace(' ', "_"));
                            end = "error";
                            break;
                        }
                    }
                }
                if let Some(m) = self.cons_meta.get_mut(&cid) {
                    m.3 = lasts;
                }
                format!("ok {} {}", if out.is_empty() { "-".into() } else { out.join(",") }, end)
                    .trim_end()
                    .to_string()
            }
            "cstore" => {
                // cstore <c> <offset> <pid|->
                let Some(c) = self.consumers.get(&f[1].parse::<u32>().unwrap()) else {
                    return "err no-such-consumer".into();
                };
                r!(c.store_offset(f[2].parse().unwrap(), opt_u32(f[3])).await);
                "ok".into()
            }
            "cdrop" => {
                self.consumers.remove(&f[1].parse::<u32>().unwrap());
                // queued offsets are still stored by the background task
                tokio::time::sleep(std::time::Duration::from_millis(30)).await;
                "ok".into()
            }
            "hl-close" => {
                // hl-close <h> : the connection goes away (group membership ends on the server)
                if let Some(c) = self.hl.remove(&f[1].parse::<u32>().unwrap()) {
                    let before = self.clients_count().await;
                    let _ = c.disconnect().await;
                    drop(c);
                    self.wait_clients_below(before).await;
                }
                "ok".into()
            }
            "x-group-complete" => "ok".into(), // judged on the trace
            "created" => {
                // created <c> : creation times of streams, topics and users as the client sees them
                let Some(c) = self.c(f[1]) else {
                    return "err no-such-connection".into();
                };
                let mut out = vec![];
                for st in r!(c.get_streams().await) {
                    out.push(format!("s{}={}", st.id, st.created_at.as_micros()));
                    if let Some(d) = r!(c.get_stream(&Identifier::numeric(st.id).unwrap()).await) {
                        for t in d.topics {
                            out.push(format!("s{}t{}={}", st.id, t.id, t.created_at.as_micros()));
                        }
                    }
                }
                for u in r!(c.get_users().await) {
                    out.push(format!("u{}={}", u.id, u.created_at.as_micros()));
                }
                format!("ok {}", out.join(","))
            }
            "cwait" => {
                tokio::time::sleep(std::time::Duration::from_millis(f[1].parse().unwrap())).await;
                "ok".into()
            }
            "raw-open" => {
                match tokio::net::TcpStream::connect(&self.addr).await {
                    Ok(st) => {
                        self.raws.insert(f[1].parse().unwrap(), st);
                        "ok".into()
                    }
                    Err(_) => "err connect".into(),
                }
            }
            "raw-send" | "raw-refused" => {
                // raw-send <r> <hex> : write raw bytes, then try to read one response header
                use tokio::io::{AsyncReadExt, AsyncWriteExt};
                let id: u32 = f[1].parse().unwrap();
                let Some(st) = self.raws.get_mut(&id) else {
                    return "err no-raw-connection".into();
                };
                let bytes = hex_decode(f.get(2).unwrap_or(&""));
                if st.write_all(&bytes).await.is_err() {
                    return "closed".into();
                }
                let _ = st.flush().await;
                let mut hdr = [0u8; 8];
                match tokio::time::timeout(
                    std::time::Duration::from_millis(150),
                    st.read_exact(&mut hdr),
                )
                .await
                {
                    Err(_) => "timeout".into(),
                    Ok(Err(_)) => "closed".into(),
                    Ok(Ok(_)) => {
                        let status = u32::from_le_bytes(hdr[0..4].try_into().unwrap());
                        let len = u32::from_le_bytes(hdr[4..8].try_into().unwrap());
                        let mut body = vec![0u8; (len as usize).min(1 << 20)];
                        let _ = tokio::time::timeout(
                            std::time::Duration::from_millis(150),
                            st.read_exact(&mut body),
                        )
                        .await;
                        format!("resp {status} {len}")
                    }
                }
            }
            "raw-close" => {
                self.raws.remove(&f[1].parse::<u32>().unwrap());
                tokio::time::sleep(std::time::Duration::from_millis(20)).await;
                "ok".into()
            }
            "scan-str" => {
                let hits = scan(&self.dir, f[1].as_bytes());
                if hits.is_empty() {
                    "ok absent".into()
                } else {
                    format!("ok found {}", hits.join(","))
                }
            }
            "scan-token" => match self.tokens.get(f[1].parse::<usize>().unwrap()) {
                Some(t) => {
                    let hits = scan(&self.dir, t.as_bytes());
                    if hits.is_empty() {
                        "ok absent".into()
                    } else {
                        format!("ok found {}", hits.join(","))
                    }
                }
                None => "err no-such-token-index".into(),
            },
            "ls" => {
                let mut out = vec![];
                ls(&self.dir, &self.dir, &mut out);
                format!("ok {}", out.join(" "))
            }
            "scan" => {
                let hits = scan(&self.dir, &hex_decode(f[1]));
                if hits.is_empty() {
                    "ok absent".into()
                } else {
                    format!("ok found {}", hits.join(","))
                }
            }
            _ => self.client_op(f).await,
        }
    }

    async fn client_op(&mut self, f: &[&str]) -> String {
        let Some(c) = self.c(f[1]) else {
            return "err no-connection".into();
        };
        match f[0] {
            "ping" => {
                r!(c.ping().await);
                "ok".into()
            }
            "login" => {
                let id = r!(c.login_user(f[2], f[3]).await);
                format!("ok {}", id.user_id)
            }
            "logout" => {
                r!(c.logout_user().await);
                "ok".into()
            }
            "login-pat" => {
                // login-pat <c> <k> : k-th raw token created in this history (or `raw:<token>`)
                let tok = if let Some(raw) = f[2].strip_prefix("raw:") {
                    raw.to_string()
                } else {
                    match self.tokens.get(f[2].parse::<usize>().unwrap()) {
                        Some(t) => t.clone(),
                        // a token that was never issued
                        None => format!("never-issued-token-{}", f[2]),
                    }
                };
                let id = r!(c.login_with_personal_access_token(&tok).await);
                format!("ok {}", id.user_id)
            }
            "create-pat" => {
                let exp = match f[3] {
                    "never" => PersonalAccessTokenExpiry::NeverExpire,
                    v => PersonalAccessTokenExpiry::ExpireDuration(IggyDuration::from(
                        v.parse::<u64>().unwrap(),
                    )),
                };
                let t = r!(c.create_personal_access_token(f[2], exp).await);
                let tok = t.token.clone();
                let k = self.tokens.len();
                self.tokens.push(tok);
                let _ = std::fs::write(format!("{}.tokens", self.dir), self.tokens.join("\n"));
                format!("ok {k}")
            }
            "token" => {
                // reveals the raw token (for the byte search of C10)
                match self.tokens.get(f[2].parse::<usize>().unwrap()) {
                    Some(t) => format!("ok {}", hex_encode(t.as_bytes())),
                    None => "err no-such-token-index".into(),
                }
            }
            "delete-pat" => {
                r!(c.delete_personal_access_token(f[2]).await);
                "ok".into()
            }
            "pats" => {
                let mut v: Vec<String> = r!(c.get_personal_access_tokens().await)
                    .iter()
                    .map(|t| {
                        format!(
                            "{}:{}",
                            t.name,
                            t.expiry_at
                                .map(|e| e.as_micros().to_string())
                                .unwrap_or("never".into())
                        )
                    })
                    .collect();
                v.sort();
                format!("ok {}", v.join(","))
            }
            "me" => {
                let me = r!(c.get_me().await);
                let mut g: Vec<(u32, u32, u32)> = me
                    .consumer_groups
                    .iter()
                    .map(|g| (g.stream_id, g.topic_id, g.group_id))
                    .collect();
                g.sort();
                format!(
                    "ok client={} groups={} user={}",
                    me.client_id,
                    g.iter()
                        .map(|g| format!("{}/{}/{}", g.0, g.1, g.2))
                        .collect::<Vec<_>>()
                        .join(","),
                    me.user_id.map(|u| u.to_string()).unwrap_or("-".into()),
                )
            }
            "create-user" => {
                let status = if f[4] == "active" {
                    UserStatus::Active
                } else {
                    UserStatus::Inactive
                };
                let u = r!(c.create_user(f[2], f[3], status, perms_parse(f[5])).await);
                format!("ok {}", u.id)
            }
            "delete-user" => {
                r!(c.delete_user(&ident(f[2])).await);
                "ok".into()
            }
            "update-user" => {
                // update-user <c> <ident> <name|-> <active|inactive|->
                let name = if f[3] == "-" { None } else { Some(f[3]) };
                let status = match f[4] {
                    "active" => Some(UserStatus::Active),
                    "inactive" => Some(UserStatus::Inactive),
                    _ => None,
                };
                r!(c.update_user(&ident(f[2]), name, status).await);
                "ok".into()
            }
            "update-perms" => {
                r!(c.update_permissions(&ident(f[2]), perms_parse(f[3])).await);
                "ok".into()
            }
            "change-pw" => {
                r!(c.change_password(&ident(f[2]), f[3], f[4]).await);
                "ok".into()
            }
            "user" => match r!(c.get_user(&ident(f[2])).await) {
                Some(u) => format!(
                    "ok {}:{}:{}:{}",
                    u.id,
                    u.username,
                    u.status,
                    perms_str(&u.permissions)
                ),
                None => "ok none".into(),
            },
            "users" => {
                let mut v: Vec<(u32, String)> = r!(c.get_users().await)
                    .iter()
                    .map(|u| (u.id, format!("{}:{}:{}", u.id, u.username, u.status)))
                    .collect();
                v.sort();
                format!(
                    "ok {}",
                    v.into_iter().map(|x| x.1).collect::<Vec<_>>().join(",")
                )
            }
            "create-stream" => {
                let s = r!(c.create_stream(f[3], opt_u32(f[2])).await);
                format!("ok {}", s.id)
            }
            "update-stream" => {
                r!(c.update_stream(&ident(f[2]), f[3]).await);
                "ok".into()
            }
            "delete-stream" => {
                r!(c.delete_stream(&ident(f[2])).await);
                "ok".into()
            }
            "purge-stream" => {
                r!(c.purge_stream(&ident(f[2])).await);
                "ok".into()
            }
            "streams" => {
                let mut v: Vec<(u32, String)> = r!(c.get_streams().await)
                    .iter()
                    .map(|s| {
                        (
                            s.id,
                            format!(
                                "{}:{}:{}:{}:{}",
                                s.id,
                                s.name,
                                s.topics_count,
                                s.messages_count,
                                s.size.as_bytes_u64()
                            ),
                        )
                    })
                    .collect();
                v.sort();
                format!(
                    "ok {}",
                    v.into_iter().map(|x| x.1).collect::<Vec<_>>().join(",")
                )
            }
            "stream" => match r!(c.get_stream(&ident(f[2])).await) {
                Some(s) => {
                    let mut t: Vec<(u32, String)> = s
                        .topics
                        .iter()
                        .map(|t| (t.id, topic_str(t)))
                        .collect();
                    t.sort();
                    format!(
                        "ok {}:{}:{}:{}:{} {}",
                        s.id,
                        s.name,
                        s.topics_count,
                        s.messages_count,
                        s.size.as_bytes_u64(),
                        t.into_iter().map(|x| x.1).collect::<Vec<_>>().join(",")
                    )
                }
                None => "ok none".into(),
            },
            "create-topic" => {
                // create-topic <c> <s> <id|-> <name> <nparts> <expiry> <max> <repl|->
                let repl = if f[8] == "-" {
                    None
                } else {
                    Some(f[8].parse::<u8>().unwrap())
                };
                let t = r!(c
                    .create_topic(
                        &ident(f[2]),
                        f[4],
                        f[5].parse().unwrap(),
                        CompressionAlgorithm::None,
                        repl,
                        opt_u32(f[3]),
                        expiry(f[6]),
                        max_size(f[7]),
                    )
                    .await);
                format!("ok {}", t.id)
            }
            "update-topic" => {
                // update-topic <c> <s> <t> <name> <expiry> <max> <repl|->
                let repl = if f[7] == "-" {
                    None
                } else {
                    Some(f[7].parse::<u8>().unwrap())
                };
                r!(c
                    .update_topic(
                        &ident(f[2]),
                        &ident(f[3]),
                        f[4],
                        CompressionAlgorithm::None,
                        repl,
                        expiry(f[5]),
                        max_size(f[6]),
                    )
                    .await);
                "ok".into()
            }
            "delete-topic" => {
                r!(c.delete_topic(&ident(f[2]), &ident(f[3])).await);
                "ok".into()
            }
            "purge-topic" => {
                r!(c.purge_topic(&ident(f[2]), &ident(f[3])).await);
                "ok".into()
            }
            "topics" => {
                let mut v: Vec<(u32, String)> = r!(c.get_topics(&ident(f[2])).await)
                    .iter()
                    .map(|t| (t.id, topic_str(t)))
                    .collect();
                v.sort();
                format!(
                    "ok {}",
                    v.into_iter().map(|x| x.1).collect::<Vec<_>>().join(",")
                )
            }
            "topic" => match r!(c.get_topic(&ident(f[2]), &ident(f[3])).await) {
                Some(t) => {
                    let mut p: Vec<(u32, String)> = t
                        .partitions
                        .iter()
                        .map(|p| {
                            (
                                p.id,
                                format!(
                                    "{}:{}:{}:{}:{}",
                                    p.id,
                                    p.current_offset,
                                    p.messages_count,
                                    p.size.as_bytes_u64(),
                                    p.segments_count
                                ),
                            )
                        })
                        .collect();
                    p.sort();
                    format!(
                        "ok {}:{}:{}:{}:{}:{}:{}:{} {}",
                        t.id,
                        t.name,
                        t.partitions_count,
                        expiry_str(&t.message_expiry),
                        max_size_str(&t.max_topic_size),
                        t.replication_factor,
                        t.messages_count,
                        t.size.as_bytes_u64(),
                        p.into_iter().map(|x| x.1).collect::<Vec<_>>().join(",")
                    )
                }
                None => "ok none".into(),
            },
            "create-parts" => {
                r!(c
                    .create_partitions(&ident(f[2]), &ident(f[3]), f[4].parse().unwrap())
                    .await);
                "ok".into()
            }
            "delete-parts" => {
                r!(c
                    .delete_partitions(&ident(f[2]), &ident(f[3]), f[4].parse().unwrap())
                    .await);
                "ok".into()
            }
            "send" => {
                // send <c> <s> <t> <partitioning> <msgs>
                let mut msgs = messages(f[5]);
                r!(c
                    .send_messages(&ident(f[2]), &ident(f[3]), &partitioning(f[4]), &mut msgs)
                    .await);
                "ok".into()
            }
            "poll" => {
                // poll <c> <s> <t> <pid|-> <consumer> <strategy> <count> <autocommit 0|1>
                let p = r!(c
                    .poll_messages(
                        &ident(f[2]),
                        &ident(f[3]),
                        opt_u32(f[4]),
                        &consumer(f[5]),
                        &strategy(f[6]),
                        f[7].parse().unwrap(),
                        f[8] == "1",
                    )
                    .await);
                format!(
                    "ok {} {} {}",
                    p.partition_id,
                    p.current_offset,
                    p.messages.iter().map(polled).collect::<Vec<_>>().join(",")
                )
            }
            "flush" => {
                r!(c
                    .flush_unsaved_buffer(
                        &ident(f[2]),
                        &ident(f[3]),
                        f[4].parse().unwrap(),
                        f[5] == "1"
                    )
                    .await);
                "ok".into()
            }
            "store-offset" => {
                // store-offset <c> <s> <t> <pid|-> <consumer> <offset>
                r!(c
                    .store_consumer_offset(
                        &consumer(f[5]),
                        &ident(f[2]),
                        &ident(f[3]),
                        opt_u32(f[4]),
                        f[6].parse().unwrap(),
                    )
                    .await);
                "ok".into()
            }
            "get-offset" => {
                match r!(c
                    .get_consumer_offset(&consumer(f[5]), &ident(f[2]), &ident(f[3]), opt_u32(f[4]))
                    .await)
                {
                    Some(o) => format!(
                        "ok {} {} {}",
                        o.partition_id, o.current_offset, o.stored_offset
                    ),
                    None => "ok none".into(),
                }
            }
            "delete-offset" => {
                r!(c
                    .delete_consumer_offset(
                        &consumer(f[5]),
                        &ident(f[2]),
                        &ident(f[3]),
                        opt_u32(f[4])
                    )
                    .await);
                "ok".into()
            }
            "create-group" => {
                // create-group <c> <s> <t> <id|-> <name>
                let g = r!(c
                    .create_consumer_group(&ident(f[2]), &ident(f[3]), f[5], opt_u32(f[4]))
                    .await);
                format!("ok {}", g.id)
            }
            "delete-group" => {
                r!(c
                    .delete_consumer_group(&ident(f[2]), &ident(f[3]), &ident(f[4]))
                    .await);
                "ok".into()
            }
            "join" => {
                r!(c
                    .join_consumer_group(&ident(f[2]), &ident(f[3]), &ident(f[4]))
                    .await);
                "ok".into()
            }
            "leave" => {
                r!(c
                    .leave_consumer_group(&ident(f[2]), &ident(f[3]), &ident(f[4]))
                    .await);
                "ok".into()
            }
            "group" => match r!(c
                .get_consumer_group(&ident(f[2]), &ident(f[3]), &ident(f[4]))
                .await)
            {
                // members are printed in the implementation's own order (hash-map order is an
                // input of the model), each member's partitions in the order reported
                Some(g) => format!(
                    "ok {}:{}:{}:{} {}",
                    g.id,
                    g.name,
                    g.partitions_count,
                    g.members_count,
                    g.members
                        .iter()
                        .map(|m| {
                            let mut ps = m.partitions.clone();
                            ps.sort();
                            // the member's own count must be the length of its list
                            let bad = if m.partitions_count as usize != m.partitions.len() {
                                format!("+BADCOUNT{}", m.partitions_count)
                            } else {
                                String::new()
                            };
                            format!(
                                "{}={}{bad}",
                                m.id,
                                ps.iter()
                                    .map(|p| p.to_string())
                                    .collect::<Vec<_>>()
                                    .join("+")
                            )
                        })
                        .collect::<Vec<_>>()
                        .join(",")
                ),
                None => "ok none".into(),
            },
            "groups" => {
                let mut v: Vec<(u32, String)> = r!(c
                    .get_consumer_groups(&ident(f[2]), &ident(f[3]))
                    .await)
                .iter()
                .map(|g| {
                    (
                        g.id,
                        format!(
                            "{}:{}:{}:{}",
                            g.id, g.name, g.partitions_count, g.members_count
                        ),
                    )
                })
                .collect();
                v.sort();
                format!(
                    "ok {}",
                    v.into_iter().map(|x| x.1).collect::<Vec<_>>().join(",")
                )
            }
            "stats" => {
                let s = r!(c.get_stats().await);
                format!(
                    "ok streams={} topics={} partitions={} segments={} messages={} size={} groups={} clients={}",
                    s.streams_count,
                    s.topics_count,
                    s.partitions_count,
                    s.segments_count,
                    s.messages_count,
                    s.messages_size_bytes.as_bytes_u64(),
                    s.consumer_groups_count,
                    s.clients_count
                )
            }
            "clients" => {
                let mut v: Vec<(u32, String)> = r!(c.get_clients().await)
                    .iter()
                    .map(|c| {
                        (
                            c.client_id,
                            format!(
                                "{}:{}:{}",
                                c.client_id,
                                c.user_id.map(|u| u.to_string()).unwrap_or("-".into()),
                                c.consumer_groups_count
                            ),
                        )
                    })
                    .collect();
                v.sort();
                format!(
                    "ok {}",
                    v.into_iter().map(|x| x.1).collect::<Vec<_>>().join(",")
                )
            }
            other => format!("err unknown-op-{other}"),
        }
    }
}

fn topic_str(t: &iggy::models::topic::Topic) -> String {
    format!(
        "{}:{}:{}:{}:{}:{}:{}:{}",
        t.id,
        t.name,
        t.partitions_count,
        expiry_str(&t.message_expiry),
        max_size_str(&t.max_topic_size),
        t.replication_factor,
        t.messages_count,
        t.size.as_bytes_u64()
    )
}

#[allow(dead_code)]
fn _unused(_: Identifier) {}
