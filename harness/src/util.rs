use bytes::Bytes;
use iggy::consumer::Consumer;
use iggy::error::IggyError;
use iggy::identifier::Identifier;
use iggy::messages::poll_messages::PollingStrategy;
use iggy::messages::send_messages::{Message, Partitioning};
use iggy::models::header::{HeaderKey, HeaderValue};
use iggy::models::messages::PolledMessage;
use iggy::utils::byte_size::IggyByteSize;
use iggy::utils::duration::IggyDuration;
use iggy::utils::expiry::IggyExpiry;
use iggy::utils::topic_size::MaxTopicSize;
use std::collections::HashMap;

pub static ENCRYPTED: std::sync::atomic::AtomicBool = std::sync::atomic::AtomicBool::new(false);

pub fn err_name(e: &IggyError) -> String {
    format!("err {}", e.as_string())
}

pub fn hex_decode(s: &str) -> Vec<u8> {
    (0..s.len() / 2)
        .map(|i| u8::from_str_radix(&s[2 * i..2 * i + 2], 16).unwrap())
        .collect()
}

pub fn hex_encode(b: &[u8]) -> String {
    b.iter().map(|x| format!("{x:02x}")).collect()
}

/// `#<n>` numeric, `@<name>` named
pub fn ident(s: &str) -> Identifier {
    // a trailing `=<hash>` (resolved id, for the model only) is ignored
    let s = s.split('=').next().unwrap();
    if let Some(n) = s.strip_prefix('#') {
        Identifier::numeric(n.parse().unwrap()).unwrap()
    } else if let Some(n) = s.strip_prefix('@') {
        Identifier::named(n).unwrap()
    } else {
        panic!("bad identifier {s}")
    }
}

/// `c:<ident>` consumer, `g:<ident>` consumer group
pub fn consumer(s: &str) -> Consumer {
    if let Some(i) = s.strip_prefix("c:") {
        Consumer::new(ident(i))
    } else if let Some(i) = s.strip_prefix("g:") {
        Consumer::group(ident(i))
    } else {
        panic!("bad consumer {s}")
    }
}

pub fn strategy(s: &str) -> PollingStrategy {
    if let Some(o) = s.strip_prefix("offset:") {
        PollingStrategy::offset(o.parse().unwrap())
    } else if let Some(t) = s.strip_prefix("ts:") {
        PollingStrategy::timestamp(t.parse::<u64>().unwrap().into())
    } else {
        match s {
            "first" => PollingStrategy::first(),
            "last" => PollingStrategy::last(),
            "next" => PollingStrategy::next(),
            _ => panic!("bad strategy {s}"),
        }
    }
}

pub fn partitioning(s: &str) -> Partitioning {
    if s == "balanced" {
        Partitioning::balanced()
    } else if let Some(p) = s.strip_prefix("pid:") {
        Partitioning::partition_id(p.parse().unwrap())
    } else if let Some(k) = s.strip_prefix("key:") {
        Partitioning::messages_key(&hex_decode(k.split('=').next().unwrap())).unwrap()
    } else {
        panic!("bad partitioning {s}")
    }
}

pub fn opt_u32(s: &str) -> Option<u32> {
    if s == "-" {
        None
    } else {
        Some(s.parse().unwrap())
    }
}

pub fn expiry(s: &str) -> IggyExpiry {
    match s {
        "never" => IggyExpiry::NeverExpire,
        "default" => IggyExpiry::ServerDefault,
        v => IggyExpiry::ExpireDuration(IggyDuration::from(v.parse::<u64>().unwrap())),
    }
}

pub fn max_size(s: &str) -> MaxTopicSize {
    match s {
        "unlimited" => MaxTopicSize::Unlimited,
        "default" => MaxTopicSize::ServerDefault,
        v => MaxTopicSize::Custom(IggyByteSize::from(v.parse::<u64>().unwrap())),
    }
}

pub fn expiry_str(e: &IggyExpiry) -> String {
    match e {
        IggyExpiry::NeverExpire => "never".into(),
        IggyExpiry::ServerDefault => "default".into(),
        IggyExpiry::ExpireDuration(d) => d.as_micros().to_string(),
    }
}

pub fn max_size_str(m: &MaxTopicSize) -> String {
    match m {
        MaxTopicSize::Unlimited => "unlimited".into(),
        MaxTopicSize::ServerDefault => "default".into(),
        MaxTopicSize::Custom(b) => b.as_bytes_u64().to_string(),
    }
}

/// Deterministic payload: 8 bytes LE tag, then filler derived from the tag; `psize >= 8`.
pub fn expand_payload(tag: u64, psize: usize) -> Vec<u8> {
    let mut v = Vec::with_capacity(psize);
    v.extend_from_slice(&tag.to_le_bytes());
    for i in 8..psize {
        v.push(((tag.wrapping_mul(31)).wrapping_add(i as u64 * 7) & 0xff) as u8);
    }
    v.truncate(psize);
    v
}

/// Deterministic headers: `nhdr` (≤ 9) entries `h<i>` → uint32(tag + i); 15 bytes each on the wire.
pub fn expand_headers(tag: u64, nhdr: usize) -> Option<HashMap<HeaderKey, HeaderValue>> {
    if nhdr == 0 {
        return None;
    }
    let mut m = HashMap::new();
    for i in 0..nhdr {
        m.insert(
            HeaderKey::new(&format!("h{i}")).unwrap(),
            HeaderValue::from_uint32((tag as u32).wrapping_add(i as u32)).unwrap(),
        );
    }
    Some(m)
}

/// `id:psize:tag:nhdr,…`
pub fn messages(s: &str) -> Vec<Message> {
    if s == "-" {
        return vec![];
    }
    s.split(',')
        .map(|m| {
            let f: Vec<&str> = m.split(':').collect();
            let id: u128 = f[0].parse().unwrap();
            let psize: usize = f[1].parse().unwrap();
            let tag: u64 = f[2].parse().unwrap();
            let nhdr: usize = f[3].parse().unwrap();
            Message::new(
                Some(id),
                Bytes::from(expand_payload(tag, psize)),
                expand_headers(tag, nhdr),
            )
        })
        .collect()
}

/// `off:id:ts:tag:psize:nhdr`, or `off:BAD-<what>` when content does not match the expansion.
pub fn polled(m: &PolledMessage) -> String {
    let p = &m.payload;
    if p.len() < 8 {
        return format!("{}:BAD-short", m.offset);
    }
    let tag = u64::from_le_bytes(p[0..8].try_into().unwrap());
    if expand_payload(tag, p.len())[..] != p[..] {
        return format!("{}:BAD-payload", m.offset);
    }
    let nhdr = m.headers.as_ref().map(|h| h.len()).unwrap_or(0);
    if m.headers != expand_headers(tag, nhdr) {
        return format!("{}:BAD-headers", m.offset);
    }
    // with server-side encryption the stored checksum is that of the ciphertext (it is "the checksum
    // the message was stored with", C02); it is comparable with the payload only without encryption
    if !ENCRYPTED.load(std::sync::atomic::Ordering::Relaxed)
        && m.checksum != iggy::utils::checksum::calculate(p)
    {
        return format!("{}:BAD-checksum", m.offset);
    }
    format!(
        "{}:{}:{}:{}:{}:{}",
        m.offset,
        m.id,
        m.timestamp,
        tag,
        p.len(),
        nhdr
    )
}
