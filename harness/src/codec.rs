//! `codec` modes (property C13): run the REAL wire / journal / storage encoders and decoders on
//! structure-aware random values and print, per value, the outcome of the real round trip, the bytes and a
//! canonical description that the Lean model (`Iggy/Codec`) reproduces from the bytes alone.
//!
//!   verif-harness codec <seed> <count> [edge%]   one line per value: `<kind> <outcome> <hex> <desc>`
//!   verif-harness codec-decode <hexfile>         per line `<kind> <hex>`: `OK <desc>` | `ERROR <name>` | `PANIC`
//!   verif-harness codec-mutate <seed> <count>    mutated / truncated frames, `<kind> <hex>` per line
//!
//! Outcomes of `codec`: `OK` (decodes to a value equal to the original), `OK` is also used when the only
//! difference is one of the three documented normalisations (counted separately in the summary):
//!   N1  an EMPTY stream/topic permission map or an EMPTY header map travels as an ABSENT one;
//!   N2  message id 0 means "server, assign one": the decoder replaces it by a fresh UUID;
//! `MISMATCH` (decodes to a different value), `ERROR <name>` (decoder or post-decode `validate()` refused),
//! `PANIC` (decoder panicked), `GENBUG <name>` (the generated value does not pass `validate()` - a harness bug).
use crate::codec_desc as desc;
use crate::codec_gen as gen;
use crate::codec_gen::Rng;
use bytes::{Bytes, BytesMut};
use iggy::bytes_serializable::BytesSerializable;
use iggy::consumer::Consumer;
use iggy::error::IggyError;
use iggy::identifier::Identifier;
use iggy::messages::poll_messages::PollingStrategy;
use iggy::messages::send_messages::{Message, Partitioning};
use iggy::models::header::{HeaderKey, HeaderValue};
use iggy::models::messages::MessageState;
use iggy::models::permissions::Permissions;
use iggy::utils::byte_size::IggyByteSize;
use iggy::utils::timestamp::IggyTimestamp;
use iggy::validatable::Validatable;
use server::state::command::EntryCommand;
use server::state::entry::StateEntry;
use server::streaming::batching::iterator::IntoMessagesIterator;
use server::streaming::batching::message_batch::RetainedMessageBatch;
use server::streaming::models::messages::RetainedMessage;
use server::ServerCommand;
use std::collections::{BTreeMap, HashMap};
use std::io::{BufRead, Write};
use std::panic::{catch_unwind, AssertUnwindSafe};

fn err_name(e: &IggyError) -> String {
    e.as_string().to_string()
}

#[derive(PartialEq)]
enum Eq3 {
    Exact,
    Normalised,
    Different,
}

fn norm_headers(
    h: &Option<HashMap<HeaderKey, HeaderValue>>,
) -> Option<&HashMap<HeaderKey, HeaderValue>> {
    h.as_ref().filter(|m| !m.is_empty())
}

fn norm_perms(p: &Option<Permissions>) -> Option<Permissions> {
    let mut p = p.clone()?;
    if let Some(streams) = p.streams.as_mut() {
        for s in streams.values_mut() {
            if s.topics.as_ref().map(|t| t.is_empty()).unwrap_or(false) {
                s.topics = None;
            }
        }
    }
    if p.streams.as_ref().map(|s| s.is_empty()).unwrap_or(false) {
        p.streams = None;
    }
    Some(p)
}

fn eq_command(orig: &ServerCommand, dec: &ServerCommand) -> Eq3 {
    if orig == dec {
        return Eq3::Exact;
    }
    let same = match (orig, dec) {
        (ServerCommand::SendMessages(a), ServerCommand::SendMessages(b)) => {
            a.stream_id == b.stream_id
                && a.topic_id == b.topic_id
                && a.partitioning == b.partitioning
                && a.messages.len() == b.messages.len()
                && a.messages.iter().zip(b.messages.iter()).all(|(x, y)| {
                    (x.id == y.id || (x.id == 0 && y.id != 0))
                        && x.length == y.length
                        && x.payload == y.payload
                        && norm_headers(&x.headers) == norm_headers(&y.headers)
                })
        }
        (ServerCommand::CreateUser(a), ServerCommand::CreateUser(b)) => {
            a.username == b.username
                && a.password == b.password
                && a.status == b.status
                && norm_perms(&a.permissions) == norm_perms(&b.permissions)
        }
        (ServerCommand::UpdatePermissions(a), ServerCommand::UpdatePermissions(b)) => {
            a.user_id == b.user_id && norm_perms(&a.permissions) == norm_perms(&b.permissions)
        }
        _ => false,
    };
    if same {
        Eq3::Normalised
    } else {
        Eq3::Different
    }
}

/// Wire sentinels that collide with values `validate()` accepts (recorded as open findings, see
/// known_findings.txt): the command as it arrives once the colliding value is read as the sentinel.
/// Returns the classes applied.
fn sentinel_expiry(e: &mut iggy::utils::expiry::IggyExpiry, classes: &mut Vec<&'static str>) {
    use iggy::utils::expiry::IggyExpiry;
    if let IggyExpiry::ExpireDuration(d) = e {
        let nanos = d.get_duration().as_nanos();
        let micros = (nanos / 1000) as u64;
        if micros == 0 {
            *e = IggyExpiry::ServerDefault;
            classes.push("expiry-zero-is-server-default");
        } else if micros == u64::MAX {
            *e = IggyExpiry::NeverExpire;
            classes.push("expiry-max-is-never");
        } else if nanos % 1000 != 0 {
            *e = IggyExpiry::ExpireDuration(iggy::utils::duration::IggyDuration::from(micros));
            classes.push("expiry-travels-in-microseconds");
        }
    }
}

fn sentinel_max_size(m: &mut iggy::utils::topic_size::MaxTopicSize, classes: &mut Vec<&'static str>) {
    use iggy::utils::topic_size::MaxTopicSize;
    if let MaxTopicSize::Custom(b) = m {
        let v = b.as_bytes_u64();
        if v == 0 {
            *m = MaxTopicSize::ServerDefault;
            classes.push("max-size-zero-is-server-default");
        } else if v == u64::MAX {
            *m = MaxTopicSize::Unlimited;
            classes.push("max-size-max-is-unlimited");
        }
    }
}

fn sentinel_partition(p: &mut Option<u32>, classes: &mut Vec<&'static str>) {
    if *p == Some(0) {
        *p = None;
        classes.push("partition-zero-is-none");
    }
}

fn sentinel_meta(v: &mut Option<String>, classes: &mut Vec<&'static str>) {
    if v.as_deref() == Some("") {
        *v = None;
        classes.push("empty-login-metadata-is-absent");
    }
}

fn sentinels_command(cmd: ServerCommand) -> (ServerCommand, Vec<&'static str>) {
    let mut c = cmd;
    let mut k = vec![];
    match &mut c {
        ServerCommand::PollMessages(x) => sentinel_partition(&mut x.partition_id, &mut k),
        ServerCommand::GetConsumerOffset(x) => sentinel_partition(&mut x.partition_id, &mut k),
        ServerCommand::StoreConsumerOffset(x) => sentinel_partition(&mut x.partition_id, &mut k),
        ServerCommand::DeleteConsumerOffset(x) => sentinel_partition(&mut x.partition_id, &mut k),
        ServerCommand::LoginUser(x) => {
            sentinel_meta(&mut x.version, &mut k);
            sentinel_meta(&mut x.context, &mut k);
        }
        ServerCommand::CreateTopic(x) => {
            sentinel_expiry(&mut x.message_expiry, &mut k);
            sentinel_max_size(&mut x.max_topic_size, &mut k);
        }
        ServerCommand::UpdateTopic(x) => {
            sentinel_expiry(&mut x.message_expiry, &mut k);
            sentinel_max_size(&mut x.max_topic_size, &mut k);
        }
        ServerCommand::CreatePersonalAccessToken(x) => sentinel_expiry(&mut x.expiry, &mut k),
        _ => {}
    }
    (c, k)
}

fn sentinels_entry(cmd: EntryCommand) -> (EntryCommand, Vec<&'static str>) {
    let mut c = cmd;
    let mut k = vec![];
    match &mut c {
        EntryCommand::CreateTopic(x) => {
            sentinel_expiry(&mut x.message_expiry, &mut k);
            sentinel_max_size(&mut x.max_topic_size, &mut k);
        }
        EntryCommand::UpdateTopic(x) => {
            sentinel_expiry(&mut x.message_expiry, &mut k);
            sentinel_max_size(&mut x.max_topic_size, &mut k);
        }
        EntryCommand::CreatePersonalAccessToken(x) => sentinel_expiry(&mut x.command.expiry, &mut k),
        _ => {}
    }
    (c, k)
}

fn eq_entry(orig: &EntryCommand, dec: &EntryCommand) -> Eq3 {
    if orig == dec {
        return Eq3::Exact;
    }
    let same = match (orig, dec) {
        (EntryCommand::CreateUser(a), EntryCommand::CreateUser(b)) => {
            a.username == b.username
                && a.password == b.password
                && a.status == b.status
                && norm_perms(&a.permissions) == norm_perms(&b.permissions)
        }
        (EntryCommand::UpdatePermissions(a), EntryCommand::UpdatePermissions(b)) => {
            a.user_id == b.user_id && norm_perms(&a.permissions) == norm_perms(&b.permissions)
        }
        _ => false,
    };
    if same {
        Eq3::Normalised
    } else {
        Eq3::Different
    }
}

fn eq_retained(a: &RetainedMessage, b: &RetainedMessage) -> bool {
    a.id == b.id
        && a.offset == b.offset
        && a.timestamp == b.timestamp
        && a.checksum == b.checksum
        && a.message_state.as_code() == b.message_state.as_code()
        && a.headers.as_ref().filter(|h| !h.is_empty()) == b.headers.as_ref().filter(|h| !h.is_empty())
        && a.payload == b.payload
}

struct Stats {
    total: u64,
    ok: u64,
    bad: u64,
    normalised: u64,
    per: BTreeMap<String, (u64, u64)>,
}

impl Stats {
    fn note(&mut self, kind: &str, outcome: &str, normalised: bool) {
        self.total += 1;
        let e = self.per.entry(kind.to_string()).or_insert((0, 0));
        e.1 += 1;
        if outcome == "OK" {
            self.ok += 1;
            e.0 += 1;
            if normalised {
                self.normalised += 1;
            }
        } else if outcome.starts_with("INVALID") {
            self.ok += 1;
            e.0 += 1;
        } else {
            self.bad += 1;
        }
    }
}

fn state(r: &mut Rng) -> MessageState {
    match r.below(4) {
        0 => MessageState::Available,
        1 => MessageState::Unavailable,
        2 => MessageState::Poisoned,
        _ => MessageState::MarkedForDeletion,
    }
}

fn retained(r: &mut Rng, offset: u64, large: bool) -> RetainedMessage {
    let msg = gen::message(r, large);
    let ts = r.next();
    let mut m = RetainedMessage::new(offset, ts, msg);
    m.message_state = state(r);
    m
}

fn state_entry(r: &mut Rng) -> StateEntry {
    let context = {
        let n = r.range(0, 40) as usize;
        Bytes::from(r.bytes(n))
    };
    let command = if r.chance(80) {
        let w = r.below(gen::N_ENTRY_COMMANDS);
        gen::entry_command(r, w).to_bytes()
    } else {
        let n = r.range(0, 64) as usize;
        Bytes::from(r.bytes(n))
    };
    let (index, term, leader_id, version, flags) = (
        r.next(),
        r.next(),
        r.next() as u32,
        r.next() as u32,
        r.next(),
    );
    let timestamp = IggyTimestamp::from(r.next());
    let user_id = r.next() as u32;
    let checksum = if r.flip() {
        StateEntry::calculate_checksum(
            index, term, leader_id, version, flags, timestamp, user_id, &context, &command,
        )
    } else {
        r.next() as u32
    };
    StateEntry::new(
        index, term, leader_id, version, flags, timestamp, user_id, checksum, context, command,
    )
}

pub fn run(args: &[String]) {
    std::panic::set_hook(Box::new(|_| {}));
    let seed: u64 = args.first().and_then(|s| s.parse().ok()).unwrap_or(1);
    let count: u64 = args.get(1).and_then(|s| s.parse().ok()).unwrap_or(1000);
    let edge: u64 = args.get(2).and_then(|s| s.parse().ok()).unwrap_or(3);
    let mut r = Rng::new(seed, edge);
    let out = std::io::stdout();
    let mut out = std::io::BufWriter::new(out.lock());
    let mut stats = Stats {
        total: 0,
        ok: 0,
        bad: 0,
        normalised: 0,
        per: BTreeMap::new(),
    };
    const KINDS: u64 = gen::N_COMMANDS + 4;
    for i in 0..count {
        let k = i % KINDS;
        if k < gen::N_COMMANDS {
            r.edged = false;
            let cmd = gen::server_command(&mut r, k);
            let edged = r.edged;
            let kind = desc::variant_name(&cmd);
            let bytes = cmd.to_bytes();
            let d = desc::command(&cmd, &[]);
            let mut normalised = false;
            let outcome = if let Err(e) = cmd.validate() {
                if edged {
                    // an edge probe that `validate()` refuses: the SDK cannot send it
                    format!("INVALID {}", err_name(&e))
                } else {
                    format!("GENBUG {}", err_name(&e))
                }
            } else {
                match catch_unwind(AssertUnwindSafe(|| ServerCommand::from_bytes(bytes.clone()))) {
                    Err(_) => "PANIC".to_string(),
                    Ok(Err(e)) => format!("ERROR {}", err_name(&e)),
                    Ok(Ok(dec)) => match eq_command(&cmd, &dec) {
                        Eq3::Different => {
                            let (c2, classes) = sentinels_command(cmd);
                            if !classes.is_empty() && eq_command(&c2, &dec) != Eq3::Different {
                                format!("MISMATCH-SENTINEL:{}", classes.join("+"))
                            } else {
                                "MISMATCH".to_string()
                            }
                        }
                        eq => match dec.validate() {
                            Err(e) => format!("ERROR validate:{}", err_name(&e)),
                            Ok(()) => {
                                normalised = eq == Eq3::Normalised;
                                "OK".to_string()
                            }
                        },
                    },
                }
            };
            stats.note(kind, &outcome, normalised);
            writeln!(out, "{kind} {outcome} {} {d}", desc::hx(&bytes)).unwrap();
        } else if k == gen::N_COMMANDS {
            // storage: one retained message = `extend` output (u32 length prefix + record)
            let large = r.chance(5);
            let offset = r.next();
            let m = retained(&mut r, offset, large);
            let mut buf = BytesMut::new();
            m.extend(&mut buf);
            let bytes = buf.freeze();
            let d = desc::retained(&m);
            let outcome = match catch_unwind(AssertUnwindSafe(|| {
                let len = u32::from_le_bytes(bytes[..4].try_into().unwrap()) as usize;
                if len != bytes.len() - 4 {
                    return Err("length_prefix".to_string());
                }
                RetainedMessage::try_from_bytes(bytes.slice(4..)).map_err(|e| err_name(&e))
            })) {
                Err(_) => "PANIC".to_string(),
                Ok(Err(e)) => format!("ERROR {e}"),
                Ok(Ok(dec)) => {
                    if eq_retained(&m, &dec) {
                        "OK".to_string()
                    } else {
                        "MISMATCH".to_string()
                    }
                }
            };
            stats.note("RetainedMessage", &outcome, false);
            writeln!(out, "RetainedMessage {outcome} {} {d}", desc::hx(&bytes)).unwrap();
        } else if k == gen::N_COMMANDS + 1 {
            // storage: a batch = 24-byte header + concatenated retained messages, read back by the real iterator
            let n = r.range(1, 6);
            let base = r.next() >> 1;
            let msgs: Vec<RetainedMessage> =
                (0..n).map(|j| retained(&mut r, base + j, false)).collect();
            let mut buf = BytesMut::new();
            for m in &msgs {
                m.extend(&mut buf);
            }
            let body = buf.freeze();
            let max_ts = msgs.iter().map(|m| m.timestamp).max().unwrap();
            let batch = RetainedMessageBatch::new(
                base,
                (n - 1) as u32,
                max_ts,
                IggyByteSize::from(body.len() as u64),
                body.clone(),
            );
            let header = batch.header_as_bytes();
            let ds: Vec<String> = msgs.iter().map(desc::retained).collect();
            let d = format!(
                "RetainedBatch{{base={};len={};delta={};maxts={};msgs=[{}]}}",
                base,
                body.len(),
                n - 1,
                max_ts,
                ds.join(",")
            );
            let outcome = match catch_unwind(AssertUnwindSafe(|| {
                (&batch).into_messages_iter().collect::<Vec<_>>()
            })) {
                Err(_) => "PANIC".to_string(),
                Ok(dec) => {
                    if dec.len() == msgs.len()
                        && dec.iter().zip(msgs.iter()).all(|(a, b)| eq_retained(b, a))
                    {
                        "OK".to_string()
                    } else {
                        "MISMATCH".to_string()
                    }
                }
            };
            stats.note("RetainedBatch", &outcome, false);
            writeln!(
                out,
                "RetainedBatch {outcome} {}{} {d}",
                desc::hx(&header),
                desc::hx(&body)
            )
            .unwrap();
        } else if k == gen::N_COMMANDS + 2 {
            let e = state_entry(&mut r);
            let bytes = e.to_bytes();
            let d = desc::state_entry(&e);
            let outcome = match catch_unwind(AssertUnwindSafe(|| StateEntry::from_bytes(bytes.clone()))) {
                Err(_) => "PANIC".to_string(),
                Ok(Err(e)) => format!("ERROR {}", err_name(&e)),
                Ok(Ok(dec)) => {
                    if desc::state_entry(&dec) == d {
                        "OK".to_string()
                    } else {
                        "MISMATCH".to_string()
                    }
                }
            };
            stats.note("StateEntry", &outcome, false);
            writeln!(out, "StateEntry {outcome} {} {d}", desc::hx(&bytes)).unwrap();
        } else {
            let w = (i / KINDS) % gen::N_ENTRY_COMMANDS;
            let c = gen::entry_command(&mut r, w);
            let bytes = c.to_bytes();
            let d = desc::entry_command(&c);
            let mut normalised = false;
            let outcome = match catch_unwind(AssertUnwindSafe(|| EntryCommand::from_bytes(bytes.clone()))) {
                Err(_) => "PANIC".to_string(),
                Ok(Err(e)) => format!("ERROR {}", err_name(&e)),
                Ok(Ok(dec)) => match eq_entry(&c, &dec) {
                    Eq3::Different => {
                        let (c2, classes) = sentinels_entry(c);
                        if !classes.is_empty() && eq_entry(&c2, &dec) != Eq3::Different {
                            format!("MISMATCH-SENTINEL:{}", classes.join("+"))
                        } else {
                            "MISMATCH".to_string()
                        }
                    }
                    eq => {
                        normalised = eq == Eq3::Normalised;
                        "OK".to_string()
                    }
                },
            };
            stats.note("EntryCommand", &outcome, normalised);
            writeln!(out, "EntryCommand {outcome} {} {d}", desc::hx(&bytes)).unwrap();
        }
    }
    let per: Vec<String> = stats
        .per
        .iter()
        .map(|(k, (ok, n))| format!("{k}={ok}/{n}"))
        .collect();
    let seen = desc::VARIANTS
        .iter()
        .filter(|v| stats.per.contains_key(**v))
        .count();
    writeln!(
        out,
        "DONE total={} ok={} bad={} normalised={} variants={}/{} {}",
        stats.total,
        stats.ok,
        stats.bad,
        stats.normalised,
        seen,
        desc::VARIANTS.len(),
        per.join(" ")
    )
    .unwrap();
    out.flush().unwrap();
}

/// Decode `bytes` as `kind` with the real decoder; `Ok(desc)` or `Err(error name)`; may panic.
fn decode_one(kind: &str, bytes: Bytes) -> Result<String, String> {
    let e = |e: IggyError| err_name(&e);
    match kind {
        "Identifier" => Identifier::from_bytes(bytes)
            .map(|x| format!("Identifier{{{}}}", desc::ident(&x)))
            .map_err(e),
        "Consumer" => Consumer::from_bytes(bytes)
            .map(|x| format!("Consumer{{{}}}", desc::consumer(&x)))
            .map_err(e),
        "Partitioning" => Partitioning::from_bytes(bytes)
            .map(|x| format!("Partitioning{{{}}}", desc::partitioning(&x)))
            .map_err(e),
        "PollingStrategy" => PollingStrategy::from_bytes(bytes)
            .map(|x| format!("PollingStrategy{{{}}}", desc::strategy(&x)))
            .map_err(e),
        "Headers" => HashMap::<HeaderKey, HeaderValue>::from_bytes(bytes)
            .map(|x| format!("Headers{{{}}}", desc::headers(&Some(x))))
            .map_err(e),
        "Message" => {
            let a = Message::from_bytes(bytes.clone()).map_err(e)?;
            let b = Message::from_bytes(bytes).map_err(e)?;
            Ok(format!("Message{}", desc::message(&a, a.id != b.id)))
        }
        "Permissions" => Permissions::from_bytes(bytes)
            .map(|x| format!("Permissions{}", desc::permissions(&Some(x))))
            .map_err(e),
        "RetainedMessage" => {
            // exactly what the real batch iterator does for one record
            let batch = RetainedMessageBatch::new(
                0,
                0,
                0,
                IggyByteSize::from(bytes.len() as u64),
                bytes,
            );
            match (&batch).into_messages_iter().next() {
                Some(m) => Ok(desc::retained(&m)),
                None => Err("none".to_string()),
            }
        }
        // the real batch header reader is private to the log reader: not decodable here
        "RetainedBatch" => Err("unsupported".to_string()),
        "StateEntry" => StateEntry::from_bytes(bytes)
            .map(|x| desc::state_entry(&x))
            .map_err(e),
        "EntryCommand" => EntryCommand::from_bytes(bytes)
            .map(|x| desc::entry_command(&x))
            .map_err(e),
        _ => {
            // any ServerCommand variant name (or `Command`): full dispatch on the 4-byte code
            let a = ServerCommand::from_bytes(bytes.clone()).map_err(e)?;
            let b = ServerCommand::from_bytes(bytes).map_err(e)?;
            let zero: Vec<bool> = match (&a, &b) {
                (ServerCommand::SendMessages(x), ServerCommand::SendMessages(y)) => x
                    .messages
                    .iter()
                    .zip(y.messages.iter())
                    .map(|(m, n)| m.id != n.id)
                    .collect(),
                _ => vec![],
            };
            Ok(desc::command(&a, &zero))
        }
    }
}

pub fn decode(args: &[String]) {
    std::panic::set_hook(Box::new(|_| {}));
    let path = args.first().expect("usage: codec-decode <hexfile>");
    let file = std::fs::File::open(path).expect("cannot open hexfile");
    let out = std::io::stdout();
    let mut out = std::io::BufWriter::new(out.lock());
    for line in std::io::BufReader::new(file).lines() {
        let line = line.unwrap();
        let mut it = line.split_whitespace();
        let Some(kind) = it.next() else { continue };
        let hex = it.next().unwrap_or("");
        let Some(raw) = desc::unhex(hex) else {
            writeln!(out, "ERROR bad_hex").unwrap();
            continue;
        };
        let bytes = Bytes::from(raw);
        match catch_unwind(AssertUnwindSafe(|| decode_one(kind, bytes))) {
            Err(_) => writeln!(out, "PANIC").unwrap(),
            Ok(Err(e)) => writeln!(out, "ERROR {e}").unwrap(),
            Ok(Ok(d)) => writeln!(out, "OK {d}").unwrap(),
        }
    }
    out.flush().unwrap();
}

fn mutate(r: &mut Rng, mut b: Vec<u8>) -> Vec<u8> {
    match r.below(8) {
        0 | 1 => {
            if !b.is_empty() {
                let n = r.below(b.len() as u64) as usize;
                b.truncate(n);
            }
        }
        2 => {
            if !b.is_empty() {
                let p = r.below(b.len() as u64) as usize;
                b[p] = r.next() as u8;
            }
        }
        3 | 4 => {
            if !b.is_empty() {
                // small positions carry the kind / length bytes
                let p = r.below((b.len() as u64).min(48)) as usize;
                b[p] = [0u8, 1, 2, 3, 4, 5, 255][r.below(7) as usize];
            }
        }
        5 => {
            let n = r.range(1, 8) as usize;
            b.extend(r.bytes(n));
        }
        6 => {
            if !b.is_empty() {
                let p = r.below(b.len() as u64) as usize;
                b.remove(p);
            }
        }
        _ => {}
    }
    b
}

pub fn mutate_run(args: &[String]) {
    let seed: u64 = args.first().and_then(|s| s.parse().ok()).unwrap_or(1);
    let count: u64 = args.get(1).and_then(|s| s.parse().ok()).unwrap_or(1000);
    let mut r = Rng::new(seed, 0);
    let out = std::io::stdout();
    let mut out = std::io::BufWriter::new(out.lock());
    const KINDS: u64 = gen::N_COMMANDS + 10;
    for i in 0..count {
        let k = i % KINDS;
        let (kind, bytes): (&str, Vec<u8>) = if k < gen::N_COMMANDS {
            let c = gen::server_command(&mut r, k);
            (desc::variant_name(&c), c.to_bytes().to_vec())
        } else {
            match k - gen::N_COMMANDS {
                0 => ("Identifier", gen::ident(&mut r).to_bytes().to_vec()),
                1 => ("Consumer", gen::consumer(&mut r).to_bytes().to_vec()),
                2 => ("Partitioning", gen::partitioning(&mut r).to_bytes().to_vec()),
                3 => ("PollingStrategy", gen::strategy(&mut r).to_bytes().to_vec()),
                4 => (
                    "Headers",
                    gen::headers(&mut r, 6)
                        .map(|h| h.to_bytes().to_vec())
                        .unwrap_or_default(),
                ),
                5 => ("Message", gen::message(&mut r, false).to_bytes().to_vec()),
                6 => ("Permissions", gen::permissions(&mut r).to_bytes().to_vec()),
                7 => {
                    let o = r.next();
                    let m = retained(&mut r, o, false);
                    let mut buf = BytesMut::new();
                    m.extend(&mut buf);
                    ("RetainedMessage", buf.to_vec())
                }
                8 => ("StateEntry", state_entry(&mut r).to_bytes().to_vec()),
                _ => {
                    let w = r.below(gen::N_ENTRY_COMMANDS);
                    (
                        "EntryCommand",
                        gen::entry_command(&mut r, w).to_bytes().to_vec(),
                    )
                }
            }
        };
        let m = mutate(&mut r, bytes);
        writeln!(out, "{kind} {}", desc::hx(&m)).unwrap();
    }
    out.flush().unwrap();
}
