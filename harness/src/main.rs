//! Correspondence harness: drives the real `server` and `iggy` crates (feature `iggy_verif`).
//! One binary, several modes; every mode reads operation lines on stdin and answers one result
//! line per operation on stdout (see DESIGN.md §2.2, Appendix A).
mod codec;
mod codec_desc;
mod codec_gen;
mod journal;
mod node;
mod perm;
mod perm_gen;
mod util;

fn main() {
    let args: Vec<String> = std::env::args().collect();
    let mode = args.get(1).map(|s| s.as_str()).unwrap_or("");
    // A panic anywhere in a spawned server task must not take the harness down silently.
    std::panic::set_hook(Box::new(|info| {
        eprintln!("PANIC {info}");
    }));
    let rt = tokio::runtime::Builder::new_multi_thread()
        .worker_threads(4)
        .enable_all()
        .build()
        .unwrap();
    match mode {
        "node" => rt.block_on(node::run()),
        "perm" => perm::run(&args[2..]),
        "perm-update" => perm::run_update(&args[2..]),
        "codec" => codec::run(&args[2..]),
        "codec-decode" => codec::decode(&args[2..]),
        "codec-mutate" => codec::mutate_run(&args[2..]),
        "journal" => rt.block_on(journal::run(&args[2])),
        "hash" => {
            // one hex string per line -> xxhash32 as the server computes it (keys, named consumers)
            use std::io::{BufRead, Write};
            let stdin = std::io::stdin();
            for line in stdin.lock().lines() {
                let line = line.unwrap();
                let h = server::streaming::utils::hash::calculate_32(&util::hex_decode(line.trim()));
                println!("{h}");
                std::io::stdout().flush().unwrap();
            }
        }
        _ => {
            eprintln!("usage: verif-harness node");
            std::process::exit(2);
        }
    }
}
