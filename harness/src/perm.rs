//! `perm` mode: evaluates the real `Permissioner` (tables built by the real
//! `init_permissions_for_user`) on permission records decoded from indices, exactly as the Lean judge
//! decodes them (Iggy/Perm/Enum.lean), and prints one line of rule outcomes per record.
use crate::perm_gen;
use ahash::AHashMap;
use iggy::models::permissions::{
    GlobalPermissions, Permissions, StreamPermissions, TopicPermissions,
};
use server::streaming::users::permissioner::Permissioner;
use std::io::Write;

pub const U: u32 = 7;
pub const S: u32 = 3;
pub const T: u32 = 5;
pub const NG: u64 = 1025;
pub const NS: u64 = 1153;

fn bit(x: u64, i: u32) -> bool {
    (x >> i) & 1 == 1
}

/// `key_stream` / `key_topic`: which stream / topic id the record is *about* (S / T for "same",
/// S+1 / T+1 for "other"); `key_user`: whose record it is.
pub fn decode(idx: u64, key_stream: u32, key_topic: u32) -> Option<Permissions> {
    let g = idx / NS;
    let sr = idx % NS;
    if g == 0 {
        return None;
    }
    let f = g - 1;
    let global = GlobalPermissions {
        manage_servers: bit(f, 0),
        read_servers: bit(f, 1),
        manage_users: bit(f, 2),
        read_users: bit(f, 3),
        manage_streams: bit(f, 4),
        read_streams: bit(f, 5),
        manage_topics: bit(f, 6),
        read_topics: bit(f, 7),
        poll_messages: bit(f, 8),
        send_messages: bit(f, 9),
    };
    let streams = if sr == 0 {
        None
    } else {
        let x = sr - 1;
        let sf = x / 18;
        let tc = x % 18;
        let topics = match tc {
            0 => None,
            1 => {
                let mut m = AHashMap::new();
                m.insert(
                    key_topic + 1,
                    TopicPermissions {
                        manage_topic: true,
                        read_topic: true,
                        poll_messages: true,
                        send_messages: true,
                    },
                );
                Some(m)
            }
            _ => {
                let tf = tc - 2;
                let mut m = AHashMap::new();
                m.insert(
                    key_topic,
                    TopicPermissions {
                        manage_topic: bit(tf, 0),
                        read_topic: bit(tf, 1),
                        poll_messages: bit(tf, 2),
                        send_messages: bit(tf, 3),
                    },
                );
                Some(m)
            }
        };
        let mut m = AHashMap::new();
        m.insert(
            key_stream,
            StreamPermissions {
                manage_stream: bit(sf, 0),
                read_stream: bit(sf, 1),
                manage_topics: bit(sf, 2),
                read_topics: bit(sf, 3),
                poll_messages: bit(sf, 4),
                send_messages: bit(sf, 5),
                topics,
            },
        );
        Some(m)
    };
    Some(Permissions { global, streams })
}

/// perm <from> <to> <variant>   variant: same | other-stream | other-topic | other-user
pub fn run(args: &[String]) {
    // rule panics are expected outcomes here: keep stderr quiet
    std::panic::set_hook(Box::new(|_| {}));
    let from: u64 = args[0].parse().unwrap();
    let to: u64 = args[1].parse().unwrap();
    let variant = args.get(2).map(|s| s.as_str()).unwrap_or("same");
    let (ks, kt, ku) = match variant {
        "other-stream" => (S + 1, T, U),
        "other-topic" => (S, T + 1, U),
        "other-user" => (S, T, U + 1),
        _ => (S, T, U),
    };
    let out = std::io::stdout();
    let mut out = std::io::BufWriter::new(out.lock());
    writeln!(out, "rules {}", perm_gen::RULES.join(",")).unwrap();
    for idx in from..to {
        let mut p = Permissioner::default();
        p.init_permissions_for_user(ku, decode(idx, ks, kt));
        let r = perm_gen::eval_all(&p, U, S, T);
        let line: String = r.iter().map(|c| char::from(b'0' + c)).collect();
        writeln!(out, "{line}").unwrap();
    }
}

/// neighbours of a record: one flag flipped (global / stream / topic), the stream table dropped, the topic
/// table dropped, the whole record dropped
fn neighbours(idx: u64) -> Vec<u64> {
    let g = idx / NS;
    let sr = idx % NS;
    let mut out = vec![];
    if g == 0 {
        return vec![NS + sr]; // no record -> a record without any flag
    }
    out.push(sr); // record dropped
    let f = g - 1;
    for b in 0..10 {
        out.push((1 + (f ^ (1 << b))) * NS + sr);
    }
    if sr == 0 {
        out.push(g * NS + 1); // a stream record appears (no flags, no topic table)
        return out;
    }
    out.push(g * NS); // stream table dropped
    let x = sr - 1;
    let sf = x / 18;
    let tc = x % 18;
    for b in 0..6 {
        out.push(g * NS + 1 + (sf ^ (1 << b)) * 18 + tc);
    }
    if tc != 0 {
        out.push(g * NS + 1 + sf * 18); // topic table dropped
    }
    if tc >= 2 {
        let tf = tc - 2;
        for b in 0..4 {
            out.push(g * NS + 1 + sf * 18 + 2 + (tf ^ (1 << b)));
        }
    } else {
        out.push(g * NS + 1 + sf * 18 + 2); // a topic record appears
    }
    out
}

/// perm-update <from> <to> <stride> : table maintenance. For every record A of the range and every
/// neighbour B: the real tables after `init(A); update(B)` must answer every rule exactly like the real
/// tables after `init(B)` on a fresh Permissioner (changes apply to the next request, nothing of the old
/// record survives), and after `init(A); delete` like an empty Permissioner.
pub fn run_update(args: &[String]) {
    std::panic::set_hook(Box::new(|_| {}));
    let from: u64 = args[0].parse().unwrap();
    let to: u64 = args[1].parse().unwrap();
    let stride: u64 = args.get(2).map(|s| s.parse().unwrap()).unwrap_or(1);
    let out = std::io::stdout();
    let mut out = std::io::BufWriter::new(out.lock());
    let empty = perm_gen::eval_all(&Permissioner::default(), U, S, T);
    let (mut pairs, mut bad) = (0u64, 0u64);
    let mut idx = from;
    while idx < to {
        let a = decode(idx, S, T);
        let mut p = Permissioner::default();
        p.init_permissions_for_user(U, a.clone());
        p.delete_permissions_for_user(U);
        let r = perm_gen::eval_all(&p, U, S, T);
        pairs += 1;
        if r != empty {
            bad += 1;
            writeln!(out, "MISMATCH-DELETE a={idx} rules={}", diff_rules(&r, &empty)).unwrap();
        }
        for b_idx in neighbours(idx) {
            let b = decode(b_idx, S, T);
            let mut p = Permissioner::default();
            p.init_permissions_for_user(U, a.clone());
            p.update_permissions_for_user(U, b.clone());
            let got = perm_gen::eval_all(&p, U, S, T);
            let mut q = Permissioner::default();
            q.init_permissions_for_user(U, b);
            let want = perm_gen::eval_all(&q, U, S, T);
            pairs += 1;
            if got != want {
                bad += 1;
                if bad <= 50 {
                    writeln!(out, "MISMATCH-UPDATE a={idx} b={b_idx} rules={}", diff_rules(&got, &want)).unwrap();
                }
            }
        }
        idx += stride;
    }
    writeln!(out, "DONE pairs={pairs} bad={bad}").unwrap();
}

fn diff_rules(got: &[u8], want: &[u8]) -> String {
    perm_gen::RULES
        .iter()
        .zip(got.iter().zip(want.iter()))
        .filter(|(_, (g, w))| g != w)
        .map(|(n, (g, w))| format!("{n}:{g}!={w}"))
        .collect::<Vec<_>>()
        .join(",")
}
