//! Structure-aware random generators of VALID wire values (property C13): every value is built with the
//! SDK's own constructors and passes the SDK's own `validate()`.
//!
//! `edge` (a percentage) switches on "edge probes": values that `validate()` ACCEPTS but that we suspect
//! the wire format cannot carry faithfully (e.g. `partition_id: Some(0)`, an empty optional string, a
//! zero expiry duration, 256 snapshot types, a header key that grows when lower-cased, a one-character
//! personal access token ...). They are expected to come out as MISMATCH/ERROR and are findings.
use ahash::AHashMap;
use bytes::Bytes;
use iggy::compression::compression_algorithm::CompressionAlgorithm;
use iggy::consumer::Consumer;
use iggy::consumer_groups::create_consumer_group::CreateConsumerGroup;
use iggy::consumer_groups::delete_consumer_group::DeleteConsumerGroup;
use iggy::consumer_groups::get_consumer_group::GetConsumerGroup;
use iggy::consumer_groups::get_consumer_groups::GetConsumerGroups;
use iggy::consumer_groups::join_consumer_group::JoinConsumerGroup;
use iggy::consumer_groups::leave_consumer_group::LeaveConsumerGroup;
use iggy::consumer_offsets::delete_consumer_offset::DeleteConsumerOffset;
use iggy::consumer_offsets::get_consumer_offset::GetConsumerOffset;
use iggy::consumer_offsets::store_consumer_offset::StoreConsumerOffset;
use iggy::identifier::Identifier;
use iggy::messages::flush_unsaved_buffer::FlushUnsavedBuffer;
use iggy::messages::poll_messages::{PollMessages, PollingStrategy};
use iggy::messages::send_messages::{Message, Partitioning, SendMessages};
use iggy::models::header::{HeaderKey, HeaderValue};
use iggy::models::permissions::{
    GlobalPermissions, Permissions, StreamPermissions, TopicPermissions,
};
use iggy::models::user_status::UserStatus;
use iggy::partitions::create_partitions::CreatePartitions;
use iggy::partitions::delete_partitions::DeletePartitions;
use iggy::personal_access_tokens::create_personal_access_token::CreatePersonalAccessToken;
use iggy::personal_access_tokens::delete_personal_access_token::DeletePersonalAccessToken;
use iggy::personal_access_tokens::get_personal_access_tokens::GetPersonalAccessTokens;
use iggy::personal_access_tokens::login_with_personal_access_token::LoginWithPersonalAccessToken;
use iggy::snapshot::{SnapshotCompression, SystemSnapshotType};
use iggy::streams::create_stream::CreateStream;
use iggy::streams::delete_stream::DeleteStream;
use iggy::streams::get_stream::GetStream;
use iggy::streams::get_streams::GetStreams;
use iggy::streams::purge_stream::PurgeStream;
use iggy::streams::update_stream::UpdateStream;
use iggy::system::get_client::GetClient;
use iggy::system::get_clients::GetClients;
use iggy::system::get_me::GetMe;
use iggy::system::get_snapshot::GetSnapshot;
use iggy::system::get_stats::GetStats;
use iggy::system::ping::Ping;
use iggy::topics::create_topic::CreateTopic;
use iggy::topics::delete_topic::DeleteTopic;
use iggy::topics::get_topic::GetTopic;
use iggy::topics::get_topics::GetTopics;
use iggy::topics::purge_topic::PurgeTopic;
use iggy::topics::update_topic::UpdateTopic;
use iggy::users::change_password::ChangePassword;
use iggy::users::create_user::CreateUser;
use iggy::users::delete_user::DeleteUser;
use iggy::users::get_user::GetUser;
use iggy::users::get_users::GetUsers;
use iggy::users::login_user::LoginUser;
use iggy::users::logout_user::LogoutUser;
use iggy::users::update_permissions::UpdatePermissions;
use iggy::users::update_user::UpdateUser;
use iggy::utils::byte_size::IggyByteSize;
use iggy::utils::duration::IggyDuration;
use iggy::utils::expiry::IggyExpiry;
use iggy::utils::topic_size::MaxTopicSize;
use server::state::command::EntryCommand;
use server::state::models::CreatePersonalAccessTokenWithHash;
use server::ServerCommand;
use std::collections::HashMap;
use std::str::FromStr;
use std::time::Duration;

/// xorshift64* - small, deterministic, no dependency.
pub struct Rng {
    s: u64,
    pub edge: u64,
    /// an edge probe went into the value being generated
    pub edged: bool,
}

impl Rng {
    pub fn new(seed: u64, edge: u64) -> Self {
        let mut s = seed.wrapping_mul(0x9E37_79B9_7F4A_7C15) ^ 0xD1B5_4A32_D192_ED03;
        if s == 0 {
            s = 0x1234_5678_9ABC_DEF1;
        }
        let mut r = Rng { s, edge, edged: false };
        for _ in 0..8 {
            r.next();
        }
        r
    }
    pub fn next(&mut self) -> u64 {
        let mut x = self.s;
        x ^= x >> 12;
        x ^= x << 25;
        x ^= x >> 27;
        self.s = x;
        x.wrapping_mul(0x2545_F491_4F6C_DD1D)
    }
    pub fn below(&mut self, n: u64) -> u64 {
        self.next() % n
    }
    /// inclusive range
    pub fn range(&mut self, lo: u64, hi: u64) -> u64 {
        lo + self.below(hi - lo + 1)
    }
    pub fn chance(&mut self, pct: u64) -> bool {
        self.below(100) < pct
    }
    pub fn flip(&mut self) -> bool {
        self.next() & 1 == 1
    }
    pub fn is_edge(&mut self) -> bool {
        let e = self.edge;
        let hit = e > 0 && self.chance(e);
        self.edged |= hit;
        hit
    }
    pub fn bytes(&mut self, n: usize) -> Vec<u8> {
        (0..n).map(|_| self.next() as u8).collect()
    }
    pub fn u128(&mut self) -> u128 {
        ((self.next() as u128) << 64) | self.next() as u128
    }
}

fn pick_u32(r: &mut Rng) -> u32 {
    match r.below(10) {
        0 => 1,
        1 => 2,
        2 => 255,
        3 => 256,
        4 => 65_536,
        5 => u32::MAX,
        6 => u32::MAX - 1,
        _ => (r.next() as u32).max(1),
    }
}

fn pick_u64(r: &mut Rng) -> u64 {
    match r.below(8) {
        0 => 0,
        1 => 1,
        2 => u64::MAX,
        3 => u64::MAX - 1,
        4 => u32::MAX as u64 + 1,
        _ => r.next(),
    }
}

/// A valid UTF-8 string of EXACTLY `n` bytes mixing 1-, 2-, 3- and 4-byte scalars.
pub fn utf8(r: &mut Rng, n: usize) -> String {
    let mut s = String::with_capacity(n);
    while s.len() < n {
        let rem = n - s.len();
        let w = if r.chance(60) { 1 } else { 1 + r.below(rem.min(4) as u64) as usize };
        let c = match w {
            1 => r.below(0x80) as u32,
            2 => r.range(0x80, 0x7FF) as u32,
            3 => loop {
                let c = r.range(0x800, 0xFFFF) as u32;
                if !(0xD800..=0xDFFF).contains(&c) {
                    break c;
                }
            },
            _ => r.range(0x10000, 0x10FFFF) as u32,
        };
        s.push(char::from_u32(c).unwrap());
    }
    assert_eq!(s.len(), n);
    s
}

/// Length in [min, max] biased to the boundaries.
pub fn blen(r: &mut Rng, min: usize, max: usize) -> usize {
    match r.below(8) {
        0 => min,
        1 => max,
        2 => (min + 1).min(max),
        3 => max.saturating_sub(1).max(min),
        _ => r.range(min as u64, max as u64) as usize,
    }
}

pub fn name(r: &mut Rng, min: usize, max: usize) -> String {
    let n = blen(r, min, max);
    utf8(r, n)
}

pub fn ident(r: &mut Rng) -> Identifier {
    if r.chance(40) {
        Identifier::numeric(pick_u32(r)).unwrap()
    } else {
        let n = match r.below(8) {
            0 => 1,
            1 => 2,
            2 => 3,
            3 => 255,
            4 => 254,
            _ => r.range(1, 255) as usize,
        };
        Identifier::named(&utf8(r, n)).unwrap()
    }
}

pub fn consumer(r: &mut Rng) -> Consumer {
    if r.flip() {
        Consumer::new(ident(r))
    } else {
        Consumer::group(ident(r))
    }
}

pub fn partitioning(r: &mut Rng) -> Partitioning {
    match r.below(8) {
        0 | 1 => Partitioning::balanced(),
        2 | 3 => Partitioning::partition_id(pick_u32(r)),
        4 => Partitioning::messages_key_u32(r.next() as u32),
        5 => Partitioning::messages_key_u64(r.next()),
        6 => Partitioning::messages_key_u128(r.u128()),
        _ => {
            let n = blen(r, 1, 255);
            Partitioning::messages_key(&r.bytes(n)).unwrap()
        }
    }
}

pub fn strategy(r: &mut Rng) -> PollingStrategy {
    match r.below(5) {
        0 => PollingStrategy::offset(pick_u64(r)),
        1 => PollingStrategy::timestamp(pick_u64(r).into()),
        2 => PollingStrategy::first(),
        3 => PollingStrategy::last(),
        _ => PollingStrategy::next(),
    }
}

pub fn opt_id(r: &mut Rng) -> Option<u32> {
    if r.flip() {
        None
    } else {
        Some(pick_u32(r))
    }
}

/// Optional partition id of poll / consumer-offset commands; `validate()` accepts `Some(0)` (edge).
pub fn opt_partition(r: &mut Rng) -> Option<u32> {
    if r.is_edge() {
        return Some(0);
    }
    opt_id(r)
}

pub fn header_value(r: &mut Rng, kind: u64) -> HeaderValue {
    match kind % 15 {
        0 => {
            let n = blen(r, 1, 255);
            HeaderValue::from_raw(&r.bytes(n)).unwrap()
        }
        1 => {
            let n = blen(r, 1, 255);
            HeaderValue::from_str(&utf8(r, n)).unwrap()
        }
        2 => HeaderValue::from_bool(r.flip()).unwrap(),
        3 => HeaderValue::from_int8(r.next() as i8).unwrap(),
        4 => HeaderValue::from_int16(r.next() as i16).unwrap(),
        5 => HeaderValue::from_int32(r.next() as i32).unwrap(),
        6 => HeaderValue::from_int64(r.next() as i64).unwrap(),
        7 => HeaderValue::from_int128(r.u128() as i128).unwrap(),
        8 => HeaderValue::from_uint8(r.next() as u8).unwrap(),
        9 => HeaderValue::from_uint16(r.next() as u16).unwrap(),
        10 => HeaderValue::from_uint32(r.next() as u32).unwrap(),
        11 => HeaderValue::from_uint64(r.next()).unwrap(),
        12 => HeaderValue::from_uint128(r.u128()).unwrap(),
        13 => HeaderValue::from_float32(f32::from_bits(r.next() as u32)).unwrap(),
        _ => HeaderValue::from_float64(f64::from_bits(r.next())).unwrap(),
    }
}

pub fn header_key(r: &mut Rng) -> HeaderKey {
    loop {
        let n = blen(r, 1, 255);
        let s = utf8(r, n);
        let l = s.to_lowercase();
        if !l.is_empty() && l.len() <= 255 {
            return HeaderKey::new(&s).unwrap();
        }
    }
}

/// 255 bytes, accepted by `HeaderKey::new`, but `to_lowercase` turns every 2-byte U+0130 into 3 bytes.
/// 255 bytes that grow to 382 when lower-cased: refused by `HeaderKey::new` since fix bbd23c0
pub fn growing_header_key() -> Option<HeaderKey> {
    HeaderKey::new(&format!("{}a", "\u{0130}".repeat(127))).ok()
}

pub fn headers(r: &mut Rng, max: u64) -> Option<HashMap<HeaderKey, HeaderValue>> {
    match r.below(6) {
        0 | 1 => None,
        2 => Some(HashMap::new()), // normalised: travels as "absent"
        _ => {
            let n = r.range(1, max);
            let off = r.below(15);
            let mut m = HashMap::new();
            for i in 0..n {
                m.insert(header_key(r), header_value(r, off + i));
            }
            if r.is_edge() {
                if let Some(k) = growing_header_key() {
                    m.insert(k, header_value(r, off));
                }
            }
            Some(m)
        }
    }
}

pub fn message(r: &mut Rng, large: bool) -> Message {
    let n = if large {
        r.range(50_000, 100_000) as usize
    } else {
        match r.below(6) {
            0 => 1,
            1 => 2,
            2 => r.range(1000, 5000) as usize,
            _ => r.range(1, 100) as usize,
        }
    };
    let id = match r.below(4) {
        0 => None,
        1 => Some(0),
        _ => Some(r.u128().max(1)),
    };
    Message::new(id, Bytes::from(r.bytes(n)), headers(r, 16))
}

pub fn send_messages(r: &mut Rng) -> SendMessages {
    let large = r.chance(8);
    let n = if large { 1 } else { blen(r, 1, 8) };
    let mut messages: Vec<Message> = (0..n).map(|_| message(r, large)).collect();
    if r.is_edge() {
        // validate() only rejects a batch whose TOTAL payload is empty.
        messages.push(Message::new(Some(7), Bytes::new(), None));
    }
    SendMessages {
        stream_id: ident(r),
        topic_id: ident(r),
        partitioning: partitioning(r),
        messages,
    }
}

pub fn expiry(r: &mut Rng) -> IggyExpiry {
    if r.is_edge() {
        return match r.below(3) {
            0 => IggyExpiry::ExpireDuration(IggyDuration::new(Duration::ZERO)),
            1 => IggyExpiry::ExpireDuration(IggyDuration::new(Duration::from_nanos(1_500))),
            _ => IggyExpiry::ExpireDuration(IggyDuration::new(Duration::from_micros(u64::MAX))),
        };
    }
    match r.below(6) {
        0 => IggyExpiry::ServerDefault,
        1 => IggyExpiry::NeverExpire,
        2 => IggyExpiry::ExpireDuration(IggyDuration::from(1u64)),
        3 => IggyExpiry::ExpireDuration(IggyDuration::from(u64::MAX - 1)),
        4 => IggyExpiry::ExpireDuration(IggyDuration::new_from_secs(r.range(1, u32::MAX as u64))),
        _ => IggyExpiry::ExpireDuration(IggyDuration::from(r.range(1, u64::MAX - 1))),
    }
}

pub fn max_size(r: &mut Rng) -> MaxTopicSize {
    if r.is_edge() {
        return if r.flip() {
            MaxTopicSize::Custom(IggyByteSize::from(0))
        } else {
            MaxTopicSize::Custom(IggyByteSize::from(u64::MAX))
        };
    }
    match r.below(5) {
        0 => MaxTopicSize::ServerDefault,
        1 => MaxTopicSize::Unlimited,
        2 => MaxTopicSize::Custom(IggyByteSize::from(1)),
        3 => MaxTopicSize::Custom(IggyByteSize::from(u64::MAX - 1)),
        _ => MaxTopicSize::Custom(IggyByteSize::from(r.range(1, u64::MAX - 1))),
    }
}

pub fn compression(r: &mut Rng) -> CompressionAlgorithm {
    if r.flip() {
        CompressionAlgorithm::None
    } else {
        CompressionAlgorithm::Gzip
    }
}

pub fn replication(r: &mut Rng) -> Option<u8> {
    match r.below(4) {
        0 => None,
        1 => Some(1),
        2 => Some(255),
        _ => Some(r.range(1, 255) as u8),
    }
}

pub fn status(r: &mut Rng) -> UserStatus {
    if r.flip() {
        UserStatus::Active
    } else {
        UserStatus::Inactive
    }
}

fn topic_perm(r: &mut Rng) -> TopicPermissions {
    TopicPermissions {
        manage_topic: r.flip(),
        read_topic: r.flip(),
        poll_messages: r.flip(),
        send_messages: r.flip(),
    }
}

fn stream_perm(r: &mut Rng) -> StreamPermissions {
    let topics = match r.below(5) {
        0 | 1 => None,
        2 => Some(AHashMap::new()), // normalised: travels as "absent"
        _ => {
            let n = r.range(1, 4);
            let mut m = AHashMap::new();
            for _ in 0..n {
                m.insert(pick_u32(r), topic_perm(r));
            }
            Some(m)
        }
    };
    StreamPermissions {
        manage_stream: r.flip(),
        read_stream: r.flip(),
        manage_topics: r.flip(),
        read_topics: r.flip(),
        poll_messages: r.flip(),
        send_messages: r.flip(),
        topics,
    }
}

pub fn permissions(r: &mut Rng) -> Permissions {
    let global = GlobalPermissions {
        manage_servers: r.flip(),
        read_servers: r.flip(),
        manage_users: r.flip(),
        read_users: r.flip(),
        manage_streams: r.flip(),
        read_streams: r.flip(),
        manage_topics: r.flip(),
        read_topics: r.flip(),
        poll_messages: r.flip(),
        send_messages: r.flip(),
    };
    let streams = match r.below(5) {
        0 | 1 => None,
        2 => Some(AHashMap::new()), // normalised: travels as "absent"
        _ => {
            let n = r.range(1, 5);
            let mut m = AHashMap::new();
            for _ in 0..n {
                m.insert(pick_u32(r), stream_perm(r));
            }
            Some(m)
        }
    };
    Permissions { global, streams }
}

pub fn opt_permissions(r: &mut Rng) -> Option<Permissions> {
    if r.chance(25) {
        None
    } else {
        Some(permissions(r))
    }
}

fn opt_meta(r: &mut Rng) -> Option<String> {
    if r.is_edge() {
        return Some(String::new());
    }
    match r.below(3) {
        0 => None,
        1 => Some(utf8(r, 1)),
        _ => {
            let n = r.range(1, 300) as usize;
            Some(utf8(r, n))
        }
    }
}

pub fn create_stream(r: &mut Rng) -> CreateStream {
    CreateStream {
        stream_id: opt_id(r),
        name: name(r, 1, 255),
    }
}

pub fn update_stream(r: &mut Rng) -> UpdateStream {
    UpdateStream {
        stream_id: ident(r),
        name: name(r, 1, 255),
    }
}

pub fn create_topic(r: &mut Rng) -> CreateTopic {
    CreateTopic {
        stream_id: ident(r),
        topic_id: opt_id(r),
        partitions_count: match r.below(4) {
            0 => 0,
            1 => 1000,
            2 => 1,
            _ => r.range(0, 1000) as u32,
        },
        compression_algorithm: compression(r),
        message_expiry: expiry(r),
        max_topic_size: max_size(r),
        replication_factor: replication(r),
        name: name(r, 1, 255),
    }
}

pub fn update_topic(r: &mut Rng) -> UpdateTopic {
    UpdateTopic {
        stream_id: ident(r),
        topic_id: ident(r),
        compression_algorithm: compression(r),
        message_expiry: expiry(r),
        max_topic_size: max_size(r),
        replication_factor: replication(r),
        name: name(r, 1, 255),
    }
}

fn partitions_count(r: &mut Rng) -> u32 {
    match r.below(4) {
        0 => 1,
        1 => 1000,
        _ => r.range(1, 1000) as u32,
    }
}

pub fn create_group(r: &mut Rng) -> CreateConsumerGroup {
    CreateConsumerGroup {
        stream_id: ident(r),
        topic_id: ident(r),
        group_id: opt_id(r),
        name: name(r, 1, 255),
    }
}

pub fn create_user(r: &mut Rng) -> CreateUser {
    CreateUser {
        username: name(r, 3, 50),
        password: name(r, 3, 100),
        status: status(r),
        permissions: opt_permissions(r),
    }
}

pub fn update_user(r: &mut Rng) -> UpdateUser {
    UpdateUser {
        user_id: ident(r),
        username: if r.flip() { None } else { Some(name(r, 3, 50)) },
        status: if r.flip() { None } else { Some(status(r)) },
    }
}

pub fn update_permissions(r: &mut Rng) -> UpdatePermissions {
    UpdatePermissions {
        user_id: ident(r),
        permissions: opt_permissions(r),
    }
}

pub fn change_password(r: &mut Rng) -> ChangePassword {
    ChangePassword {
        user_id: ident(r),
        current_password: name(r, 3, 100),
        new_password: name(r, 3, 100),
    }
}

pub fn create_pat(r: &mut Rng) -> CreatePersonalAccessToken {
    CreatePersonalAccessToken {
        name: name(r, 3, 30),
        expiry: expiry(r),
    }
}

pub fn snapshot(r: &mut Rng) -> GetSnapshot {
    let compression = match r.below(6) {
        0 => SnapshotCompression::Stored,
        1 => SnapshotCompression::Deflated,
        2 => SnapshotCompression::Bzip2,
        3 => SnapshotCompression::Zstd,
        4 => SnapshotCompression::Lzma,
        _ => SnapshotCompression::Xz,
    };
    let one = |r: &mut Rng| match r.below(6) {
        0 => SystemSnapshotType::FilesystemOverview,
        1 => SystemSnapshotType::ProcessList,
        2 => SystemSnapshotType::ResourceUsage,
        3 => SystemSnapshotType::Test,
        4 => SystemSnapshotType::ServerLogs,
        _ => SystemSnapshotType::ServerConfig,
    };
    let snapshot_types = if r.is_edge() {
        // validate() does not bound the number of (repeatable) types; the count travels in one byte.
        let n = r.range(256, 300);
        (0..n).map(|_| one(r)).collect()
    } else {
        match r.below(5) {
            0 => vec![SystemSnapshotType::All],
            1 => vec![],
            2 => {
                let n = 255;
                (0..n).map(|_| one(r)).collect()
            }
            _ => {
                let n = r.range(1, 8);
                (0..n).map(|_| one(r)).collect()
            }
        }
    };
    GetSnapshot {
        snapshot_types,
        compression,
    }
}

pub const N_COMMANDS: u64 = 45;

/// `which` in 0..45, in the order of the `ServerCommand` enum.
pub fn server_command(r: &mut Rng, which: u64) -> ServerCommand {
    use ServerCommand as C;
    match which {
        0 => C::Ping(Ping {}),
        1 => C::GetStats(GetStats {}),
        2 => C::GetMe(GetMe {}),
        3 => C::GetClient(GetClient {
            client_id: pick_u32(r),
        }),
        4 => C::GetClients(GetClients {}),
        5 => C::GetUser(GetUser { user_id: ident(r) }),
        6 => C::GetUsers(GetUsers {}),
        7 => C::CreateUser(create_user(r)),
        8 => C::DeleteUser(DeleteUser { user_id: ident(r) }),
        9 => C::UpdateUser(update_user(r)),
        10 => C::UpdatePermissions(update_permissions(r)),
        11 => C::ChangePassword(change_password(r)),
        12 => C::LoginUser(LoginUser {
            username: name(r, 3, 50),
            password: name(r, 3, 100),
            version: opt_meta(r),
            context: opt_meta(r),
        }),
        13 => C::LogoutUser(LogoutUser {}),
        14 => C::GetPersonalAccessTokens(GetPersonalAccessTokens {}),
        15 => C::CreatePersonalAccessToken(create_pat(r)),
        16 => C::DeletePersonalAccessToken(DeletePersonalAccessToken {
            name: name(r, 3, 30),
        }),
        17 => C::LoginWithPersonalAccessToken(LoginWithPersonalAccessToken {
            // validate(): 1..=100 bytes; the decoder's length guard assumes at least 3 (edge).
            token: if r.is_edge() {
                let n = r.range(1, 2) as usize;
                utf8(r, n)
            } else {
                name(r, 3, 100)
            },
        }),
        18 => C::SendMessages(send_messages(r)),
        19 => C::PollMessages(PollMessages {
            consumer: consumer(r),
            stream_id: ident(r),
            topic_id: ident(r),
            partition_id: opt_partition(r),
            strategy: strategy(r),
            count: r.next() as u32,
            auto_commit: r.flip(),
        }),
        20 => C::FlushUnsavedBuffer(FlushUnsavedBuffer {
            stream_id: ident(r),
            topic_id: ident(r),
            partition_id: r.next() as u32,
            fsync: r.flip(),
        }),
        21 => C::GetConsumerOffset(GetConsumerOffset {
            consumer: consumer(r),
            stream_id: ident(r),
            topic_id: ident(r),
            partition_id: opt_partition(r),
        }),
        22 => C::StoreConsumerOffset(StoreConsumerOffset {
            consumer: consumer(r),
            stream_id: ident(r),
            topic_id: ident(r),
            partition_id: opt_partition(r),
            offset: pick_u64(r),
        }),
        23 => C::DeleteConsumerOffset(DeleteConsumerOffset {
            consumer: consumer(r),
            stream_id: ident(r),
            topic_id: ident(r),
            partition_id: opt_partition(r),
        }),
        24 => C::GetStream(GetStream { stream_id: ident(r) }),
        25 => C::GetStreams(GetStreams {}),
        26 => C::CreateStream(create_stream(r)),
        27 => C::DeleteStream(DeleteStream { stream_id: ident(r) }),
        28 => C::UpdateStream(update_stream(r)),
        29 => C::PurgeStream(PurgeStream { stream_id: ident(r) }),
        30 => C::GetTopic(GetTopic {
            stream_id: ident(r),
            topic_id: ident(r),
        }),
        31 => C::GetTopics(GetTopics { stream_id: ident(r) }),
        32 => C::CreateTopic(create_topic(r)),
        33 => C::DeleteTopic(DeleteTopic {
            stream_id: ident(r),
            topic_id: ident(r),
        }),
        34 => C::UpdateTopic(update_topic(r)),
        35 => C::PurgeTopic(PurgeTopic {
            stream_id: ident(r),
            topic_id: ident(r),
        }),
        36 => C::CreatePartitions(CreatePartitions {
            stream_id: ident(r),
            topic_id: ident(r),
            partitions_count: partitions_count(r),
        }),
        37 => C::DeletePartitions(DeletePartitions {
            stream_id: ident(r),
            topic_id: ident(r),
            partitions_count: partitions_count(r),
        }),
        38 => C::GetConsumerGroup(GetConsumerGroup {
            stream_id: ident(r),
            topic_id: ident(r),
            group_id: ident(r),
        }),
        39 => C::GetConsumerGroups(GetConsumerGroups {
            stream_id: ident(r),
            topic_id: ident(r),
        }),
        40 => C::CreateConsumerGroup(create_group(r)),
        41 => C::DeleteConsumerGroup(DeleteConsumerGroup {
            stream_id: ident(r),
            topic_id: ident(r),
            group_id: ident(r),
        }),
        42 => C::JoinConsumerGroup(JoinConsumerGroup {
            stream_id: ident(r),
            topic_id: ident(r),
            group_id: ident(r),
        }),
        43 => C::LeaveConsumerGroup(LeaveConsumerGroup {
            stream_id: ident(r),
            topic_id: ident(r),
            group_id: ident(r),
        }),
        _ => C::GetSnapshotFile(snapshot(r)),
    }
}

pub const N_ENTRY_COMMANDS: u64 = 19;

pub fn entry_command(r: &mut Rng, which: u64) -> EntryCommand {
    use EntryCommand as E;
    match which % N_ENTRY_COMMANDS {
        0 => E::CreateStream(create_stream(r)),
        1 => E::UpdateStream(update_stream(r)),
        2 => E::DeleteStream(DeleteStream { stream_id: ident(r) }),
        3 => E::PurgeStream(PurgeStream { stream_id: ident(r) }),
        4 => E::CreateTopic(create_topic(r)),
        5 => E::UpdateTopic(update_topic(r)),
        6 => E::DeleteTopic(DeleteTopic {
            stream_id: ident(r),
            topic_id: ident(r),
        }),
        7 => E::PurgeTopic(PurgeTopic {
            stream_id: ident(r),
            topic_id: ident(r),
        }),
        8 => E::CreatePartitions(CreatePartitions {
            stream_id: ident(r),
            topic_id: ident(r),
            partitions_count: partitions_count(r),
        }),
        9 => E::DeletePartitions(DeletePartitions {
            stream_id: ident(r),
            topic_id: ident(r),
            partitions_count: partitions_count(r),
        }),
        10 => E::CreateConsumerGroup(create_group(r)),
        11 => E::DeleteConsumerGroup(DeleteConsumerGroup {
            stream_id: ident(r),
            topic_id: ident(r),
            group_id: ident(r),
        }),
        12 => E::CreateUser(create_user(r)),
        13 => E::UpdateUser(update_user(r)),
        14 => E::DeleteUser(DeleteUser { user_id: ident(r) }),
        15 => E::ChangePassword(change_password(r)),
        16 => E::UpdatePermissions(update_permissions(r)),
        17 => E::CreatePersonalAccessToken(CreatePersonalAccessTokenWithHash {
            command: create_pat(r),
            hash: {
                let n = r.range(0, 80) as usize;
                utf8(r, n)
            },
        }),
        _ => E::DeletePersonalAccessToken(DeletePersonalAccessToken {
            name: name(r, 3, 30),
        }),
    }
}
