#!/usr/bin/env python3
"""Rust-subset -> Lean translator for the permission rules (C09).

Input : /repo/server/src/streaming/users/permissioner_rules/*.rs
Output: /verif/lean/Iggy/Perm/Generated.lean  — one `def rule_<name> (t : Tables) (user_id [stream_id [topic_id]] : Nat) : Res`
        per Rust function, in dependency order, plus `allRules`.

Accepted subset (closed; anything else aborts with file:line):
  [pub] fn name(&self, user_id: u32 [, stream_id: u32 [, topic_id: u32]]) -> Result<(), IggyError> { stmts [expr] }
  stmts: `if let Some(x) = E { … }` · `if E { … }` · `let x = E;` · `return E;` · tail expression
  exprs: `a || b`, `a | b`, `!a`, postfix chains on identifiers / `self`:
         `.field`, `.get(&K)`, `.contains(&K)`, `.is_none()`, `.is_some()`, `.unwrap()`, `.as_ref()`,
         `.and_then(|x| E)`, `self.<rule>(args)`; keys `x` or `(x, y)`;
         `Ok(())`, `Err(IggyError::Unauthorized)`, `match E { true => E, false => E }`
`unwrap()` of `none` is `Res.panic`.
"""
import glob, os, re, sys

SRC = "/repo/server/src/streaming/users/permissioner_rules"
OUT = "/verif/lean/Iggy/Perm/Generated.lean"


class TErr(Exception):
    pass


TOK = re.compile(r"""\s*(?:(//[^\n]*)|(\|\||=>|->|::|[A-Za-z_][A-Za-z0-9_]*|[0-9]+|[{}()\[\];,.&|!=<>:]))""")


def tokenize(src, fname):
    toks = []
    pos = 0
    line = 1
    while pos < len(src):
        m = TOK.match(src, pos)
        if not m:
            if src[pos:].strip() == "":
                break
            raise TErr(f"{fname}:{line}: cannot tokenize near {src[pos:pos+30]!r}")
        line += src[pos:m.end()].count("\n")
        pos = m.end()
        if m.group(2):
            toks.append((m.group(2), line))
    return toks


class P:
    def __init__(self, toks, fname):
        self.t = toks
        self.i = 0
        self.f = fname

    def peek(self, k=0):
        return self.t[self.i + k][0] if self.i + k < len(self.t) else None

    def line(self):
        return self.t[min(self.i, len(self.t) - 1)][1]

    def eat(self, s=None):
        tok = self.peek()
        if tok is None or (s is not None and tok != s):
            raise TErr(f"{self.f}:{self.line()}: expected {s!r}, got {tok!r}")
        self.i += 1
        return tok

    def err(self, msg):
        raise TErr(f"{self.f}:{self.line()}: {msg}")

    # ---- items
    def file(self):
        fns = []
        while self.peek() is not None:
            if self.peek() == "use":
                while self.eat() != ";":
                    pass
            elif self.peek() == "impl":
                self.eat("impl")
                self.eat("Permissioner")
                self.eat("{")
                while self.peek() != "}":
                    fns.append(self.fn())
                self.eat("}")
            else:
                self.err(f"unexpected item {self.peek()!r}")
        return fns

    def fn(self):
        is_pub = False
        if self.peek() == "pub":
            self.eat()
            is_pub = True
        self.eat("fn")
        name = self.eat()
        self.eat("(")
        self.eat("&")
        self.eat("self")
        params = []
        while self.peek() == ",":
            self.eat(",")
            if self.peek() == ")":
                break
            p = self.eat()
            self.eat(":")
            self.eat("u32")
            params.append(p)
        self.eat(")")
        for s in ["->", "Result", "<", "(", ")", ",", "IggyError", ">"]:
            self.eat(s)
        if params not in (["user_id"], ["user_id", "stream_id"], ["user_id", "stream_id", "topic_id"]):
            self.err(f"unsupported parameter list {params}")
        body = self.block()
        return {"name": name, "params": params, "body": body, "file": self.f, "pub": is_pub}

    def block(self):
        self.eat("{")
        stmts = []
        while self.peek() != "}":
            stmts.append(self.stmt())
        self.eat("}")
        return stmts

    def stmt(self):
        t = self.peek()
        if t == "if":
            self.eat()
            if self.peek() == "let":
                self.eat("let")
                self.eat("Some")
                self.eat("(")
                x = self.eat()
                self.eat(")")
                self.eat("=")
                e = self.expr(no_struct=True)
                b = self.block()
                if self.peek() == "else":
                    self.err("`else` is outside the accepted subset")
                return ("iflet", x, e, b)
            c = self.expr(no_struct=True)
            b = self.block()
            if self.peek() == "else":
                self.err("`else` is outside the accepted subset")
            return ("if", c, b)
        if t == "let":
            self.eat()
            x = self.eat()
            self.eat("=")
            e = self.expr()
            self.eat(";")
            return ("let", x, e)
        if t == "return":
            self.eat()
            e = self.expr()
            self.eat(";")
            return ("ret", e)
        e = self.expr()
        if self.peek() == ";":
            self.err("expression statements are outside the accepted subset")
        return ("ret", e)

    # ---- expressions
    def expr(self, no_struct=False):
        e = self.unary(no_struct)
        while self.peek() in ("||", "|"):
            self.eat()
            e = ("or", e, self.unary(no_struct))
        return e

    def unary(self, no_struct):
        if self.peek() == "!":
            self.eat()
            return ("not", self.unary(no_struct))
        return self.postfix(no_struct)

    def postfix(self, no_struct):
        e = self.primary(no_struct)
        while self.peek() == ".":
            self.eat(".")
            name = self.eat()
            if self.peek() == "(":
                self.eat("(")
                args = []
                while self.peek() != ")":
                    args.append(self.arg())
                    if self.peek() == ",":
                        self.eat(",")
                self.eat(")")
                e = ("call", e, name, args)
            else:
                e = ("field", e, name)
        return e

    def arg(self):
        if self.peek() == "|":          # closure |x| E
            self.eat("|")
            x = self.eat()
            self.eat("|")
            return ("lam", x, self.expr())
        if self.peek() == "&":
            self.eat("&")
        return self.expr()

    def primary(self, no_struct):
        t = self.peek()
        if t == "(":
            self.eat("(")
            items = [self.expr()]
            while self.peek() == ",":
                self.eat(",")
                items.append(self.expr())
            self.eat(")")
            return items[0] if len(items) == 1 else ("tuple", items)
        if t == "Ok":
            self.eat()
            for s in ["(", "(", ")", ")"]:
                self.eat(s)
            return ("ok",)
        if t == "Err":
            self.eat()
            for s in ["(", "IggyError", "::", "Unauthorized", ")"]:
                self.eat(s)
            return ("unauth",)
        if t == "match":
            self.eat()
            c = self.expr(no_struct=True)
            self.eat("{")
            arms = {}
            for _ in range(2):
                k = self.eat()
                if k not in ("true", "false"):
                    self.err("only `match E { true => …, false => … }` is accepted")
                self.eat("=>")
                arms[k] = self.expr()
                if self.peek() == ",":
                    self.eat(",")
            self.eat("}")
            return ("ite", c, arms["true"], arms["false"])
        if t in ("true", "false"):
            self.eat()
            return ("lit", t)
        if t == "&":
            self.eat()
            return self.primary(no_struct)
        if re.match(r"[A-Za-z_]", t or ""):
            self.eat()
            return ("var", t)
        self.err(f"unexpected token {t!r} in expression")


# ---- emission -----------------------------------------------------------------------------------

class Emit:
    def __init__(self):
        self.n = 0

    def fresh(self):
        self.n += 1
        return f"u{self.n}"

    def hoist(self, e, binds):
        """returns a Lean term for e; every `.unwrap()` is hoisted into `binds` as (var, optionTerm)."""
        k = e[0]
        if k == "var":
            return "t" if e[1] == "self" else e[1]
        if k == "lit":
            return e[1]
        if k == "ok":
            return "Res.ok"
        if k == "unauth":
            return "Res.unauthorized"
        if k == "not":
            return f"(!{self.hoist(e[1], binds)})"
        if k == "or":
            return f"({self.hoist(e[1], binds)} || {self.hoist(e[2], binds)})"
        if k == "tuple":
            return "(" + ", ".join(self.hoist(x, binds) for x in e[1]) + ")"
        if k == "ite":
            return f"(if {self.hoist(e[1], binds)} then {self.hoist(e[2], binds)} else {self.hoist(e[3], binds)})"
        if k == "field":
            return f"({self.hoist(e[1], binds)}).{e[2]}"
        if k == "call":
            recv, name, args = e[1], e[2], e[3]
            if recv == ("var", "self"):
                return f"(rule_{name} t " + " ".join(self.hoist(a, binds) for a in args) + ")"
            r = self.hoist(recv, binds)
            if name == "get" and len(args) == 1:
                return f"(alGet {r} {self.hoist(args[0], binds)})"
            if name == "contains" and len(args) == 1:
                return f"(List.contains {r} {self.hoist(args[0], binds)})"
            if name == "is_none" and not args:
                return f"(Option.isNone {r})"
            if name == "is_some" and not args:
                return f"(Option.isSome {r})"
            if name == "as_ref" and not args:
                return r
            if name == "and_then" and len(args) == 1 and args[0][0] == "lam":
                inner = []
                body = self.hoist(args[0][2], inner)
                if inner:
                    raise TErr("unwrap inside a closure is outside the accepted subset")
                return f"(Option.bind {r} (fun {args[0][1]} => {body}))"
            if name == "unwrap" and not args:
                v = self.fresh()
                binds.append((v, r))
                return v
            raise TErr(f"method .{name}/{len(args)} is outside the accepted subset")
        raise TErr(f"cannot emit {e}")

    def with_binds(self, binds, body, ind):
        for v, opt in reversed(binds):
            body = (f"match {opt} with\n{ind}| none => Res.panic\n{ind}| some {v} =>\n{ind}  " +
                    body.replace("\n", "\n  "))
        return body

    def stmts(self, ss, k, ind):
        """translate statements with continuation k (Lean term for what follows)."""
        if not ss:
            return k
        s, rest = ss[0], ss[1:]
        krest = self.stmts(rest, k, ind)
        if s[0] == "ret":
            b = []
            v = self.hoist(s[1], b)
            return self.with_binds(b, v, ind)
        if s[0] == "let":
            b = []
            v = self.hoist(s[2], b)
            return self.with_binds(b, f"let {s[1]} := {v}\n{ind}{krest}", ind)
        if s[0] == "if":
            b = []
            c = self.hoist(s[1], b)
            body = self.stmts(s[2], "(__k)", ind + "  ")
            # the continuation is duplicated textually (rules are tiny); bind it once for readability
            t = (f"let __k := {krest.replace(chr(10), chr(10) + '  ')}\n{ind}"
                 f"if {c} then\n{ind}  {body}\n{ind}else __k")
            return self.with_binds(b, self.inline_k(t), ind)
        if s[0] == "iflet":
            b = []
            sc = self.hoist(s[2], b)
            body = self.stmts(s[3], "(__k)", ind + "  ")
            t = (f"let __k := {krest.replace(chr(10), chr(10) + '  ')}\n{ind}"
                 f"match {sc} with\n{ind}| some {s[1]} =>\n{ind}  {body}\n{ind}| none => __k")
            return self.with_binds(b, self.inline_k(t), ind)
        raise TErr(f"cannot emit statement {s}")

    def inline_k(self, t):
        return t


def deps(e, acc):
    if isinstance(e, tuple):
        if e[0] == "call" and e[1] == ("var", "self"):
            acc.add(e[2])
        for x in e:
            deps(x, acc)
    elif isinstance(e, list):
        for x in e:
            deps(x, acc)


def main():
    fns = []
    for f in sorted(glob.glob(f"{SRC}/*.rs")):
        if f.endswith("mod.rs"):
            continue
        src = open(f).read()
        fns += P(tokenize(src, f), f).file()
    byname = {}
    for fn in fns:
        if fn["name"] in byname:
            raise TErr(f"duplicate rule {fn['name']}")
        byname[fn["name"]] = fn
    order, seen = [], set()

    def visit(n, stack=()):
        if n in seen:
            return
        if n in stack:
            raise TErr(f"recursive rules: {stack + (n,)}")
        if n not in byname:
            raise TErr(f"rule {n} is called but not defined in the rule files")
        d = set()
        deps(byname[n]["body"], d)
        for m in sorted(d):
            visit(m, stack + (n,))
        seen.add(n)
        order.append(n)
    for n in sorted(byname):
        visit(n)

    out = ["/- GENERATED by /verif/translate/perm_rules.py from",
           "   /repo/server/src/streaming/users/permissioner_rules/*.rs — do not edit. -/",
           "import Iggy.Perm.Tables", "namespace Iggy.Perm", "set_option linter.unusedVariables false", ""]
    for n in order:
        fn = byname[n]
        em = Emit()
        body = em.stmts(fn["body"], "Res.panic /- fell off the end -/", "  ")
        params = " ".join(fn["params"])
        out.append(f"/-- {os.path.basename(fn['file'])}: {n} -/")
        out.append(f"def rule_{n} (t : Tables) ({params} : Nat) : Res :=\n  {body}\n")
    out.append("/-- every rule with its arity (1 = user, 2 = user+stream, 3 = user+stream+topic), applied uniformly -/")
    out.append("def allRules : List (String × (Tables → Nat → Nat → Nat → Res)) := [")
    items = []
    for n in sorted(byname):
        ar = len(byname[n]["params"])
        call = {1: f"rule_{n} t u", 2: f"rule_{n} t u s", 3: f"rule_{n} t u s tp"}[ar]
        items.append(f'  ("{n}", fun t u s tp => {call})')
    out.append(",\n".join(items) + "]")
    out.append("")
    out.append("def ruleArity : List (String × Nat) := [" + ", ".join(
        f'("{n}", {len(byname[n]["params"])})' for n in sorted(byname)) + "]")
    pubs = [n for n in sorted(byname) if byname[n]["pub"]]
    out.append("")
    out.append("/-- the public rules, in the order the harness evaluates them (perm mode) -/")
    out.append("def publicRules : List String := [" + ", ".join(f'"{n}"' for n in pubs) + "]")
    out.append("\nend Iggy.Perm\n")
    # the matching Rust evaluator for the harness
    rs = ["// GENERATED by /verif/translate/perm_rules.py — do not edit.",
          "use server::streaming::users::permissioner::Permissioner;",
          "use std::panic::{catch_unwind, AssertUnwindSafe};", "",
          "pub const RULES: &[&str] = &[" + ", ".join(f'"{n}"' for n in pubs) + "];", "",
          "fn code(r: std::thread::Result<Result<(), iggy::error::IggyError>>) -> u8 {",
          "    match r {", "        Ok(Ok(())) => 0,", "        Ok(Err(_)) => 1,", "        Err(_) => 2,", "    }", "}", "",
          "/// evaluates every public rule at (u, s, t): 0 = Ok, 1 = Err, 2 = panic",
          "pub fn eval_all(p: &Permissioner, u: u32, s: u32, t: u32) -> Vec<u8> {",
          "    let _ = (s, t);", "    vec!["]
    for n in pubs:
        ar = len(byname[n]["params"])
        args = {1: "u", 2: "u, s", 3: "u, s, t"}[ar]
        rs.append(f"        code(catch_unwind(AssertUnwindSafe(|| p.{n}({args})))),")
    rs += ["    ]", "}", ""]
    rsp = "/verif/harness/src/perm_gen.rs"
    new_rs = "\n".join(rs)
    if not os.path.exists(rsp) or open(rsp).read() != new_rs:
        open(rsp, "w").write(new_rs)
    os.makedirs(os.path.dirname(OUT), exist_ok=True)
    new = "\n".join(out)
    if not os.path.exists(OUT) or open(OUT).read() != new:
        open(OUT, "w").write(new)
    print(f"translated {len(order)} rules -> {OUT}")


if __name__ == "__main__":
    try:
        main()
    except TErr as e:
        print("TRANSLATION-ERROR", e)
        sys.exit(3)
