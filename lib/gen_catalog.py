"""Generators for catalogue histories (C05, C06, C08): admin commands with server-assigned and
client-chosen ids, entities addressed by number or by name, delete / re-create in any order,
partitions growth and shrinkage, consumer groups with several member connections, restarts.
A separate malformed stream: duplicate names / ids, unknown ids, renames onto taken names."""
import gen_storage

NAMES = ["a", "b", "c", "d", "e", "x1", "7", "12"]   # includes numeric-looking names


class Cat:
    """Generator-side bookkeeping (only to make most commands valid; never an oracle)."""

    def __init__(self, rng):
        self.rng = rng
        self.ops = []
        self.streams = {}      # id -> {name, topics: {id -> {name, parts, groups: {id->name}}}}
        self.next_stream_guess = 1
        self.conns = [0]
        self.clock = 1_000_000
        self.next_msg = 1
        self.tag = 100

    def emit(self, o):
        self.ops.append(o)

    def sid(self):
        return self.rng.choice(list(self.streams)) if self.streams else None

    def ident(self, i, name, valid=True):
        r = self.rng.random()
        if not valid:
            return self.rng.choice([f"#{self.rng.randint(90, 99)}", "@nosuch"])
        return f"#{i}" if r < 0.6 else f"@{name}"

    def pick_topic(self):
        ss = [s for s in self.streams if self.streams[s]["topics"]]
        if not ss:
            return None
        s = self.rng.choice(ss)
        t = self.rng.choice(list(self.streams[s]["topics"]))
        return s, t

    def free_name(self, used):
        cands = [n for n in NAMES if n not in used]
        return self.rng.choice(cands) if cands else None

    def observe(self, full=False):
        self.emit("streams 0")
        for s in list(self.streams)[: (None if full else 2)]:
            self.emit(f"stream 0 #{s}")
            for t in list(self.streams[s]["topics"])[: (None if full else 2)]:
                self.emit(f"topic 0 #{s} #{t}")
                self.emit(f"groups 0 #{s} #{t}")
                for g in self.streams[s]["topics"][t]["groups"]:
                    self.emit(f"group 0 #{s} #{t} #{g}")
        if full:
            self.emit("stats 0")
            self.emit("created 0")      # creation times of streams, topics, users
        for c in self.conns:
            self.emit(f"me {c}")

    def observe_groups(self, s, t):
        for g in self.streams[s]["topics"][t]["groups"]:
            self.emit(f"group 0 #{s} #{t} #{g}")


def smallest_free(taken, start=1):
    i = start
    while i in taken:
        i += 1
    return i


def gen(rng, focus, k=None, maxops=40):
    cfg = gen_storage.draw_cfg(rng, k, {"dedup": 0, "seg": rng.choice([600, 1000000000])})
    g = Cat(rng)
    g.emit("conn 0 tcp")
    g.emit("login 0 iggy iggy")
    g.emit("me 0")
    g.emit(f"clock {g.clock}")
    n = rng.randint(8, maxops)
    w = {"cs": 14, "us": 5, "ds": 5, "ps": 2, "ct": 16, "ut": 6, "dt": 5, "pt": 2, "cp": 5, "dp": 5,
         "cg": 8, "dg": 4, "join": 8, "leave": 4, "conn": 3, "close": 3, "send": 10, "poll": 6,
         "restart": 5, "obs": 10, "bad": 8}
    if focus == "C05":
        w.update({"restart": 9, "ds": 8, "dt": 8})
    if focus == "C08":
        w.update({"join": 18, "leave": 8, "close": 6, "conn": 6, "cp": 8, "dp": 8, "cg": 10, "gpoll": 20, "send": 14})
    kinds = list(w)
    weights = [w[x] for x in kinds]
    for _ in range(n):
        kind = rng.choices(kinds, weights)[0]
        if kind == "cs":
            name = g.free_name({s["name"] for s in g.streams.values()})
            if name is None:
                continue
            if rng.random() < 0.5:
                sid = rng.choice([i for i in range(1, 9) if i not in g.streams])
                g.emit(f"create-stream 0 {sid} {name}")
            else:
                sid = None
                g.emit(f"create-stream 0 - {name}")
            # generator does not know the assigned id for sure; it tracks the allocator's rule loosely
            if sid is None:
                sid = smallest_free(g.streams, g.next_stream_guess)
                g.next_stream_guess = sid + 1
            g.streams[sid] = {"name": name, "topics": {}, "tguess": 1}
        elif kind == "us" and g.streams:
            s = g.sid()
            name = g.free_name({x["name"] for x in g.streams.values()})
            if name is None:
                continue
            g.emit(f"update-stream 0 {g.ident(s, g.streams[s]['name'])} {name}")
            g.streams[s]["name"] = name
        elif kind == "ds" and g.streams:
            s = g.sid()
            g.emit(f"delete-stream 0 {g.ident(s, g.streams[s]['name'])}")
            del g.streams[s]
            if s < g.next_stream_guess:
                g.next_stream_guess = s
        elif kind == "ps" and g.streams:
            s = g.sid()
            g.emit(f"purge-stream 0 {g.ident(s, g.streams[s]['name'])}")
        elif kind == "ct" and g.streams:
            s = g.sid()
            st = g.streams[s]
            name = g.free_name({t["name"] for t in st["topics"].values()})
            if name is None:
                continue
            nparts = rng.choice([0, 1, 1, 2, 3])
            if focus == "C08":
                nparts = rng.choice([1, 2, 3, 4, 5, 6, 7])     # shares of two and more per member, in every slot
            exp = rng.choice(["never", "never", "default", "5000000"])
            mx = rng.choice(["unlimited", "unlimited", "default", str(cfg["seg"]), str(cfg["seg"] * 3)])
            repl = rng.choice(["-", "-", "1", "3"])
            if rng.random() < 0.5:
                tid = rng.choice([i for i in range(1, 9) if i not in st["topics"]])
                g.emit(f"create-topic 0 {g.ident(s, st['name'])} {tid} {name} {nparts} {exp} {mx} {repl}")
            else:
                g.emit(f"create-topic 0 {g.ident(s, st['name'])} - {name} {nparts} {exp} {mx} {repl}")
                tid = smallest_free(st["topics"], st["tguess"])
                st["tguess"] = tid + 1
            st["topics"][tid] = {"name": name, "parts": nparts, "groups": {}, "gguess": 1}
        elif kind == "ut":
            pt = g.pick_topic()
            if not pt:
                continue
            s, t = pt
            st = g.streams[s]
            name = g.free_name({x["name"] for x in st["topics"].values()}) if rng.random() < 0.7 else st["topics"][t]["name"]
            if name is None:
                continue
            exp = rng.choice(["never", "default", "7000000"])
            mx = rng.choice(["unlimited", "default", str(cfg["seg"] * 2)])
            g.emit(f"update-topic 0 {g.ident(s, st['name'])} {g.ident(t, st['topics'][t]['name'])} {name} {exp} {mx} {rng.choice(['-', '2'])}")
            st["topics"][t]["name"] = name
        elif kind == "dt":
            pt = g.pick_topic()
            if not pt:
                continue
            s, t = pt
            st = g.streams[s]
            g.emit(f"delete-topic 0 {g.ident(s, st['name'])} {g.ident(t, st['topics'][t]['name'])}")
            del st["topics"][t]
            if t < st["tguess"]:
                st["tguess"] = t
        elif kind == "pt":
            pt = g.pick_topic()
            if not pt:
                continue
            s, t = pt
            g.emit(f"purge-topic 0 #{s} #{t}")
        elif kind in ("cp", "dp"):
            pt = g.pick_topic()
            if not pt:
                continue
            s, t = pt
            tp = g.streams[s]["topics"][t]
            cnt = rng.choice([1, 1, 2])
            if kind == "dp" and rng.random() < 0.15:
                cnt = tp["parts"] + rng.choice([1, 3])      # more than there are: all of them go
            if kind == "cp":
                g.emit(f"create-parts 0 #{s} {g.ident(t, tp['name'])} {cnt}")
                tp["parts"] += cnt
            else:
                g.emit(f"delete-parts 0 #{s} {g.ident(t, tp['name'])} {cnt}")
                tp["parts"] = max(0, tp["parts"] - cnt)
            g.observe_groups(s, t)
        elif kind == "cg":
            pt = g.pick_topic()
            if not pt:
                continue
            s, t = pt
            tp = g.streams[s]["topics"][t]
            name = g.free_name({x for x in tp["groups"].values()})
            if name is None:
                continue
            if rng.random() < 0.5:
                gid = rng.choice([i for i in range(1, 7) if i not in tp["groups"]])
                g.emit(f"create-group 0 #{s} #{t} {gid} {name}")
            else:
                g.emit(f"create-group 0 #{s} #{t} - {name}")
                gid = smallest_free(tp["groups"], tp["gguess"])
                tp["gguess"] = gid + 1
            tp["groups"][gid] = name
        elif kind in ("dg", "join", "leave"):
            cands = [(s, t, gi) for s in g.streams for t in g.streams[s]["topics"]
                     for gi in g.streams[s]["topics"][t]["groups"]]
            if not cands:
                continue
            s, t, gi = rng.choice(cands)
            tp = g.streams[s]["topics"][t]
            gident = g.ident(gi, tp["groups"][gi])
            if kind == "dg":
                g.emit(f"delete-group 0 #{s} #{t} {gident}")
                del tp["groups"][gi]
                if gi < tp["gguess"]:
                    tp["gguess"] = gi
                for c in g.conns:
                    g.emit(f"me {c}")
            else:
                c = rng.choice(g.conns)
                g.emit(f"{kind} {c} #{s} #{t} {gident}")
                g.emit(f"group 0 #{s} #{t} #{gi}")
                g.emit(f"me {c}")
        elif kind == "conn" and len(g.conns) < 4:
            c = max(g.conns) + 1
            g.conns.append(c)
            g.emit(f"conn {c} tcp")
            g.emit(f"login {c} iggy iggy")
            g.emit(f"me {c}")
        elif kind == "close" and len(g.conns) > 1:
            c = rng.choice(g.conns[1:])
            g.conns.remove(c)
            g.emit(f"close {c}")
            for s in g.streams:
                for t in g.streams[s]["topics"]:
                    g.observe_groups(s, t)
        elif kind == "send":
            pt = g.pick_topic()
            if not pt:
                continue
            s, t = pt
            tp = g.streams[s]["topics"][t]
            g.clock += rng.randint(1, 500)
            g.emit(f"clock {g.clock}")
            msgs = []
            for _ in range(rng.choice([1, 2, 3])):
                g.tag += 1
                msgs.append(f"{g.next_msg}:{rng.choice([8, 20, 200])}:{g.tag}:0")
                g.next_msg += 1
            part = rng.choice(["balanced", f"pid:{rng.randint(1, max(1, tp['parts']))}"])
            g.emit(f"send 0 #{s} {g.ident(t, tp['name'])} {part} {','.join(msgs)}")
        elif kind == "poll":
            pt = g.pick_topic()
            if not pt:
                continue
            s, t = pt
            tp = g.streams[s]["topics"][t]
            for p in range(1, tp["parts"] + 1):
                g.emit(f"poll 0 #{s} #{t} {p} c:#9 offset:0 1000 0")
        elif kind == "gpoll":
            # a group member polls without naming a partition (next + auto-commit)
            cands = [(s, t, gi) for s in g.streams for t in g.streams[s]["topics"]
                     for gi in g.streams[s]["topics"][t]["groups"]]
            if not cands:
                continue
            s, t, gi = rng.choice(cands)
            c = rng.choice(g.conns)
            g.emit(f"poll {c} #{s} #{t} - g:#{gi} next {rng.choice([1, 2, 10])} 1")
        elif kind == "restart":
            g.observe(full=True)
            g.emit("restart")
            g.conns = [0]
            g.emit("me 0")
            g.next_stream_guess = 1
            for s in g.streams.values():
                s["tguess"] = 1
                for t in s["topics"].values():
                    t["gguess"] = 1
            g.observe(full=True)
        elif kind == "obs":
            g.observe()
        elif kind == "bad":
            r = rng.random()
            if r < 0.2 and g.streams:
                s = g.sid()
                g.emit(f"create-stream 0 {s} zz")                       # taken id
            elif r < 0.4 and g.streams:
                s = g.sid()
                g.emit(f"create-stream 0 - {g.streams[s]['name']}")      # taken name
            elif r < 0.55 and len(g.streams) >= 2:
                a, b = rng.sample(list(g.streams), 2)
                g.emit(f"update-stream 0 #{a} {g.streams[b]['name']}")   # rename onto a taken name
            elif r < 0.7:
                g.emit(f"delete-stream 0 {g.ident(0, '', valid=False)}")
            elif r < 0.85:
                pt = g.pick_topic()
                if pt:
                    s, t = pt
                    others = [x for x in g.streams[s]["topics"] if x != t]
                    if others:
                        o = rng.choice(others)
                        g.emit(f"update-topic 0 #{s} #{t} {g.streams[s]['topics'][o]['name']} never unlimited -")
                    g.emit(f"create-topic 0 #{s} {t} zz 1 never unlimited -")
                    g.emit(f"create-topic 0 #{s} - zz 1 never 10 -")     # max size below the segment size
            else:
                g.emit(f"topic 0 {g.ident(0, '', valid=False)} #1")
                g.emit(f"delete-topic 0 #{rng.randint(1, 3)} {g.ident(0, '', valid=False)}")
    if k is not None and k % 4 == 1:
        cascade(g, rng)
    if k is not None and k % 4 == 3:
        offsets_cascade(g, rng)
    if k is not None and k % 4 == 2 and focus == "C08":
        rotation(g, rng)
    g.observe(full=True)
    return cfg, g.ops


def cascade(g, rng):
    """A member of several groups in sibling topics and in another stream; one of those entities is deleted:
    the memberships elsewhere must survive (`me`, `group`), and when the member disconnects every group must
    lose it (no zombie member keeps partitions)."""
    base = 20 + rng.randint(0, 5)
    s1, s2 = base, base + 1
    g.emit(f"create-stream 0 {s1} q{s1}")
    g.emit(f"create-stream 0 {s2} q{s2}")
    topics = [(s1, 1), (s1, 2), (s2, 1), (s2, 2)]
    for (s, t) in topics:
        g.emit(f"create-topic 0 #{s} {t} w{t} {rng.randint(1, 3)} never unlimited -")
        g.emit(f"create-group 0 #{s} #{t} 1 cg")
    c = max(g.conns) + 1
    g.emit(f"conn {c} tcp")
    g.emit(f"login {c} iggy iggy")
    g.emit(f"me {c}")
    joined = rng.sample(topics, rng.randint(2, 4))
    for (s, t) in joined:
        g.emit(f"join {c} #{s} #{t} #1")
    g.emit(f"me {c}")
    victim = rng.choice(joined)
    how = rng.random()
    if how < 0.5:
        g.emit(f"delete-topic 0 #{victim[0]} #{victim[1]}")
        gone = {victim}
    elif how < 0.75:
        g.emit(f"delete-stream 0 #{victim[0]}")
        gone = {x for x in topics if x[0] == victim[0]}
    else:
        g.emit(f"delete-group 0 #{victim[0]} #{victim[1]} #1")
        gone = {victim}
    g.emit(f"me {c}")
    rest = [x for x in topics if x not in gone and not (how >= 0.5 and how < 0.75 and x[0] == victim[0])]
    for (s, t) in rest:
        g.emit(f"group 0 #{s} #{t} #1")
    if rng.random() < 0.7:
        g.emit(f"close {c}")
        for (s, t) in rest:
            g.emit(f"group 0 #{s} #{t} #1")
    for s in (s1, s2):
        if not (0.5 <= how < 0.75 and s == victim[0]):
            g.streams[s] = {"name": f"q{s}", "topics": {}, "tguess": 1}


def offsets_cascade(g, rng):
    """Stored offsets of consumers and of groups with the SAME numeric ids in one topic; a group, a topic or a
    partition is deleted (and the group re-created under the freed id): the deleted entity's offsets are gone,
    everybody else's are untouched, a re-created group starts without an offset - also after a restart."""
    s = 30 + rng.randint(0, 5)
    g.emit(f"create-stream 0 {s} o{s}")
    nparts = rng.randint(1, 3)
    g.emit(f"create-topic 0 #{s} 1 ot {nparts} never unlimited -")
    g.emit(f"create-topic 0 #{s} 2 ot2 1 never unlimited -")
    g.clock += 10
    g.emit(f"clock {g.clock}")
    for p in range(1, nparts + 1):
        ms = ",".join(f"{70000 + 100 * p + i}:20:{900 + i}:0" for i in range(rng.randint(4, 9)))
        g.emit(f"send 0 #{s} #1 pid:{p} {ms}")
    g.emit(f"send 0 #{s} #2 pid:1 " + ",".join(f"{80000 + i}:20:{950 + i}:0" for i in range(5)))
    groups = [1, 2] if rng.random() < 0.7 else [1, 2, 3]
    for gid in groups:
        g.emit(f"create-group 0 #{s} #1 {gid} og{gid}")
    g.emit(f"create-group 0 #{s} #2 1 og1")
    idents = [f"c:#{i}" for i in (1, 2, 3)] + [f"g:#{i}" for i in groups]

    def observe():
        for p in range(1, nparts + 1):
            for c in idents:
                g.emit(f"get-offset 0 #{s} #1 {p} {c}")
        g.emit(f"get-offset 0 #{s} #2 1 c:#1")
        g.emit(f"get-offset 0 #{s} #2 1 g:#1")
    for _ in range(rng.randint(4, 10)):
        p = rng.randint(1, nparts)
        g.emit(f"store-offset 0 #{s} #1 {p} {rng.choice(idents)} {rng.randint(0, 3)}")
    g.emit(f"store-offset 0 #{s} #2 1 c:#1 2")
    g.emit(f"store-offset 0 #{s} #2 1 g:#1 1")
    observe()
    how = rng.random()
    if how < 0.5:
        gid = rng.choice(groups)
        g.emit(f"delete-group 0 #{s} #1 #{gid}")
        observe()
        g.emit(f"create-group 0 #{s} #1 {rng.choice(['-', str(gid)])} again")
        observe()
    elif how < 0.7 and nparts > 1:
        g.emit(f"delete-parts 0 #{s} #1 1")
        nparts -= 1
        observe()
        g.emit(f"create-parts 0 #{s} #1 1")
        nparts += 1
        observe()
    elif how < 0.85:
        g.emit(f"delete-topic 0 #{s} #2")
        for p in range(1, nparts + 1):
            for c in idents:
                g.emit(f"get-offset 0 #{s} #1 {p} {c}")
        g.emit(f"create-topic 0 #{s} 2 ot2 1 never unlimited -")
        observe()
    else:
        g.emit(f"purge-topic 0 #{s} #1")
        observe()
    if rng.random() < 0.6:
        g.emit("restart")
        observe()
    g.streams[s] = {"name": f"o{s}", "topics": {}, "tguess": 1}


def rotation(g, rng):
    """Several members, shares of two and more: each member polls without a partition id again and again; its
    polls must visit every partition of its share in turn and the group must receive every message once."""
    s = 40 + rng.randint(0, 5)
    nparts = rng.randint(3, 8)
    g.emit(f"create-stream 0 {s} r{s}")
    g.emit(f"create-topic 0 #{s} 1 rt {nparts} never unlimited -")
    g.emit(f"create-group 0 #{s} #1 1 rg")
    g.clock += 10
    g.emit(f"clock {g.clock}")
    per = rng.randint(1, 3)
    for p in range(1, nparts + 1):
        ms = ",".join(f"{60000 + 100 * p + i}:20:{700 + i}:0" for i in range(per))
        g.emit(f"send 0 #{s} #1 pid:{p} {ms}")
    members = []
    for _ in range(rng.randint(1, 3)):
        c = max(g.conns + members) + 1
        members.append(c)
        g.emit(f"conn {c} tcp")
        g.emit(f"login {c} iggy iggy")
        g.emit(f"me {c}")
        g.emit(f"join {c} #{s} #1 #1")
        g.emit(f"group 0 #{s} #1 #1")
    for _ in range(per + 1):
        for c in members:
            for _ in range(nparts):
                g.emit(f"poll {c} #{s} #1 - g:#1 next 1 1")
    for p in range(1, nparts + 1):
        g.emit(f"get-offset 0 #{s} #1 {p} g:#1")
    g.conns.extend(members)
    g.streams[s] = {"name": f"r{s}", "topics": {}, "tguess": 1}
