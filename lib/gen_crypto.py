"""C19: histories with server-side encryption: payloads of many sizes, high-entropy names, byte search of
every file for every payload and journalled name, restarts with the same key, with another key, and
with encryption switched on/off."""
import base64
import gen_storage


def key(rng):
    return base64.b64encode(bytes(rng.getrandbits(8) for _ in range(32))).decode()


def marker(rng, prefix):
    return prefix + "".join(rng.choice("abcdefghijklmnopqrstuvwxyz0123456789") for _ in range(20))


def payload_hex(tag, psize):
    v = tag.to_bytes(8, "little")
    v += bytes(((tag * 31 + i * 7) & 0xFF) for i in range(8, psize))
    return v[:psize].hex()


def gen(rng, focus, k=None, maxops=40):
    if k is not None and k % 10 == 9:
        return gen_bad_key(rng, focus, k)
    enc_on = rng.random() < 0.8
    k1 = key(rng)
    cfg = gen_storage.draw_cfg(rng, k, {"dedup": 0, "enc": k1 if enc_on else "-"})
    ops = []
    emit = ops.append
    clock = 1_000_000
    emit("conn 0 tcp")
    emit("login 0 iggy iggy")
    emit(f"clock {clock}")
    sname, tname, uname = marker(rng, "s-"), marker(rng, "t-"), marker(rng, "u-")
    pw = marker(rng, "pw")
    emit(f"create-stream 0 1 {sname}")
    emit(f"create-topic 0 #1 1 {tname} 2 never unlimited -")
    emit(f"create-user 0 {uname} {pw} active 1111111111")
    sent = []     # (tag, psize)
    tag = 1000
    mid = 1
    n = rng.randint(8, maxops)
    for _ in range(n):
        r = rng.random()
        if r < 0.45:
            clock += rng.randint(1, 1000)
            emit(f"clock {clock}")
            msgs = []
            for _ in range(rng.choice([1, 1, 2, 3])):
                tag += 1
                psize = rng.choice([16, 16, 40, 200, 1000, 5000, 20000])
                msgs.append(f"{mid}:{psize}:{tag}:{rng.choice([0, 0, 2])}")
                sent.append((tag, psize))
                mid += 1
            emit(f"send 0 #1 #1 pid:{rng.randint(1, 2)} {','.join(msgs)}")
        elif r < 0.7:
            emit(f"poll 0 #1 #1 {rng.randint(1, 2)} c:#1 {rng.choice(['offset:0', 'first', 'last', 'next'])} {rng.choice([1, 3, 100])} 0")
        elif r < 0.78:
            emit(rng.choice(["save", f"flush 0 #1 #1 {rng.randint(1, 2)} 0"]))
        elif r < 0.86:
            for p in (1, 2):
                emit(f"poll 0 #1 #1 {p} c:#9 offset:0 100000 0")
            emit("streams 0")
            emit("restart")
            for p in (1, 2):
                emit(f"poll 0 #1 #1 {p} c:#9 offset:0 100000 0")
            emit("streams 0")
        elif r < 0.93:
            # another key, or encryption switched on/off
            other = key(rng) if (enc_on and rng.random() < 0.7) else ("-" if enc_on else k1)
            emit("save")
            emit(f"restart-key {other}")
        else:
            if sent and enc_on:
                t, ps = rng.choice(sent)
                emit(f"scan {payload_hex(t, ps)[:64]}")
    for p in (1, 2):
        emit(f"poll 0 #1 #1 {p} c:#9 offset:0 100000 0")
    emit("save")
    if enc_on:
        for t, ps in sent[:6]:
            emit(f"scan {payload_hex(t, ps)[:64]}")
        emit(f"scan-str {sname}")
        emit(f"scan-str {tname}")
        emit(f"scan-str {uname}")
    emit(f"scan-str {pw}")
    return cfg, ops


def gen_bad_key(rng, focus, k=None):
    """Encryption switched on with a key that cannot be used (16 bytes, not base64, 31 bytes): the server must
    not run with encryption silently off. Either it refuses to start (then the history has nothing to judge) or,
    if it serves requests, nothing may reach the files in clear."""
    import base64
    bad = rng.choice([base64.b64encode(bytes(range(16))).decode(), "not*base64*at*all",
                      base64.b64encode(bytes(range(31))).decode(), base64.b64encode(bytes(range(33))).decode()])
    cfg = gen_storage.draw_cfg(rng, k, {"dedup": 0, "enc": bad, "save": 1})
    sname, tname = marker(rng, "s-"), marker(rng, "t-")
    ops = ["conn 0 tcp", "login 0 iggy iggy", "clock 1000000", f"create-stream 0 1 {sname}",
           f"create-topic 0 #1 1 {tname} 1 never unlimited -", "clock 1000010"]
    tags = []
    for i in range(rng.randint(1, 4)):
        tag = 5000 + i
        psize = rng.choice([40, 120, 333])
        tags.append((tag, psize))
        ops.append(f"send 0 #1 #1 pid:1 {i + 1}:{psize}:{tag}:0")
    ops.append("flush 0 #1 #1 1 1")
    ops.append("poll 0 #1 #1 1 c:#1 offset:0 100 0")
    for tag, psize in tags:
        ops.append(f"scan {payload_hex(tag, psize)}")
    ops.append(f"scan-str {sname}")
    ops.append(f"scan-str {tname}")
    return cfg, ops
