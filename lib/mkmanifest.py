#!/usr/bin/env python3
"""Regenerates /verif/MANIFEST.json from lib/meta.py (claims) — run after adding a claim."""
import json, subprocess, sys
sys.path.insert(0, "/verif/lib")
from meta import META, NOT_APPLICABLE
props = [json.loads(l)["id"] for l in open("/verif/properties.jsonl")]
hooks = subprocess.run(["git", "-C", "/repo", "log", "--format=%h %s", "--grep=^verif hook"],
                       stdout=subprocess.PIPE, text=True).stdout.strip().splitlines()
checks = []
for p in props:
    if p not in META:
        continue
    m = META[p]
    checks.append({
        "property_id": p,
        "quick_cmd": f"bin/check {p} --tier quick",
        "thorough_cmd": f"bin/check {p} --tier thorough",
        "evidence_file": f"evidence/{p}.json",
        "replay_cmd_template": f"bin/check {p} --replay {{path}}",
        "engine": m.get("engine", "lean-sys"),
        "level_claimed": {"category": "proof", "text": m["text"], "design_ref": m["design_ref"]},
        "level_note": m["note"],
        "technique": m["technique"],
    })
na = [{"property_id": p, "reason": NOT_APPLICABLE.get(p, "check under construction in this round (model and harness exist or are planned in DESIGN.md §5; not yet claimed)")}
      for p in props if p not in META]
man = {
    "version": 1,
    "setup_cmd": "bin/setup",
    "hooks": {
        "guard": "cargo feature `iggy_verif` (crates iggy and server)",
        "enable": "the harness crate /verif/harness depends on /repo/server and /repo/sdk with features=[\"iggy_verif\"]; every check rebuilds it from /repo's working tree",
        "baseline_off_cmd": "bin/baseline",
        "source_commits": [h.split()[0] for h in hooks],
        "add_only": True,
    },
    "engines": [
        {"name": "lean-sys", "path": "lean/", "serves_properties": [c["property_id"] for c in checks if c["engine"] == "lean-sys"],
         "kind_free_text": "Lean 4 development: L1 models (Iggy/Log, Iggy/Sys), L2 specs, property theorems (Iggy/Props), native judge (Driver/Main.lean) replaying harness traces on model and spec"},
        {"name": "lean-journal", "path": "lean/Iggy/Journal", "serves_properties": [c["property_id"] for c in checks if c["engine"] == "lean-journal"],
         "kind_free_text": "Lean 4 model of the state journal (entry layout, loader, apply) + judge journal mode"},
        {"name": "lean-perm", "path": "lean/Iggy/Perm", "serves_properties": [c["property_id"] for c in checks if c["engine"] == "lean-perm"],
         "kind_free_text": "permission rules GENERATED from the Rust source on every run (translate/perm_rules.py), hand-written tables/spec, theorems over the generated definitions"},
        {"name": "harness", "path": "harness/", "serves_properties": [c["property_id"] for c in checks],
         "kind_free_text": "Rust correspondence harness linking the real server and sdk crates (feature iggy_verif): node mode = real System + real TCP server + real SDK client, one OS process per server incarnation"},
    ],
    "checks": checks,
    "notes": "Machine-checked proof (Lean 4) about executable models + checked correspondence to /repo on every run. See DESIGN.md.",
    "not_applicable": na,
}
json.dump(man, open("/verif/MANIFEST.json", "w"), indent=1)
print("claimed:", [c["property_id"] for c in checks])
