"""C11: journal histories for the `journal` harness mode. The runner is interactive here: entry-level
mutations (swap / remove / duplicate whole entries) need the real file's entry boundaries, which are
read from a `dump`."""
import random


def split_entries(b):
    out, pos = [], 0
    while pos + 52 <= len(b):
        ctx = int.from_bytes(b[pos + 48:pos + 52], "little")
        p2 = pos + 52 + ctx
        cl = int.from_bytes(b[p2 + 4:p2 + 8], "little")
        end = p2 + 8 + cl
        out.append(b[pos:end])
        pos = end
    return out


def template(rng, k):
    r = rng.random()
    if r < 0.4:
        return f"stream {k + 1} s{rng.randint(0, 999)}"
    if r < 0.6:
        return f"topic {rng.randint(1, 5)} {k + 1} t{rng.randint(0, 99)} {rng.randint(0, 4)}"
    if r < 0.8:
        return f"user u{rng.randint(0, 9999)}"
    return f"delstream {rng.randint(1, 9)}"


def run(rng, node_op, tier):
    """node_op(line) -> result. Returns trace lines."""
    trace = []

    def op(line):
        r = node_op(line)
        trace.append(f"{line}\t{r}")
        return r
    op("version")
    clock = 1_000_000
    op(f"clock {clock}")
    op("new")
    n = rng.randint(2, 7)
    k = 0
    for i in range(n):
        clock += rng.randint(1, 1000)
        op(f"clock {clock}")
        if rng.random() < 0.2:
            op("fail-in 1")
        op(f"apply {rng.randint(0, 3)} {template(rng, k)}")
        k += 1
        if rng.random() < 0.2:
            op("dump")
            op("load")
        if rng.random() < 0.1:
            op("reopen")
    d = op("dump")
    op("load")
    op("reopen")
    clock += 5
    op(f"clock {clock}")
    op(f"apply 1 {template(rng, k)}")
    d = op("dump")
    base = bytes.fromhex(d.split()[1]) if len(d.split()) > 1 else b""
    op("sweep-trunc")
    op("sweep-bytes " + ("full" if tier == "thorough" and len(base) < 400 else "quick"))
    # whole-entry tampering
    es = split_entries(base)
    muts = []
    for i in range(len(es)):
        muts.append(es[:i] + es[i + 1:])                       # removal (incl. first, middle, last)
        muts.append(es[:i] + [es[i], es[i]] + es[i + 1:])      # duplication
        if i + 1 < len(es):
            muts.append(es[:i] + [es[i + 1], es[i]] + es[i + 2:])  # adjacent swap
    for j in range(len(es)):
        muts.append(es[:j])                                     # suffix loss
    rng.shuffle(muts)
    for m in muts[: (None if tier == "thorough" else 12)]:
        op("set " + b"".join(m).hex())
        op("verdict")
    op("set " + base.hex())
    # concurrency: journalled under the shared lock
    kk = rng.choice([2, 3, 4, 6])
    op(f"concurrent {kk}")
    op("dump")
    op("load")
    op("reopen")
    clock += 7
    op(f"clock {clock}")
    op(f"apply 2 {template(rng, k + 1)}")
    op("dump")
    op("load")
    return trace
