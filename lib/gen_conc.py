"""Generators for C12 (concurrency).
(a) `sched`: no-wait confirmation with the persister task scheduled by the harness (hook H3): batches are
    acknowledged, held before they reach the log, polled around, released — every poll must be a prefix of
    the specification's answer, an auto-committing consumer must not skip, and after the release everything
    is there.
(b) `stress`: real concurrency — several producer and consumer connections running as separate tasks
    on the server's multi-threaded runtime, optionally with the background save running too; the log of
    requests (with real-time stamps) is judged against a linearisation."""
import gen_storage


def gen(rng, focus="C12", k=None, maxops=40):
    shape = "sched" if (k is not None and k % 3 == 0) or (k is None and rng.random() < 0.35) else "stress"
    if shape == "sched":
        return gen_sched(rng, k, maxops)
    return gen_stress(rng, k)


def gen_sched(rng, k=None, maxops=40):
    cfg = gen_storage.draw_cfg(rng, k, {"confirm": "nowait", "dedup": 0, "save": rng.choice([1, 2, 3, 10]),
                                        "seg": rng.choice([4000, 1000000000, 1000000000])})
    g = gen_storage.Gen(rng, "C12", nparts=rng.choice([1, 1, 2]))
    gen_storage.preamble(g)
    held = False
    n = rng.randint(10, maxops)
    for _ in range(n):
        r = rng.random()
        if r < 0.38:
            g.send(balanced_ok=False)
        elif r < 0.75:
            g.poll()
        elif r < 0.85:
            if held:
                g.emit("release persister-write")
                held = False
                g.full_poll()
            else:
                g.emit("hold persister-write")
                held = True
        elif r < 0.9:
            g.emit("settle")
            if not held:
                g.full_poll()
        elif r < 0.92 and cfg["cache"]:
            g.emit(f"evict #1 #1 {g.part()} {rng.choice([60, 150, 400, 1200])}")
        elif r < 0.94:
            g.emit(f"flush 0 #1 #1 {g.part()} {rng.choice([0, 1])}")
        elif r < 0.97:
            g.emit("save")
        else:
            if held:
                g.emit("release persister-write")
                held = False
            g.emit("settle")
            g.observe()
            g.emit("restart")
            g.observe()
    if held:
        g.emit("release persister-write")
    g.emit("settle")
    g.observe()
    return cfg, g.ops


def gen_stress(rng, k=None):
    nowait = rng.random() < 0.3
    bg = (not nowait) and rng.random() < 0.4
    cfg = gen_storage.draw_cfg(rng, k, {
        "confirm": "nowait" if nowait else "wait", "dedup": rng.choice([0, 0, 1]),
        "save": rng.choice([1, 3, 10, 50, 1000]),
        # background saves move batch boundaries, which the linearisation of sends alone cannot tell:
        # with them, segments never roll and only content is compared afterwards
        "seg": 1000000000 if bg else rng.choice([4000, 20000, 1000000000])})
    g = gen_storage.Gen(rng, "C12", nparts=rng.choice([1, 2]))
    gen_storage.preamble(g)
    for _ in range(rng.randint(0, 3)):
        g.send(balanced_ok=False)
    if nowait:
        g.emit("settle")
    rounds = rng.choice([1, 1, 2])
    for rnd in range(rounds):
        pid = g.part()
        np_ = rng.choice([2, 3, 4, 6])
        nc = rng.choice([1, 2, 3])
        batches = rng.choice([5, 10, 20, 40])
        maxb = rng.choice([1, 3, 8])
        g.tick()
        g.emit(f"stress #1 #1 {pid} {np_} {nc} {batches} {maxb} {rng.getrandbits(32)} {1 if bg else 0} {(rnd + 1) * 100000000}")
        g.sent[pid] += np_ * batches * maxb
        if cfg["cache"] and rng.random() < 0.6:
            g.emit(f"evict #1 #1 {pid} {rng.choice([150, 400, 1200, 5000])}")
        for _ in range(rng.randint(1, 4)):
            g.poll(pid=pid, auto_ok=not bg)
        if not bg and rng.random() < 0.5:
            g.emit("topic 0 #1 #1")
    if rng.random() < 0.5:
        g.full_poll()
        g.emit("restart")
        g.full_poll()
    if not bg:
        g.emit("topic 0 #1 #1")
    return cfg, g.ops
