"""Per-property check definitions (what is generated, which oracle classes and correspondence kinds
concern the property, what is assumed)."""
import glob, json, os, random, re, time
import vlib
import gen_storage

COMMON_TB = [
    "Lean 4.33.0 kernel; axioms accepted: propext, Classical.choice, Quot.sound (audited with #print axioms on every property theorem)",
    "hand-written L1 model lean/Iggy/Log/Model.lean + lean/Iggy/Sys/Model.lean, tied to /repo by the correspondence run (harness links the real server+sdk crates; judge = compiled Lean definitions)",
    "harness /verif/harness (Rust), runner /verif/lib (Python, orchestration only)",
    "modelled, not verified: tokio scheduling, filesystem, hash-map order, machine-integer overflow (models use Nat)",
]


def load_corpus(prop):
    out = []
    for f in sorted(glob.glob(f"{vlib.VERIF}/corpus/{prop}/*.ops")):
        lines = [l.rstrip("\n") for l in open(f) if l.strip() and not l.startswith("#")]
        cfg = dict(kv.split("=", 1) for kv in lines[0].split()[1:])
        out.append((os.path.basename(f), cfg, lines[1:]))
    return out


def signature(cfg, cov):
    keys = sorted(k for k in cov if k.startswith(("tier:", "err:", "op:", "br:", "psend:", "cnext:", "x:", "raw:")))
    cfgc = ",".join(f"{k}={cfg[k]}" for k in sorted(cfg) if k in ("save", "seg", "cache", "idxcache", "dedup", "confirm"))
    return cfgc + "|" + ",".join(keys)


MUTATING = ("send", "purge-topic", "purge-stream", "store-offset", "delete-offset", "create-parts",
            "delete-parts", "maintain", "delete-topic", "psend", "stress")
OBSERVING = ("poll", "get-offset", "topic", "stats", "cnext")


def run_node_property(prop, tier, seed, replay, t0, *, module, gen, n_quick, n_thorough, spec_prefixes,
                      corr_kinds, assumptions, engine="sys", extra_tb=None, maxops_thorough=90,
                      extra_coverage=None, pre_messages=None, pre_rc=0, pre_known_hits=None, http=True, more_modules=None):
    if http:
        import gen_http
        gen = gen_http.wrap(gen)
    # 1-2. proofs
    out = vlib.lean_build([module, "judge"] + list(more_modules or []))
    names, examples, axioms, bad = vlib.audit(module)
    for mm in (more_modules or []):
        n2, e2, a2, b2 = vlib.audit(mm)
        names, examples, axioms, bad = names + n2, examples + e2, sorted(set(axioms) | set(a2)), bad + b2
    obligations = len(names) + examples
    # 3. harness
    vlib.build_harness()
    known = [k for k in vlib.load_known() if k["property"] == prop]

    def relevant_spec(line):
        c = vlib.spec_class(line)
        return any(c.startswith(p) for p in spec_prefixes)

    def relevant_corr(line):
        m = re.search(r"kind=(\S+)", line)
        return corr_kinds is None or (m and m.group(1) in corr_kinds) or "judge-crashed" in line

    def is_known(line):
        c = vlib.spec_class(line)
        for k in known:
            if c.startswith(k["class"]) and re.search(k["shape"], line):
                return k
        return None

    def evaluate(item):
        name, cfg, ops, wd = item
        trace = vlib.run_history(cfg, ops, wd)
        j = vlib.judge(engine, trace)
        return name, cfg, ops, trace, j

    if replay:
        lines = [l.rstrip("\n") for l in open(replay) if l.strip() and not l.startswith("#")]
        cfg = dict(kv.split("=", 1) for kv in lines[0].split()[1:] if "=" in kv)
        name, cfg, ops, trace, j = evaluate(("replay", cfg, lines[1:], f"{vlib.WORK}/{prop}/replay"))
        print("\n".join(trace))
        print(j["raw"])
        bad_lines = [l for l in j["spec"] if relevant_spec(l) and not is_known(l)] + \
                    [l for l in j["corr"] if relevant_corr(l)]
        return 1 if bad_lines else 0

    rng = random.Random(seed)
    n = n_thorough if tier == "thorough" else n_quick
    items = []
    for cname, cfg, ops in load_corpus(prop):
        items.append((f"corpus/{cname}", cfg, ops, f"{vlib.WORK}/{prop}/c{len(items)}"))
    ncorpus = len(items)
    for k in range(n):
        hr = random.Random(rng.getrandbits(64))
        cfg, ops = gen(hr, prop, k, maxops_thorough if tier == "thorough" else 40)
        items.append((f"gen/{k}", cfg, ops, f"{vlib.WORK}/{prop}/g{k}"))
    results = vlib.parallel(evaluate, items)

    # 5. evidence + 6. decision
    opdist, covtot, sigs = {}, {}, set()
    total_ops = 0
    spec_v, corr_d, known_hits = [], [], dict(pre_known_hits or {})
    for name, cfg, ops, trace, j in results:
        for k, v in j["cov"].items():
            covtot[k] = covtot.get(k, 0) + v
        m = re.search(r"modelled=(\d+)", j["done"] or "")
        total_ops += int(m.group(1)) if m else 0
        has_mut = any(o.split()[0] in MUTATING for o in ops)
        has_obs = any(o.split()[0] in OBSERVING for o in ops)
        if has_mut and has_obs:
            sigs.add(signature(cfg, j["cov"]))
        for l in j["spec"]:
            if not relevant_spec(l):
                continue
            k = is_known(l)
            if k:
                known_hits[k["what"]] = known_hits.get(k["what"], 0) + 1
            else:
                spec_v.append((name, cfg, ops, l))
        for l in j["corr"]:
            if relevant_corr(l):
                corr_d.append((name, cfg, ops, l))
    for k, v in covtot.items():
        if k.startswith("op:"):
            opdist[k[3:]] = v

    rc = pre_rc
    messages = list(pre_messages or [])
    for kf in known:
        n_hits = known_hits.get(kf["what"], 0)
        messages.append(f"KNOWN-FINDING: property={prop} {kf['what']} (reproduced {n_hits}x in this run)")
    replay_path = None
    if bad:
        replay_path = vlib.write_replay(prop, "audit.txt", "\n".join(bad))
        messages.append(f"VIOLATION property={prop} replay={replay_path} no-failing-input-found")
        rc = 1
    if spec_v:
        name, cfg, ops, line = spec_v[0]
        cls = vlib.spec_class(line)

        def fails(trace):
            j = vlib.judge(engine, trace)
            return any(vlib.spec_class(l) == cls and not is_known(l) for l in j["spec"])
        small = vlib.shrink(cfg, ops, fails, f"{vlib.WORK}/{prop}/shrink", budget=40 if tier == "quick" else 150)
        tr = vlib.run_history(cfg, small, f"{vlib.WORK}/{prop}/shrink")
        jj = vlib.judge(engine, tr)
        body = "cfg " + " ".join(f"{k}={v}" for k, v in cfg.items()) + "\n" + "\n".join(small) + "\n"
        body += "# from " + name + "\n# " + "\n# ".join(jj["spec"] + jj["corr"]) + "\n"
        replay_path = vlib.write_replay(prop, "violation.ops", body)
        messages.append(f"VIOLATION property={prop} replay={replay_path}")
        rc = 1
    elif corr_d:
        # correspondence broken, oracle silent so far: search harder for a failing input
        found = None
        srng = random.Random(seed ^ 0x5EED)
        sitems = []
        for k in range(4 * max(n, 20)):
            hr = random.Random(srng.getrandbits(64))
            cfg, ops = gen(hr, prop, k, 60)
            sitems.append((f"search/{k}", cfg, ops, f"{vlib.WORK}/{prop}/s{k}"))
        for name, cfg, ops, trace, j in vlib.parallel(evaluate, sitems):
            hits = [l for l in j["spec"] if relevant_spec(l) and not is_known(l)]
            if hits:
                found = (name, cfg, ops, hits[0])
                break
        if found:
            name, cfg, ops, line = found
            body = "cfg " + " ".join(f"{k}={v}" for k, v in cfg.items()) + "\n" + "\n".join(ops) + "\n# " + line + "\n"
            replay_path = vlib.write_replay(prop, "violation.ops", body)
            messages.append(f"VIOLATION property={prop} replay={replay_path}")
        else:
            name, cfg, ops, line = corr_d[0]
            body = "cfg " + " ".join(f"{k}={v}" for k, v in cfg.items()) + "\n" + "\n".join(ops) + "\n"
            body += f"# correspondence `{engine}` (L1 model vs implementation) no longer checks; first difference:\n# {line}\n"
            replay_path = vlib.write_replay(prop, "correspondence.ops", body)
            messages.append(f"VIOLATION property={prop} replay={replay_path} no-failing-input-found")
        rc = 1

    sample = results[min(ncorpus, len(results) - 1)]
    coverage = {
        "obligations": obligations, "discharged": obligations if not bad else 0,
        "checker_cmd": f"lake build {module} judge  &&  lake env lean Iggy/Audit/{module.split('.')[-1]}.lean  (#print axioms)",
        "trusted_base": COMMON_TB + (extra_tb or []),
        "theorems": names, "nonvacuity_examples": examples, "axioms_used": axioms,
        "traces_validated_against_impl": len(results),
        "evaluations": total_ops, "distinct_nontrivial": len(sigs),
        "rule": "histories = corpus + generated from one PRNG (VERIF_SEED); evaluations = operations replayed on model, spec and implementation; a history is non-trivial if it has ≥1 state-changing op and ≥1 observation; distinct = distinct (storage configuration, set of model branches/ops/error kinds hit) signatures",
        "samples": [{"history": sample[0], "cfg": sample[1], "ops": sample[2][:60]},
                    {"theorems": names[:12]}],
        "ops_distribution": opdist,
        "model_branches": {k: v for k, v in covtot.items() if not k.startswith("op:")},
        "corpus_histories": ncorpus, "generated_histories": n,
        "spec_violations": len(spec_v), "corr_diffs": len(corr_d), "known_finding_hits": known_hits,
        "exhaustive": False,
    }
    if extra_coverage:
        for k, v in extra_coverage.items():
            if k == "samples":
                coverage["samples"] = coverage["samples"] + v
            elif k == "trusted_base":
                coverage["trusted_base"] = v + [x for x in coverage["trusted_base"] if x not in v]
            elif k in ("evaluations",):
                coverage[k] = coverage[k] + v
            elif k in ("obligations", "discharged", "theorems", "nonvacuity_examples", "axioms_used", "rule"):
                coverage["node_" + k] = coverage[k]
                coverage[k] = v
            else:
                coverage[k] = v
        if pre_rc:
            coverage["discharged"] = 0
    vlib.write_evidence(prop, tier, seed, coverage, assumptions, time.time() - t0,
                        len(spec_v) + (1 if (corr_d or bad) else 0) + (1 if pre_rc else 0))
    for m in messages:
        print(m)
    if rc == 0:
        print(f"OK property={prop} obligations={obligations} histories={len(results)} ops={total_ops} distinct={len(sigs)}")
    else:
        for name, cfg, ops, l in (spec_v + corr_d)[:5]:
            print("  ", name, l[:400])
    return rc


def storage(prop, module, spec_prefixes, corr_kinds, assumptions, n_quick=400, n_thorough=4000):
    def run(p, tier, seed, replay, t0):
        return run_node_property(p, tier, seed, replay, t0, module=module, gen=gen_storage.gen,
                                 n_quick=n_quick, n_thorough=n_thorough, spec_prefixes=spec_prefixes,
                                 corr_kinds=corr_kinds, assumptions=assumptions)
    return {"run": run}


PROPS = {}

ASSUME_NODE = [
    "two transports: every third generated history reroutes about half of the root connection's requests, and all requests of some other connections, through the HTTP API (real axum server, real SDK HttpClient, JSON bodies); over HTTP an error is compared as an error (status codes carry no name), consumer groups and get_me do not exist there",
    "correspondence is differential testing: a divergence outside the generated histories is not seen",
    "one OS process per server incarnation; restart = graceful System::shutdown + runtime shutdown + new process on the same directory",
    "virtual clock (hook H1) drives every timestamp; wall-clock time plays no role",
]

POLL_CLASSES = ["poll-", "cur", "get-offset", "store-offset", "offset-"]

PROPS["C17"] = {"run": lambda p, tier, seed, replay, t0: run_node_property(
    p, tier, seed, replay, t0, module="Iggy.Props.C17", gen=gen_storage.gen_c17,
    n_quick=300, n_thorough=3500, spec_prefixes=["poll-"],
    corr_kinds={"send", "poll-offsets", "poll-content", "poll-cur", "poll-status", "poll-partition",
                "create-parts", "delete-parts"},
    assumptions=ASSUME_NODE + ["xxhash32 is a parameter of the theorems (all hash values); the real calculate_32 is called through the harness and its value fed to the model"])}

ALL_POLL_KINDS = {"send", "poll-offsets", "poll-content", "poll-cur", "poll-status", "poll-partition",
                  "purge-topic", "flush", "restart"}
def _gen_c01(rng, focus, k=None, maxops=40):
    # the property's histories include retention passes and roll-overs caused by expiry: every third history
    if k is not None and k % 3 == 2:
        return gen_storage.gen_retention(rng, focus, k, maxops)
    return gen_storage.gen(rng, focus, k, maxops)


PROPS["C01"] = {"run": lambda p, tier, seed, replay, t0: run_node_property(
    p, tier, seed, replay, t0, module="Iggy.Props.C01", gen=_gen_c01, n_quick=400, n_thorough=4000,
    spec_prefixes=["poll-", "obs-changed", "retention-illegal"], corr_kinds=ALL_POLL_KINDS | {"maintain"},
    assumptions=ASSUME_NODE)}
PROPS["C02"] = storage("C02", "Iggy.Props.C02", ["poll-", "obs-changed"], ALL_POLL_KINDS, ASSUME_NODE)
PROPS["C07"] = storage("C07", "Iggy.Props.C07", ["get-offset", "store-offset", "poll-next", "offset-", "obs-changed"],
                       {"offsets", "poll-offsets", "poll-content", "poll-status", "poll-cur", "purge-topic"},
                       ASSUME_NODE + ["named consumers resolve to xxhash32(name): isolation between two *named* consumers holds under the explicit hypothesis that their hashes differ (a 32-bit hash is not injective)"])
PROPS["C18"] = storage("C18", "Iggy.Props.C18", ["poll-", "obs-changed"], ALL_POLL_KINDS,
                       ASSUME_NODE + ["within the configured id capacity and time-to-live: the harness configures 10^6 ids / 10 h, the model has no eviction (moka's eviction is outside the property)"])


def retention(prop, module, spec_prefixes, corr_kinds, assumptions, n_quick=350, n_thorough=3500, mix=False):
    def g(rng, focus, k=None, maxops=40):
        if mix and k is not None and k % 2 == 1:
            return gen_storage.gen(rng, focus, k, maxops)
        return gen_storage.gen_retention(rng, focus, k, maxops)

    def run(p, tier, seed, replay, t0):
        return run_node_property(p, tier, seed, replay, t0, module=module, gen=g,
                                 n_quick=n_quick, n_thorough=n_thorough, spec_prefixes=spec_prefixes,
                                 corr_kinds=corr_kinds, assumptions=assumptions)
    return {"run": run}


PROPS["C03"] = storage("C03", "Iggy.Props.C03", ["obs-changed-restart", "poll-", "get-offset"],
                       ALL_POLL_KINDS | {"figures", "offsets"}, ASSUME_NODE)
PROPS["C14"] = retention("C14", "Iggy.Props.C14", ["poll-", "retention-illegal", "obs-changed"],
                         ALL_POLL_KINDS | {"maintain", "update-topic"}, ASSUME_NODE + [
                             "maintenance passes are driven through the real MaintainMessagesExecutor::execute with a command obtained from the real MessagesMaintainer; the interval timer itself is not exercised"])
PROPS["C15"] = retention("C15", "Iggy.Props.C15", ["gate", "poll-", "retention-illegal"],
                         ALL_POLL_KINDS | {"maintain", "update-topic", "create-topic", "figures"}, ASSUME_NODE + [
                             "the almost-full threshold (size as f64 * 0.9) as u64 is modelled as floor(9*size/10); equal for the sizes used (exact in f64 below 2^53)"])
PROPS["C16"] = retention("C16", "Iggy.Props.C16", ["figures-"], {"figures"}, ASSUME_NODE, mix=True)

import gen_catalog


def catalog(prop, module, spec_prefixes, corr_kinds, assumptions, n_quick=350, n_thorough=3500, more_modules=None):
    def run(p, tier, seed, replay, t0):
        return run_node_property(p, tier, seed, replay, t0, module=module, gen=gen_catalog.gen,
                                 n_quick=n_quick, n_thorough=n_thorough, spec_prefixes=spec_prefixes,
                                 corr_kinds=corr_kinds, assumptions=assumptions, more_modules=more_modules)
    return {"run": run}


PROPS["C08"] = catalog("C08", "Iggy.Props.C08", ["group-", "poll-next", "poll-"],
                       {"group", "groups", "join", "leave", "close", "me", "poll-partition", "poll-offsets",
                        "poll-content", "poll-cur", "poll-status", "create-group", "delete-group",
                        "create-parts", "delete-parts"},
                       ASSUME_NODE + ["hash-map iteration order of group members is an input of the model: the harness prints the implementation's member order after every membership change and the model adopts it (every theorem holds for every order)",
                                      "liveness ('someone keeps polling') is the caller's; the theorems give safety (delivered is a prefix) + progress (a served poll on a partition with undelivered messages is non-empty)"])


# ------------------------------------------------------------------------------------------------
# C11: journal (interactive harness mode)

import subprocess
import gen_journal


def run_c11(prop, tier, seed, replay, t0):
    module = "Iggy.Props.C11"
    vlib.lean_build([module, "judge"])
    names, examples, axioms, bad = vlib.audit(module)
    obligations = len(names) + examples
    vlib.build_harness()
    n = 60 if tier == "quick" else 600

    def one(k):
        rng = random.Random((seed << 20) ^ k)
        d = f"{vlib.WORK}/C11/{k}"
        os.makedirs(d, exist_ok=True)
        p = subprocess.Popen([vlib.HBIN, "journal", d], stdin=subprocess.PIPE, stdout=subprocess.PIPE,
                             stderr=subprocess.DEVNULL, text=True, bufsize=1)

        def op(line):
            try:
                p.stdin.write(line + "\n")
                p.stdin.flush()
                r = p.stdout.readline()
            except BrokenPipeError:
                return "died"
            return r.strip() if r else "died"
        if replay:
            trace = []
            for l in open(replay):
                l = l.rstrip("\n")
                if l and not l.startswith("#"):
                    o = l.split("\t")[0]
                    trace.append(f"{o}\t{op(o)}")
        else:
            trace = gen_journal.run(rng, op, tier)
        try:
            p.stdin.write("quit\n")
            p.stdin.close()
        except Exception:
            pass
        p.wait(timeout=30)
        import shutil
        shutil.rmtree(d, ignore_errors=True)
        return k, trace, vlib.judge("journal", trace)

    if replay:
        k, trace, j = one(0)
        print(j["raw"])
        return 1 if (j["spec"] or j["corr"]) else 0
    results = vlib.parallel(one, list(range(n)))
    cov, spec_v, corr_d, total = {}, [], [], 0
    for k, trace, j in results:
        for a, b in j["cov"].items():
            cov[a] = cov.get(a, 0) + b
        m = re.search(r"lines=(\d+)", j["done"] or "")
        total += int(m.group(1)) if m else 0
        spec_v += [(k, trace, l) for l in j["spec"]]
        corr_d += [(k, trace, l) for l in j["corr"]]
    rc, msgs = 0, []
    if bad:
        path = vlib.write_replay(prop, "audit.txt", "\n".join(bad))
        msgs.append(f"VIOLATION property={prop} replay={path} no-failing-input-found")
        rc = 1
    if spec_v:
        k, trace, l = spec_v[0]
        path = vlib.write_replay(prop, "violation.trace", "\n".join(trace) + "\n# " + l + "\n")
        msgs.append(f"VIOLATION property={prop} replay={path}")
        rc = 1
    elif corr_d:
        k, trace, l = corr_d[0]
        path = vlib.write_replay(prop, "correspondence.trace", "\n".join(trace) +
                                 "\n# correspondence `journal` (model vs real FileState) no longer checks; first difference:\n# " + l + "\n")
        msgs.append(f"VIOLATION property={prop} replay={path} no-failing-input-found")
        rc = 1
    muts = cov.get("byte-mutations", 0) + cov.get("truncations", 0) + sum(v for a, v in cov.items() if a.startswith("entry-mutation"))
    coverage = {
        "obligations": obligations, "discharged": obligations if not bad else 0,
        "checker_cmd": f"lake build {module} judge && lake env lean Iggy/Audit/C11.lean (#print axioms)",
        "trusted_base": COMMON_TB[:1] + [
            "hand-written model lean/Iggy/Journal/Model.lean (entry layout, loader, apply), validated byte-for-byte against the real FileState (file dumps equal) and verdict-for-verdict against the real loader on every mutation",
            "CRC-32 is a parameter of the theorems; byte-level tamper detection is proved under the hypothesis Burst ck (a single changed byte changes the checksum) — an assumption about crc32fast, exercised by the exhaustive mutation run",
            "harness /verif/harness (journal mode), runner /verif/lib"],
        "theorems": names, "nonvacuity_examples": examples, "axioms_used": axioms,
        "traces_validated_against_impl": len(results), "evaluations": muts + total,
        "distinct_nontrivial": len({tuple(sorted(j["cov"])) + (len(t),) for _, t, j in results}),
        "rule": "each journal history: random applies with injected append failures, dumps (model bytes = file bytes), loads, reopen, every truncation point, every byte x {+1, ^0x80, 0x00, 0xFF} (thorough: all 255 values on journals < 400 B), whole-entry removal/duplication/adjacent swap/suffix loss, k concurrent applies on one FileState; evaluations = loader runs compared; distinct = distinct (coverage key set, trace length)",
        "samples": [{"trace_head": [l[:160] for l in results[0][1][:25]]}],
        "mutation_counts": cov, "spec_violations": len(spec_v), "corr_diffs": len(corr_d), "exhaustive": False,
    }
    vlib.write_evidence(prop, tier, seed, coverage, [
        "an append either fails cleanly or completes (torn appends are C04's crash images)",
        "length-field mutations that declare > 16 MiB are not given to the real loader (it would allocate them): counted as H, the model says error",
        "concurrent applies are real tokio tasks on one FileState; their order is the scheduler's and is read back from the file"],
        time.time() - t0, len(spec_v) + (1 if corr_d or bad else 0))
    for m in msgs:
        print(m)
    if rc == 0:
        print(f"OK property={prop} obligations={obligations} journals={len(results)} loader_runs={muts}")
    else:
        for k, t, l in (spec_v + corr_d)[:5]:
            print("  ", k, l[:300])
    return rc


PROPS["C11"] = {"run": run_c11}


# ------------------------------------------------------------------------------------------------
# C09: translated permission rules + exhaustive table

def run_c09(prop, tier, seed, replay, t0):
    module = "Iggy.Props.C09"
    tr = vlib.sh(["python3", f"{vlib.VERIF}/translate/perm_rules.py"])
    translation_error = None
    if tr.returncode != 0:
        translation_error = tr.stdout.strip()
    proof_error = None
    names, examples, axioms, bad = [], 0, [], []
    if translation_error is None:
        try:
            vlib.lean_build([module])
            names, examples, axioms, bad = vlib.audit(module)
        except vlib.BuildError as e:
            proof_error = str(e)
        vlib.lean_build(["judge"])       # the judge itself (generated rules + Enum) must build
    vlib.build_harness()
    obligations = len(names) + examples
    N = 1025 * 1153
    variants = ["same", "other-stream", "other-topic", "other-user"]
    diffs, panics = [], []
    os.makedirs(f"{vlib.WORK}/C09", exist_ok=True)

    def table(v):
        a = subprocess.run([vlib.HBIN, "perm", "0", str(N), v], stdout=subprocess.PIPE, text=True).stdout.splitlines()
        b = subprocess.run([vlib.JUDGE, "perm", "0", str(N), v], stdout=subprocess.PIPE, text=True).stdout.splitlines() \
            if translation_error is None else []
        return v, a, b
    tables = vlib.parallel(table, variants, workers=4)
    rules = tables[0][1][0].split(" ", 1)[1].split(",") if tables[0][1] else []
    evaluations = 0
    for v, a, b in tables:
        evaluations += (len(a) - 1) * len(rules)
        for i, line in enumerate(a[1:]):
            if "2" in line:
                panics.append((v, i, [rules[k] for k, c in enumerate(line) if c == "2"]))
                if len(panics) > 20:
                    break
        if b and a != b:
            for i, (x, y) in enumerate(zip(a, b)):
                if x != y:
                    diffs.append((v, i - 1, x, y))
                    break
    # table maintenance on the real code: init(A); update(B) must answer like init(B); init(A); delete like empty
    stride = 5 if tier == "quick" else 1
    chunks = [(i * N // 8, (i + 1) * N // 8) for i in range(8)]

    def upd(c):
        return subprocess.run([vlib.HBIN, "perm-update", str(c[0]), str(c[1]), str(stride)], stdout=subprocess.PIPE,
                              stderr=subprocess.DEVNULL, text=True).stdout.splitlines()
    upd_lines = [l for part in vlib.parallel(upd, chunks, workers=8) for l in part]
    upd_bad = [l for l in upd_lines if l.startswith("MISMATCH")]
    upd_pairs = sum(int(re.search(r"pairs=(\d+)", l).group(1)) for l in upd_lines if l.startswith("DONE"))
    sound = subprocess.run([vlib.JUDGE, "permsound", "0", str(N)], stdout=subprocess.PIPE, text=True).stdout \
        if translation_error is None else ""
    unsound = [l for l in sound.splitlines() if l.startswith("UNSOUND")]
    # the record is about ANOTHER stream / topic than the request (incl. "stream whose id is the topic's id"):
    # a rule that answers ok there looks a table up under the wrong key
    if translation_error is None:
        def cross(kk):
            return subprocess.run([vlib.JUDGE, "permsound", "0", str(N), str(kk[0]), str(kk[1])], stdout=subprocess.PIPE, text=True).stdout
        for outp in vlib.parallel(cross, [(5, 5), (4, 5), (3, 6), (5, 3)], workers=4):
            unsound += [l for l in outp.splitlines() if l.startswith("UNSOUND")]

    def describe(idx, v):
        g, sr = divmod(idx, 1153)
        return (f"record index {idx} (variant {v}): global = " + ("none (no permission record)" if g == 0 else f"flags {g - 1:010b} (bit0=manage_servers … bit9=send_messages)") +
                "; stream record = " + ("none" if sr == 0 else f"flags {(sr - 1) // 18:06b}, topics case {(sr - 1) % 18} (0 = no topic table, 1 = table without the topic, 2+k = topic flags k)") +
                "; evaluated at user 7, stream 3, topic 5; replay: harness/target/debug/verif-harness perm {0} {1} {2}".format(idx, idx + 1, v))
    rc, msgs = 0, []
    if panics:
        v, i, rs = panics[0]
        path = vlib.write_replay(prop, "panic.txt", f"rules {rs} PANIC on the real Permissioner\n" + describe(i, v) + "\n")
        msgs.append(f"VIOLATION property={prop} replay={path}")
        rc = 1
    if upd_bad:
        m = re.search(r"a=(\d+)(?: b=(\d+))?", upd_bad[0])
        a_idx = int(m.group(1))
        txt = ("permission change does not apply to the next request (real Permissioner, table maintenance):\n" + upd_bad[0] + "\n" +
               "record A: " + describe(a_idx, "same") + "\n")
        if m.group(2):
            txt += "record B: " + describe(int(m.group(2)), "same") + "\nhistory: init_permissions_for_user(7, A); update_permissions_for_user(7, B); the listed rules answer differently from a fresh init_permissions_for_user(7, B) (got!=want, 0 = ok, 1 = unauthorized)\n"
        else:
            txt += "history: init_permissions_for_user(7, A); delete_permissions_for_user(7); the listed rules still answer as if the record existed\n"
        txt += f"replay: harness/target/debug/verif-harness perm-update {a_idx} {a_idx + 1} 1\n"
        path = vlib.write_replay(prop, "update-not-applied.txt", txt)
        msgs.append(f"VIOLATION property={prop} replay={path}")
        rc = 1
    if unsound:
        idx = int(re.search(r"idx=(\d+)", unsound[0]).group(1))
        real = tables[0][1][idx + 1] if tables[0][1] else ""
        path = vlib.write_replay(prop, "unsound.txt", unsound[0] + "\n(the request is always for user 7, stream 3, topic 5; if the line names `record-about-stream`, the record below is about that stream/topic instead)\n" + describe(idx, "same") +
                                 f"\nreal Permissioner outcomes at this record ({','.join(rules)}): {real}\n")
        msgs.append(f"VIOLATION property={prop} replay={path}")
        rc = 1
    if rc == 0 and (translation_error or proof_error or bad or diffs):
        what = translation_error or proof_error or "\n".join(bad) or \
            f"generated Lean rules and the real Permissioner differ: variant {diffs[0][0]} {describe(diffs[0][1], diffs[0][0])}\nreal={diffs[0][2]}\nlean={diffs[0][3]}"
        path = vlib.write_replay(prop, "proof-or-translation.txt", what[:6000])
        msgs.append(f"VIOLATION property={prop} replay={path} no-failing-input-found")
        rc = 1
    coverage = {
        "obligations": max(obligations, 1), "discharged": obligations if rc == 0 else 0,
        "checker_cmd": "python3 translate/perm_rules.py && lake build Iggy.Props.C09 judge && lake env lean Iggy/Audit/C09.lean (#print axioms)",
        "trusted_base": COMMON_TB[:1] + [
            "translator /verif/translate/perm_rules.py (Rust subset -> Lean), cross-validated on every run: the generated Lean rules and the real Permissioner are evaluated on the complete record space (4 x 1,181,825 records x all public rules) and must agree",
            "hand-written lean/Iggy/Perm/Tables.lean (table maintenance) and Spec.lean (documented hierarchy)",
            "harness /verif/harness (perm mode; evaluator perm_gen.rs is generated with the Lean file)"],
        "theorems": names, "nonvacuity_examples": examples, "axioms_used": axioms,
        "programs": len(rules), "disagreements_checked": len(diffs),
        "traces_validated_against_impl": len(variants), "evaluations": evaluations,
        "distinct_nontrivial": N, "exhaustive": True,
        "rule": "records = 1025 global cases (none | 2^10 flags) x 1153 stream-record cases (none | 2^6 flags x {no topic table, table without the topic, table with the topic x 2^4 flags}); variants: record about the same / another stream / another topic / another user; every public rule evaluated at (user 7, stream 3, topic 5) under catch_unwind; the space is the one theorem `local` shows sufficient",
        "samples": [{"rules": rules}, {"record_0_outcomes": tables[0][1][1] if len(tables[0][1]) > 1 else ""},
                    {"record_root_like": tables[0][1][N] if len(tables[0][1]) > N else ""}],
        "panics": len(panics), "unsound": len(unsound),
        "table_maintenance_pairs": upd_pairs, "table_maintenance_mismatches": len(upd_bad),
    }
    import gen_auth
    coverage["rule"] = "TABLES: " + coverage["rule"]
    if replay and replay.endswith(".ops"):
        return run_node_property(prop, tier, seed, replay, t0, module=module, gen=gen_auth.gen, n_quick=0, n_thorough=0,
                                 spec_prefixes=["unauthenticated-allowed", "unauthorized-allowed"], corr_kinds=None,
                                 assumptions=[])
    if translation_error or proof_error:
        # the node part needs the generated rules to build; report what we have
        vlib.write_evidence(prop, tier, seed, coverage, ["translation or proof failed: node history part not run"],
                            time.time() - t0, 1)
        for m in msgs:
            print(m)
        return 1
    return run_node_property(
        prop, tier, seed, None, t0, module=module, gen=gen_auth.gen, n_quick=200, n_thorough=2500,
        spec_prefixes=["unauthenticated-allowed", "unauthorized-allowed", "obs-changed"],
        corr_kinds=None,
        assumptions=ASSUME_NODE + ["completeness is not claimed (the property is one-directional: no escalation)",
                                   "passwords are modelled by the string itself (scheme law: verify p (hash q) iff p = q)"],
        extra_coverage=coverage, pre_messages=msgs, pre_rc=rc)


PROPS["C09"] = {"run": run_c09}

CAT_KINDS = {"create-stream", "update-stream", "delete-stream", "purge-stream", "create-topic", "update-topic",
             "delete-topic", "purge-topic", "create-parts", "delete-parts", "create-group", "delete-group",
             "join", "leave", "group", "groups", "me", "close", "figures", "topics", "restart", "send",
             "poll-status", "poll-offsets", "poll-content", "poll-cur"}
def _gen_c05(rng, focus, k=None, maxops=40):
    # the catalogue includes users, permissions and tokens: every third history is an auth history with restarts
    import gen_auth
    if k is not None and k % 3 == 2:
        return gen_auth.gen(rng, "C05", k, maxops)
    return gen_catalog.gen(rng, focus, k, maxops)


PROPS["C05"] = {"run": lambda p, tier, seed, replay, t0: run_node_property(
    p, tier, seed, replay, t0, module="Iggy.Props.C05", gen=_gen_c05, n_quick=350, n_thorough=3500,
    spec_prefixes=["obs-changed-restart", "poll-"],
    corr_kinds=CAT_KINDS | {"users", "user", "create-user", "delete-user", "update-user", "update-perms", "change-pw",
                            "create-pat", "delete-pat", "pats", "login", "login-pat"},
    assumptions=ASSUME_NODE)}
PROPS["C06"] = catalog("C06", "Iggy.Props.C06", ["obs-changed", "poll-", "group-", "get-offset", "store-offset", "offset-"],
                       CAT_KINDS | {"offsets"}, ASSUME_NODE, more_modules=["Iggy.Props.Frame"])

import gen_crypto
PROPS["C19"] = {"run": lambda p, tier, seed, replay, t0: run_node_property(
    p, tier, seed, replay, t0, module="Iggy.Props.C19", gen=gen_crypto.gen, n_quick=250, n_thorough=2500,
    spec_prefixes=["secret-in-clear", "wrong-key-accepted", "poll-", "obs-changed"],
    corr_kinds={"send", "poll-offsets", "poll-content", "poll-cur", "poll-status", "figures", "restart"},
    assumptions=ASSUME_NODE + [
        "AES-256-GCM is a parameter of the theorems (structure Aead with laws dec_enc and key_sep: hypotheses, instantiated by a toy cipher in the examples)",
        "absence of plaintext in real files is established by the byte search over the generated payloads / names (a test); the placement theorem is about the model",
        "message checksum under encryption is that of the ciphertext (the checksum the message was stored with); the harness compares checksum and payload only without encryption"])}

import gen_auth
PROPS["C10"] = {"run": lambda p, tier, seed, replay, t0: run_node_property(
    p, tier, seed, replay, t0, module="Iggy.Props.C10", gen=gen_auth.gen, n_quick=300, n_thorough=3000,
    spec_prefixes=["secret-in-clear", "obs-changed", "credential-"],
    corr_kinds={"login", "login-pat", "logout", "create-user", "delete-user", "update-user", "update-perms",
                "change-pw", "user", "users", "create-pat", "delete-pat", "pats", "clean-pats", "me", "restart"},
    assumptions=ASSUME_NODE + [
        "passwords are modelled by the string itself: `u.pw = pw` stands for verify(pw, bcrypt hash) under the scheme law verify p (hash q) iff p = q (assumption about bcrypt); a raw token is identified by its creation index (digest injective: assumption about blake3)",
        "'never stored in clear' for the real code rests on the byte search of every file for every raw password and raw token used (a test); in the model journal entries can only carry hashes/digests by construction",
        "the few-microsecond difference between a token's runtime creation time and its journal timestamp does not exist under the virtual clock"])}


# ------------------------------------------------------------------------------------------------
# C04: crash images

import shutil


def run_c04(prop, tier, seed, replay, t0):
    module = "Iggy.Props.C04"
    vlib.lean_build([module, "judge"])
    names, examples, axioms, bad = vlib.audit(module)
    obligations = len(names) + examples
    vlib.build_harness()
    known = [k for k in vlib.load_known() if k["property"] == prop]
    n = 40 if tier == "quick" else 64

    def torn_points(length, rng, thorough):
        if length <= 1:
            return []
        pts = {1, 23, 24, 25, length - 1} | {rng.randint(1, length - 1) for _ in range(3)}
        if thorough:
            pts |= set(range(1, min(length, 49)))
        return sorted(j for j in pts if 0 < j < length)

    def one(k):
        rng = random.Random((seed << 20) ^ (k * 7919))
        if replay:
            lines = [l.rstrip("\n") for l in open(replay) if l.strip() and not l.startswith("#")]
            cfg = dict(kv.split("=", 1) for kv in lines[0].split()[1:] if "=" in kv)
            ops = lines[1:]
        else:
            cfg, ops = gen_storage.gen_crash(rng, prop, k)
        wd = f"{vlib.WORK}/{prop}/h{k}"
        images = wd + ".images"
        shutil.rmtree(images, ignore_errors=True)
        cfg2 = dict(cfg)
        cfg2["images"] = images
        trace = vlib.run_history(cfg2, ops, wd)
        trace[0] = trace[0].replace(f" images={images}", "")
        clock = 1_000_000
        for o in ops:
            if o.startswith("clock "):
                clock = int(o.split()[1])
        nparts = 1
        for o in ops:
            if o.startswith("create-topic"):
                nparts = int(o.split()[5])
        events = []
        try:
            for l in open(f"{images}/events.log"):
                f = l.split()
                events.append((int(f[0]), int(f[1]), f[2], f[3], int(f[4])))
        except FileNotFoundError:
            pass
        chosen = events if tier == "thorough" else rng.sample(events, min(len(events), 14))
        blocks, nimg = [], 0
        for (ek, opi, kind, rel, ln) in sorted(chosen):
            variants = [("full", None)]
            if kind == "append":
                variants += [(str(j), j) for j in torn_points(ln, rng, tier == "thorough")][: (None if tier == "thorough" else 5)]
            for (tname, j) in variants:
                rec = f"{wd}.rec"
                shutil.rmtree(rec, ignore_errors=True)
                shutil.copytree(f"{images}/{ek}", rec)
                if j is not None:
                    fp = os.path.join(rec, rel)
                    try:
                        size = os.path.getsize(fp)
                        with open(fp, "r+b") as fh:
                            fh.truncate(size - ln + j)
                    except OSError:
                        continue
                node = vlib.Node(cfg, rec, clock + 1000)
                lines = [f"start\t{node.ready or 'died'}"]
                if node.ready.startswith("ready"):
                    for pre in vlib.PREAMBLE:
                        node.op(pre)
                    for p in range(1, nparts + 1):
                        for o in (f"poll 0 #1 #1 {p} c:#9 offset:0 100000 0",
                                  f"send 0 #1 #1 pid:{p} {900000 + p}:20:{7000 + p}:0",
                                  f"poll 0 #1 #1 {p} c:#9 offset:0 100000 0"):
                            lines.append(f"{o}\t{node.op(o)}")
                node.kill()
                shutil.rmtree(rec, ignore_errors=True)
                for side in (".stderr", ".tokens"):
                    try:
                        os.remove(rec + side)
                    except OSError:
                        pass
                blocks.append(f"IMAGE {opi} {ek} {kind} {rel} {ln} {tname}\n" + "\n".join(lines) + "\nENDIMAGE")
                nimg += 1
        shutil.rmtree(images, ignore_errors=True)
        full = trace + blocks
        j = vlib.judge("crash", "\n".join(full).split("\n"))
        return k, cfg, ops, full, j, nimg, len(events)

    if replay:
        k, cfg, ops, full, j, nimg, nev = one(0)
        print(j["raw"])
        hits = [l for l in j["spec"] if not any(re.search(kf["shape"], l) and vlib.spec_class(l).startswith(kf["class"]) for kf in known)]
        return 1 if (hits or j["corr"]) else 0
    results = vlib.parallel(one, list(range(n)))
    spec_v, corr_d, known_hits, cov = [], [], {}, {}
    images = sum(r[5] for r in results)
    events = sum(r[6] for r in results)
    for k, cfg, ops, full, j, nimg, nev in results:
        for a, b in j["cov"].items():
            cov[a] = cov.get(a, 0) + b
        for l in j["spec"]:
            kf = next((x for x in known if vlib.spec_class(l).startswith(x["class"]) and re.search(x["shape"], l)), None)
            if kf:
                known_hits[kf["what"]] = known_hits.get(kf["what"], 0) + 1
            else:
                spec_v.append((k, cfg, ops, full, l))
        corr_d += [(k, cfg, ops, full, l) for l in j["corr"]]
    rc, msgs = 0, []
    for kf in known:
        msgs.append(f"KNOWN-FINDING: property={prop} {kf['what']} (reproduced {known_hits.get(kf['what'], 0)}x in this run)")
    if bad:
        path = vlib.write_replay(prop, "audit.txt", "\n".join(bad))
        msgs.append(f"VIOLATION property={prop} replay={path} no-failing-input-found")
        rc = 1
    if spec_v:
        k, cfg, ops, full, l = spec_v[0]
        body = "cfg " + " ".join(f"{a}={b}" for a, b in cfg.items()) + "\n" + "\n".join(ops) + "\n# " + l + "\n"
        path = vlib.write_replay(prop, "violation.ops", body)
        vlib.write_replay(prop, "violation.fulltrace", "\n".join(full) + "\n")
        msgs.append(f"VIOLATION property={prop} replay={path}")
        rc = 1
    elif corr_d:
        k, cfg, ops, full, l = corr_d[0]
        body = "cfg " + " ".join(f"{a}={b}" for a, b in cfg.items()) + "\n" + "\n".join(ops) + "\n# correspondence no longer checks: " + l + "\n"
        path = vlib.write_replay(prop, "correspondence.ops", body)
        msgs.append(f"VIOLATION property={prop} replay={path} no-failing-input-found")
        rc = 1
    sample = results[0]
    coverage = {
        "obligations": obligations, "discharged": obligations if not bad else 0,
        "checker_cmd": f"lake build {module} judge && lake env lean Iggy/Audit/C04.lean (#print axioms)",
        "trusted_base": COMMON_TB + ["hook H2b (file-mutation events) + the harness's directory copy at every event; thorough tier: every event x every torn length up to 48 bytes (and L-1) of an append"],
        "theorems": names, "nonvacuity_examples": examples, "axioms_used": axioms,
        "traces_validated_against_impl": len(results), "evaluations": images,
        "distinct_nontrivial": len({(r[1]["save"], r[1]["seg"], r[5], r[6]) for r in results}),
        "rule": "per history: every completed file mutation (create/append/overwrite/delete of log, index, offset, state files) yields a crash image; quick: 14 sampled events per history, the full image + up to 5 torn lengths {1,23,24,25,L-1,random} of an append; each image is recovered by a fresh real server process, every partition polled in full, one post-recovery send, polled again; evaluations = recovered images; distinct = distinct (save threshold, segment size, images, events) tuples",
        "samples": [{"cfg": sample[1], "ops": sample[2][:30], "first_image_block": sample[3][len(sample[2]) + 1][:600] if len(sample[3]) > len(sample[2]) + 1 else ""}],
        "file_mutation_events": events, "crash_images_recovered": images, "model_branches": cov,
        "spec_violations": len(spec_v), "corr_diffs": len(corr_d), "known_finding_hits": known_hits, "exhaustive": False,
    }
    vlib.write_evidence(prop, tier, seed, coverage, ASSUME_NODE + [
        "PARTIAL: a crash is a process death — completed write()s survive, the last one may be torn at any byte; what the filesystem does to un-synced data on power loss is not modelled",
        "no-wait confirmation is not exercised here"], time.time() - t0, len(spec_v) + (1 if corr_d or bad else 0))
    for m in msgs:
        print(m)
    if rc == 0:
        print(f"OK property={prop} obligations={obligations} histories={len(results)} events={events} images={images}")
    else:
        for x in (spec_v + corr_d)[:6]:
            print("  ", x[0], x[4][:400])
    return rc


PROPS["C04"] = {"run": run_c04}

def run_c13(prop, tier, seed, replay, t0):
    """C13. (1) proofs about the codec model; (2) the REAL encoders/decoders on structure-aware values
    (harness `codec`), each line re-decoded by the Lean model (`codecjudge`): outcomes are judged
    (property), descriptions compared (correspondence); (3) mutated frames: real decoder vs model
    (accept/refuse + decoded value); (4) node histories with malformed frames on raw connections."""
    import gen_malformed
    module = "Iggy.Props.C13"
    CJ = f"{vlib.VERIF}/lean/.lake/build/bin/codecjudge"
    proof_error = None
    names, examples, axioms, bad = [], 0, [], []
    try:
        vlib.lean_build([module, "codecjudge", "judge"])
        names, examples, axioms, bad = vlib.audit(module)
    except vlib.BuildError as e:
        proof_error = str(e)
    vlib.build_harness()
    obligations = len(names) + examples
    known = [k for k in vlib.load_known() if k["property"] == prop]
    wd = f"{vlib.WORK}/C13"
    os.makedirs(wd, exist_ok=True)
    if replay and not replay.endswith(".ops"):
        # replay file: lines `<kind> <hex>` — decode with the real decoders and the model
        a = subprocess.run([vlib.HBIN, "codec-decode", replay], stdout=subprocess.PIPE, text=True).stdout
        b = subprocess.run([CJ, "decode"], stdin=open(replay), stdout=subprocess.PIPE, text=True).stdout
        print("real:\n" + a + "model:\n" + b)
        return 1
    if replay:
        return run_node_property(prop, tier, seed, replay, t0, module=module, gen=gen_malformed.gen, n_quick=0,
                                 n_thorough=0, spec_prefixes=["malformed-frame-effect", "obs-changed", "poll-"],
                                 corr_kinds=None, assumptions=[])
    nseeds, count = (8, 6000) if tier == "quick" else (48, 40000)
    nmut = 20000 if tier == "quick" else 400000

    def codec_run(i):
        sd = seed * 1000 + i
        edge = 10 if i % 2 == 0 else 0
        f = f"{wd}/codec{i}.txt"
        with open(f, "w") as fh:
            subprocess.run([vlib.HBIN, "codec", str(sd), str(count), str(edge)], stdout=fh, stderr=subprocess.DEVNULL)
        j = subprocess.run([CJ], stdin=open(f), stdout=subprocess.PIPE, text=True).stdout if proof_error is None else ""
        lines = open(f).read().splitlines()
        os.remove(f)
        return sd, edge, lines, j
    runs = vlib.parallel(codec_run, list(range(nseeds)), workers=8)
    outcomes, per_kind, viol, known_hits, corr = {}, {}, [], {}, []
    total_values = 0
    for sd, edge, lines, j in runs:
        for l in lines:
            f = l.split(" ", 3)
            if f[0] == "DONE" or len(f) < 3:
                continue
            total_values += 1
            kind, outc = f[0], f[1]
            per_kind[kind] = per_kind.get(kind, 0) + 1
            key = outc.split(":")[0]
            outcomes[key] = outcomes.get(key, 0) + 1
            if outc in ("OK", "INVALID"):
                continue
            if outc.startswith("MISMATCH-SENTINEL:"):
                classes = outc.split(":", 1)[1].split("+")
                unknown = [c for c in classes if not any(k["class"] == "codec-sentinel" and re.search(k["shape"], c) for k in known)]
                for c in classes:
                    for k in known:
                        if k["class"] == "codec-sentinel" and re.search(k["shape"], c):
                            known_hits[k["what"]] = known_hits.get(k["what"], 0) + 1
                if not unknown:
                    continue
            viol.append((sd, edge, l))
        m = re.search(r"JUDGED total=(\d+) same=(\d+) diff=(\d+)", j)
        if not m or int(m.group(3)) != 0:
            corr.append((sd, edge, [x for x in j.splitlines() if x.startswith("DIFF")][:3] or [j[-300:]]))
    # mutated frames
    mf = f"{wd}/mut.txt"
    with open(mf, "w") as fh:
        subprocess.run([vlib.HBIN, "codec-mutate", str(seed), str(nmut)], stdout=fh, stderr=subprocess.DEVNULL)
    real = subprocess.run([vlib.HBIN, "codec-decode", mf], stdout=subprocess.PIPE, stderr=subprocess.DEVNULL, text=True).stdout.splitlines()
    model = subprocess.run([CJ, "decode"], stdin=open(mf), stdout=subprocess.PIPE, text=True).stdout.splitlines() if proof_error is None else []
    frames = open(mf).read().splitlines()
    os.remove(mf)
    mut_stats = {"frames": len(frames), "accepted": 0, "refused": 0, "panic": 0}
    mut_diffs = []

    def canon(x):
        return "REFUSED" if x.startswith(("ERROR", "PANIC", "NONE")) else x
    for i, (a, b) in enumerate(zip(real, model)):
        if a.startswith("PANIC"):
            mut_stats["panic"] += 1
        if a.startswith("OK"):
            mut_stats["accepted"] += 1
        else:
            mut_stats["refused"] += 1
        if canon(a) != canon(b):
            mut_diffs.append((frames[i] if i < len(frames) else "?", a[:200], b[:200]))
    if model and len(real) != len(model):
        mut_diffs.append(("line-count", str(len(real)), str(len(model))))
    rc, msgs = 0, []
    if viol:
        sd, edge, l = viol[0]
        f = l.split(" ", 3)
        path = vlib.write_replay(prop, "codec-violation.txt", f"{f[0]} {f[2] if len(f) > 2 else ''}\n")
        vlib.write_replay(prop, "codec-violation.info", f"# verif-harness codec {sd} {count} {edge}\n# {l[:3000]}\n")
        msgs.append(f"VIOLATION property={prop} replay={path}")
        rc = 1
    if rc == 0 and (proof_error or bad or corr or mut_diffs):
        what = proof_error or "\n".join(bad) or (f"codec model and real decoders differ: seed {corr[0][0]} edge {corr[0][1]}: {corr[0][2]}" if corr else
                                                   f"mutated frame: {mut_diffs[0]}")
        path = vlib.write_replay(prop, "proof-or-correspondence.txt", what[:6000])
        msgs.append(f"VIOLATION property={prop} replay={path} no-failing-input-found")
        rc = 1
    coverage = {
        "obligations": max(obligations, 1), "discharged": obligations if not (proof_error or bad) else 0,
        "checker_cmd": "lake build Iggy.Props.C13 codecjudge && lake env lean Iggy/Audit/C13.lean (#print axioms)",
        "trusted_base": COMMON_TB[:1] + [
            "hand-written codec model lean/Iggy/Codec (encoders and decoders in separate files, each mirroring its Rust source), tied to the code on every run: every generated value's REAL bytes are decoded by the model and the canonical description compared with the real decoder's; mutated frames likewise (accept/refuse and value)",
            "harness codec modes (generators use SDK constructors only; canonical descriptions in codec_desc.rs)",
            "UTF-8 validity in the model is the executable validUtf8 (agrees with from_utf8 on every frame of every run; no proof)"],
        "theorems": names, "nonvacuity_examples": examples, "axioms_used": axioms,
        "programs": len(per_kind), "traces_validated_against_impl": len(runs) + 1,
        "evaluations": total_values + len(frames), "distinct_nontrivial": len(per_kind),
        "rule": "CODEC: values = structure-aware random values of all 45 commands + RetainedMessage, RetainedBatch, StateEntry, EntryCommand (all 19), half of the runs with 10% edge probes (boundary values validate() accepts or refuses); evaluations = values round-tripped through the real encoder+decoder and re-decoded by the Lean model + mutated/truncated frames decoded by both; distinct = kinds of value covered",
        "samples": [{"values_per_kind": per_kind}, {"outcomes": outcomes}, {"mutated_frames": mut_stats}],
        "codec_outcomes": outcomes, "mutated_frames": mut_stats, "codec_model_diffs": len(corr), "mutated_frame_diffs": len(mut_diffs),
        "codec_violations": len(viol),
    }
    if proof_error:
        vlib.write_evidence(prop, tier, seed, coverage, ["proof build failed: node history part not run"], time.time() - t0, 1)
        for m in msgs:
            print(m)
        return 1
    import gen_http, gen_catalog, gen_auth

    def mixed(rng, focus, k=None, maxops=40):
        # half: malformed frames on raw connections; half: ordinary histories (catalogue, storage, users) with the
        # HTTP API carrying about half of the requests - every request and response then crosses JSON/HTTP
        # (real server handlers and mappers, real SDK HttpClient) and is compared with the same model
        if k is not None and k % 8 == 3:
            # every entity listing over BOTH transports while the group has several members (the per-member
            # figures of the HTTP mapper only differ from the group's when there are at least two)
            cfg = gen_storage.draw_cfg(rng, k, {"dedup": 0, "http": 1})
            np_ = rng.choice([2, 3, 4, 5])
            ops = ["conn 0 tcp", "login 0 iggy iggy", "conn 77 http", "login 77 iggy iggy", "clock 1000000",
                   "create-stream 0 1 s1", f"create-topic 77 #1 1 t1 {np_} never unlimited -", "create-group 0 #1 #1 1 g1",
                   "create-group 77 #1 #1 2 g2", "clock 1000010", "send 77 #1 #1 pid:1 1:20:101:1,2:50:102:0"]
            members = rng.randint(2, 4)
            for c in range(1, members + 1):
                ops += [f"conn {c} tcp", f"login {c} iggy iggy", f"me {c}", f"join {c} #1 #1 #1"]
                if rng.random() < 0.5:
                    ops.append(f"join {c} #1 #1 #2")
                for who in (0, 77):
                    ops += [f"group {who} #1 #1 #1", f"group {who} #1 #1 #2", f"groups {who} #1 #1"]
            for who in (0, 77):
                ops += [f"streams {who}", f"stream {who} #1", f"topics {who} #1", f"topic {who} #1 #1", f"users {who}",
                        f"stats {who}", f"poll {who} #1 #1 1 c:#5 offset:0 10 0", f"get-offset {who} #1 #1 1 c:#5"]
            c = rng.randint(1, members)
            ops += [f"leave {c} #1 #1 #1", "group 0 #1 #1 #1", "group 77 #1 #1 #1", f"create-parts 77 #1 #1 {rng.randint(1, 2)}",
                    "group 0 #1 #1 #1", "group 77 #1 #1 #1", f"close {rng.randint(1, members)}", "group 77 #1 #1 #1", "group 0 #1 #1 #1"]
            return cfg, ops
        if k is None or k % 2 == 0:
            return gen_malformed.gen(rng, focus, k, maxops)
        g = [gen_catalog.gen, gen_storage.gen, gen_auth.gen][(k // 2) % 3]
        cfg, ops = g(rng, {0: rng.choice(["C06", "C08", "C08"]), 1: "C02", 2: "C10"}[(k // 2) % 3], k, maxops)
        if rng.random() < 0.4:
            # server-side encryption on: the poll response is assembled from decrypted payloads
            import gen_crypto
            cfg["enc"] = gen_crypto.key(rng)
        return gen_http.httpify(rng, cfg, ops, share=0.7 if rng.random() < 0.7 else 0.0)
    return run_node_property(
        prop, tier, seed, None, t0, module=module, gen=mixed, n_quick=128, n_thorough=2500, http=False,
        spec_prefixes=["malformed-frame-effect", "malformed-frame-accepted", "obs-changed", "poll-", "get-offset", "store-offset", "figures-", "group-"], corr_kinds=None,
        assumptions=ASSUME_NODE + [
            "HTTP/JSON: not modelled byte by byte; half of the node histories send about 70% of their requests through the real HTTP API (server handlers + SDK HttpClient) and every answer is compared with the same model; QUIC (same binary codec) is not driven",
            "responses: the model covers the response frame; the per-entity response mappers (server binary/mapper.rs vs sdk binary/mapper.rs) are exercised end-to-end by every node history of every property (real server mapper -> real SDK decoder -> compared with the model's expected data), not modelled byte by byte",
            "malformed frames: what a frame does is judged from outside (answer kind, every other connection, catalogue, logs, restart)"],
        extra_coverage=coverage, pre_messages=msgs, pre_rc=rc, pre_known_hits=known_hits)


PROPS["C13"] = {"run": run_c13}

import gen_sdk
PROPS["C20"] = {"run": lambda p, tier, seed, replay, t0: run_node_property(
    p, tier, seed, replay, t0, module="Iggy.Props.C20", gen=gen_sdk.gen_any, http=False,
    more_modules=["Iggy.Props.C20Rewind"],
    n_quick=160, n_thorough=2000,
    spec_prefixes=["producer-", "consumer-", "group-", "commit-", "sdk-", "hl-", "poll-"],
    corr_kinds={"psend", "cnext", "cstore", "poll-offsets", "poll-content", "poll-cur", "poll-status", "send", "group"},
    assumptions=ASSUME_NODE + [
        "PARTIAL (timing): the theorems cover every schedule of the consumer's background commit task against its polls; the real "
        "tokio scheduling is sampled. The yielded sequence is compared exactly with the model (single-partition consumers); WHEN an "
        "offset reaches the server is schedule-dependent, so a stored offset read back is judged by the property's bound (never beyond "
        "what was yielded, or fetched in the commit-on-poll mode) and then adopted by the model",
        "group members are judged by specification-level oracles only (order, genuineness, no skip, no re-read below the stored offset, "
        "completeness after draining); which member serves which partition is the server's business (C08)",
        "allow_replay, AutoCommitAfter (consume_messages helper), reconnection and client-side encryption are not driven",
        "strategies first / last / timestamp ask for the same position at every poll: for them only order, genuineness and no repeats are required"],
    extra_tb=["the real IggyClient / IggyProducer / IggyConsumer (sdk/src/clients) over real TCP connections to the in-process server",
              "consumer model lean/Iggy/Sdk/Model.lean, run by the judge against the system model (Driver/Main.lean sdkYield/sdkDeliver)"])}

import gen_conc
PROPS["C12"] = {"run": lambda p, tier, seed, replay, t0: run_node_property(
    p, tier, seed, replay, t0, module="Iggy.Props.C12", gen=gen_conc.gen, http=False, more_modules=["Iggy.Props.C12NoWait"],
    n_quick=96, n_thorough=1500, spec_prefixes=["stress-", "poll-", "obs-changed"],
    corr_kinds=ALL_POLL_KINDS | {"figures"},
    assumptions=ASSUME_NODE + [
        "PARTIAL: the theorems quantify over all orders of lock-granularity atoms (append / poll / save under the partition lock); "
        "behaviour below that granularity (tokio file buffering, spawn_blocking, memory ordering of atomics) is only sampled: "
        "by real concurrent clients on a 4-thread runtime (stress) and by scheduling the persister task through hook H3 (hold/release)",
        "stress runs: the interleaving is whatever the machine produces in this run (not replayable bit-for-bit); every request is "
        "stamped before it is sent and after it is answered, the judge validates a linearisation against these stamps",
        "no-wait confirmation: a poll must return a prefix of the specification's answer while batches are on their way to the log, "
        "and exactly that answer once the persister task is idle"],
    extra_tb=["hook H3 (server::verif::sched at PersisterTask::run) to hold/release the persister task",
              "harness `stress` op (worker tasks with their own SDK clients, global stamp counter) and the runner's linearisation "
              "builder (lib/vlib.py) — the linearisation is only a witness: the judge checks it against the stamps and replays it"])}
