"""Per-property check definitions (what is generated, which oracle classes and correspondence kinds
concern the property, what is assumed)."""
import glob, json, os, random, re, time
import vlib
import gen_storage

COMMON_TB = [
    "Lean 4.33.0 kernel; axioms accepted: propext, Classical.choice, Quot.sound (audited with #print axioms on every property theorem)",
    "hand-written L1 model lean/Iggy/Log/Model.lean + lean/Iggy/Sys/Model.lean, tied to /repo by the correspondence run (harness links the real server+sdk crates; judge = compiled Lean definitions)",
    "harness /verif/harness (Rust), runner /verif/lib (Python, orchestration only)",
    "modelled, not verified: tokio scheduling, filesystem, hash-map order, machine-integer overflow (models use Nat)",
]


def load_corpus(prop):
    out = []
    for f in sorted(glob.glob(f"{vlib.VERIF}/corpus/{prop}/*.ops")):
        lines = [l.rstrip("\n") for l in open(f) if l.strip() and not l.startswith("#")]
        cfg = dict(kv.split("=", 1) for kv in lines[0].split()[1:])
        out.append((os.path.basename(f), cfg, lines[1:]))
    return out


def signature(cfg, cov):
    keys = sorted(k for k in cov if k.startswith(("tier:", "err:", "op:", "br:")))
    cfgc = ",".join(f"{k}={cfg[k]}" for k in sorted(cfg) if k in ("save", "seg", "cache", "idxcache", "dedup", "confirm"))
    return cfgc + "|" + ",".join(keys)


MUTATING = ("send", "purge-topic", "purge-stream", "store-offset", "delete-offset", "create-parts",
            "delete-parts", "maintain", "delete-topic")
OBSERVING = ("poll", "get-offset", "topic", "stats")


def run_node_property(prop, tier, seed, replay, t0, *, module, gen, n_quick, n_thorough, spec_prefixes,
                      corr_kinds, assumptions, engine="sys", extra_tb=None, maxops_thorough=90):
    # 1-2. proofs
    out = vlib.lean_build([module, "judge"])
    names, examples, axioms, bad = vlib.audit(module)
    obligations = len(names) + examples
    # 3. harness
    vlib.build_harness()
    known = [k for k in vlib.load_known() if k["property"] == prop]

    def relevant_spec(line):
        c = vlib.spec_class(line)
        return any(c.startswith(p) for p in spec_prefixes)

    def relevant_corr(line):
        m = re.search(r"kind=(\S+)", line)
        return corr_kinds is None or (m and m.group(1) in corr_kinds) or "judge-crashed" in line

    def is_known(line):
        c = vlib.spec_class(line)
        for k in known:
            if c.startswith(k["class"]) and re.search(k["shape"], line):
                return k
        return None

    def evaluate(item):
        name, cfg, ops, wd = item
        trace = vlib.run_history(cfg, ops, wd)
        j = vlib.judge(engine, trace)
        return name, cfg, ops, trace, j

    if replay:
        lines = [l.rstrip("\n") for l in open(replay) if l.strip() and not l.startswith("#")]
        cfg = dict(kv.split("=", 1) for kv in lines[0].split()[1:] if "=" in kv)
        name, cfg, ops, trace, j = evaluate(("replay", cfg, lines[1:], f"{vlib.WORK}/{prop}/replay"))
        print("\n".join(trace))
        print(j["raw"])
        bad_lines = [l for l in j["spec"] if relevant_spec(l) and not is_known(l)] + \
                    [l for l in j["corr"] if relevant_corr(l)]
        return 1 if bad_lines else 0

    rng = random.Random(seed)
    n = n_thorough if tier == "thorough" else n_quick
    items = []
    for cname, cfg, ops in load_corpus(prop):
        items.append((f"corpus/{cname}", cfg, ops, f"{vlib.WORK}/{prop}/c{len(items)}"))
    ncorpus = len(items)
    for k in range(n):
        hr = random.Random(rng.getrandbits(64))
        cfg, ops = gen(hr, prop, k, maxops_thorough if tier == "thorough" else 40)
        items.append((f"gen/{k}", cfg, ops, f"{vlib.WORK}/{prop}/g{k}"))
    results = vlib.parallel(evaluate, items)

    # 5. evidence + 6. decision
    opdist, covtot, sigs = {}, {}, set()
    total_ops = 0
    spec_v, corr_d, known_hits = [], [], {}
    for name, cfg, ops, trace, j in results:
        for k, v in j["cov"].items():
            covtot[k] = covtot.get(k, 0) + v
        m = re.search(r"modelled=(\d+)", j["done"] or "")
        total_ops += int(m.group(1)) if m else 0
        has_mut = any(o.split()[0] in MUTATING for o in ops)
        has_obs = any(o.split()[0] in OBSERVING for o in ops)
        if has_mut and has_obs:
            sigs.add(signature(cfg, j["cov"]))
        for l in j["spec"]:
            if not relevant_spec(l):
                continue
            k = is_known(l)
            if k:
                known_hits[k["what"]] = known_hits.get(k["what"], 0) + 1
            else:
                spec_v.append((name, cfg, ops, l))
        for l in j["corr"]:
            if relevant_corr(l):
                corr_d.append((name, cfg, ops, l))
    for k, v in covtot.items():
        if k.startswith("op:"):
            opdist[k[3:]] = v

    rc = 0
    messages = []
    for what in known_hits:
        messages.append(f"KNOWN-FINDING: property={prop} {what}")
    replay_path = None
    if bad:
        replay_path = vlib.write_replay(prop, "audit.txt", "\n".join(bad))
        messages.append(f"VIOLATION property={prop} replay={replay_path} no-failing-input-found")
        rc = 1
    if spec_v:
        name, cfg, ops, line = spec_v[0]
        cls = vlib.spec_class(line)

        def fails(trace):
            j = vlib.judge(engine, trace)
            return any(vlib.spec_class(l) == cls and not is_known(l) for l in j["spec"])
        small = vlib.shrink(cfg, ops, fails, f"{vlib.WORK}/{prop}/shrink", budget=40 if tier == "quick" else 150)
        tr = vlib.run_history(cfg, small, f"{vlib.WORK}/{prop}/shrink")
        jj = vlib.judge(engine, tr)
        body = "cfg " + " ".join(f"{k}={v}" for k, v in cfg.items()) + "\n" + "\n".join(small) + "\n"
        body += "# from " + name + "\n# " + "\n# ".join(jj["spec"] + jj["corr"]) + "\n"
        replay_path = vlib.write_replay(prop, "violation.ops", body)
        messages.append(f"VIOLATION property={prop} replay={replay_path}")
        rc = 1
    elif corr_d:
        # correspondence broken, oracle silent so far: search harder for a failing input
        found = None
        srng = random.Random(seed ^ 0x5EED)
        sitems = []
        for k in range(4 * max(n, 20)):
            hr = random.Random(srng.getrandbits(64))
            cfg, ops = gen(hr, prop, k, 60)
            sitems.append((f"search/{k}", cfg, ops, f"{vlib.WORK}/{prop}/s{k}"))
        for name, cfg, ops, trace, j in vlib.parallel(evaluate, sitems):
            hits = [l for l in j["spec"] if relevant_spec(l) and not is_known(l)]
            if hits:
                found = (name, cfg, ops, hits[0])
                break
        if found:
            name, cfg, ops, line = found
            body = "cfg " + " ".join(f"{k}={v}" for k, v in cfg.items()) + "\n" + "\n".join(ops) + "\n# " + line + "\n"
            replay_path = vlib.write_replay(prop, "violation.ops", body)
            messages.append(f"VIOLATION property={prop} replay={replay_path}")
        else:
            name, cfg, ops, line = corr_d[0]
            body = "cfg " + " ".join(f"{k}={v}" for k, v in cfg.items()) + "\n" + "\n".join(ops) + "\n"
            body += f"# correspondence `{engine}` (L1 model vs implementation) no longer checks; first difference:\n# {line}\n"
            replay_path = vlib.write_replay(prop, "correspondence.ops", body)
            messages.append(f"VIOLATION property={prop} replay={replay_path} no-failing-input-found")
        rc = 1

    sample = results[min(ncorpus, len(results) - 1)]
    coverage = {
        "obligations": obligations, "discharged": obligations if not bad else 0,
        "checker_cmd": f"lake build {module} judge  &&  lake env lean Iggy/Audit/{module.split('.')[-1]}.lean  (#print axioms)",
        "trusted_base": COMMON_TB + (extra_tb or []),
        "theorems": names, "nonvacuity_examples": examples, "axioms_used": axioms,
        "traces_validated_against_impl": len(results),
        "evaluations": total_ops, "distinct_nontrivial": len(sigs),
        "rule": "histories = corpus + generated from one PRNG (VERIF_SEED); evaluations = operations replayed on model, spec and implementation; a history is non-trivial if it has ≥1 state-changing op and ≥1 observation; distinct = distinct (storage configuration, set of model branches/ops/error kinds hit) signatures",
        "samples": [{"history": sample[0], "cfg": sample[1], "ops": sample[2][:60]},
                    {"theorems": names[:12]}],
        "ops_distribution": opdist,
        "model_branches": {k: v for k, v in covtot.items() if not k.startswith("op:")},
        "corpus_histories": ncorpus, "generated_histories": n,
        "spec_violations": len(spec_v), "corr_diffs": len(corr_d), "known_finding_hits": known_hits,
        "exhaustive": False,
    }
    vlib.write_evidence(prop, tier, seed, coverage, assumptions, time.time() - t0, len(spec_v) + (1 if (corr_d or bad) else 0))
    for m in messages:
        print(m)
    if rc == 0:
        print(f"OK property={prop} obligations={obligations} histories={len(results)} ops={total_ops} distinct={len(sigs)}")
    else:
        for name, cfg, ops, l in (spec_v + corr_d)[:5]:
            print("  ", name, l[:400])
    return rc


def storage(prop, module, spec_prefixes, corr_kinds, assumptions, n_quick=160, n_thorough=3000):
    def run(p, tier, seed, replay, t0):
        return run_node_property(p, tier, seed, replay, t0, module=module, gen=gen_storage.gen,
                                 n_quick=n_quick, n_thorough=n_thorough, spec_prefixes=spec_prefixes,
                                 corr_kinds=corr_kinds, assumptions=assumptions)
    return {"run": run}


PROPS = {}

ASSUME_NODE = [
    "correspondence is differential testing: a divergence outside the generated histories is not seen",
    "one OS process per server incarnation; restart = graceful System::shutdown + runtime shutdown + new process on the same directory",
    "virtual clock (hook H1) drives every timestamp; wall-clock time plays no role",
]

POLL_CLASSES = ["poll-", "cur", "get-offset", "store-offset", "offset-"]

PROPS["C17"] = {"run": lambda p, tier, seed, replay, t0: run_node_property(
    p, tier, seed, replay, t0, module="Iggy.Props.C17", gen=gen_storage.gen_c17,
    n_quick=120, n_thorough=2500, spec_prefixes=["poll-"],
    corr_kinds={"send", "poll-offsets", "poll-content", "poll-cur", "poll-status", "poll-partition",
                "create-parts", "delete-parts"},
    assumptions=ASSUME_NODE + ["xxhash32 is a parameter of the theorems (all hash values); the real calculate_32 is called through the harness and its value fed to the model"])}

ALL_POLL_KINDS = {"send", "poll-offsets", "poll-content", "poll-cur", "poll-status", "poll-partition",
                  "purge-topic", "flush", "restart"}
PROPS["C01"] = storage("C01", "Iggy.Props.C01", ["poll-", "obs-changed"], ALL_POLL_KINDS, ASSUME_NODE)
PROPS["C02"] = storage("C02", "Iggy.Props.C02", ["poll-", "obs-changed"], ALL_POLL_KINDS, ASSUME_NODE)
PROPS["C07"] = storage("C07", "Iggy.Props.C07", ["get-offset", "store-offset", "poll-next", "offset-", "obs-changed"],
                       {"offsets", "poll-offsets", "poll-content", "poll-status", "poll-cur", "purge-topic"},
                       ASSUME_NODE + ["named consumers resolve to xxhash32(name): isolation between two *named* consumers holds under the explicit hypothesis that their hashes differ (a 32-bit hash is not injective)"])
PROPS["C18"] = storage("C18", "Iggy.Props.C18", ["poll-", "obs-changed"], ALL_POLL_KINDS,
                       ASSUME_NODE + ["within the configured id capacity and time-to-live: the harness configures 10^6 ids / 10 h, the model has no eviction (moka's eviction is outside the property)"])


def retention(prop, module, spec_prefixes, corr_kinds, assumptions, n_quick=140, n_thorough=2500, mix=False):
    def g(rng, focus, k=None, maxops=40):
        if mix and k is not None and k % 2 == 1:
            return gen_storage.gen(rng, focus, k, maxops)
        return gen_storage.gen_retention(rng, focus, k, maxops)

    def run(p, tier, seed, replay, t0):
        return run_node_property(p, tier, seed, replay, t0, module=module, gen=g,
                                 n_quick=n_quick, n_thorough=n_thorough, spec_prefixes=spec_prefixes,
                                 corr_kinds=corr_kinds, assumptions=assumptions)
    return {"run": run}


PROPS["C03"] = storage("C03", "Iggy.Props.C03", ["obs-changed-restart", "poll-", "get-offset"],
                       ALL_POLL_KINDS | {"figures", "offsets"}, ASSUME_NODE)
PROPS["C14"] = retention("C14", "Iggy.Props.C14", ["poll-", "retention-illegal", "obs-changed"],
                         ALL_POLL_KINDS | {"maintain", "update-topic"}, ASSUME_NODE + [
                             "maintenance passes are driven through the real MaintainMessagesExecutor::execute with a command obtained from the real MessagesMaintainer; the interval timer itself is not exercised"])
PROPS["C15"] = retention("C15", "Iggy.Props.C15", ["gate", "poll-", "retention-illegal"],
                         ALL_POLL_KINDS | {"maintain", "update-topic", "create-topic", "figures"}, ASSUME_NODE + [
                             "the almost-full threshold (size as f64 * 0.9) as u64 is modelled as floor(9*size/10); equal for the sizes used (exact in f64 below 2^53)"])
PROPS["C16"] = retention("C16", "Iggy.Props.C16", ["figures-"], {"figures"}, ASSUME_NODE, mix=True)

import gen_catalog


def catalog(prop, module, spec_prefixes, corr_kinds, assumptions, n_quick=140, n_thorough=2500):
    def run(p, tier, seed, replay, t0):
        return run_node_property(p, tier, seed, replay, t0, module=module, gen=gen_catalog.gen,
                                 n_quick=n_quick, n_thorough=n_thorough, spec_prefixes=spec_prefixes,
                                 corr_kinds=corr_kinds, assumptions=assumptions)
    return {"run": run}


PROPS["C08"] = catalog("C08", "Iggy.Props.C08", ["group-", "poll-next", "poll-"],
                       {"group", "groups", "join", "leave", "close", "me", "poll-partition", "poll-offsets",
                        "poll-content", "poll-cur", "poll-status", "create-group", "delete-group",
                        "create-parts", "delete-parts"},
                       ASSUME_NODE + ["hash-map iteration order of group members is an input of the model: the harness prints the implementation's member order after every membership change and the model adopts it (every theorem holds for every order)",
                                      "liveness ('someone keeps polling') is the caller's; the theorems give safety (delivered is a prefix) + progress (a served poll on a partition with undelivered messages is non-empty)"])
