"""Second transport: reroute part of the root connection's requests of a generated history through the
HTTP API (real axum server, real SDK HttpClient, JSON bodies). Same operations, same model: the judge
knows which connections are HTTP (errors travel as status codes)."""

HTTP_OK = {"create-stream", "update-stream", "delete-stream", "purge-stream", "create-topic", "update-topic",
           "delete-topic", "purge-topic", "create-parts", "delete-parts", "create-group", "delete-group",
           "send", "poll", "store-offset", "get-offset", "delete-offset", "streams", "stream", "topics", "topic",
           "groups", "group", "users", "user", "create-user", "delete-user", "update-user", "update-perms",
           "stats", "flush", "change-pw", "create-pat", "delete-pat", "pats"}
HC = 77      # far above any connection number a generator hands out


def httpify(rng, cfg, ops, share=0.5):
    cfg = dict(cfg)
    cfg["http"] = 1
    out = []
    logged = False
    # some of the other connections use HTTP for everything they do
    others = sorted({o.split(" ")[1] for o in ops if o.startswith("conn ") and o.split(" ")[1] not in ("0", str(HC))})
    http_conns = {c for c in others if rng.random() < 0.4}
    for o in ops:
        f = o.split(" ")
        if len(f) > 1 and f[1] in http_conns:
            if f[0] == "conn":
                out.append(f"conn {f[1]} http")
            elif f[0] in ("me", "join", "leave"):
                pass                     # not available over HTTP (stateless sessions)
            elif any(x.startswith("g:") for x in f[2:]) or any(x.startswith("@") and x[1:].split("=")[0].isdigit() for x in f[2:]):
                pass
            else:
                out.append(o)
            continue
        # a name made of digits cannot be addressed by name in a URL (the path segment is read as an id)
        digits_name = any(x.startswith("@") and x[1:].split("=")[0].isdigit() for x in f[2:])
        if f[0] in HTTP_OK and len(f) > 1 and f[1] == "0" and logged and not digits_name and rng.random() < share:
            if any(x.startswith("g:") for x in f[2:]) or (f[0] == "poll" and f[4] == "-"):
                # the HTTP API has no consumer groups: the kind of a consumer is ignored there (a request for
                # group 1 acts on consumer 1) and group polls need a member connection
                out.append(o)
                continue
            f[1] = str(HC)
            out.append(" ".join(f))
            continue
        out.append(o)
        if (o == "login 0 iggy iggy" and not logged) or o == "restart" or o.startswith("restart-key"):
            out.append(f"conn {HC} http")
            out.append(f"login {HC} iggy iggy")
            logged = True
    return cfg, out


def wrap(gen, every=3, which=1):
    """generator -> generator whose every `every`-th history uses both transports"""
    def g(rng, focus, k=None, maxops=40):
        cfg, ops = gen(rng, focus, k, maxops)
        if k is not None and k % every == which and not any(o.split()[0] in ("hold", "stress", "hl") for o in ops):
            return httpify(rng, cfg, ops)
        return cfg, ops
    return g
