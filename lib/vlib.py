"""Runner library: builds, harness processes, traces, judge, shrinking, evidence, decision table.
Python only orchestrates; the model, the specification oracle and every comparison are Lean
(lean/Driver/Main.lean).  Stdlib only."""
import fcntl, hashlib, json, os, random, re, shutil, subprocess, sys, time
from concurrent.futures import ThreadPoolExecutor

VERIF = "/verif"
LEAN = f"{VERIF}/lean"
HARNESS = f"{VERIF}/harness"
HBIN = f"{HARNESS}/target/debug/verif-harness"
JUDGE = f"{LEAN}/.lake/build/bin/judge"
WORK = f"{VERIF}/work"
ALLOWED_AXIOMS = {"propext", "Classical.choice", "Quot.sound"}


class BuildError(Exception):
    pass


def sh(cmd, cwd=None, env=None, timeout=None):
    e = dict(os.environ)
    if env:
        e.update(env)
    return subprocess.run(cmd, cwd=cwd, env=e, stdout=subprocess.PIPE, stderr=subprocess.STDOUT,
                          text=True, timeout=timeout)


class Lock:
    def __init__(self, name):
        os.makedirs(WORK, exist_ok=True)
        self.path = f"{WORK}/.{name}.lock"

    def __enter__(self):
        self.f = open(self.path, "w")
        fcntl.flock(self.f, fcntl.LOCK_EX)

    def __exit__(self, *a):
        fcntl.flock(self.f, fcntl.LOCK_UN)
        self.f.close()


# ------------------------------------------------------------------------------------------------
# builds

def build_harness():
    """cargo build of the harness against /repo's current working tree, hooks on."""
    with Lock("cargo"):
        shutil.copyfile("/repo/Cargo.lock", f"{HARNESS}/Cargo.lock")
        r = sh(["cargo", "build", "--offline"], cwd=HARNESS, env={"CARGO_NET_OFFLINE": "true"})
        if r.returncode != 0:
            errs = [l for l in r.stdout.splitlines() if l.startswith("error")]
            raise BuildError("harness build failed:\n" + "\n".join(errs[:20]) + "\n" + r.stdout[-3000:])


def lean_build(targets):
    with Lock("lake"):
        # the permission rules are part of the system model: regenerate them from /repo's source before
        # EVERY build, so that no check ever judges with rules translated from an older tree
        t = sh(["python3", f"{VERIF}/translate/perm_rules.py"])
        if t.returncode != 0:
            raise BuildError("translator translate/perm_rules.py failed:\n" + t.stdout[-3000:])
        r = sh(["lake", "build"] + targets, cwd=LEAN)
        if r.returncode != 0:
            raise BuildError("lake build failed:\n" + "\n".join(
                l for l in r.stdout.splitlines() if not l.startswith("trace"))[-4000:])
        return r.stdout


def audit(prop_module):
    """#print axioms on every declaration of the property module; grep for forbidden constructs.
    Returns (obligations, bad) where obligations is the list of audited declarations."""
    src = open(f"{LEAN}/{prop_module.replace('.', '/')}.lean").read()
    # declarations: theorems (named) and examples (anonymous, counted)
    names = re.findall(r"^\s*(?:protected\s+)?theorem\s+([A-Za-z0-9_.'₀-₉]+)", src, re.M)
    ns = re.findall(r"^namespace\s+(\S+)", src, re.M)
    examples = len(re.findall(r"^\s*example\b", src, re.M))
    prefix = (ns[0] + ".") if ns else ""
    os.makedirs(f"{LEAN}/Iggy/Audit", exist_ok=True)
    short = prop_module.split(".")[-1]
    audit_file = f"{LEAN}/Iggy/Audit/{short}.lean"
    with open(audit_file, "w") as f:
        f.write(f"import {prop_module}\n")
        for n in names:
            f.write(f"#print axioms {prefix}{n}\n")
    with Lock("lake"):
        r = sh(["lake", "env", "lean", audit_file], cwd=LEAN)
    bad = []
    if r.returncode != 0:
        bad.append("audit file failed: " + r.stdout[-1500:])
    axioms_seen = set()
    for m in re.finditer(r"'([^']+)' depends on axioms: \[([^\]]*)\]", r.stdout, re.S):
        axs = {a.strip() for a in m.group(2).replace("\n", " ").split(",") if a.strip()}
        axioms_seen |= axs
        extra = axs - ALLOWED_AXIOMS
        if extra:
            bad.append(f"{m.group(1)} depends on {sorted(extra)}")
    # forbidden constructs anywhere in the library sources (comments stripped)
    for root, _, files in os.walk(f"{LEAN}/Iggy"):
        for fn in files:
            if not fn.endswith(".lean") or "/Audit" in root:
                continue
            txt = open(os.path.join(root, fn)).read()
            txt = re.sub(r"/-.*?-/", "", txt, flags=re.S)
            txt = re.sub(r"--.*", "", txt)
            for pat in [r"\bsorry\b", r"\badmit\b", r"^\s*axiom\s", r"native_decide", r"bv_decide",
                        r"implemented_by", r"\bunsafe\s", r"maxHeartbeats\s+0"]:
                if re.search(pat, txt, re.M):
                    bad.append(f"{fn}: forbidden construct /{pat}/")
    return names, examples, sorted(axioms_seen), bad


# ------------------------------------------------------------------------------------------------
# harness processes

class Node:
    """One server incarnation (one OS process)."""

    def __init__(self, cfg, workdir, clock):
        self.cfg = dict(cfg)
        self.dir = workdir
        line = "cfg " + " ".join(f"{k}={v}" for k, v in self.cfg.items()) + f" dir={workdir} clock={clock}"
        os.makedirs(os.path.dirname(workdir), exist_ok=True)
        self.errpath = workdir + ".stderr"
        self.err = open(self.errpath, "a")
        self.p = subprocess.Popen([HBIN, "node"], stdin=subprocess.PIPE, stdout=subprocess.PIPE,
                                  stderr=self.err, text=True, bufsize=1)
        self.p.stdin.write(line + "\n")
        self.p.stdin.flush()
        self.ready = self.p.stdout.readline().strip()

    def op(self, line):
        try:
            self.p.stdin.write(line + "\n")
            self.p.stdin.flush()
            out = self.p.stdout.readline()
        except BrokenPipeError:
            return "died"
        if out == "":
            return "died"
        return out.strip()

    def wait(self):
        try:
            self.p.stdin.close()
        except Exception:
            pass
        try:
            self.p.wait(timeout=20)
        except subprocess.TimeoutExpired:
            self.p.kill()
        self.err.close()

    def kill(self):
        self.p.kill()
        self.p.wait()
        self.err.close()


PREAMBLE = ["conn 0 tcp", "login 0 iggy iggy"]


def run_history(cfg, ops, workdir, keep=False):
    """Runs one history; returns trace lines `op\\tresult` (first line: the cfg line).
    Runner-level ops: `restart` (graceful shutdown + new process + preamble + cacheinfo)."""
    if os.path.exists(workdir):
        shutil.rmtree(workdir)
    for side in (".tokens",):
        if os.path.exists(workdir + side):
            os.remove(workdir + side)
    clock = 1_000_000
    for o in ops:
        if o.startswith("clock "):
            clock = int(o.split()[1])
            break
    node = Node(cfg, workdir, clock)
    trace = ["cfg " + " ".join(f"{k}={v}" for k, v in cfg.items()) + f" clock={clock}\t{node.ready}"]
    try:
        if not node.ready.startswith("ready"):
            return trace
        for o in ops:
            if o.startswith("clock "):
                clock = int(o.split()[1])
            if o.startswith("restart-key "):
                # restart with another encryption configuration (C19): the server must refuse to start
                key = o.split()[1]
                r = node.op("shutdown")
                node.wait()
                cfg2 = dict(cfg)
                cfg2["enc"] = key
                probe = Node(cfg2, workdir, clock)
                trace.append(f"{o}\t{probe.ready or 'died'}")
                if probe.ready.startswith("ready"):
                    for pre in PREAMBLE:
                        probe.op(pre)
                    trace.append("wrong-key-dump\t" + probe.op("streams 0"))
                    probe.op("shutdown")
                probe.wait()
                node = Node(cfg, workdir, clock)
                if not node.ready.startswith("ready"):
                    trace.append(f"restart\t{node.ready or 'died'}")
                    return trace
                pre_results = [(pre, node.op(pre)) for pre in PREAMBLE]
                trace.append("restart\t" + node.op("cacheinfo"))
                for pre, r in pre_results:
                    trace.append(f"{pre}\t{r}")
                continue
            if o == "restart":
                r = node.op("shutdown")
                node.wait()
                if r != "ok":
                    trace.append(f"restart\tshutdown-failed {r}")
                    return trace
                node = Node(cfg, workdir, clock)
                if not node.ready.startswith("ready"):
                    trace.append(f"restart\t{node.ready or 'died'}")
                    return trace
                pre_results = [(pre, node.op(pre)) for pre in PREAMBLE]
                trace.append("restart\t" + node.op("cacheinfo"))
                for pre, r in pre_results:
                    trace.append(f"{pre}\t{r}")
                continue
            if o.startswith("stress "):
                # stress <s> <t> <pid> <producers> <consumers> <batches> <maxbatch> <seed> <bgsave> <idbase>
                # concurrent real clients (harness), then: the log of every request with its real-time
                # stamps, a linearisation (acknowledged batches in the order of the offsets they got),
                # which the judge validates and replays on the model, and a full poll.
                f = o.split()
                logf = workdir + ".stress"
                r = node.op(o + " " + logf)
                trace.append(f"{o}\t{r}")
                if not r.startswith("ok"):
                    break
                with open(logf) as fh:
                    xl = [l.rstrip("\n") for l in fh if l.strip()]
                os.remove(logf)
                trace.extend(xl)
                full = f"poll 0 {f[1]} {f[2]} {f[3]} c:#1 offset:0 1000000 0"
                fr = node.op(full)
                where = {}
                ft = fr.split(" ")
                if ft[0] == "ok" and len(ft) > 3:
                    for e in ft[3].split(","):
                        q = e.split(":")
                        where.setdefault(int(q[1]), int(q[0])) if len(q) > 1 and q[1].isdigit() else None
                acks = []
                for l in xl:
                    if l.startswith("x-ack "):
                        op_, res = l.split("\t")
                        t = op_.split(" ")
                        first = int(t[8].split(",")[0].split(":")[0])
                        acks.append((where.get(first, 1 << 60), int(t[1]), "x-lin " + " ".join(t[1:])))
                acks.sort()
                for _, _, lin in acks:
                    trace.append(lin + "\tok")
                trace.append(f"x-end {f[1]} {f[2]} {f[3]}\tok")
                trace.append(f"{full}\t{fr}")
                continue
            r = node.op(o)
            trace.append(f"{o}\t{r}")
            if r == "died":
                break
    finally:
        try:
            node.kill()
        except Exception:
            pass
        if not keep:
            shutil.rmtree(workdir, ignore_errors=True)
            for side in (".stderr", ".tokens"):
                try:
                    os.remove(workdir + side)
                except OSError:
                    pass
    return trace


def judge(engine, trace):
    r = subprocess.run([JUDGE, engine], input="\n".join(trace) + "\n", stdout=subprocess.PIPE,
                       stderr=subprocess.PIPE, text=True)
    res = {"corr": [], "spec": [], "cov": {}, "done": None, "raw": r.stdout}
    for l in r.stdout.splitlines():
        if l.startswith("CORR-DIFF"):
            res["corr"].append(l)
        elif l.startswith("SPEC-VIOL"):
            res["spec"].append(l)
        elif l.startswith("COV "):
            for kv in l[4:].split():
                k, v = kv.rsplit("=", 1)
                res["cov"][k] = int(v)
        elif l.startswith("DONE"):
            res["done"] = l
    if res["done"] is None:
        res["corr"].append("CORR-DIFF 0 judge-crashed " + r.stderr[-300:].replace("\n", " "))
    return res


def spec_class(line):
    m = re.search(r"class=(\S+)", line)
    return m.group(1) if m else "?"


# ------------------------------------------------------------------------------------------------
# known findings

def load_known():
    """open: property=<ID> class=<key> shape=<regex over the op line> <what fails>"""
    known = []
    p = f"{VERIF}/known_findings.txt"
    if os.path.exists(p):
        for l in open(p):
            l = l.strip()
            if l.startswith("open:"):
                m = re.match(r"open:\s+property=(\S+)\s+class=(\S+)\s+shape=(\S+)\s+(.*)", l)
                if m:
                    known.append({"property": m.group(1), "class": m.group(2), "shape": m.group(3),
                                  "what": m.group(4)})
    return known


# ------------------------------------------------------------------------------------------------
# shrinking (delta debugging over op lines; both sides deterministic)

def shrink(cfg, ops, fails, workdir, budget=60):
    """`fails(trace) -> bool`. Returns a (locally) minimal op list that still fails."""
    # connection handling is never removed
    keep = 0
    while keep < len(ops) and ops[keep].split()[0] in ("conn", "login"):
        keep += 1
    head, cur = list(ops[:keep]), list(ops[keep:])
    inner = fails
    fails = lambda tr: inner(tr)
    _run = run_history
    def run_history_(cfg, cand, wd):
        return _run(cfg, head + cand, wd)
    n = 2
    tries = 0
    while len(cur) >= 2 and tries < budget:
        chunk = max(1, len(cur) // n)
        reduced = False
        for i in range(0, len(cur), chunk):
            cand = cur[:i] + cur[i + chunk:]
            if not cand:
                continue
            tries += 1
            if fails(run_history_(cfg, cand, workdir)):
                cur = cand
                n = max(n - 1, 2)
                reduced = True
                break
            if tries >= budget:
                break
        if not reduced:
            if chunk == 1:
                break
            n = min(len(cur), n * 2)
    return head + cur


# ------------------------------------------------------------------------------------------------
# evidence

def write_evidence(prop, tier, seed, coverage, assumptions, wall, violations, extra=None):
    os.makedirs(f"{VERIF}/evidence", exist_ok=True)
    ev = {"property_id": prop, "tier": tier, "seed": seed, "level": "proof", "coverage": coverage,
          "assumptions": assumptions, "wall_s": round(wall, 2), "violations": violations}
    if extra:
        ev.update(extra)
    with open(f"{VERIF}/evidence/{prop}.json", "w") as f:
        json.dump(ev, f, indent=1)


def write_replay(prop, name, content):
    d = f"{VERIF}/work/replay/{prop}"
    os.makedirs(d, exist_ok=True)
    p = f"{d}/{name}"
    with open(p, "w") as f:
        f.write(content)
    return p


def parallel(fn, items, workers=16):
    with ThreadPoolExecutor(max_workers=workers) as ex:
        return list(ex.map(fn, items))


def hash32(hexes):
    """xxhash32 exactly as the server computes it, through the harness (`hash` mode)."""
    if not hexes:
        return []
    r = subprocess.run([HBIN, "hash"], input="\n".join(hexes) + "\n", stdout=subprocess.PIPE, text=True)
    return [int(x) for x in r.stdout.split()]
