"""Generators for C10 (credentials) and the history part of C09 (permission changes on open sessions).
Right / wrong / stale / expired / other user's credentials; status changes; password changes; token
creation, expiry (virtual clock) and deletion; logins, logouts, restarts; requests by sessions of
users whose permissions are being changed or who are being deleted; byte search for every raw
password and raw token in every file."""
import gen_storage


def rand_pw(rng):
    return "pw" + "".join(rng.choice("abcdefghijklmnopqrstuvwxyz0123456789") for _ in range(18))


def rand_perms(rng, streams=(1, 2), topics=(1, 2)):
    r = rng.random()
    if r < 0.12:
        return "-"
    if r < 0.2:
        return "1111111111"
    g = "".join(rng.choice("0001") for _ in range(10))
    if rng.random() < 0.45:
        return g
    ents = []
    for s in rng.sample(list(streams), rng.randint(0, len(streams))):
        bits = "".join(rng.choice("0001") for _ in range(6))
        e = f"{s}:{bits}"
        tr = rng.random()
        if tr < 0.4:
            pass                                    # no topic table
        elif tr < 0.5:
            e += ":"                                # empty topic table
        else:
            tps = [f"{t}={''.join(rng.choice('01') for _ in range(4))}"
                   for t in rng.sample(list(topics), rng.randint(1, len(topics)))]
            e += ":" + "+".join(tps)
        ents.append(e)
    return g + "/" + ";".join(ents)


def gen(rng, focus, k=None, maxops=40):
    cfg = gen_storage.draw_cfg(rng, k, {"dedup": 0, "seg": 1000000000, "pat_max": rng.choice([2, 3, 100])})
    ops = []
    clock = 1_000_000
    emit = ops.append
    emit("conn 0 tcp")
    emit("login 0 iggy iggy")
    emit("me 0")
    emit(f"clock {clock}")
    emit("create-stream 0 1 s1")
    emit("create-topic 0 #1 1 t1 2 never unlimited -")
    emit("create-topic 0 #1 2 t2 1 never unlimited -")
    emit("create-stream 0 2 s2")
    emit("create-topic 0 #2 1 u1 1 never unlimited -")
    emit("create-group 0 #1 #1 1 g1")
    clock += 10
    emit(f"clock {clock}")
    emit("send 0 #1 #1 pid:1 1:20:101:0,2:20:102:0")
    users = {}        # name -> {pw, active, conns:set, stale:[old pws]}
    conns = {0: "iggy"}
    tokens = []       # (k, owner name, deleted?)
    names = ["alice", "bob", "carol", "dave"]
    secrets = []
    n = rng.randint(12, maxops)
    w = {"cu": 10, "du": 4, "uu": 5, "up": 10, "cp": 6, "login": 14, "badlogin": 8, "logout": 5, "conn": 6,
         "req": 30, "pat": 8, "patlogin": 8, "patdel": 3, "tick": 5, "clean": 2, "restart": 4, "users": 4,
         "unauth": 5}
    if focus == "C09":
        w.update({"up": 18, "req": 45, "du": 6})
    if focus == "C05":
        w.update({"restart": 10, "cu": 14, "du": 6, "pat": 10, "cp": 8, "up": 10})
    kinds = list(w)
    weights = [w[x] for x in kinds]
    tokcount = 0

    def open_conn():
        c = max(conns) + 1 if conns else 0
        emit(f"conn {c} tcp")
        conns[c] = None
        return c

    for _ in range(n):
        kind = rng.choices(kinds, weights)[0]
        if kind == "cu":
            free = [x for x in names if x not in users]
            taken = [x for x in users if x != "_deleted"]
            if taken and rng.random() < 0.25:
                # a refused creation (the name exists) must leave no trace: not in the list, not in the ids
                # given out afterwards, not after a restart
                emit(f"create-user {rng.choice(list(conns))} {rng.choice(taken)} {rand_pw(rng)} active {rand_perms(rng)}")
                continue
            if not free:
                continue
            name = rng.choice(free)
            pw = rand_pw(rng)
            secrets.append(pw)
            active = rng.random() < 0.85
            by = rng.choice(list(conns))
            emit(f"create-user {by} {name} {pw} {'active' if active else 'inactive'} {rand_perms(rng)}")
            if conns.get(by) == "iggy":
                users[name] = {"pw": pw, "active": active, "stale": []}
        elif kind == "du" and [u for u in users if u != "_deleted"]:
            name = rng.choice([u for u in users if u != "_deleted"])
            emit(f"delete-user 0 @{name}")
            old = users.pop(name)
            old["deleted"] = True
            users.setdefault("_deleted", {"list": []})["list"].append((name, old["pw"]))
        elif kind == "uu" and [u for u in users if u != "_deleted"]:
            name = rng.choice([u for u in users if u != "_deleted"])
            st = rng.choice(["active", "inactive", "-"])
            emit(f"update-user 0 @{name} - {st}")
            if st != "-":
                users[name]["active"] = st == "active"
        elif kind == "up" and [u for u in users if u != "_deleted"]:
            name = rng.choice([u for u in users if u != "_deleted"])
            by = rng.choice(list(conns))
            emit(f"update-perms {by} @{name} {rand_perms(rng)}")
        elif kind == "cp" and [u for u in users if u != "_deleted"]:
            name = rng.choice([u for u in users if u != "_deleted"])
            new = rand_pw(rng)
            secrets.append(new)
            cur = users[name]["pw"] if rng.random() < 0.75 else rand_pw(rng)
            by = rng.choice([c for c in conns] or [0])
            emit(f"change-pw {by} @{name} {cur} {new}")
            if cur == users[name]["pw"] and conns.get(by) in ("iggy", name):
                users[name]["stale"].append(users[name]["pw"])
                users[name]["pw"] = new
        elif kind == "conn" and len(conns) < 5:
            open_conn()
        elif kind == "login":
            real = [u for u in users if u != "_deleted"]
            if not real:
                continue
            name = rng.choice(real)
            c = rng.choice(list(conns)[1:]) if len(conns) > 1 and rng.random() < 0.7 else open_conn()
            emit(f"login {c} {name} {users[name]['pw']}")
            if users[name]["active"]:
                conns[c] = name
            emit(f"me {c}")
        elif kind == "badlogin":
            c = rng.choice(list(conns)[1:]) if len(conns) > 1 else open_conn()
            real = [u for u in users if u != "_deleted"]
            r = rng.random()
            if r < 0.3 and real:
                name = rng.choice(real)
                emit(f"login {c} {name} {rand_pw(rng)}")                      # wrong password
            elif r < 0.5 and real and any(users[u]["stale"] for u in real):
                name = rng.choice([u for u in real if users[u]["stale"]])
                emit(f"login {c} {name} {rng.choice(users[name]['stale'])}")  # stale password
            elif r < 0.7 and len(real) >= 2:
                a, b = rng.sample(real, 2)
                emit(f"login {c} {a} {users[b]['pw']}")                       # other user's password
            elif r < 0.85 and "_deleted" in users:
                name, pw = rng.choice(users["_deleted"]["list"])
                emit(f"login {c} {name} {pw}")                                # deleted user
            else:
                emit(f"login {c} nosuchuser {rand_pw(rng)}")
        elif kind == "logout":
            c = rng.choice(list(conns))
            if c == 0:
                continue
            emit(f"logout {c}")
            conns[c] = None
        elif kind == "pat":
            c = rng.choice(list(conns))
            exp = rng.choice(["never", "never", "2000000", "9000000"])
            emit(f"create-pat {c} tok{rng.randint(1, 4)} {exp}")
            tokcount += 1          # upper bound: generator does not know whether it succeeded
            emit(f"pats {c}")
        elif kind == "patlogin" and tokcount:
            c = rng.choice(list(conns)[1:]) if len(conns) > 1 else open_conn()
            emit(f"login-pat {c} {rng.randint(0, tokcount)}")
            conns[c] = "?"
            emit(f"me {c}")
        elif kind == "patdel":
            c = rng.choice(list(conns))
            emit(f"delete-pat {c} tok{rng.randint(1, 4)}")
        elif kind == "tick":
            clock += rng.choice([100_000, 1_500_000, 4_000_000, 10_000_000])
            emit(f"clock {clock}")
        elif kind == "clean":
            emit("clean-pats")
        elif kind == "users":
            c = rng.choice(list(conns))
            emit(f"users {c}")
            real = [u for u in users if u != "_deleted"]
            if real:
                emit(f"user {c} @{rng.choice(real)}")
        elif kind == "unauth":
            c = open_conn() if len(conns) < 5 else rng.choice(list(conns))
            if conns.get(c) is None:
                emit(rng.choice([f"streams {c}", f"stats {c}", f"create-stream {c} - zz", f"users {c}",
                                 f"poll {c} #1 #1 1 c:#1 offset:0 10 0", f"purge-stream {c} #1",
                                 f"purge-topic {c} #1 #1", f"ping {c}", f"pats {c}",
                                 f"send {c} #1 #1 pid:1 9{rng.randint(100, 999)}:20:150:0",
                                 f"create-user {c} eve {rand_pw(rng)} active 1111111111"]))
        elif kind == "req":
            c = rng.choice(list(conns))
            s = rng.choice([1, 1, 2])
            t = rng.choice([1, 2]) if s == 1 else 1
            choices = [
                f"streams {c}", f"stream {c} #{s}", f"topics {c} #{s}", f"topic {c} #{s} #{t}",
                f"poll {c} #{s} #{t} 1 c:#1 offset:0 10 0", f"stats {c}",
                f"get-offset {c} #{s} #{t} 1 c:#2", f"store-offset {c} #{s} #{t} 1 c:#2 0",
                f"groups {c} #1 #1", f"group {c} #1 #1 #1", f"flush {c} #{s} #{t} 1 0",
                f"update-topic {c} #{s} #{t} {'t1' if (s, t) == (1, 1) else ('t2' if (s, t) == (1, 2) else 'u1')} never unlimited -",
                f"create-parts {c} #{s} #{t} 1", f"purge-topic {c} #{s} #{t}", f"purge-stream {c} #{s}",
                f"update-stream {c} #{s} {'s1' if s == 1 else 's2'}", f"users {c}",
                f"create-topic {c} #{s} - n{rng.randint(0, 999)} 1 never unlimited -",
                f"create-stream {c} - m{rng.randint(0, 999)}",
            ]
            o = rng.choice(choices)
            if rng.random() < 0.25:
                clock += 7
                emit(f"clock {clock}")
                o = f"send {c} #{s} #{t} pid:1 9{rng.randint(1000, 9999)}:20:150:0"
            emit(o)
        elif kind == "restart":
            live = [u for u in users if u != "_deleted"]
            emit("users 0")
            for u in live:
                emit(f"user 0 @{u}")        # status and the whole permission record, before and after
            emit("pats 0")
            emit("created 0")
            emit("restart")
            conns = {0: "iggy"}
            emit("me 0")
            emit("users 0")
            for u in live:
                emit(f"user 0 @{u}")
            emit("pats 0")
            emit("created 0")
    # secrets must not be in any file
    for pw in secrets[:6]:
        emit(f"scan-str {pw}")
    for kx in range(min(tokcount, 4)):
        emit(f"scan-token {kx}")
    emit("users 0")
    return cfg, ops
