"""Generator for C20: the SDK's high-level producer and consumer against the real server.
Producers with every combination of batch size / send interval / partitioning and all four send calls;
consumers (own connection per incarnation) with every polling strategy / batch size / auto-commit mode,
dropped and re-created at random points; the server-side stored offset is read after each phase."""
import gen_storage, vlib

KEYS = ["6b31", "6b32", "abcdef", "00"]
_hash = {}


def key_part(rng):
    k = rng.choice(KEYS)
    if k not in _hash:
        for kk, h in zip(KEYS, vlib.hash32(KEYS)):
            _hash[kk] = h
    return f"key:{k}={_hash[k]}"


def gen(rng, focus="C20", k=None, maxops=40):
    cfg = gen_storage.draw_cfg(rng, k, {"dedup": 0, "confirm": "wait", "seg": rng.choice([4000, 1000000000])})
    ops = []
    emit = ops.append
    clock = 1_000_000
    emit("conn 0 tcp")
    emit("login 0 iggy iggy")
    emit(f"clock {clock}")
    np1 = rng.choice([1, 1, 2, 3])
    emit("create-stream 0 1 s1")
    emit(f"create-topic 0 #1 1 t1 {np1} never unlimited -")
    emit("create-topic 0 #1 2 t2 1 never unlimited -")
    emit("create-stream 0 2 s2")
    emit("create-topic 0 #2 1 u1 2 never unlimited -")
    topics = {("#1", "#1"): np1, ("#1", "#2"): 1, ("#2", "#1"): 2}
    emit("hl 0")
    nprod = rng.randint(1, 3)
    prods = []
    for p in range(nprod):
        s, t = rng.choice(list(topics))
        n = topics[(s, t)]
        batch = rng.choice(["-", "1", "2", "3", "100"])
        interval = rng.choice(["-", "-", "1000", "200"])
        part = rng.choice(["-", "balanced", f"pid:{rng.randint(1, n)}", key_part(rng)])
        emit(f"producer {p} 0 {s} {t} {batch} {interval} {part}")
        prods.append((p, s, t))
    next_id = [1]

    def msgs(n):
        out = []
        for _ in range(n):
            i = next_id[0]
            next_id[0] += 1
            out.append(f"{i}:{rng.choice([8, 20, 50])}:{1000 + i}:0")
        return ",".join(out)

    def produce():
        nonlocal clock
        clock += rng.randint(1, 500)
        emit(f"clock {clock}")
        p, s, t = rng.choice(prods)
        r = rng.random()
        n = rng.choice([1, 2, 3, 5, 8, 12])
        if r < 0.4:
            emit(f"psend {p} send {msgs(n)}")
        elif r < 0.55:
            emit(f"psend {p} one {msgs(1)}")
        elif r < 0.8:
            np_ = topics[(s, t)]
            part = rng.choice(["-", "balanced", f"pid:{rng.randint(1, np_)}", key_part(rng)])
            emit(f"psend {p} part {part} {msgs(n)}")
        else:
            s2, t2 = rng.choice(list(topics))
            np_ = topics[(s2, t2)]
            part = rng.choice(["-", "balanced", f"pid:{rng.randint(1, np_)}", key_part(rng)])
            emit(f"psend {p} to {s2} {t2} {part} {msgs(n)}")

    def observe():
        for (s, t), n in topics.items():
            for pid in range(1, n + 1):
                emit(f"poll 0 {s} {t} {pid} c:#99 offset:0 100000 0")

    for _ in range(rng.randint(2, 6)):
        produce()
    observe()
    # consumers
    hl = [1]
    ncons = rng.randint(1, 2)
    live = {}      # c -> (h, name, s, t, pid, mode)

    def create(c, name=None, s=None, t=None, pid=None, fresh_strat=True):
        if name is None:
            s, t = rng.choice(list(topics))
            pid = rng.randint(1, topics[(s, t)])
            name = str(3 + 3 * c + rng.randint(0, 2))      # consumers alive at the same time have different identities
        h = hl[0]
        hl[0] += 1
        emit(f"hl {h}")
        strat = rng.choice(["next"] * 6 + [f"offset:{rng.randint(0, 4)}", "first", "last", f"ts:{1_000_000 + rng.randint(0, 800)}"])
        batch = rng.choice([1, 2, 3, 5, 100])
        mode = rng.choice(["each", "each", "all", "all", "polling", "polling", f"nth:{rng.choice([1, 2, 3, 5, 10])}", "int:5000", "disabled"])
        if mode == "disabled" and strat == "next" and rng.random() < 0.7:
            strat = f"offset:{rng.randint(0, 3)}"
        replay = 0      # allow_replay: re-delivery depends on commit timing and is outside the property
        emit(f"consumer {c} {h} {name} {s} {t} {pid} {strat} {batch} {mode} {replay}")
        live[c] = (h, name, s, t, pid, mode)

    for c in range(ncons):
        create(c)
    for _ in range(rng.randint(4, 14)):
        r = rng.random()
        if r < 0.45 and live:
            c = rng.choice(list(live))
            emit(f"cnext {c} {rng.choice([1, 1, 2, 3, 5, 9, 30])} 250")
        elif r < 0.65:
            produce()
        elif r < 0.8 and live:
            c = rng.choice(list(live))
            h, name, s, t, pid, mode = live[c]
            emit("cwait 40")
            emit(f"get-offset 0 {s} {t} {pid} c:#{name}")
        elif r < 0.95 and live:
            # drop and re-create with the same identity (own new connection)
            c = rng.choice(list(live))
            h, name, s, t, pid, mode = live.pop(c)
            emit(f"cdrop {c}")
            emit(f"hl-close {h}")
            emit(f"get-offset 0 {s} {t} {pid} c:#{name}")
            create(c, name, s, t, pid)
        else:
            observe()
    for c in list(live):
        h, name, s, t, pid, mode = live[c]
        emit(f"cnext {c} 40 250")
        emit("cwait 40")
        emit(f"get-offset 0 {s} {t} {pid} c:#{name}")
    observe()
    return cfg, ops


def gen_group(rng, focus="C20", k=None, maxops=40):
    """one consumer group (1-2 members, own connection each) over a topic with 2-3 partitions; members are
    dropped and re-created; at the end the members drain the topic and the judge checks that every message
    was yielded (x-group-complete). Judged by the specification-level oracles only."""
    cfg = gen_storage.draw_cfg(rng, k, {"dedup": 0, "confirm": "wait", "seg": rng.choice([4000, 1000000000])})
    ops = []
    emit = ops.append
    clock = 1_000_000
    emit("conn 0 tcp")
    emit("login 0 iggy iggy")
    emit(f"clock {clock}")
    nparts = rng.choice([2, 3])
    emit("create-stream 0 1 s1")
    emit(f"create-topic 0 #1 1 t1 {nparts} never unlimited -")
    emit("hl 0")
    emit(f"producer 0 0 #1 #1 {rng.choice(['-', '1', '3', '100'])} {rng.choice(['-', '200'])} balanced")
    next_id = [1]

    def produce():
        nonlocal clock
        clock += rng.randint(1, 500)
        emit(f"clock {clock}")
        n = rng.choice([1, 2, 3, 5, 8, 12])
        ms = []
        for _ in range(n):
            i = next_id[0]
            next_id[0] += 1
            ms.append(f"{i}:{rng.choice([8, 20, 50])}:{1000 + i}:0")
        part = rng.choice(["-", "balanced", f"pid:{rng.randint(1, nparts)}"])
        emit(f"psend 0 part {part} {','.join(ms)}")

    def sync():
        emit("cwait 40")
        for pid in range(1, nparts + 1):
            emit(f"get-offset 0 #1 #1 {pid} g:#7")
    for _ in range(rng.randint(1, 4)):
        produce()
    hl = [1]
    live = {}
    # the whole group uses one commit mode (mixing "commit on polling" with the others changes what may be skipped)
    mode = rng.choice(["each", "each", "all", "polling", f"nth:{rng.choice([1, 2, 3, 5])}", "int:5000"])

    def create(c):
        h = hl[0]
        hl[0] += 1
        emit(f"hl {h}")
        emit(f"consumer {c} {h} 7 #1 #1 group next {rng.choice([1, 2, 3, 5, 100])} {mode} 0")
        live[c] = h
        emit("group 0 #1 #1 #7")
    members = rng.choice([1, 2])
    for c in range(members):
        create(c)
    waited = False
    for _ in range(rng.randint(4, 12)):
        r = rng.random()
        if r < 0.5 and live:
            emit(f"cnext {rng.choice(list(live))} {rng.choice([1, 2, 3, 5, 9])} 250")
        elif r < 0.75:
            produce()
        elif r < 0.9 and live:
            c = rng.choice(list(live))
            h = live.pop(c)
            emit(f"cdrop {c}")
            emit(f"hl-close {h}")
            sync()
            if rng.random() < 0.8 or not live:
                create(c)
        elif r < 0.93 and not waited:
            # long enough for the members' background commits (interval mode, 5 s): a member that lost a
            # partition stores what it consumed of it last, possibly behind the new owner's offset
            waited = True
            emit("cwait 5600")
            sync()
        else:
            sync()
    if not live:
        create(0)
    # drain: every member keeps consuming until all of them stall twice in a row
    for _ in range(3):
        for c in list(live):
            emit(f"cnext {c} 60 250")
    sync()
    emit("x-group-complete #1 #1 7")
    for pid in range(1, nparts + 1):
        emit(f"poll 0 #1 #1 {pid} c:#99 offset:0 100000 0")
    return cfg, ops


def gen_any(rng, focus="C20", k=None, maxops=40):
    if k is not None and k % 4 == 3:
        return gen_group(rng, focus, k, maxops)
    return gen(rng, focus, k, maxops)
