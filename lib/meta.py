"""Claims: one entry per property claimed in MANIFEST.json."""
NOT_APPLICABLE = {}
TIE = ("Tie to /repo: hand-written executable model, correspondence check on every run — the harness drives the real "
       "server (System + TCP server + SDK client, hooks on) with generated histories, the Lean judge replays them on the "
       "L1 model and the L2 spec and reports every difference. ")
META = {
 "C17": {
  "text": "Lean theorems over the model of partition selection, for ALL hash values, partition counts, cursor values and batch contents: key_in_range, key_deterministic, balanced_in_range, balanced_rotation (k-th balanced send -> ((pos+k) mod n)+1), balanced_window_distinct (n consecutive balanced sends hit n distinct partitions), by_id_missing_stores_nothing, one_send_one_partition. " + TIE + "Generated histories mix key / balanced / partition-id sends (valid and invalid ids, keys with hash % n == 0) with partition additions, removals and restarts, polling every partition after every send.",
  "design_ref": "§5 C17",
  "note": "Trusted: Lean kernel (+ propext, Classical.choice, Quot.sound), the model's faithfulness as far as the generated histories exercise it, harness+runner. xxhash32 itself is a parameter (real value obtained from the real calculate_32 and fed to the model). Concurrent senders (fetch_add interleavings) are outside this property's statement ('with no concurrent sender').",
  "technique": "Lean 4 proof (arithmetic on mod / case analysis of Topic.send) + differential correspondence",
 },
 "C01": {
  "text": "Lean theorems, for every history of abstract partition operations (append with any batch/dedup state, purge, retention drop, restart, offset ops — induction over the op list, no bound): offsets_consecutive (retained offsets are exactly lo..next-1), cur_is_last, batch_contiguous_in_order (k-th accepted message of a batch gets next+k), dedup_off_all_accepted, duplicate_consumes_nothing, next_after_purge_drop_restart. Stated on the abstract partition SPart and transferred to the storage model: The storage model L1 (segments, accumulator, index files, cached index, message cache, dedup set, counters) is proved to refine this specification for every reachable state (Iggy/Log/Refine.lean, RefineRun.lean: Part.Inv invariant, Reach induction, ~4000 lines), and the l1_* theorems restate the property on L1. " + TIE + "Histories interleave sends (batch sizes 1..8, roll-over at 600 B segments), flushes, saves, restarts, purges and full polls under all storage configurations.",
  "design_ref": "§5 C01", "note": "Trusted: Lean kernel, faithfulness of models as exercised by the generated histories, harness+runner. No-wait confirmation is exercised by C12 only.",
  "technique": "Lean 4 proof (invariant by induction over operation histories) + differential correspondence",
 },
 "C02": {
  "text": "Lean theorems about the poll specification, for every reachable abstract state and every (offset,count): poll_genuine, poll_contiguous (no holes/repeats), poll_complete (never fewer than available), poll_at_most_count, poll_in_order, first_last_next, timestamp_poll, identity_ops_invisible. The specification mentions only retained messages, so tier-independence is part of the statement; l1_poll_offset / l1_poll_first_last_next prove that the L1 model computes exactly this answer from cache / unsaved buffer / disk / several segments / cached or scanned index (timestamp polls: l1_poll_timestamp_partial, for log files < 4 GiB). The storage model L1 (segments, accumulator, index files, cached index, message cache, dedup set, counters) is proved to refine this specification for every reachable state (Iggy/Log/Refine.lean, RefineRun.lean: Part.Inv invariant, Reach induction, ~4000 lines), and the l1_* theorems restate the property on L1. " + TIE + "Every history polls with all five kinds and random (offset|timestamp,count) at every point, including mixed disk+buffer ranges, multi-segment ranges and reads after reload; a second oracle checks that flush/save/evict/restart never change the implementation's own answer to a repeated poll.",
  "design_ref": "§5 C02", "note": "Trusted: as C01. Message content integrity (payload, headers, checksum) is checked by the harness against a deterministic expansion of the tag and travels in the trace as one number.",
  "technique": "Lean 4 proof (list lemmas on the filtered consecutive log) + differential correspondence",
 },
 "C07": {
  "text": "Lean theorems on the offset store of an abstract partition: get_after_store, store_isolated / delete_isolated (other consumer, other group, consumer vs group with the same numeric id), store_beyond_refused, delete_removes, purge_clears, survives (append/retention/restart keep stored offsets), next_after_stored. " + TIE + "Histories interleave store/get/delete/poll-next(+auto-commit)/purge/restart by consumers and groups that share numeric ids on several partitions.",
  "design_ref": "§5 C07", "note": "Trusted: as C01. Isolation between two named consumers needs their xxhash32 values to differ (explicit hypothesis; numeric ids are used in the non-vacuity example).",
  "technique": "Lean 4 proof (association-list lemmas) + differential correspondence",
 },
 "C18": {
  "text": "Lean theorems: ids_nodup (in every reachable state with dedup on no two retained messages share an id — induction over unbounded histories incl. restarts), distinct_never_dropped, accepted_are_new (first occurrence kept, repeats within a batch dropped), dup_consumes_no_offset, dedup_off_stores_all, restart_rebuilds. " + TIE + "Histories send batches with 35% repeated ids within and across batches, across the persist boundary and across restarts, with full polls after sends.",
  "design_ref": "§5 C18", "note": "Trusted: as C01; moka's capacity/TTL eviction is outside the property (configured 10^6 ids, 10 h).",
  "technique": "Lean 4 proof (invariant over histories; numbering-loop lemma) + differential correspondence",
 },
 "C03": {
  "text": "Lean theorems on the storage model L1 for every reachable state: restart_same (same messages, offsets, content, append position, stored consumer offsets, message and segment counts; size = size saved at shutdown), restart_same_polls (every poll answers the same), restart_reachable (the restarted state satisfies the invariant again, so any number of later operations and restarts behave as before), next_after_restart (first append after a restart continues at the old next offset). Restart = save + load from durable files only." + TIE + "Real process restarts (graceful System::shutdown, runtime shutdown, new OS process on the same directory) at random points of every history, with observations before and after; an implementation-vs-itself oracle flags any poll whose answer changes across a restart.",
  "design_ref": "§5 C03", "note": "Trusted: as C01. Clock hypothesis of the theorems (restart time not before the newest message) is guaranteed by the virtual clock. No-wait confirmation: C12.",
  "technique": "Lean 4 proof (refinement L1 ⊑ L2, invariant preserved by load∘save) + differential correspondence with real restarts",
 },
 "C14": {
  "text": "Lean theorems on L1 for every reachable state: expire_deletes_only (a pass removes a prefix consisting of whole closed segments whose every message is older than the expiry; next unchanged; the rest is a suffix), never_expire_loses_nothing, expire_reachable (C01/C03 keep applying, also after restart), poll_below_earliest (answer = slice from max(off, earliest retained)), survivors_served_as_before." + TIE + "Histories with 600 B segments, expiry 2-20 s, clock jumps, passes through the real MaintainMessagesExecutor, expiry updates, restarts; retention legality is also judged on the specification state.",
  "design_ref": "§5 C14", "note": "Trusted: as C01; crash points between the two remove_file calls belong to C04.",
  "technique": "Lean 4 proof (refinement incl. stale-cache case) + differential correspondence with virtual clock",
 },
 "C15": {
  "text": "Lean theorems on the topic model: gate (refused with topic_full iff has partitions AND size >= limit AND delete_oldest off), refused_changes_nothing, isFull_iff, below_or_unlimited_or_deleting_accepts, small_limit_rejected / valid_limit_accepted (create and update), oldest_only (size clean-up removes at most the first segment, only if closed; next unchanged), open_segment_kept." + TIE + "Histories fill topics limited to 1-6 segments under both delete_oldest settings with passes and limit updates; the gate is judged on the implementation's own last reported topic size.",
  "design_ref": "§5 C15", "note": "Trusted: as C01; f64 threshold modelled exactly (floor(0.9*limit)).",
  "technique": "Lean 4 proof (decision logic of Topic.send) + differential correspondence",
 },
 "C16": {
  "text": "Lean theorems on L1 for every reachable state: count_exact (message count = retained messages, segment count, size = sum of segment sizes), size_exact (size = bytes of all log files incl. 24-byte batch headers + buffered bytes), restart_same_figures, hierarchy_sums, delete_never_underflows." + TIE + "After sends, saves, roll-overs, purges, partition changes, retention and restarts the reported figures are compared with the model, with the specification's retained counts, with the partition sums, and (ls) with the bytes actually in the index/log files.",
  "design_ref": "§5 C16", "note": "Trusted: as C01. Entity counts of get_stats (streams/topics/partitions/segments/groups) are compared by correspondence; clients_count is not modelled.",
  "technique": "Lean 4 proof (counter clauses of the storage invariant) + differential correspondence incl. file sizes",
 },
 "C08": {
  "text": "45 Lean theorems (Iggy/Props/C08.lean) for every partition count, every member list in EVERY order, unbounded histories: exclusive_cover(_member/_client), shares_disjoint, shares_only_existing, balanced, share_size, members_preserved, assign_idempotent, join/leave/setParts/adopt lemmas, reachable_assigned / reachable_exclusive_cover / reachable_balanced (any history of join, leave, setParts, adopt-order from an empty group), rotation / rotation_round / rotation_from / empty_share_none / poll_from_own_share (Topic.resolve), reachable_with_polls_* (membership events interleaved with polls), and group-level delivery on the abstract partition: deliver_spec, delivery_progress, delivered_exact, delivered_prefix (everything handed to the group, by whichever member, is a prefix of the partition log in order, none twice), delivered_sublist / delivered_increasing with retention, topic_delivered_prefix (whole topic, members leaving and taking over). One target was false as first stated (Nodup of member ids under an adopt order with duplicates) and carries the explicit hypothesis GOp.WF (adopted orders are duplicate-free, which a hash-map iteration always is). " + TIE + "Histories: several TCP clients join/leave/disconnect groups while partitions are created/deleted, members poll next+auto-commit without naming a partition; after every membership change the group is observed; the implementation's own shares are also judged directly (cover, balance, existing).",
  "design_ref": "§5 C08", "note": "Trusted: as C01; hash-map order is universally quantified in the theorems and observed in the correspondence.",
  "technique": "Lean 4 proof (combinatorics of i mod m assignment; invariant over membership histories; prefix delivery by induction over events) + differential correspondence with several TCP clients",
 },
}
