"""Claims: one entry per property claimed in MANIFEST.json."""
NOT_APPLICABLE = {}
TIE = ("Tie to /repo: hand-written executable model, correspondence check on every run — the harness drives the real "
       "server (System + TCP server + SDK client, hooks on) with generated histories, the Lean judge replays them on the "
       "L1 model and the L2 spec and reports every difference. ")
META = {
 "C17": {
  "text": "Lean theorems over the model of partition selection, for ALL hash values, partition counts, cursor values and batch contents: key_in_range, key_deterministic, balanced_in_range, balanced_rotation (k-th balanced send -> ((pos+k) mod n)+1), balanced_window_distinct (n consecutive balanced sends hit n distinct partitions), by_id_missing_stores_nothing, one_send_one_partition. " + TIE + "Generated histories mix key / balanced / partition-id sends (valid and invalid ids, keys with hash % n == 0) with partition additions, removals and restarts, polling every partition after every send.",
  "design_ref": "§5 C17",
  "note": "Trusted: Lean kernel (+ propext, Classical.choice, Quot.sound), the model's faithfulness as far as the generated histories exercise it, harness+runner. xxhash32 itself is a parameter (real value obtained from the real calculate_32 and fed to the model). Concurrent senders (fetch_add interleavings) are outside this property's statement ('with no concurrent sender').",
  "technique": "Lean 4 proof (arithmetic on mod / case analysis of Topic.send) + differential correspondence",
 },
 "C01": {
  "text": "Lean theorems, for every history of abstract partition operations (append with any batch/dedup state, purge, retention drop, restart, offset ops — induction over the op list, no bound): offsets_consecutive (retained offsets are exactly lo..next-1), cur_is_last, batch_contiguous_in_order (k-th accepted message of a batch gets next+k), dedup_off_all_accepted, duplicate_consumes_nothing, next_after_purge_drop_restart. Stated on the abstract partition SPart; the L1 storage model (segments, accumulator, indexes, cache) is related to it by Iggy/Log/Refine.lean (in progress) and both are compared with the real server on every run. " + TIE + "Histories interleave sends (batch sizes 1..8, roll-over at 600 B segments), flushes, saves, restarts, purges and full polls under all storage configurations.",
  "design_ref": "§5 C01", "note": "Trusted: Lean kernel, faithfulness of models as exercised by the generated histories, harness+runner. No-wait confirmation is exercised by C12 only. The L1<->L2 refinement proof is not complete yet: until it is, the tie of these theorems to the code is the direct spec-vs-implementation comparison of the judge.",
  "technique": "Lean 4 proof (invariant by induction over operation histories) + differential correspondence",
 },
 "C02": {
  "text": "Lean theorems about the poll specification, for every reachable abstract state and every (offset,count): poll_genuine, poll_contiguous (no holes/repeats), poll_complete (never fewer than available), poll_at_most_count, poll_in_order, first_last_next, timestamp_poll, identity_ops_invisible. The specification mentions only retained messages, so tier-independence is part of the statement; the L1 model computing the same answer from cache/buffer/disk/several segments is Iggy/Log/Refine.lean (in progress). " + TIE + "Every history polls with all five kinds and random (offset|timestamp,count) at every point, including mixed disk+buffer ranges, multi-segment ranges and reads after reload; a second oracle checks that flush/save/evict/restart never change the implementation's own answer to a repeated poll.",
  "design_ref": "§5 C02", "note": "Trusted: as C01. Message content integrity (payload, headers, checksum) is checked by the harness against a deterministic expansion of the tag and travels in the trace as one number.",
  "technique": "Lean 4 proof (list lemmas on the filtered consecutive log) + differential correspondence",
 },
 "C07": {
  "text": "Lean theorems on the offset store of an abstract partition: get_after_store, store_isolated / delete_isolated (other consumer, other group, consumer vs group with the same numeric id), store_beyond_refused, delete_removes, purge_clears, survives (append/retention/restart keep stored offsets), next_after_stored. " + TIE + "Histories interleave store/get/delete/poll-next(+auto-commit)/purge/restart by consumers and groups that share numeric ids on several partitions.",
  "design_ref": "§5 C07", "note": "Trusted: as C01. Isolation between two named consumers needs their xxhash32 values to differ (explicit hypothesis; numeric ids are used in the non-vacuity example).",
  "technique": "Lean 4 proof (association-list lemmas) + differential correspondence",
 },
 "C18": {
  "text": "Lean theorems: ids_nodup (in every reachable state with dedup on no two retained messages share an id — induction over unbounded histories incl. restarts), distinct_never_dropped, accepted_are_new (first occurrence kept, repeats within a batch dropped), dup_consumes_no_offset, dedup_off_stores_all, restart_rebuilds. " + TIE + "Histories send batches with 35% repeated ids within and across batches, across the persist boundary and across restarts, with full polls after sends.",
  "design_ref": "§5 C18", "note": "Trusted: as C01; moka's capacity/TTL eviction is outside the property (configured 10^6 ids, 10 h).",
  "technique": "Lean 4 proof (invariant over histories; numbering-loop lemma) + differential correspondence",
 },
}
