"""Claims: one entry per property claimed in MANIFEST.json."""
NOT_APPLICABLE = {}
TIE = ("Tie to /repo: hand-written executable model, correspondence check on every run — the harness drives the real "
       "server (System + TCP server + SDK client, hooks on) with generated histories, the Lean judge replays them on the "
       "L1 model and the L2 spec and reports every difference. ")
META = {
 "C17": {
  "text": "Lean theorems over the model of partition selection, for ALL hash values, partition counts, cursor values and batch contents: key_in_range, key_deterministic, balanced_in_range, balanced_rotation (k-th balanced send -> ((pos+k) mod n)+1), balanced_window_distinct (n consecutive balanced sends hit n distinct partitions), by_id_missing_stores_nothing, one_send_one_partition. " + TIE + "Generated histories mix key / balanced / partition-id sends (valid and invalid ids, keys with hash % n == 0) with partition additions, removals and restarts, polling every partition after every send.",
  "design_ref": "§5 C17",
  "note": "Trusted: Lean kernel (+ propext, Classical.choice, Quot.sound), the model's faithfulness as far as the generated histories exercise it, harness+runner. xxhash32 itself is a parameter (real value obtained from the real calculate_32 and fed to the model). Concurrent senders (fetch_add interleavings) are outside this property's statement ('with no concurrent sender').",
  "technique": "Lean 4 proof (arithmetic on mod / case analysis of Topic.send) + differential correspondence",
 },
}
