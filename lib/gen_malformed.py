"""C13 (second sentence): arbitrary malformed frames at any point of a session. The catalogue, the logs
and every other connection must be untouched; each frame is answered with an error or a closed
connection (or silence while the server waits for the rest of a declared length)."""
import gen_storage

LOGIN_CODE = 38


def frame(code, payload):
    body = code.to_bytes(4, "little") + payload
    return len(body).to_bytes(4, "little") + body


def login_frame(user=b"iggy", pw=b"iggy"):
    p = bytes([len(user)]) + user + bytes([len(pw)]) + pw + (0).to_bytes(4, "little") + (0).to_bytes(4, "little")
    return frame(LOGIN_CODE, p)


VALID_CODES = [1, 10, 20, 21, 22, 31, 32, 33, 34, 35, 36, 37, 38, 39, 41, 42, 43, 44, 100, 101, 102, 120, 121,
               122, 200, 201, 202, 203, 204, 205, 300, 301, 302, 303, 304, 305, 402, 403, 600, 601, 602, 603,
               604, 605]


_refused_cache = {}


def refused_frames(seed, n=400):
    """Mutated / truncated encodings of valid commands (harness `codec-mutate`) that the Lean codec model
    REFUSES (`codecjudge decode` answers NONE): bodies (code + payload) of frames that are not valid requests."""
    import subprocess, os, tempfile, vlib
    if seed in _refused_cache:
        return _refused_cache[seed]
    cj = f"{vlib.VERIF}/lean/.lake/build/bin/codecjudge"
    out = subprocess.run([vlib.HBIN, "codec-mutate", str(seed), str(n)], stdout=subprocess.PIPE, stderr=subprocess.DEVNULL, text=True).stdout
    lines = [l for l in out.splitlines() if l.strip()]
    with tempfile.NamedTemporaryFile("w", suffix=".txt", delete=False, dir=vlib.WORK) as f:
        f.write("\n".join(lines) + "\n")
        path = f.name
    try:
        dec = subprocess.run([cj, "decode"], stdin=open(path), stdout=subprocess.PIPE, text=True).stdout.splitlines()
    finally:
        os.remove(path)
    storage_kinds = ("RetainedMessage", "RetainedBatch", "StateEntry", "EntryCommand", "Identifier", "Consumer",
                     "Partitioning", "PollingStrategy", "Permissions", "Headers", "Message")
    res = []
    for l, d in zip(lines, dec):
        kind, hx = l.split(" ", 1)
        # login / logout commands change the session even when refused later; keep plain requests only
        if kind in storage_kinds or kind.startswith("Login") or kind == "LogoutUser":
            continue
        if d.startswith("NONE") and len(hx) >= 8 and len(hx) // 2 < 5000:
            res.append((kind, hx.strip()))
    _refused_cache[seed] = res
    return res


def gen(rng, focus, k=None, maxops=40):
    if rng.random() < 0.4:
        return gen_authed(rng, focus, k, maxops)
    return gen_raw(rng, focus, k, maxops)


def gen_authed(rng, focus, k=None, maxops=40):
    """an AUTHENTICATED (root) raw connection sends frames whose body is a mutated valid command that the codec
    model refuses: each must be answered with an error or a closed connection and change nothing."""
    cfg = gen_storage.draw_cfg(rng, k, {"dedup": 0})
    ops = []
    emit = ops.append
    emit("conn 0 tcp")
    emit("login 0 iggy iggy")
    emit("clock 1000000")
    emit("create-stream 0 1 s1")
    emit("create-topic 0 #1 1 t1 2 never unlimited -")
    emit("create-group 0 #1 #1 1 g1")
    emit("create-user 0 alice secretpw12 active 1111111111")
    emit("clock 1000010")
    emit("send 0 #1 #1 pid:1 1:20:101:0,2:20:102:1")

    def observe():
        emit("streams 0")
        emit("stream 0 #1")
        emit("topic 0 #1 #1")
        emit("groups 0 #1 #1")
        emit("poll 0 #1 #1 1 c:#9 offset:0 1000 0")
        emit("poll 0 #1 #1 2 c:#9 offset:0 1000 0")
        emit("users 0")
        emit("get-offset 0 #1 #1 1 c:#1")
    observe()
    frames = refused_frames(rng.randint(1, 6))
    r = 0
    emit(f"raw-open {r}")
    emit(f"raw-send {r} {login_frame().hex()}")
    for _ in range(rng.randint(6, 25)):
        kind, hx = rng.choice(frames)
        body = bytes.fromhex(hx)
        emit(f"raw-refused {r} {(len(body).to_bytes(4, 'little') + body).hex()}")
        if rng.random() < 0.15:
            # the connection may have been closed by a panic of its task: open a new one
            emit(f"raw-close {r}")
            r += 1
            emit(f"raw-open {r}")
            emit(f"raw-send {r} {login_frame().hex()}")
        if rng.random() < 0.2:
            observe()
    observe()
    emit("restart")
    observe()
    return cfg, ops


def gen_raw(rng, focus, k=None, maxops=40):
    cfg = gen_storage.draw_cfg(rng, k, {"dedup": 0})
    ops = []
    emit = ops.append
    emit("conn 0 tcp")
    emit("login 0 iggy iggy")
    emit("clock 1000000")
    emit("create-stream 0 1 s1")
    emit("create-topic 0 #1 1 t1 1 never unlimited -")
    emit("clock 1000010")
    emit("send 0 #1 #1 pid:1 1:20:101:0,2:20:102:1")

    def observe():
        emit("streams 0")
        emit("topic 0 #1 #1")
        emit("poll 0 #1 #1 1 c:#9 offset:0 1000 0")
        emit("users 0")
    observe()
    nraw = rng.randint(2, 6)
    for r in range(nraw):
        emit(f"raw-open {r}")
        authed = rng.random() < 0.4
        if authed:
            emit(f"raw-send {r} {login_frame().hex()}")
        for _ in range(rng.randint(1, 6)):
            kind = rng.random()
            if kind < 0.2 and not authed:
                b = bytes(rng.getrandbits(8) for _ in range(rng.choice([1, 2, 3, 4, 5, 8, 13, 64, 300])))
                # keep the declared length small: the server allocates what a frame declares
                if len(b) >= 4:
                    b = (rng.randint(0, 600)).to_bytes(4, "little") + b[4:]
            elif kind < 0.4:
                b = (rng.randint(0, 3)).to_bytes(4, "little") + bytes(rng.getrandbits(8) for _ in range(rng.randint(0, 3)))  # len < 4
            elif kind < 0.6:
                code = rng.choice(VALID_CODES) if not authed else rng.choice([0, 7, 99, 999, 5000, 2**31])
                b = frame(code, bytes(rng.getrandbits(8) for _ in range(rng.choice([0, 1, 2, 5, 9, 17, 40, 200]))))
            elif kind < 0.8:
                full = login_frame(b"nosuchuser", b"whatever-pw")
                b = full[: rng.randint(1, len(full) - 1)]          # truncated valid frame (server waits)
            elif kind < 0.9:
                b = (rng.choice([1000, 65536, 1 << 20])).to_bytes(4, "little") + bytes(rng.getrandbits(8) for _ in range(rng.randint(0, 50)))
            else:
                code = rng.choice(VALID_CODES) if not authed else 7
                b = frame(code, b"")                                # empty payload for a command that needs one
            emit(f"raw-send {r} {b.hex()}")
            if rng.random() < 0.3:
                emit("ping 0")
        if rng.random() < 0.7:
            emit(f"raw-close {r}")
        # every other connection keeps working and nothing changed
        if rng.random() < 0.5:
            observe()
    emit("conn 5 tcp")
    emit("login 5 iggy iggy")
    emit("me 5")
    emit("streams 5")
    observe()
    emit("clock 1000500")
    emit("send 0 #1 #1 pid:1 3:20:103:0")
    emit("poll 0 #1 #1 1 c:#9 offset:0 1000 0")
    emit("restart")
    observe()
    return cfg, ops
