"""Generators of `node` histories for the storage properties (C01 C02 C03 C07 C14 C15 C16 C18).
Every random choice derives from the one `random.Random` passed in; the resolved op list is the replay."""

CFG_SPACE = {
    "save": [1, 2, 3, 10, 1000],
    "seg": [600, 4000, 1000000000],
    "cache": [0, 2000000],
    "idxcache": [0, 1],
    "dedup": [0, 1],
    "fsync": [0, 1],
    "confirm": ["wait"],
}


def draw_cfg(rng, k=None, overrides=None):
    """k-th history gets a pairwise-covering-ish configuration: cycle each dimension with a different
    period, then perturb randomly."""
    cfg = {}
    dims = sorted(CFG_SPACE)
    for i, d in enumerate(dims):
        vals = CFG_SPACE[d]
        if k is not None and rng.random() < 0.7:
            cfg[d] = vals[(k // (i + 1) + i * k) % len(vals)]
        else:
            cfg[d] = rng.choice(vals)
    if overrides:
        cfg.update(overrides)
    return cfg


class Gen:
    def __init__(self, rng, focus, nparts=None):
        self.rng = rng
        self.focus = focus
        self.clock = 1_000_000
        self.next_id = 1
        self.ids_used = []
        self.tag = 100
        self.nparts = nparts or rng.choice([1, 1, 2, 3])
        self.sent = {p: 0 for p in range(1, self.nparts + 1)}   # upper bound of accepted per partition
        self.stamps = []
        self.ops = []

    def emit(self, op):
        self.ops.append(op)

    def tick(self, lo=1, hi=1000):
        self.clock += self.rng.randint(lo, hi)
        self.emit(f"clock {self.clock}")

    def part(self):
        return self.rng.randint(1, self.nparts)

    def msgs(self, n, dup_rate=0.0):
        out = []
        for _ in range(n):
            if self.ids_used and self.rng.random() < dup_rate:
                mid = self.rng.choice(self.ids_used)
            else:
                mid = self.next_id
                self.next_id += 1
                self.ids_used.append(mid)
            self.tag += 1
            psize = self.rng.choice([8, 8, 20, 20, 50, 200])
            if self.rng.random() < 0.004:
                psize = self.rng.choice([2_097_100, 2_500_000, 4_300_000])      # more than one write call can take
            nhdr = self.rng.choice([0, 0, 0, 1, 3])
            out.append(f"{mid}:{psize}:{self.tag}:{nhdr}")
        return ",".join(out)

    def send(self, dup_rate=0.0, pid=None, balanced_ok=True):
        self.tick()
        self.stamps.append(self.clock)
        n = self.rng.choice([1, 1, 2, 3, 3, 5, 8])
        if balanced_ok and self.rng.random() < 0.15:
            part = "balanced"
            for p in self.sent:
                self.sent[p] += n
        else:
            p = pid or self.part()
            part = f"pid:{p}"
            self.sent[p] += n
        self.emit(f"send 0 #1 #1 {part} {self.msgs(n, dup_rate)}")

    def consumer(self):
        r = self.rng.random()
        if r < 0.6:
            return f"c:#{self.rng.randint(1, 3)}"
        return f"g:#{self.rng.randint(1, 2)}"

    def poll(self, pid=None, auto_ok=True):
        p = pid or self.part()
        total = self.sent[p]
        r = self.rng.random()
        count = self.rng.choice([1, 1, 2, 3, 5, 10, 100, 1000])
        auto = 0
        if r < 0.5:
            o = self.rng.randint(0, total + 2)
            if self.rng.random() < 0.3 and total > 0:
                o = max(0, total - self.rng.randint(1, 6))
            strat = f"offset:{o}"
        elif r < 0.6:
            strat = "first"
        elif r < 0.7:
            strat = "last"
        elif r < 0.85:
            strat = "next"
            if auto_ok and self.rng.random() < 0.6:
                auto = 1
        else:
            if self.stamps and self.rng.random() < 0.8:
                t = self.rng.choice(self.stamps) + self.rng.choice([-1, 0, 0, 1])
            else:
                t = self.clock + self.rng.randint(-5000, 500)
            strat = f"ts:{max(t, 0)}"
        if auto_ok and auto == 0 and self.rng.random() < 0.2:
            auto = 1        # auto-commit stores the last message of THIS poll, whatever the strategy - also backwards
        cons = self.consumer()
        self.emit(f"poll 0 #1 #1 {p} {cons} {strat} {count} {auto}")
        if auto == 1:
            self.emit(f"get-offset 0 #1 #1 {p} {cons}")

    def full_poll(self, pid=None):
        for p in ([pid] if pid else range(1, self.nparts + 1)):
            self.emit(f"poll 0 #1 #1 {p} c:#9 offset:0 100000 0")

    def observe(self):
        self.full_poll()
        self.emit("topic 0 #1 #1")

    def offsets(self):
        p = self.part()
        c = self.consumer()
        r = self.rng.random()
        if r < 0.5:
            o = self.rng.randint(0, self.sent[p] + 1)
            self.emit(f"store-offset 0 #1 #1 {p} {c} {o}")
        elif r < 0.85:
            self.emit(f"get-offset 0 #1 #1 {p} {c}")
        else:
            self.emit(f"delete-offset 0 #1 #1 {p} {c}")


def preamble(g, expiry="never", maxsize="unlimited"):
    g.emit("conn 0 tcp")
    g.emit("login 0 iggy iggy")
    g.emit(f"clock {g.clock}")
    g.emit("create-stream 0 1 s1")
    g.emit(f"create-topic 0 #1 1 t1 {g.nparts} {expiry} {maxsize} -")
    g.emit("create-group 0 #1 #1 1 g1")
    g.emit("create-group 0 #1 #1 2 g2")


def gen(rng, focus, k=None, maxops=40):
    """focus ∈ {C01, C02, C03, C07, C16, C18}: one generator, different weights and forced shapes."""
    overrides = {}
    if focus == "C18":
        overrides["dedup"] = 1
    cfg = draw_cfg(rng, k, overrides)
    g = Gen(rng, focus)
    preamble(g)
    n = rng.randint(8, maxops)
    dup = 0.35 if focus == "C18" else (0.1 if cfg["dedup"] == 1 else 0.0)
    w = {
        "send": 30, "poll": 25, "flush": 5, "save": 5, "restart": 4, "purge": 2, "offsets": 6,
        "topic": 4, "stats": 2, "full": 6,
    }
    if cfg["cache"]:
        w["evict"] = 7          # what clean_cache does to one partition when the memory limit is reached
    if focus == "C01":
        w.update({"send": 40, "full": 15, "restart": 6, "purge": 4})
    if focus == "C02":
        w.update({"poll": 45})
    if focus == "C03":
        w.update({"restart": 10})
    if focus == "C07":
        w.update({"offsets": 35, "poll": 25, "purge": 4, "restart": 6})
    if focus == "C16":
        w.update({"topic": 15, "stats": 8, "purge": 5, "restart": 6})
    if focus == "C18":
        w.update({"send": 45, "full": 15, "restart": 8})
    kinds = list(w)
    weights = [w[x] for x in kinds]
    for _ in range(n):
        kind = rng.choices(kinds, weights)[0]
        if kind == "send":
            g.send(dup)
            if focus in ("C01", "C18") and rng.random() < 0.5:
                g.full_poll()
        elif kind == "poll":
            g.poll()
        elif kind == "flush":
            g.emit(f"flush 0 #1 #1 {g.part()} {rng.choice([0, 1])}")
        elif kind == "evict":
            p = g.part()
            g.emit(f"evict #1 #1 {p} {rng.choice([60, 150, 400, 1200, 100000])}")
            g.full_poll(p)
        elif kind == "save":
            g.emit("save")
        elif kind == "restart":
            if focus == "C03" or rng.random() < 0.5:
                g.observe()
            g.emit("restart")
            if focus == "C03" or rng.random() < 0.5:
                g.observe()
        elif kind == "purge":
            g.emit("purge-topic 0 #1 #1")
            for p in g.sent:
                g.sent[p] = 0
        elif kind == "offsets":
            g.offsets()
        elif kind == "topic":
            g.emit("topic 0 #1 #1")
        elif kind == "stats":
            g.emit("stats 0")
        elif kind == "full":
            g.full_poll()
    g.observe()
    g.emit("stats 0")
    return cfg, g.ops


def gen_c17(rng, focus, k=None, maxops=40):
    """C17: sends of all three partitioning kinds interleaved with partition additions/removals; every
    partition is polled in full after every send. Keys: random bytes of length 1..255, plus keys
    searched so that hash % n == 0."""
    import vlib
    cfg = draw_cfg(rng, k, {"dedup": 0})
    g = Gen(rng, focus, nparts=rng.choice([1, 2, 3, 4, 5, 6]))
    preamble(g)
    n = rng.randint(8, maxops)
    # candidate keys and their hashes (one harness call)
    keys = []
    for _ in range(40):
        ln = rng.choice([1, 1, 2, 3, 8, 16, 64, 200, 255])
        keys.append(bytes(rng.getrandbits(8) for _ in range(ln)).hex())
    hs = vlib.hash32(keys)
    keyed = list(zip(keys, hs))
    nparts = g.nparts
    for _ in range(n):
        r = rng.random()
        if r < 0.70:
            g.tick()
            cnt = rng.choice([1, 1, 2, 3])
            kind = rng.random()
            if kind < 0.4:
                part = "balanced"
            elif kind < 0.75:
                # prefer keys that hit the `hash % n == 0` branch
                zero = [kh for kh in keyed if nparts and kh[1] % max(nparts, 1) == 0]
                kx, h = rng.choice(zero) if zero and rng.random() < 0.4 else rng.choice(keyed)
                part = f"key:{kx}={h}"
            else:
                part = f"pid:{rng.randint(0, nparts + 2)}"
            g.emit(f"send 0 #1 #1 {part} {g.msgs(cnt)}")
            for p in range(1, nparts + 1):
                g.emit(f"poll 0 #1 #1 {p} c:#9 offset:0 100000 0")
        elif r < 0.80:
            add = rng.choice([1, 1, 2])
            g.emit(f"create-parts 0 #1 #1 {add}")
            nparts += add
        elif r < 0.90:
            rem = rng.choice([1, 1, 2])
            g.emit(f"delete-parts 0 #1 #1 {rem}")
            nparts = max(0, nparts - rem)
        elif r < 0.95:
            g.emit("restart")
        else:
            g.emit("topic 0 #1 #1")
    for p in range(1, nparts + 1):
        g.emit(f"poll 0 #1 #1 {p} c:#9 offset:0 100000 0")
    g.emit("topic 0 #1 #1")
    return cfg, g.ops


def gen_retention(rng, focus, k=None, maxops=40):
    """C14 / C15 / C16: small segments, topic expiry and/or size limit, clock jumps, maintenance passes,
    restarts; `topic` (+ `ls` for C16) before sends so that the gate and the figures are judged on the
    implementation's own reported sizes."""
    seg = 600
    overrides = {"seg": seg, "dedup": rng.choice([0, 0, 1]) if focus == "C16" else 0,
                 "save": rng.choice([1, 2, 3, 10])}
    if focus == "C15" or rng.random() < 0.4:
        overrides["delete_oldest"] = rng.choice([0, 1])
    cfg = draw_cfg(rng, k, overrides)
    g = Gen(rng, focus, nparts=rng.choice([1, 1, 2]))
    expiry = "never"
    maxsize = "unlimited"
    if focus == "C14" or rng.random() < 0.4:
        expiry = str(rng.choice([2_000_000, 5_000_000, 20_000_000]))
    if focus == "C15" or rng.random() < 0.3:
        maxsize = str(rng.choice([seg, seg, 2 * seg, 3 * seg, 6 * seg]))
    preamble(g, expiry, maxsize)
    n = rng.randint(10, maxops)
    w = {"send": 40, "poll": 14, "maintain": 12, "jump": 8, "restart": 5, "full": 8, "topic": 8,
         "flush": 3, "save": 3, "purge": 2, "update": 3, "stats": 2, "badlimit": 2}
    # a sibling topic in the same stream (its own limits, its own figures): what happens there must not
    # move this topic's gate, retention or figures
    sibling = rng.random() < 0.5
    if sibling:
        g.emit(f"create-topic 0 #1 2 sib 1 {rng.choice(['never', '3000000'])} {rng.choice(['unlimited', str(20 * seg)])} -")
        w["sib"] = 12
    if focus == "C14":
        w.update({"jump": 14, "maintain": 16})
    if focus == "C16":
        w.update({"topic": 18, "stats": 6, "purge": 5, "parts": 4})
    kinds = list(w)
    weights = [w[x] for x in kinds]
    for _ in range(n):
        kind = rng.choices(kinds, weights)[0]
        if kind == "send":
            g.emit("topic 0 #1 #1")
            g.send(0.3 if cfg["dedup"] == 1 else 0.0)
            if focus in ("C15", "C16") and rng.random() < 0.5:
                g.emit("topic 0 #1 #1")
                if focus == "C16":
                    g.emit("ls")
        elif kind == "poll":
            g.poll()
        elif kind == "maintain":
            g.full_poll()
            g.emit("maintain")
            g.full_poll()
            g.emit("topic 0 #1 #1")
            if focus == "C16":
                g.emit("ls")
        elif kind == "jump":
            g.tick(500_000, 8_000_000)
        elif kind == "restart":
            g.observe()
            g.emit("restart")
            g.observe()
        elif kind == "full":
            g.full_poll()
        elif kind == "topic":
            g.emit("topic 0 #1 #1")
            if focus == "C16":
                g.emit("ls")
        elif kind == "flush":
            g.emit(f"flush 0 #1 #1 {g.part()} 0")
        elif kind == "save":
            g.emit("save")
        elif kind == "purge":
            g.emit("purge-topic 0 #1 #1")
            for p in g.sent:
                g.sent[p] = 0
        elif kind == "update":
            e = rng.choice(["never", "1000000", "5000000"])
            m = rng.choice(["unlimited", str(seg), str(2 * seg), str(4 * seg)])
            g.emit(f"update-topic 0 #1 #1 t1 {e} {m} -")
        elif kind == "stats":
            g.emit("stats 0")
        elif kind == "sib":
            g.tick()
            g.emit(f"send 0 #1 #2 pid:1 {g.msgs(rng.choice([3, 5, 8]))}")
            if rng.random() < 0.4:
                g.emit("topic 0 #1 #2")
                g.emit("stream 0 #1")
        elif kind == "badlimit":
            g.emit(f"update-topic 0 #1 #1 t1 never {rng.choice([1, seg - 1])} -")
            g.emit(f"create-topic 0 #1 - small 1 never {seg - 1} -")
        elif kind == "parts":
            if rng.random() < 0.5:
                g.emit("create-parts 0 #1 #1 1")
                g.nparts += 1
                g.sent[g.nparts] = 0
            elif g.nparts > 1:
                g.emit("delete-parts 0 #1 #1 1")
                del g.sent[g.nparts]
                g.nparts -= 1
    g.observe()
    g.emit("stats 0")
    if focus == "C16":
        g.emit("ls")
    return cfg, g.ops


def gen_crash(rng, focus, k=None, maxops=24):
    """C04: short data-plane histories without restarts (the crash images are the restarts): sends with
    small save thresholds and 600 B segments (roll-overs), flushes, saves, offset stores, a retention
    pass now and then."""
    cfg = draw_cfg(rng, k, {"seg": rng.choice([600, 600, 4000]), "save": rng.choice([1, 2, 3, 3, 10]), "dedup": 0,
                            "cache": 0})
    g = Gen(rng, focus, nparts=rng.choice([1, 1, 2]))
    preamble(g)
    n = rng.randint(6, maxops)
    for _ in range(n):
        r = rng.random()
        if r < 0.6:
            g.send(0.0, balanced_ok=False)
        elif r < 0.7:
            g.emit(f"flush 0 #1 #1 {g.part()} 0")
        elif r < 0.78:
            g.emit("save")
        elif r < 0.9:
            p = g.part()
            g.emit(f"store-offset 0 #1 #1 {p} c:#1 {rng.randint(0, max(0, g.sent[p]))}")
        else:
            g.poll(auto_ok=True)
    return cfg, g.ops
