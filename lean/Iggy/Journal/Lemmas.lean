/-
Lemmas about the journal model (Iggy/Journal/Model.lean): little-endian encoding, the one-entry
round trip `parseOne`/`Entry.encode`, the loader characterisation, truncation, whole-entry tampering,
single-byte tampering and the `apply` invariant. Property statements are in Iggy/Props/C11.lean.
-/
import Iggy.Journal.Model
namespace Iggy.Journal

/-! ## little-endian bytes -/

@[simp] theorem leBytes_length : ∀ k n, (leBytes k n).length = k
  | 0, _ => rfl
  | k + 1, n => by simp [leBytes, leBytes_length k]

@[simp] theorem le32_length (n : Nat) : (le32 n).length = 4 := leBytes_length 4 n
@[simp] theorem le64_length (n : Nat) : (le64 n).length = 8 := leBytes_length 8 n

theorem leVal_leBytes : ∀ k n, leVal (leBytes k n) = n % 256 ^ k
  | 0, n => by simp [leBytes, leVal, Nat.mod_one]
  | k + 1, n => by
    simp only [leBytes, leVal, leVal_leBytes k, UInt8.toNat_ofNat']
    rw [show (256 : Nat) ^ (k + 1) = 256 * 256 ^ k from Nat.pow_succ', Nat.mod_mul]
    omega

theorem leVal_le32 {n : Nat} (h : n < 2 ^ 32) : leVal (le32 n) = n := by
  rw [le32, leVal_leBytes]; exact Nat.mod_eq_of_lt (by omega)

theorem leVal_le64 {n : Nat} (h : n < 2 ^ 64) : leVal (le64 n) = n := by
  rw [le64, leVal_leBytes]; exact Nat.mod_eq_of_lt (by omega)

theorem leVal_lt : ∀ b : Bytes, leVal b < 256 ^ b.length
  | [] => by simp [leVal]
  | x :: rest => by
    have ih := leVal_lt rest
    have hx := x.toNat_lt
    simp only [leVal, List.length_cons, Nat.pow_succ]
    omega

theorem leBytes_leVal : ∀ b : Bytes, leBytes b.length (leVal b) = b
  | [] => rfl
  | x :: rest => by
    have hx := x.toNat_lt
    have h1 : (x.toNat + 256 * leVal rest) % 256 = x.toNat := by omega
    have h2 : (x.toNat + 256 * leVal rest) / 256 = leVal rest := by omega
    simp only [leVal, List.length_cons, leBytes, h1, h2, UInt8.ofNat_toNat, leBytes_leVal rest]

theorem le32_leVal {b : Bytes} (h : b.length = 4) : le32 (leVal b) = b := by
  rw [le32, ← h, leBytes_leVal]

theorem le64_leVal {b : Bytes} (h : b.length = 8) : le64 (leVal b) = b := by
  rw [le64, ← h, leBytes_leVal]

theorem leVal_inj {a b : Bytes} (hl : a.length = b.length) (h : leVal a = leVal b) : a = b := by
  rw [← leBytes_leVal a, ← leBytes_leVal b, hl, h]

theorem leVal_lt32 {b : Bytes} (h : b.length = 4) : leVal b < 2 ^ 32 := by
  have := leVal_lt b; rw [h] at this; exact this

theorem leVal_lt64 {b : Bytes} (h : b.length = 8) : leVal b < 2 ^ 64 := by
  have := leVal_lt b; rw [h] at this; exact this

@[simp] theorem takeN_append_length (a rest : Bytes) : takeN a.length (a ++ rest) = some (a, rest) := by
  simp [takeN]

theorem takeN_append_of_length {n : Nat} {a : Bytes} (rest : Bytes) (h : a.length = n) :
    takeN n (a ++ rest) = some (a, rest) := by
  subst h; simp

@[simp] theorem takeN_le64 (n : Nat) (rest : Bytes) : takeN 8 (le64 n ++ rest) = some (le64 n, rest) :=
  takeN_append_of_length rest (le64_length n)
@[simp] theorem takeN_le32 (n : Nat) (rest : Bytes) : takeN 4 (le32 n ++ rest) = some (le32 n, rest) :=
  takeN_append_of_length rest (le32_length n)

theorem takeN_eq_some {n : Nat} {b x r : Bytes} (h : takeN n b = some (x, r)) :
    x.length = n ∧ b = x ++ r := by
  unfold takeN at h
  split at h
  · simp only [Option.some.injEq, Prod.mk.injEq] at h
    obtain ⟨rfl, rfl⟩ := h
    simp [List.length_take]; omega
  · cases h

structure Entry.WF (e : Entry) : Prop where
  index : e.index < 2 ^ 64
  term : e.term < 2 ^ 64
  leader : e.leader < 2 ^ 32
  version : e.version < 2 ^ 32
  flags : e.flags < 2 ^ 64
  ts : e.ts < 2 ^ 64
  user : e.user < 2 ^ 32
  checksum : e.checksum < 2 ^ 32
  ctx : e.ctx.length < 2 ^ 32
  code : e.code < 2 ^ 32
  payload : e.payload.length < 2 ^ 32

theorem parseOne_encode {e : Entry} (h : e.WF) (rest : Bytes) :
    parseOne (e.encode ++ rest) = some (e, rest) := by
  simp only [Entry.encode, Entry.cmd, List.append_assoc, parseOne, takeN_le64, takeN_le32,
    Option.bind_eq_bind, Option.bind_some, leVal_le32 h.ctx, leVal_le32 h.payload, takeN_append_length]
  simp [leVal_le64 h.index, leVal_le64 h.term, leVal_le32 h.leader, leVal_le32 h.version,
    leVal_le64 h.flags, leVal_le64 h.ts, leVal_le32 h.user, leVal_le32 h.checksum, leVal_le32 h.code]

theorem parseOne_sound {b rest : Bytes} {e : Entry} (h : parseOne b = some (e, rest)) :
    b = e.encode ++ rest ∧ e.WF := by
  simp only [parseOne, Option.bind_eq_bind, Option.bind_eq_some_iff, Prod.exists] at h
  obtain ⟨i, b1, h1, t, b2, h2, l, b3, h3, v, b4, h4, f, b5, h5, ts, b6, h6, u, b7, h7, c, b8, h8,
    cl, b9, h9, ctx, b10, h10, code, b11, h11, pl, b12, h12, payload, b13, h13, h⟩ := h
  simp only [Option.pure_def, Option.some.injEq, Prod.mk.injEq] at h
  obtain ⟨rfl, rfl⟩ := h
  obtain ⟨l1, rfl⟩ := takeN_eq_some h1
  obtain ⟨l2, rfl⟩ := takeN_eq_some h2
  obtain ⟨l3, rfl⟩ := takeN_eq_some h3
  obtain ⟨l4, rfl⟩ := takeN_eq_some h4
  obtain ⟨l5, rfl⟩ := takeN_eq_some h5
  obtain ⟨l6, rfl⟩ := takeN_eq_some h6
  obtain ⟨l7, rfl⟩ := takeN_eq_some h7
  obtain ⟨l8, rfl⟩ := takeN_eq_some h8
  obtain ⟨l9, rfl⟩ := takeN_eq_some h9
  obtain ⟨l10, rfl⟩ := takeN_eq_some h10
  obtain ⟨l11, rfl⟩ := takeN_eq_some h11
  obtain ⟨l12, rfl⟩ := takeN_eq_some h12
  obtain ⟨l13, rfl⟩ := takeN_eq_some h13
  refine ⟨?_, ⟨leVal_lt64 l1, leVal_lt64 l2, leVal_lt32 l3, leVal_lt32 l4, leVal_lt64 l5, leVal_lt64 l6,
    leVal_lt32 l7, leVal_lt32 l8, ?_, leVal_lt32 l11, ?_⟩⟩
  · simp only [Entry.encode, Entry.cmd, List.append_assoc, le64_leVal l1, le64_leVal l2, le32_leVal l3,
      le32_leVal l4, le64_leVal l5, le64_leVal l6, le32_leVal l7, le32_leVal l8, le32_leVal l11, l10, l13,
      le32_leVal l9, le32_leVal l12]
  · show ctx.length < _
    rw [l10]; exact leVal_lt32 l9
  · show payload.length < _
    rw [l13]; exact leVal_lt32 l12

/-! ## entry encoding: length, unique parsing -/

theorem Entry.encode_length (e : Entry) : e.encode.length = 60 + e.ctx.length + e.payload.length := by
  simp [Entry.encode, Entry.cmd]; omega

theorem Entry.encode_ne_nil (e : Entry) : e.encode ≠ [] := by
  intro h; have := e.encode_length; rw [h] at this; simp at this; omega

@[simp] theorem encodeAll_nil : encodeAll [] = [] := rfl
@[simp] theorem encodeAll_cons (e : Entry) (es : List Entry) : encodeAll (e :: es) = e.encode ++ encodeAll es := by
  simp [encodeAll]
theorem encodeAll_append (a b : List Entry) : encodeAll (a ++ b) = encodeAll a ++ encodeAll b := by
  simp [encodeAll]

theorem encodeAll_eq_nil {es : List Entry} : encodeAll es = [] ↔ es = [] := by
  cases es with
  | nil => simp
  | cons e es => simp [e.encode_ne_nil]

theorem encodeAll_length_ge (es : List Entry) : 60 * es.length ≤ (encodeAll es).length := by
  induction es with
  | nil => simp
  | cons e es ih => simp [e.encode_length]; omega

/-- entry encodings are prefix-free: a byte string starts with at most one well-formed entry -/
theorem encode_append_inj {e e' : Entry} {r r' : Bytes} (h : e.WF) (h' : e'.WF)
    (heq : e.encode ++ r = e'.encode ++ r') : e = e' ∧ r = r' := by
  have h1 := parseOne_encode h r
  rw [heq, parseOne_encode h' r'] at h1
  simp only [Option.some.injEq, Prod.mk.injEq] at h1
  exact ⟨h1.1.symm, h1.2.symm⟩

/-! ## consecutive indices -/

/-- indices `n, n+1, n+2, …` in list order -/
def ConsecFrom : Nat → List Entry → Prop
  | _, [] => True
  | n, e :: es => e.index = n ∧ ConsecFrom (n + 1) es

/-- the entry at position `i` carries index `i` -/
def Consecutive (es : List Entry) : Prop := ∀ i (h : i < es.length), es[i].index = i

theorem consecFrom_iff {n : Nat} {es : List Entry} :
    ConsecFrom n es ↔ ∀ i (h : i < es.length), es[i].index = n + i := by
  induction es generalizing n with
  | nil => simp [ConsecFrom]
  | cons e es ih =>
    simp only [ConsecFrom, ih, List.length_cons]
    constructor
    · rintro ⟨h0, h⟩ i hi
      cases i with
      | zero => simpa using h0
      | succ i => simp only [List.getElem_cons_succ]; rw [h i (by omega)]; omega
    · intro h
      refine ⟨by simpa using h 0 (by omega), fun i hi => ?_⟩
      have := h (i + 1) (by omega)
      simp only [List.getElem_cons_succ] at this
      omega

theorem consecutive_iff {es : List Entry} : Consecutive es ↔ ConsecFrom 0 es := by
  simp [Consecutive, consecFrom_iff]

theorem consecFrom_append {n : Nat} {a b : List Entry} :
    ConsecFrom n (a ++ b) ↔ ConsecFrom n a ∧ ConsecFrom (n + a.length) b := by
  induction a generalizing n with
  | nil => simp [ConsecFrom]
  | cons e a ih => simp only [List.cons_append, ConsecFrom, ih, List.length_cons, and_assoc]
                   rw [show n + 1 + a.length = n + (a.length + 1) by omega]

/-! ## the loader -/

/-- the index the loader expects next -/
def start : Option Nat → Nat
  | none => 0
  | some p => p + 1

/-- an entry the loader accepts (given a matching index) -/
structure Good (ck : Bytes → Nat) (valid : Bytes → Bool) (e : Entry) : Prop where
  wf : e.WF
  ck : e.checksum = ck e.ckInput
  valid : valid e.cmd = true

/-- one iteration of the loader on a byte string that starts with a well-formed entry -/
theorem loadLoop_succ_encode (ck : Bytes → Nat) (valid : Bytes → Bool) {e : Entry} (h : e.WF)
    (fuel : Nat) (rest : Bytes) (prev : Option Nat) (acc : List Entry) :
    loadLoop ck valid (fuel + 1) (e.encode ++ rest) prev acc =
      if e.index ≠ start prev then .error .corrupted
      else if ck e.ckInput ≠ e.checksum then .error .badChecksum
      else if valid e.cmd = false then .error .badCommand
      else if rest = [] then .ok (e :: acc).reverse
      else loadLoop ck valid fuel rest (some e.index) (e :: acc) := by
  rw [loadLoop, parseOne_encode h]
  cases prev <;> simp [start, List.isEmpty_iff]

theorem loadLoop_good (ck : Bytes → Nat) (valid : Bytes → Bool) {e : Entry} (h : Good ck valid e)
    (fuel : Nat) (rest : Bytes) {prev : Option Nat} (hi : e.index = start prev) (acc : List Entry) :
    loadLoop ck valid (fuel + 1) (e.encode ++ rest) prev acc =
      if rest = [] then .ok (e :: acc).reverse
      else loadLoop ck valid fuel rest (some e.index) (e :: acc) := by
  rw [loadLoop_succ_encode ck valid h.wf]
  simp [hi, h.ck, h.valid]

theorem loadLoop_encodeAll (ck : Bytes → Nat) (valid : Bytes → Bool) :
    ∀ (es : List Entry) (fuel : Nat) (prev : Option Nat) (acc : List Entry), es ≠ [] →
      es.length ≤ fuel → (∀ e ∈ es, Good ck valid e) → ConsecFrom (start prev) es →
      loadLoop ck valid fuel (encodeAll es) prev acc = .ok (acc.reverse ++ es)
  | [], _, _, _, h, _, _, _ => absurd rfl h
  | e :: es, 0, _, _, _, hf, _, _ => by simp at hf
  | e :: es, fuel + 1, prev, acc, _, hf, hg, hc => by
    rw [encodeAll_cons, loadLoop_good ck valid (hg e (by simp)) fuel _ hc.1]
    by_cases hes : es = []
    · subst hes; simp
    · rw [if_neg (by simpa [encodeAll_eq_nil] using hes)]
      rw [loadLoop_encodeAll ck valid es fuel (some e.index) (e :: acc) hes (by simpa using hf)
        (fun x hx => hg x (by simp [hx])) (by simpa [start, hc.1] using hc.2)]
      simp

theorem loadLoop_sound (ck : Bytes → Nat) (valid : Bytes → Bool) :
    ∀ (fuel : Nat) (b : Bytes) (prev : Option Nat) (acc r : List Entry), b ≠ [] → b.length ≤ fuel →
      loadLoop ck valid fuel b prev acc = .ok r →
      ∃ es, r = acc.reverse ++ es ∧ b = encodeAll es ∧ ConsecFrom (start prev) es ∧
        ∀ e ∈ es, Good ck valid e
  | 0, b, _, _, _, hb, hf, _ => by
    have : b = [] := List.eq_nil_of_length_eq_zero (by omega)
    exact absurd this hb
  | fuel + 1, b, prev, acc, r, hb, hf, h => by
    cases hp : parseOne b with
    | none => rw [loadLoop, hp] at h; cases h
    | some p =>
      obtain ⟨e, rest⟩ := p
      obtain ⟨rfl, hwf⟩ := parseOne_sound hp
      rw [loadLoop_succ_encode ck valid hwf] at h
      split at h
      · cases h
      rename_i hidx
      split at h
      · cases h
      rename_i hck
      split at h
      · cases h
      rename_i hv
      have hgood : Good ck valid e := ⟨hwf, (Classical.not_not.mp hck).symm, by simpa using hv⟩
      have hidx' : e.index = start prev := Classical.not_not.mp hidx
      split at h
      · rename_i hr
        subst hr
        refine ⟨[e], ?_, by simp, ⟨hidx', trivial⟩, by simpa using hgood⟩
        simpa using (Except.ok.inj h).symm
      · rename_i hr
        have hlen := e.encode_length
        obtain ⟨es, rfl, rfl, hc, hg⟩ := loadLoop_sound ck valid fuel rest (some e.index) (e :: acc) r hr
          (by simp at hf; omega) h
        refine ⟨e :: es, by simp, by simp, ⟨hidx', by rw [← hidx']; exact hc⟩, ?_⟩
        intro x hx
        rcases List.mem_cons.mp hx with rfl | hx
        · exact hgood
        · exact hg x hx

/-- a journal the loader accepts: consecutive indices from 0, every entry in range with a matching
checksum and a valid command -/
def WFJournal (ck : Bytes → Nat) (valid : Bytes → Bool) (es : List Entry) : Prop :=
  Consecutive es ∧ ∀ e ∈ es, Good ck valid e

theorem load_encodeAll {ck : Bytes → Nat} {valid : Bytes → Bool} {es : List Entry}
    (h : WFJournal ck valid es) : load ck valid (encodeAll es) = .ok es := by
  unfold load
  by_cases hes : es = []
  · subst hes; simp
  · have hne : encodeAll es ≠ [] := by simpa [encodeAll_eq_nil] using hes
    rw [if_neg (by simpa [List.isEmpty_iff] using hne)]
    have := encodeAll_length_ge es
    rw [loadLoop_encodeAll ck valid es _ none [] hes (by omega) h.2 (consecutive_iff.mp h.1)]
    simp

theorem load_sound' {ck : Bytes → Nat} {valid : Bytes → Bool} {b : Bytes} {es : List Entry}
    (h : load ck valid b = .ok es) : b = encodeAll es ∧ WFJournal ck valid es := by
  unfold load at h
  split at h
  · rename_i hb
    have hb' : b = [] := by simpa [List.isEmpty_iff] using hb
    cases Except.ok.inj h
    subst hb'
    exact ⟨rfl, fun i hi => absurd hi (by simp), fun e he => absurd he (by simp)⟩
  · rename_i hb
    obtain ⟨es', rfl, rfl, hc, hg⟩ := loadLoop_sound ck valid _ b none [] es
      (by simpa [List.isEmpty_iff] using hb) (Nat.le_refl _) h
    exact ⟨by simp, by simpa using consecutive_iff.mpr hc, by simpa using hg⟩

theorem load_ok_iff {ck : Bytes → Nat} {valid : Bytes → Bool} {b : Bytes} {es : List Entry} :
    load ck valid b = .ok es ↔ b = encodeAll es ∧ WFJournal ck valid es :=
  ⟨load_sound', fun ⟨hb, h⟩ => hb ▸ load_encodeAll h⟩

/-! ## truncation and whole-entry tampering -/

/-- unique parsing of whole journals: if the encoding of one list of in-range entries is a prefix of
the encoding of another, the first list is a prefix of the second -/
theorem prefix_of_encodeAll_prefix :
    ∀ {es' es : List Entry} {t : Bytes}, (∀ e ∈ es', e.WF) → (∀ e ∈ es, e.WF) →
      encodeAll es' ++ t = encodeAll es → es' <+: es
  | [], _, _, _, _, _ => List.nil_prefix
  | e' :: es', [], t, _, _, h => by
    have := e'.encode_ne_nil
    simp at h; exact absurd h.1 this
  | e' :: es', e :: es, t, h', hw, h => by
    simp only [encodeAll_cons, List.append_assoc] at h
    obtain ⟨rfl, h2⟩ := encode_append_inj (h' e' (by simp)) (hw e (by simp)) h
    have := prefix_of_encodeAll_prefix (fun x hx => h' x (by simp [hx])) (fun x hx => hw x (by simp [hx])) h2
    exact List.cons_prefix_cons.mpr ⟨rfl, this⟩

theorem encodeAll_inj {es' es : List Entry} (h' : ∀ e ∈ es', e.WF) (hw : ∀ e ∈ es, e.WF)
    (h : encodeAll es' = encodeAll es) : es' = es := by
  have h1 : es' <+: es := prefix_of_encodeAll_prefix (t := []) h' hw (by simpa using h)
  have h2 : es <+: es' := prefix_of_encodeAll_prefix (t := []) hw h' (by simpa using h.symm)
  exact List.IsPrefix.eq_of_length_le h1 h2.length_le

/-- byte offset at which entry `j` starts -/
def offsetOf (es : List Entry) (j : Nat) : Nat := (encodeAll (es.take j)).length

theorem offsetOf_zero (es : List Entry) : offsetOf es 0 = 0 := by simp [offsetOf]

theorem offsetOf_length (es : List Entry) : offsetOf es es.length = (encodeAll es).length := by
  simp [offsetOf]

theorem offsetOf_succ (es : List Entry) {j : Nat} (hj : j < es.length) :
    offsetOf es (j + 1) = offsetOf es j + es[j].encode.length := by
  unfold offsetOf
  rw [List.take_succ_eq_append_getElem hj, encodeAll_append]
  simp

theorem offsetOf_mono (es : List Entry) {i j : Nat} (h : i ≤ j) : offsetOf es i ≤ offsetOf es j := by
  unfold offsetOf
  have h1 : es.take i = (es.take j).take i := by rw [List.take_take, Nat.min_eq_left h]
  have h2 : encodeAll (es.take j) = encodeAll ((es.take j).take i) ++ encodeAll ((es.take j).drop i) := by
    rw [← encodeAll_append, List.take_append_drop]
  rw [h1, h2, List.length_append]
  omega

theorem offsetOf_le (es : List Entry) (j : Nat) : offsetOf es j ≤ (encodeAll es).length := by
  by_cases h : j ≤ es.length
  · rw [← offsetOf_length]; exact offsetOf_mono es h
  · unfold offsetOf; rw [List.take_of_length_le (by omega)]; exact Nat.le_refl _

/-- the file splits at entry `j` -/
theorem encodeAll_split (es : List Entry) {j : Nat} (hj : j < es.length) :
    encodeAll es = encodeAll (es.take j) ++ (es[j].encode ++ encodeAll (es.drop (j + 1))) := by
  conv => lhs; rw [← List.take_append_drop j es, List.drop_eq_getElem_cons hj]
  rw [encodeAll_append, encodeAll_cons]

theorem load_take_ok {ck : Bytes → Nat} {valid : Bytes → Bool} {es es' : List Entry}
    (h : WFJournal ck valid es) {k : Nat} (hl : load ck valid ((encodeAll es).take k) = .ok es') :
    es' <+: es ∧ min k (encodeAll es).length = offsetOf es es'.length := by
  obtain ⟨hb, hw'⟩ := load_sound' hl
  have hp : es' <+: es := prefix_of_encodeAll_prefix (t := (encodeAll es).drop k)
    (fun e he => (hw'.2 e he).wf) (fun e he => (h.2 e he).wf) (by rw [← hb, List.take_append_drop])
  refine ⟨hp, ?_⟩
  have : es.take es'.length = es' := (List.prefix_iff_eq_take.mp hp).symm
  rw [offsetOf, this, ← hb, List.length_take]

theorem loadLoop_prefix (ck : Bytes → Nat) (valid : Bytes → Bool) :
    ∀ (es : List Entry) (fuel : Nat) (prev : Option Nat) (acc : List Entry) (rest : Bytes), rest ≠ [] →
      es.length ≤ fuel → (∀ e ∈ es, Good ck valid e) → ConsecFrom (start prev) es →
      ∃ prev', start prev' = start prev + es.length ∧
        loadLoop ck valid fuel (encodeAll es ++ rest) prev acc =
          loadLoop ck valid (fuel - es.length) rest prev' (es.reverse ++ acc)
  | [], fuel, prev, acc, rest, _, _, _, _ => ⟨prev, by simp, by simp⟩
  | e :: es, 0, _, _, _, _, hf, _, _ => by simp at hf
  | e :: es, fuel + 1, prev, acc, rest, hr, hf, hg, hc => by
    obtain ⟨prev', hs, hl⟩ := loadLoop_prefix ck valid es fuel (some e.index) (e :: acc) rest hr
      (by simpa using hf) (fun x hx => hg x (by simp [hx])) (by simpa [start, hc.1] using hc.2)
    refine ⟨prev', by rw [hs, start, hc.1, List.length_cons]; omega, ?_⟩
    rw [encodeAll_cons, List.append_assoc, loadLoop_good ck valid (hg e (by simp)) fuel _ hc.1,
      if_neg (by simp [hr]), hl]
    simp

theorem parseOne_strict_prefix {e : Entry} (h : e.WF) {p t : Bytes} (hp : p ++ t = e.encode)
    (ht : t ≠ []) : parseOne p = none := by
  cases hq : parseOne p with
  | none => rfl
  | some q =>
    obtain ⟨e', r⟩ := q
    obtain ⟨rfl, hw'⟩ := parseOne_sound hq
    have := encode_append_inj (r := []) (r' := r ++ t) h hw' (by simp [← hp])
    have : r ++ t = [] := this.2.symm
    simp at this
    exact absurd this.2 ht

theorem load_cut_inside {ck : Bytes → Nat} {valid : Bytes → Bool} {es : List Entry}
    (h : WFJournal ck valid es) {j k : Nat} (hj : j < es.length) (h1 : offsetOf es j < k)
    (h2 : k < offsetOf es (j + 1)) : load ck valid ((encodeAll es).take k) = .error .short := by
  have hsplit := encodeAll_split es hj
  have hoff : (encodeAll (es.take j)).length = offsetOf es j := rfl
  have hsucc := offsetOf_succ es hj
  have htake : (encodeAll es).take k = encodeAll (es.take j) ++ es[j].encode.take (k - offsetOf es j) := by
    have h0 : k - offsetOf es j - es[j].encode.length = 0 := by omega
    rw [hsplit, List.take_append, List.take_of_length_le (by omega), hoff, List.take_append, h0,
      List.take_zero, List.append_nil]
  have hpne : es[j].encode.take (k - offsetOf es j) ≠ [] := by
    intro hn
    have := congrArg List.length hn
    rw [List.length_take, List.length_nil] at this
    have hpos := es[j].encode_length
    omega
  have hgood : ∀ e ∈ es.take j, Good ck valid e := fun e he => h.2 e (List.mem_of_mem_take he)
  have hcons : ConsecFrom (start none) (es.take j) := by
    rw [consecFrom_iff]
    intro i hi
    simp only [List.length_take] at hi
    rw [List.getElem_take, h.1 i (by omega)]; simp [start]
  have hjlen : (es.take j).length = j := by simp; omega
  have hge := encodeAll_length_ge (es.take j)
  rw [hjlen, hoff] at hge
  have hlen : ((encodeAll es).take k).length = k := by
    rw [List.length_take]
    have := offsetOf_le es (j + 1)
    omega
  unfold load
  rw [if_neg (by rw [htake]; simp [hpne]), hlen, htake]
  obtain ⟨prev', _, hl⟩ := loadLoop_prefix ck valid (es.take j) k none [] _ hpne (by omega) hgood hcons
  rw [hl, hjlen]
  obtain ⟨f, hf⟩ : ∃ f, k - j = f + 1 := ⟨k - j - 1, by omega⟩
  rw [hf, loadLoop, parseOne_strict_prefix (h.2 _ (List.getElem_mem hj)).wf
    (List.take_append_drop (k - offsetOf es j) es[j].encode)]
  intro hd
  have := congrArg List.length hd
  simp [List.length_drop] at this
  omega

/-- in a journal with consecutive indices an entry is determined by its index -/
theorem getElem_index_of_mem {es : List Entry} (h : Consecutive es) {e : Entry} (he : e ∈ es) :
    ∃ hi : e.index < es.length, es[e.index] = e := by
  obtain ⟨k, hk, rfl⟩ := List.mem_iff_getElem.mp he
  have := h k hk
  exact ⟨by omega, by simp [this]⟩

theorem prefix_of_consecutive_subset {es l : List Entry} (h : Consecutive es) (hl : Consecutive l)
    (hsub : ∀ e ∈ l, e ∈ es) : l <+: es := by
  have hget : ∀ i (hi : i < l.length), ∃ hi' : i < es.length, es[i] = l[i] := by
    intro i hi
    obtain ⟨h1, h2⟩ := getElem_index_of_mem h (hsub _ (List.getElem_mem hi))
    have := hl i hi
    simp only [this] at h1 h2
    exact ⟨h1, h2⟩
  have hlen : l.length ≤ es.length := by
    cases hn : l.length with
    | zero => omega
    | succ n => obtain ⟨h1, _⟩ := hget n (by omega); omega
  rw [List.prefix_iff_eq_take]
  apply List.ext_getElem
  · simp; omega
  · intro i h1 h2
    obtain ⟨_, h3⟩ := hget i h1
    rw [List.getElem_take, h3]

theorem load_whole_entries {ck : Bytes → Nat} {valid : Bytes → Bool} {es l l' : List Entry}
    (h : WFJournal ck valid es) (hsub : ∀ e ∈ l, e ∈ es)
    (hl : load ck valid (encodeAll l) = .ok l') : l' = l ∧ l <+: es := by
  obtain ⟨hb, hw'⟩ := load_sound' hl
  have : l = l' := encodeAll_inj (fun e he => (h.2 e (hsub e he)).wf) (fun e he => (hw'.2 e he).wf) hb
  subst this
  exact ⟨rfl, prefix_of_consecutive_subset h.1 hw'.1 hsub⟩

/-! ## `apply` -/

/-- one request to append a command to the journal; `fail` = the write fails -/
structure Apply where
  ts : Nat
  user : Nat
  code : Nat
  payload : Bytes
  fail : Bool
deriving Repr, DecidableEq

/-- the command bytes written for a request -/
def Apply.cmd (a : Apply) : Bytes := le32 a.code ++ le32 a.payload.length ++ a.payload

/-- the request's fields fit their fixed-width encodings -/
structure Apply.InRange (a : Apply) : Prop where
  ts : a.ts < 2 ^ 64
  user : a.user < 2 ^ 32
  code : a.code < 2 ^ 32
  payload : a.payload.length < 2 ^ 32

/-- a sequence of `apply` calls in the order in which they take the journal lock -/
def run (ck : Bytes → Nat) (version : Nat) : FState → List Apply → FState
  | s, [] => s
  | s, a :: as => run ck version (s.apply ck a.ts a.user a.code a.payload version a.fail).1 as

/-- the entry an `apply` writes at index `i` -/
def Apply.entry (ck : Bytes → Nat) (version : Nat) (a : Apply) (i : Nat) : Entry :=
  let e0 : Entry := { index := i, term := 0, leader := 0, version := version, flags := 0, ts := a.ts,
                      user := a.user, checksum := 0, ctx := [], code := a.code, payload := a.payload }
  { e0 with checksum := ck e0.ckInput }

/-- the state holds exactly the entries `es` -/
structure Holds (s : FState) (es : List Entry) : Prop where
  file : s.file = encodeAll es
  count : s.entriesCount = es.length
  cur : es ≠ [] → s.currentIndex + 1 = es.length

theorem holds_init : Holds {} [] := ⟨rfl, rfl, fun h => absurd rfl h⟩

theorem apply_fail (ck : Bytes → Nat) (s : FState) (ts user code : Nat) (payload : Bytes) (version : Nat) :
    s.apply ck ts user code payload version true = (s, false) := rfl

theorem Apply.entry_ckInput (ck : Bytes → Nat) (version : Nat) (a : Apply) (i : Nat) :
    (a.entry ck version i).checksum = ck (a.entry ck version i).ckInput := rfl

theorem Apply.entry_cmd (ck : Bytes → Nat) (version : Nat) (a : Apply) (i : Nat) :
    (a.entry ck version i).cmd = a.cmd := rfl

theorem holds_apply {ck : Bytes → Nat} {version : Nat} {s : FState} {es : List Entry} (h : Holds s es)
    (a : Apply) :
    Holds (s.apply ck a.ts a.user a.code a.payload version a.fail).1
      (if a.fail then es else es ++ [a.entry ck version es.length]) := by
  cases hf : a.fail with
  | true => simpa [FState.apply] using h
  | false =>
    have hidx : (if s.entriesCount = 0 then 0 else s.currentIndex + 1) = es.length := by
      rw [h.count]
      split
      · omega
      · rename_i hne
        exact h.cur (fun hn => hne (by simp [hn]))
    simp only [FState.apply, hidx, Bool.false_eq_true, if_false]
    refine ⟨?_, ?_, ?_⟩
    · simp [encodeAll_append, h.file, Apply.entry]
    · simp [h.count]
    · intro _; simp

/-- the entries written by a sequence of requests on top of `n` existing entries -/
def written (ck : Bytes → Nat) (version : Nat) : Nat → List Apply → List Entry
  | _, [] => []
  | n, a :: as => if a.fail then written ck version n as
                  else a.entry ck version n :: written ck version (n + 1) as

theorem holds_run (ck : Bytes → Nat) (version : Nat) :
    ∀ (as : List Apply) {s : FState} {es : List Entry}, Holds s es →
      Holds (run ck version s as) (es ++ written ck version es.length as)
  | [], _, _, h => by simpa [run, written] using h
  | a :: as, s, es, h => by
    have h1 := holds_apply (ck := ck) (version := version) h a
    have h2 := holds_run ck version as h1
    rw [run]
    cases hf : a.fail with
    | true => simpa [hf, written] using h2
    | false => simpa [hf, written] using h2

theorem written_consecFrom (ck : Bytes → Nat) (version : Nat) :
    ∀ (n : Nat) (as : List Apply), ConsecFrom n (written ck version n as)
  | _, [] => trivial
  | n, a :: as => by
    rw [written]
    split
    · exact written_consecFrom ck version n as
    · exact ⟨rfl, written_consecFrom ck version (n + 1) as⟩

theorem written_length_le (ck : Bytes → Nat) (version : Nat) :
    ∀ (n : Nat) (as : List Apply), (written ck version n as).length ≤ as.length
  | _, [] => by simp [written]
  | n, a :: as => by
    rw [written]
    split
    · have := written_length_le ck version n as; simp; omega
    · have := written_length_le ck version (n + 1) as; simp; omega

theorem written_mem {ck : Bytes → Nat} {version : Nat} :
    ∀ {n : Nat} {as : List Apply} {e : Entry}, e ∈ written ck version n as →
      ∃ a ∈ as, a.fail = false ∧ ∃ i, n ≤ i ∧ i < n + as.length ∧ e = a.entry ck version i
  | _, [], _, h => by simp [written] at h
  | n, a :: as, e, h => by
    rw [written] at h
    split at h
    · obtain ⟨a', ha', hf, i, h1, h2, h3⟩ := written_mem h
      exact ⟨a', by simp [ha'], hf, i, h1, by simp; omega, h3⟩
    · rename_i hf
      rcases List.mem_cons.mp h with rfl | h
      · exact ⟨a, by simp, by simpa using hf, n, Nat.le_refl _, by simp, rfl⟩
      · obtain ⟨a', ha', hf', i, h1, h2, h3⟩ := written_mem h
        exact ⟨a', by simp [ha'], hf', i, by omega, by simp; omega, h3⟩

theorem Apply.entry_wf {ck : Bytes → Nat} (hck : ∀ b, ck b < 2 ^ 32) {version : Nat}
    (hv : version < 2 ^ 32) {a : Apply} (ha : a.InRange) {i : Nat} (hi : i < 2 ^ 64) :
    (a.entry ck version i).WF :=
  ⟨hi, by simp [Apply.entry], by simp [Apply.entry], hv, by simp [Apply.entry], ha.ts, ha.user,
    hck _, by simp [Apply.entry], ha.code, ha.payload⟩

/-! ## single-byte tampering -/

/-- the assumption on the checksum: changing one byte of the input changes the checksum (true of any
CRC; always an explicit hypothesis of the theorems below) -/
def Burst (ck : Bytes → Nat) : Prop :=
  ∀ (a b : Bytes) (x y : UInt8), x ≠ y → ck (a ++ x :: b) ≠ ck (a ++ y :: b)

theorem Burst.set_ne {ck : Bytes → Nat} (hb : Burst ck) {l : Bytes} {i : Nat} {v : UInt8}
    (h : l.set i v ≠ l) : ck (l.set i v) ≠ ck l := by
  by_cases hi : i < l.length
  · have h1 : l.set i v = l.take i ++ v :: l.drop (i + 1) := by
      rw [List.set_eq_take_append_cons_drop, if_pos hi]
    have h2 : l = l.take i ++ l[i] :: l.drop (i + 1) := by
      rw [← List.drop_eq_getElem_cons hi, List.take_append_drop]
    have hne : v ≠ l[i] := by
      intro hv; apply h; rw [hv]; exact List.set_getElem_self hi
    rw [h1]
    conv => rhs; rw [h2]
    exact hb _ _ _ _ hne
  · exact absurd (List.set_eq_of_length_le (by omega)) h

/-- the 44 checksummed header bytes in front of the stored checksum -/
def Entry.hdr (e : Entry) : Bytes :=
  le64 e.index ++ le64 e.term ++ le32 e.leader ++ le32 e.version ++ le64 e.flags ++ le64 e.ts ++ le32 e.user

/-- the bytes after the stored checksum -/
def Entry.body (e : Entry) : Bytes := le32 e.ctx.length ++ e.ctx ++ e.cmd

theorem Entry.encode_eq (e : Entry) : e.encode = e.hdr ++ (le32 e.checksum ++ e.body) := by
  simp [Entry.encode, Entry.hdr, Entry.body, List.append_assoc]

theorem Entry.ckInput_eq (e : Entry) : e.ckInput = e.hdr ++ e.body := by
  simp [Entry.ckInput, Entry.hdr, Entry.body, List.append_assoc]

@[simp] theorem Entry.hdr_length (e : Entry) : e.hdr.length = 44 := by simp [Entry.hdr]

/-- If one byte of an encoded entry is changed and the result is again the encoding of an entry
(same length), the new entry fails its checksum. -/
theorem encode_set_checksum {ck : Bytes → Nat} (hb : Burst ck) {e e' : Entry}
    (hc : e.checksum < 2 ^ 32) (hc' : e'.checksum < 2 ^ 32) (hk : e.checksum = ck e.ckInput)
    {i : Nat} {v : UInt8} (heq : e'.encode = e.encode.set i v) (hne : e.encode.set i v ≠ e.encode) :
    e'.checksum ≠ ck e'.ckInput := by
  rw [e.encode_eq] at hne
  rw [e.encode_eq, e'.encode_eq] at heq
  rw [e'.ckInput_eq]
  rw [e.ckInput_eq] at hk
  rw [List.set_append] at heq hne
  split at heq
  · rename_i hi
    rw [if_pos hi] at hne
    obtain ⟨h1, h2⟩ := List.append_inj heq (by simp)
    obtain ⟨h3, h4⟩ := List.append_inj h2 (by simp)
    have : e'.checksum = e.checksum := by
      rw [← leVal_le32 hc, ← leVal_le32 hc', h3]
    rw [this, hk, h1, h4]
    have hne' : e.hdr.set i v ≠ e.hdr := fun h => hne (by rw [h])
    have := hb.set_ne (l := e.hdr ++ e.body) (i := i) (v := v)
      (by rw [List.set_append, if_pos hi]; exact fun h => hne' (List.append_cancel_right h))
    rw [List.set_append, if_pos hi] at this
    exact fun h => this h.symm
  · rename_i hi
    rw [if_neg hi] at hne
    obtain ⟨h1, h2⟩ := List.append_inj heq (by simp)
    rw [List.set_append] at h2 hne
    split at h2
    · rename_i hi2
      rw [if_pos hi2] at hne
      obtain ⟨h3, h4⟩ := List.append_inj h2 (by simp)
      rw [h1, h4, ← hk]
      intro hcc
      apply hne
      rw [← h3, hcc]
    · rename_i hi2
      rw [if_neg hi2] at hne
      obtain ⟨h3, h4⟩ := List.append_inj h2 (by simp)
      have : e'.checksum = e.checksum := by
        rw [← leVal_le32 hc, ← leVal_le32 hc', h3]
      rw [this, hk, h1, h4]
      have hne' : e.body.set (i - e.hdr.length - (le32 e.checksum).length) v ≠ e.body :=
        fun h => hne (by rw [h])
      have := hb.set_ne (l := e.hdr ++ e.body) (i := i - (le32 e.checksum).length) (v := v)
        (by
          rw [List.set_append, if_neg (by simp at hi hi2 ⊢; omega)]
          rw [show i - (le32 e.checksum).length - e.hdr.length = i - e.hdr.length - (le32 e.checksum).length by omega]
          exact fun h => hne' (List.append_cancel_left h))
      rw [List.set_append, if_neg (by simp at hi hi2 ⊢; omega),
        show i - (le32 e.checksum).length - e.hdr.length = i - e.hdr.length - (le32 e.checksum).length by omega] at this
      exact fun h => this h.symm

theorem set_mid {b pre x post : Bytes} {n : Nat} (hb : b = pre ++ (x ++ post)) (hn : pre.length = n)
    {i : Nat} {v : UInt8} (h1 : n ≤ i) (h2 : i < n + x.length) :
    b.set i v = pre ++ (x.set (i - n) v ++ post) := by
  subst hb hn
  rw [List.set_append, if_neg (by omega), List.set_append, if_pos (by omega)]

/-- offsets, within the encoding of `e`, of the two length fields (context length, payload length) -/
def Entry.lenFieldPos (e : Entry) (o : Nat) : Prop :=
  (48 ≤ o ∧ o < 52) ∨ (56 + e.ctx.length ≤ o ∧ o < 60 + e.ctx.length)

theorem encode_set_reencode {e : Entry} (h : e.WF) {o : Nat} (ho : o < e.encode.length)
    (hl : ¬ e.lenFieldPos o) (v : UInt8) :
    ∃ e₂ : Entry, e₂.WF ∧ e₂.encode = e.encode.set o v := by
  rw [e.encode_length] at ho
  simp only [Entry.lenFieldPos] at hl
  have hcases : o < 8 ∨ (8 ≤ o ∧ o < 16) ∨ (16 ≤ o ∧ o < 20) ∨ (20 ≤ o ∧ o < 24) ∨ (24 ≤ o ∧ o < 32) ∨
      (32 ≤ o ∧ o < 40) ∨ (40 ≤ o ∧ o < 44) ∨ (44 ≤ o ∧ o < 48) ∨
      (52 ≤ o ∧ o < 52 + e.ctx.length) ∨ (52 + e.ctx.length ≤ o ∧ o < 56 + e.ctx.length) ∨
      (60 + e.ctx.length ≤ o ∧ o < 60 + e.ctx.length + e.payload.length) := by omega
  rcases hcases with hc | hc | hc | hc | hc | hc | hc | hc | hc | hc | hc
  · refine ⟨{ e with index := leVal ((le64 e.index).set (o - 0) v) }, ⟨leVal_lt64 (by simp), h.term, h.leader, h.version, h.flags, h.ts, h.user, h.checksum, h.ctx, h.code, h.payload⟩, ?_⟩
    rw [set_mid (pre := ([] : Bytes)) (x := le64 e.index)
      (post := le64 e.term ++ le32 e.leader ++ le32 e.version ++ le64 e.flags ++ le64 e.ts ++ le32 e.user ++ le32 e.checksum ++ le32 e.ctx.length ++ e.ctx ++ le32 e.code ++ le32 e.payload.length ++ e.payload) (b := e.encode) (n := 0)
      (by simp [Entry.encode, Entry.cmd]) (by simp <;> omega) (by omega) (by first | omega | (simp <;> omega))]
    simp [Entry.encode, Entry.cmd, le64_leVal]
  · refine ⟨{ e with term := leVal ((le64 e.term).set (o - 8) v) }, ⟨h.index, leVal_lt64 (by simp), h.leader, h.version, h.flags, h.ts, h.user, h.checksum, h.ctx, h.code, h.payload⟩, ?_⟩
    rw [set_mid (pre := le64 e.index) (x := le64 e.term)
      (post := le32 e.leader ++ le32 e.version ++ le64 e.flags ++ le64 e.ts ++ le32 e.user ++ le32 e.checksum ++ le32 e.ctx.length ++ e.ctx ++ le32 e.code ++ le32 e.payload.length ++ e.payload) (b := e.encode) (n := 8)
      (by simp [Entry.encode, Entry.cmd]) (by simp <;> omega) (by omega) (by first | omega | (simp <;> omega))]
    simp [Entry.encode, Entry.cmd, le64_leVal]
  · refine ⟨{ e with leader := leVal ((le32 e.leader).set (o - 16) v) }, ⟨h.index, h.term, leVal_lt32 (by simp), h.version, h.flags, h.ts, h.user, h.checksum, h.ctx, h.code, h.payload⟩, ?_⟩
    rw [set_mid (pre := le64 e.index ++ le64 e.term) (x := le32 e.leader)
      (post := le32 e.version ++ le64 e.flags ++ le64 e.ts ++ le32 e.user ++ le32 e.checksum ++ le32 e.ctx.length ++ e.ctx ++ le32 e.code ++ le32 e.payload.length ++ e.payload) (b := e.encode) (n := 16)
      (by simp [Entry.encode, Entry.cmd]) (by simp <;> omega) (by omega) (by first | omega | (simp <;> omega))]
    simp [Entry.encode, Entry.cmd, le32_leVal]
  · refine ⟨{ e with version := leVal ((le32 e.version).set (o - 20) v) }, ⟨h.index, h.term, h.leader, leVal_lt32 (by simp), h.flags, h.ts, h.user, h.checksum, h.ctx, h.code, h.payload⟩, ?_⟩
    rw [set_mid (pre := le64 e.index ++ le64 e.term ++ le32 e.leader) (x := le32 e.version)
      (post := le64 e.flags ++ le64 e.ts ++ le32 e.user ++ le32 e.checksum ++ le32 e.ctx.length ++ e.ctx ++ le32 e.code ++ le32 e.payload.length ++ e.payload) (b := e.encode) (n := 20)
      (by simp [Entry.encode, Entry.cmd]) (by simp <;> omega) (by omega) (by first | omega | (simp <;> omega))]
    simp [Entry.encode, Entry.cmd, le32_leVal]
  · refine ⟨{ e with flags := leVal ((le64 e.flags).set (o - 24) v) }, ⟨h.index, h.term, h.leader, h.version, leVal_lt64 (by simp), h.ts, h.user, h.checksum, h.ctx, h.code, h.payload⟩, ?_⟩
    rw [set_mid (pre := le64 e.index ++ le64 e.term ++ le32 e.leader ++ le32 e.version) (x := le64 e.flags)
      (post := le64 e.ts ++ le32 e.user ++ le32 e.checksum ++ le32 e.ctx.length ++ e.ctx ++ le32 e.code ++ le32 e.payload.length ++ e.payload) (b := e.encode) (n := 24)
      (by simp [Entry.encode, Entry.cmd]) (by simp <;> omega) (by omega) (by first | omega | (simp <;> omega))]
    simp [Entry.encode, Entry.cmd, le64_leVal]
  · refine ⟨{ e with ts := leVal ((le64 e.ts).set (o - 32) v) }, ⟨h.index, h.term, h.leader, h.version, h.flags, leVal_lt64 (by simp), h.user, h.checksum, h.ctx, h.code, h.payload⟩, ?_⟩
    rw [set_mid (pre := le64 e.index ++ le64 e.term ++ le32 e.leader ++ le32 e.version ++ le64 e.flags) (x := le64 e.ts)
      (post := le32 e.user ++ le32 e.checksum ++ le32 e.ctx.length ++ e.ctx ++ le32 e.code ++ le32 e.payload.length ++ e.payload) (b := e.encode) (n := 32)
      (by simp [Entry.encode, Entry.cmd]) (by simp <;> omega) (by omega) (by first | omega | (simp <;> omega))]
    simp [Entry.encode, Entry.cmd, le64_leVal]
  · refine ⟨{ e with user := leVal ((le32 e.user).set (o - 40) v) }, ⟨h.index, h.term, h.leader, h.version, h.flags, h.ts, leVal_lt32 (by simp), h.checksum, h.ctx, h.code, h.payload⟩, ?_⟩
    rw [set_mid (pre := le64 e.index ++ le64 e.term ++ le32 e.leader ++ le32 e.version ++ le64 e.flags ++ le64 e.ts) (x := le32 e.user)
      (post := le32 e.checksum ++ le32 e.ctx.length ++ e.ctx ++ le32 e.code ++ le32 e.payload.length ++ e.payload) (b := e.encode) (n := 40)
      (by simp [Entry.encode, Entry.cmd]) (by simp <;> omega) (by omega) (by first | omega | (simp <;> omega))]
    simp [Entry.encode, Entry.cmd, le32_leVal]
  · refine ⟨{ e with checksum := leVal ((le32 e.checksum).set (o - 44) v) }, ⟨h.index, h.term, h.leader, h.version, h.flags, h.ts, h.user, leVal_lt32 (by simp), h.ctx, h.code, h.payload⟩, ?_⟩
    rw [set_mid (pre := le64 e.index ++ le64 e.term ++ le32 e.leader ++ le32 e.version ++ le64 e.flags ++ le64 e.ts ++ le32 e.user) (x := le32 e.checksum)
      (post := le32 e.ctx.length ++ e.ctx ++ le32 e.code ++ le32 e.payload.length ++ e.payload) (b := e.encode) (n := 44)
      (by simp [Entry.encode, Entry.cmd]) (by simp <;> omega) (by omega) (by first | omega | (simp <;> omega))]
    simp [Entry.encode, Entry.cmd, le32_leVal]
  · refine ⟨{ e with ctx := (e.ctx).set (o - 52) v }, ⟨h.index, h.term, h.leader, h.version, h.flags, h.ts, h.user, h.checksum, by rw [List.length_set]; exact h.ctx, h.code, h.payload⟩, ?_⟩
    rw [set_mid (pre := le64 e.index ++ le64 e.term ++ le32 e.leader ++ le32 e.version ++ le64 e.flags ++ le64 e.ts ++ le32 e.user ++ le32 e.checksum ++ le32 e.ctx.length) (x := e.ctx)
      (post := le32 e.code ++ le32 e.payload.length ++ e.payload) (b := e.encode) (n := 52)
      (by simp [Entry.encode, Entry.cmd]) (by simp <;> omega) (by omega) (by first | omega | (simp <;> omega))]
    simp [Entry.encode, Entry.cmd]
  · refine ⟨{ e with code := leVal ((le32 e.code).set (o - (52 + e.ctx.length)) v) }, ⟨h.index, h.term, h.leader, h.version, h.flags, h.ts, h.user, h.checksum, h.ctx, leVal_lt32 (by simp), h.payload⟩, ?_⟩
    rw [set_mid (pre := le64 e.index ++ le64 e.term ++ le32 e.leader ++ le32 e.version ++ le64 e.flags ++ le64 e.ts ++ le32 e.user ++ le32 e.checksum ++ le32 e.ctx.length ++ e.ctx) (x := le32 e.code)
      (post := le32 e.payload.length ++ e.payload) (b := e.encode) (n := (52 + e.ctx.length))
      (by simp [Entry.encode, Entry.cmd]) (by simp <;> omega) (by omega) (by first | omega | (simp <;> omega))]
    simp [Entry.encode, Entry.cmd, le32_leVal]
  · refine ⟨{ e with payload := (e.payload).set (o - (60 + e.ctx.length)) v }, ⟨h.index, h.term, h.leader, h.version, h.flags, h.ts, h.user, h.checksum, h.ctx, h.code, by rw [List.length_set]; exact h.payload⟩, ?_⟩
    rw [set_mid (pre := le64 e.index ++ le64 e.term ++ le32 e.leader ++ le32 e.version ++ le64 e.flags ++ le64 e.ts ++ le32 e.user ++ le32 e.checksum ++ le32 e.ctx.length ++ e.ctx ++ le32 e.code ++ le32 e.payload.length) (x := e.payload)
      (post := ([] : Bytes)) (b := e.encode) (n := (60 + e.ctx.length))
      (by simp [Entry.encode, Entry.cmd]) (by simp <;> omega) (by omega) (by first | omega | (simp <;> omega))]
    simp [Entry.encode, Entry.cmd]

theorem entry_tamper_detected {ck : Bytes → Nat} (hb : Burst ck) {e e' : Entry} (h : e.WF)
    (hk : e.checksum = ck e.ckInput) {i : Nat} {v : UInt8} (hne : e.encode.set i v ≠ e.encode)
    {rest rest' : Bytes} (hp : parseOne (e.encode.set i v ++ rest) = some (e', rest'))
    (hlen : rest'.length = rest.length) : e'.checksum ≠ ck e'.ckInput := by
  obtain ⟨heq, hw'⟩ := parseOne_sound hp
  have hl : (e.encode.set i v).length = e'.encode.length := by
    have := congrArg List.length heq
    simp only [List.length_append] at this
    omega
  exact encode_set_checksum hb h.checksum hw'.checksum hk (List.append_inj heq hl).1.symm hne

theorem load_byte_tamper {ck : Bytes → Nat} {valid : Bytes → Bool} (hb : Burst ck) {es : List Entry}
    (h : WFJournal ck valid es) {j o : Nat} (hj : j < es.length) (ho : o < es[j].encode.length)
    (hl : ¬ es[j].lenFieldPos o) {v : UInt8}
    (hne : (encodeAll es).set (offsetOf es j + o) v ≠ encodeAll es) :
    load ck valid ((encodeAll es).set (offsetOf es j + o) v) = .error .corrupted ∨
    load ck valid ((encodeAll es).set (offsetOf es j + o) v) = .error .badChecksum := by
  have hsplit := encodeAll_split es hj
  have hoff : (encodeAll (es.take j)).length = offsetOf es j := rfl
  have hset := set_mid (v := v) hsplit hoff (Nat.le_add_right _ o) (by omega)
  rw [Nat.add_sub_cancel_left] at hset
  have hgj := h.2 _ (List.getElem_mem hj)
  have hne' : es[j].encode.set o v ≠ es[j].encode := by
    intro hc; apply hne; rw [hset, hc, ← hsplit]
  obtain ⟨e₂, hw₂, he₂⟩ := encode_set_reencode hgj.wf ho hl v
  have hck₂ : e₂.checksum ≠ ck e₂.ckInput :=
    encode_set_checksum hb hgj.wf.checksum hw₂.checksum hgj.ck he₂ hne'
  have hgood : ∀ e ∈ es.take j, Good ck valid e := fun e he => h.2 e (List.mem_of_mem_take he)
  have hcons : ConsecFrom (start none) (es.take j) := by
    rw [consecFrom_iff]
    intro i hi
    simp only [List.length_take] at hi
    rw [List.getElem_take, h.1 i (by omega)]; simp [start]
  have hjlen : (es.take j).length = j := by simp; omega
  have hge := encodeAll_length_ge (es.take j)
  rw [hjlen, hoff] at hge
  have hrest : e₂.encode ++ encodeAll (es.drop (j + 1)) ≠ [] := by simp [e₂.encode_ne_nil]
  have hlen : ((encodeAll es).set (offsetOf es j + o) v).length = (encodeAll es).length := List.length_set
  have hlen2 : offsetOf es j + 60 ≤ (encodeAll es).length := by
    have := offsetOf_succ es hj
    have := offsetOf_le es (j + 1)
    have := es[j].encode_length
    omega
  unfold load
  rw [if_neg (by rw [hset, ← he₂]; simp [hrest]), hlen, hset, ← he₂]
  obtain ⟨prev', hs, hload⟩ := loadLoop_prefix ck valid (es.take j) (encodeAll es).length none [] _ hrest
    (by omega) hgood hcons
  rw [hload, hjlen]
  obtain ⟨f, hf⟩ : ∃ f, (encodeAll es).length - j = f + 1 := ⟨(encodeAll es).length - j - 1, by omega⟩
  rw [hf, loadLoop_succ_encode ck valid hw₂]
  by_cases hidx : e₂.index = start prev'
  · right
    rw [if_neg (by simpa using hidx), if_pos (fun hc => hck₂ hc.symm)]
  · left
    rw [if_pos hidx]

theorem written_cmds (ck : Bytes → Nat) (version : Nat) :
    ∀ (n : Nat) (as : List Apply),
      (written ck version n as).map Entry.cmd = (as.filter (fun a => !a.fail)).map Apply.cmd
  | _, [] => rfl
  | n, a :: as => by
    rw [written]
    cases hf : a.fail with
    | true => simpa [hf] using written_cmds ck version n as
    | false => simpa [hf, Apply.entry_cmd] using written_cmds ck version (n + 1) as

theorem written_length (ck : Bytes → Nat) (version : Nat) :
    ∀ (n : Nat) (as : List Apply), (written ck version n as).length = (as.filter (fun a => !a.fail)).length := by
  intro n as
  have := congrArg List.length (written_cmds ck version n as)
  simpa using this

/-- the journal after a run on top of a state holding `es0` -/
theorem run_wellformed (ck : Bytes → Nat) (version : Nat) {s : FState} {es0 : List Entry}
    (h : Holds s es0) (hc : Consecutive es0) (hk : ∀ e ∈ es0, e.checksum = ck e.ckInput)
    (as : List Apply) :
    Holds (run ck version s as) (es0 ++ written ck version es0.length as) ∧
    Consecutive (es0 ++ written ck version es0.length as) ∧
    ∀ e ∈ es0 ++ written ck version es0.length as, e.checksum = ck e.ckInput := by
  refine ⟨holds_run ck version as h, ?_, ?_⟩
  · rw [consecutive_iff, consecFrom_append]
    exact ⟨consecutive_iff.mp hc, by simpa using written_consecFrom ck version es0.length as⟩
  · intro e he
    rcases List.mem_append.mp he with he | he
    · exact hk e he
    · obtain ⟨a, _, _, i, _, _, rfl⟩ := written_mem he
      exact a.entry_ckInput ck version i

theorem run_loadable {ck : Bytes → Nat} {valid : Bytes → Bool} {version : Nat} {s : FState}
    {es0 : List Entry} (h : Holds s es0) (hw : WFJournal ck valid es0) (as : List Apply)
    (hck : ∀ b, ck b < 2 ^ 32) (hv : version < 2 ^ 32)
    (hin : ∀ a ∈ as, a.fail = false → a.InRange ∧ valid a.cmd = true)
    (hn : es0.length + as.length ≤ 2 ^ 64) :
    WFJournal ck valid (es0 ++ written ck version es0.length as) := by
  obtain ⟨_, hc, _⟩ := run_wellformed ck version h hw.1 (fun e he => (hw.2 e he).ck) as
  refine ⟨hc, ?_⟩
  intro e he
  rcases List.mem_append.mp he with he | he
  · exact hw.2 e he
  · obtain ⟨a, ha, hf, i, _, hi, rfl⟩ := written_mem he
    obtain ⟨hr, hval⟩ := hin a ha hf
    exact ⟨Apply.entry_wf hck hv hr (by omega), a.entry_ckInput ck version i, by rw [Apply.entry_cmd]; exact hval⟩

theorem wfJournal_nil (ck : Bytes → Nat) (valid : Bytes → Bool) : WFJournal ck valid [] :=
  ⟨fun i hi => absurd hi (by simp), fun e he => absurd he (by simp)⟩

/-- a load that returns a prefix of the true history is classified as such by the judge's `verdict` -/
theorem verdict_of_prefix {ck : Bytes → Nat} {valid : Bytes → Bool} {orig es : List Entry} {b : Bytes}
    (hl : load ck valid b = .ok es) (hp : es <+: orig) : verdict ck valid orig b = .prefix' es.length := by
  obtain ⟨t, rfl⟩ := hp
  unfold verdict
  rw [hl]
  have hz : ∀ (l t : List Entry), ((l.zip (l ++ t)).all fun p => decide (p.1.index = p.2.index ∧ p.1.cmd = p.2.cmd)) = true := by
    intro l t
    induction l with
    | nil => simp
    | cons x l ih => simpa using ih
  simp only [List.length_append, Nat.le_add_right, true_and, hz, if_true]

theorem verdict_of_error {ck : Bytes → Nat} {valid : Bytes → Bool} {orig : List Entry} {b : Bytes} {err : Err}
    (hl : load ck valid b = .error err) : verdict ck valid orig b = .err := by
  unfold verdict; rw [hl]

/-! ## decidable equality of load results, example data -/

instance instDecEqExcept {ε α : Type} [DecidableEq ε] [DecidableEq α] : DecidableEq (Except ε α)
  | .ok a, .ok b => if h : a = b then isTrue (h ▸ rfl) else isFalse (fun hc => h (Except.ok.inj hc))
  | .error a, .error b => if h : a = b then isTrue (h ▸ rfl) else isFalse (fun hc => h (Except.error.inj hc))
  | .ok _, .error _ => isFalse (fun h => nomatch h)
  | .error _, .ok _ => isFalse (fun h => nomatch h)

namespace Ex

/-- four requests, the second of which fails to be written -/
def ops : List Apply :=
  [⟨1000, 1, 101, [1, 2, 3], false⟩, ⟨1001, 1, 102, [], true⟩, ⟨1002, 2, 302, [9], false⟩,
   ⟨1003, 1, 103, [7, 7], false⟩]

/-- the journal state after `ops`, with the real CRC-32 and version 5 -/
def state : FState := run crc32 5 {} ops
/-- the three entries it holds -/
def entries : List Entry := written crc32 5 0 ops
def e0 : Entry := Apply.entry crc32 5 ⟨1000, 1, 101, [1, 2, 3], false⟩ 0
def e1 : Entry := Apply.entry crc32 5 ⟨1002, 2, 302, [9], false⟩ 1
def e2 : Entry := Apply.entry crc32 5 ⟨1003, 1, 103, [7, 7], false⟩ 2

/-! ### a checksum that detects every single-byte change but is too weak for length-field changes -/

/-- byte sum modulo 256 -/
def ckSum : Bytes → Nat
  | [] => 0
  | x :: b => (x.toNat + ckSum b) % 256

theorem ckSum_lt : ∀ b, ckSum b < 256
  | [] => by simp [ckSum]
  | x :: b => by simp only [ckSum]; omega

theorem ckSum_burst : Burst ckSum := by
  intro a b x y hxy
  induction a with
  | nil =>
    have hx := x.toNat_lt
    have hy := y.toNat_lt
    have hne : x.toNat ≠ y.toNat := fun h => hxy (UInt8.toNat_inj.mp h)
    simp only [List.nil_append, ckSum]
    omega
  | cons z a ih =>
    have h1 := ckSum_lt (a ++ x :: b)
    have h2 := ckSum_lt (a ++ y :: b)
    simp only [List.cons_append, ckSum]
    omega

/-- an entry that was never applied, hidden in the payload of a command -/
def cxFake : Entry := Apply.entry ckSum 5 ⟨2000, 9, 999, [], false⟩ 1
def cxOps : List Apply :=
  [⟨1000, 1, 101, [], false⟩, ⟨1001, 1, 102, [122, 0] ++ cxFake.encode, false⟩]
def cxEntries : List Entry := written ckSum 5 0 cxOps
def cxE0 : Entry := Apply.entry ckSum 5 ⟨1000, 1, 101, [], false⟩ 0
def cxE1 : Entry := Apply.entry ckSum 5 ⟨1001, 1, 102, [122, 0] ++ cxFake.encode, false⟩ 1
def cxFile : Bytes := (run ckSum 5 {} cxOps).file
/-- what the loader returns after byte 56 (low byte of the first entry's payload length) is changed
from 0 to 62 -/
def cxAccepted : List Entry :=
  [{ cxE0 with payload := (cxFile.drop 60).take 62 }, cxFake]

end Ex

end Iggy.Journal
