/-
Model of the state journal (server/src/state/{entry.rs,file.rs}): entry layout, the loader
`load_entries` (with the first-index check, fix 19809cb) and `apply` split at its real seams.
The checksum function and the command validity check (`EntryCommand::from_bytes`) are parameters.
No imports outside core (linked into the judge).
-/
namespace Iggy.Journal

abbrev Bytes := List UInt8

def leBytes : Nat → Nat → Bytes
  | 0, _ => []
  | k + 1, n => UInt8.ofNat (n % 256) :: leBytes k (n / 256)

def le32 (n : Nat) : Bytes := leBytes 4 n
def le64 (n : Nat) : Bytes := leBytes 8 n

/-- little-endian value of a byte list -/
def leVal : Bytes → Nat
  | [] => 0
  | b :: rest => b.toNat + 256 * leVal rest

structure Entry where
  index : Nat
  term : Nat
  leader : Nat
  version : Nat
  flags : Nat
  ts : Nat
  user : Nat
  checksum : Nat
  ctx : Bytes
  code : Nat
  payload : Bytes
deriving Repr, DecidableEq

/-- the command bytes of an entry: code, length, payload (state/command.rs to_bytes) -/
def Entry.cmd (e : Entry) : Bytes := le32 e.code ++ le32 e.payload.length ++ e.payload

/-- what the checksum is computed over (StateEntry::calculate_checksum): everything but the checksum -/
def Entry.ckInput (e : Entry) : Bytes :=
  le64 e.index ++ le64 e.term ++ le32 e.leader ++ le32 e.version ++ le64 e.flags ++ le64 e.ts ++
  le32 e.user ++ le32 e.ctx.length ++ e.ctx ++ e.cmd

/-- StateEntry::to_bytes -/
def Entry.encode (e : Entry) : Bytes :=
  le64 e.index ++ le64 e.term ++ le32 e.leader ++ le32 e.version ++ le64 e.flags ++ le64 e.ts ++
  le32 e.user ++ le32 e.checksum ++ le32 e.ctx.length ++ e.ctx ++ e.cmd

def encodeAll (es : List Entry) : Bytes := (es.map Entry.encode).flatten

inductive Err
  | short            -- a read hit the end of the file (InvalidNumberEncoding / CannotReadFile)
  | corrupted        -- StateFileCorrupted: index not consecutive / first index not 0
  | badCommand       -- EntryCommand::from_bytes failed
  | badChecksum      -- InvalidStateEntryChecksum
deriving Repr, DecidableEq

/-- take exactly `n` bytes or fail -/
def takeN (n : Nat) (b : Bytes) : Option (Bytes × Bytes) :=
  if n ≤ b.length then some (b.take n, b.drop n) else none

/-- parse one entry from the front (the loader's sequence of reads) -/
def parseOne (b : Bytes) : Option (Entry × Bytes) := do
  let (i, b) ← takeN 8 b
  let (t, b) ← takeN 8 b
  let (l, b) ← takeN 4 b
  let (v, b) ← takeN 4 b
  let (f, b) ← takeN 8 b
  let (ts, b) ← takeN 8 b
  let (u, b) ← takeN 4 b
  let (c, b) ← takeN 4 b
  let (cl, b) ← takeN 4 b
  let (ctx, b) ← takeN (leVal cl) b
  let (code, b) ← takeN 4 b
  let (pl, b) ← takeN 4 b
  let (payload, b) ← takeN (leVal pl) b
  pure ({ index := leVal i, term := leVal t, leader := leVal l, version := leVal v, flags := leVal f,
          ts := leVal ts, user := leVal u, checksum := leVal c, ctx := ctx, code := leVal code,
          payload := payload }, b)

/-- `load_entries`: `ck` the checksum function, `valid` = EntryCommand::from_bytes succeeds.
`fuel` bounds the number of entries (each consumes ≥ 60 bytes; callers pass the file length). -/
def loadLoop (ck : Bytes → Nat) (valid : Bytes → Bool) : Nat → Bytes → Option Nat → List Entry → Except Err (List Entry)
  | 0, _, _, acc => .ok acc.reverse
  | fuel + 1, b, prev, acc =>
    match parseOne b with
    | none => .error .short
    | some (e, rest) =>
      let idxOk := match prev with
        | none => e.index = 0
        | some p => e.index = p + 1
      if !idxOk then .error .corrupted
      else if ck e.ckInput ≠ e.checksum then .error .badChecksum
      else if !valid e.cmd then .error .badCommand        -- parsed only after the checksum (fix 0e1955d)
      else if rest.isEmpty then .ok (e :: acc).reverse
      else loadLoop ck valid fuel rest (some e.index) (e :: acc)

def load (ck : Bytes → Nat) (valid : Bytes → Bool) (b : Bytes) : Except Err (List Entry) :=
  if b.isEmpty then .ok [] else loadLoop ck valid b.length b none []

/-! ## apply, split at its seams (state/file.rs apply, after fix aac4330: alloc+append under one lock,
counters rolled back when the append fails) -/

structure FState where
  currentIndex : Nat := 0
  entriesCount : Nat := 0
  file : Bytes := []
deriving Repr

/-- one `apply`: `fail` = the append fails (nothing written) -/
def FState.apply (ck : Bytes → Nat) (s : FState) (ts user code : Nat) (payload : Bytes) (version : Nat) (fail : Bool) :
    FState × Bool :=
  let index := if s.entriesCount = 0 then 0 else s.currentIndex + 1
  let e0 : Entry := { index := index, term := 0, leader := 0, version := version, flags := 0, ts := ts,
                      user := user, checksum := 0, ctx := [], code := code, payload := payload }
  let e := { e0 with checksum := ck e0.ckInput }
  if fail then (s, false)                                   -- counters given back
  else ({ currentIndex := index, entriesCount := s.entriesCount + 1, file := s.file ++ e.encode }, true)

/-! ## CRC-32 (IEEE 802.3, as crc32fast) — for the executable correspondence only; theorems take the
checksum as a parameter -/

def crc32Step (c : UInt32) : UInt32 := if c &&& 1 == 1 then (c >>> 1) ^^^ 0xEDB88320 else c >>> 1

def crc32Byte (crc : UInt32) (b : UInt8) : UInt32 :=
  let c := crc ^^^ b.toUInt32
  crc32Step (crc32Step (crc32Step (crc32Step (crc32Step (crc32Step (crc32Step (crc32Step c)))))))

def crc32 (bs : Bytes) : Nat := ((bs.foldl crc32Byte 0xFFFFFFFF) ^^^ 0xFFFFFFFF).toNat

/-- verdict of a load relative to the true history: error · the first n true entries · a different
history (never acceptable) -/
inductive Verdict | err | prefix' (n : Nat) | different
deriving Repr, DecidableEq

def verdict (ck : Bytes → Nat) (valid : Bytes → Bool) (orig : List Entry) (b : Bytes) : Verdict :=
  match load ck valid b with
  | .error _ => .err
  | .ok es =>
    if es.length ≤ orig.length ∧ (es.zip orig).all (fun p => p.1.index = p.2.index ∧ p.1.cmd = p.2.cmd)
    then .prefix' es.length else .different

end Iggy.Journal
