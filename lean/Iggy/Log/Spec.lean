/-
L2: the abstract specification of one partition — a list of retained messages and the next offset.
No tiers, no indexes, no batches.  This is what properties C01, C02, C03, C07, C14, C18 talk about.
-/
import Iggy.Log.Model
namespace Iggy.Log

/-- Abstract partition. `msgs`: retained messages, ascending offsets. `next`: the offset the next
accepted message gets. `ids`: message ids remembered for deduplication (none = dedup off). -/
structure SPart where
  msgs : List Msg
  next : Nat
  ids : Option (List Nat)
  consOffs : List (Nat × Nat)
  grpOffs : List (Nat × Nat)
  expiry : Option Nat
deriving Repr, DecidableEq

namespace SPart

def create (cfg : Cfg) (expiry : Option Nat) : SPart :=
  { msgs := [], next := 0, ids := if cfg.dedupOn then some [] else none,
    consOffs := [], grpOffs := [], expiry := expiry }

/-- offset of the last accepted message (0 for a partition that never accepted one) -/
def cur (p : SPart) : Nat := p.next - 1

/-- accepted messages of a batch: first occurrence of each id not seen before, numbered from `next` -/
def append (p : SPart) (now : Nat) (msgs : List InMsg) : SPart :=
  let (ids, retained) := number p.ids p.next now msgs 0 []
  { p with msgs := p.msgs ++ retained, next := p.next + retained.length, ids := ids }

/-- the slice `[off, off+count)` of the retained messages; a poll below the earliest retained offset
starts from the earliest message still available (C14) -/
def pollOffset (p : SPart) (off count : Nat) : List Msg :=
  let lo := match p.msgs.head? with
    | some f => max off f.off
    | none => off
  p.msgs.filter (fun m => lo ≤ m.off ∧ m.off < lo + count)

def pollFirst (p : SPart) (count : Nat) : List Msg := p.pollOffset 0 count

def pollLast (p : SPart) (count : Nat) : List Msg :=
  let req := min count p.next
  p.pollOffset (p.next - req) req

def pollTimestamp (p : SPart) (ts count : Nat) : List Msg :=
  (p.msgs.filter (fun m => ts ≤ m.ts)).take count

def pollNext (p : SPart) (grp : Bool) (cid count : Nat) : List Msg :=
  match lookup (if grp then p.grpOffs else p.consOffs) cid with
  | none => p.pollFirst count
  | some o => p.pollOffset (o + 1) count

def purge (p : SPart) : SPart := { p with msgs := [], next := 0, consOffs := [], grpOffs := [] }

def storeOffset (p : SPart) (grp : Bool) (cid off : Nat) : Except Err SPart :=
  if p.cur < off then .error .invalidOffset
  else if grp then .ok { p with grpOffs := insertKV p.grpOffs cid off }
  else .ok { p with consOffs := insertKV p.consOffs cid off }

def getOffset (p : SPart) (grp : Bool) (cid : Nat) : Option Nat :=
  lookup (if grp then p.grpOffs else p.consOffs) cid

def deleteOffset (p : SPart) (grp : Bool) (cid : Nat) : Except Err SPart :=
  match p.getOffset grp cid with
  | none => .error .offsetNotFound
  | some _ =>
    if grp then .ok { p with grpOffs := eraseK p.grpOffs cid }
    else .ok { p with consOffs := eraseK p.consOffs cid }

/-- Retention may only drop a prefix; which prefix is decided by segment boundaries the spec does not
know, so the spec takes the number of dropped messages as an input (`dropPrefix`) and the *property*
constrains it (C14: every dropped message is older than the expiry and not in the open segment). -/
def dropPrefix (p : SPart) (n : Nat) : SPart := { p with msgs := p.msgs.drop n }

end SPart
end Iggy.Log
