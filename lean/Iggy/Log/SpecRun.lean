/-
Reachable states of the abstract partition: every history of abstract operations (the `Effect`s
of Iggy/Sys/Model.lean, per partition), unbounded.
-/
import Iggy.Log.SpecProps
namespace Iggy.Log

/-- abstract operations on one partition (what the system-level effects do to it) -/
inductive SOp
  | append (now : Nat) (msgs : List InMsg)
  | purge
  | drop (n : Nat)                     -- retention removed the n oldest retained messages
  | restart
  | setExpiry (e : Option Nat)
  | store (grp : Bool) (cid off : Nat)
  | delete (grp : Bool) (cid : Nat)
deriving Repr

def SPart.restart (p : SPart) : SPart :=
  { p with ids := p.ids.map (fun _ => (p.msgs.map (·.id)).eraseDups) }

def SPart.step (p : SPart) : SOp → SPart
  | .append now msgs => p.append now msgs
  | .purge => p.purge
  | .drop n => p.dropPrefix n
  | .restart => p.restart
  | .setExpiry e => { p with expiry := e }
  | .store grp cid off => match p.storeOffset grp cid off with | .ok p' => p' | .error _ => p
  | .delete grp cid => match p.deleteOffset grp cid with | .ok p' => p' | .error _ => p

def SPart.run (cfg : Cfg) (e : Option Nat) (ops : List SOp) : SPart := ops.foldl SPart.step (SPart.create cfg e)

theorem SPart.storeOffset_msgs (p p' : SPart) (grp : Bool) (cid off : Nat)
    (h : p.storeOffset grp cid off = .ok p') : p'.msgs = p.msgs ∧ p'.next = p.next ∧ p'.ids = p.ids := by
  unfold SPart.storeOffset at h
  split at h
  · cases h
  · split at h <;> cases h <;> exact ⟨rfl, rfl, rfl⟩

theorem SPart.deleteOffset_msgs (p p' : SPart) (grp : Bool) (cid : Nat)
    (h : p.deleteOffset grp cid = .ok p') : p'.msgs = p.msgs ∧ p'.next = p.next ∧ p'.ids = p.ids := by
  unfold SPart.deleteOffset at h
  split at h
  · cases h
  · split at h <;> cases h <;> exact ⟨rfl, rfl, rfl⟩

theorem SPart.step_inv (p : SPart) (op : SOp) (h : p.Inv) : (p.step op).Inv := by
  cases op with
  | append now msgs => exact SPart.append_inv p now msgs h
  | purge => exact SPart.purge_inv p
  | drop n => exact SPart.dropPrefix_inv p n h
  | restart => exact h
  | setExpiry e => exact h
  | store grp cid off =>
    simp only [SPart.step]
    split
    · rename_i p' hp
      obtain ⟨h1, h2, _⟩ := SPart.storeOffset_msgs p p' grp cid off hp
      unfold SPart.Inv; rw [h1, h2]; exact h
    · exact h
  | delete grp cid =>
    simp only [SPart.step]
    split
    · rename_i p' hp
      obtain ⟨h1, h2, _⟩ := SPart.deleteOffset_msgs p p' grp cid hp
      unfold SPart.Inv; rw [h1, h2]; exact h
    · exact h

theorem SPart.foldl_inv (p : SPart) (ops : List SOp) (h : p.Inv) : (ops.foldl SPart.step p).Inv := by
  induction ops generalizing p with
  | nil => exact h
  | cons op rest ih => exact ih _ (SPart.step_inv p op h)

/-- every reachable abstract state satisfies the offset invariant — any history, any length -/
theorem SPart.run_inv (cfg : Cfg) (e : Option Nat) (ops : List SOp) : (SPart.run cfg e ops).Inv :=
  SPart.foldl_inv _ ops (SPart.create_inv cfg e)

/-! ## deduplication invariant (C18) -/

/-- with dedup on: every retained id is remembered, and no id is retained twice -/
def SPart.DedupInv (p : SPart) : Prop :=
  ∀ ids, p.ids = some ids → (∀ m ∈ p.msgs, m.id ∈ ids) ∧ (p.msgs.map (·.id)).Nodup

theorem SPart.create_dedupInv (cfg : Cfg) (e : Option Nat) : (SPart.create cfg e).DedupInv := by
  intro ids _; simp [SPart.create]

theorem SPart.append_dedupInv (p : SPart) (now : Nat) (msgs : List InMsg) (h : p.DedupInv) :
    (p.append now msgs).DedupInv := by
  intro ids' hids'
  unfold SPart.append at hids' ⊢
  simp only at hids' ⊢
  cases hp : p.ids with
  | none =>
    -- dedup off: `number none` returns `none`
    exfalso
    have : ∀ (msgs : List InMsg) k acc, (number none p.next now msgs k acc).1 = none := by
      intro msgs; induction msgs with
      | nil => intros; rfl
      | cons m rest ih => intro k acc; unfold number; exact ih _ _
    rw [hp, this] at hids'; cases hids'
  | some ids =>
    obtain ⟨hmem, hnd⟩ := h ids hp
    obtain ⟨ids2, h1, h2, h3, h4, _⟩ := number_some_ids ids p.next now msgs 0
    rw [hp] at hids'
    rw [h1] at hids'; cases hids'
    constructor
    · intro m hm
      simp only [List.mem_append] at hm
      rcases hm with hm | hm
      · exact (h2 m.id).mpr (Or.inl (hmem m hm))
      · exact (h2 m.id).mpr (Or.inr (h3 m hm).2)
    · simp only [List.map_append]
      rw [List.nodup_append]
      refine ⟨hnd, h4, ?_⟩
      intro a ha b hb hab
      obtain ⟨x, hx, rfl⟩ := List.mem_map.mp ha
      obtain ⟨y, hy, rfl⟩ := List.mem_map.mp hb
      exact (h3 y hy).1 (hab ▸ hmem x hx)

theorem nodup_sublist_map {l l' : List Msg} (h : l'.Sublist l) (hn : (l.map (·.id)).Nodup) :
    (l'.map (·.id)).Nodup := (h.map _).nodup hn

theorem SPart.step_dedupInv (p : SPart) (op : SOp) (h : p.DedupInv) : (p.step op).DedupInv := by
  cases op with
  | append now msgs => exact SPart.append_dedupInv p now msgs h
  | purge =>
    intro ids _; simp [SPart.step, SPart.purge]
  | drop n =>
    intro ids hids
    obtain ⟨h1, h2⟩ := h ids hids
    exact ⟨fun m hm => h1 m (List.mem_of_mem_drop hm), nodup_sublist_map (List.drop_sublist n p.msgs) h2⟩
  | restart =>
    intro ids hids
    simp only [SPart.step, SPart.restart] at hids ⊢
    cases hp : p.ids with
    | none => rw [hp] at hids; cases hids
    | some ids0 =>
      rw [hp] at hids; simp only [Option.map_some] at hids; cases hids
      exact ⟨fun m hm => by simp only [List.mem_eraseDups]; exact List.mem_map_of_mem hm, (h ids0 hp).2⟩
  | setExpiry e => exact h
  | store grp cid off =>
    simp only [SPart.step]
    split
    · rename_i p' hp
      obtain ⟨h1, _, h3⟩ := SPart.storeOffset_msgs p p' grp cid off hp
      unfold SPart.DedupInv; rw [h1, h3]; exact h
    · exact h
  | delete grp cid =>
    simp only [SPart.step]
    split
    · rename_i p' hp
      obtain ⟨h1, _, h3⟩ := SPart.deleteOffset_msgs p p' grp cid hp
      unfold SPart.DedupInv; rw [h1, h3]; exact h
    · exact h

theorem SPart.run_dedupInv (cfg : Cfg) (e : Option Nat) (ops : List SOp) : (SPart.run cfg e ops).DedupInv := by
  unfold SPart.run
  generalize hp : SPart.create cfg e = p0
  have h0 : p0.DedupInv := hp ▸ SPart.create_dedupInv cfg e
  clear hp
  induction ops generalizing p0 with
  | nil => exact h0
  | cons op rest ih => exact ih _ (SPart.step_dedupInv p0 op h0)

/-! a concrete configuration and history used by non-vacuity examples -/
def exCfg : Cfg := { reqToSave := 2, segSize := 600, cacheOn := false, idxCacheOn := true, dedupOn := true }
def exHist : List SOp :=
  [.append 10 [⟨1, 50, 7⟩, ⟨2, 50, 8⟩, ⟨1, 50, 9⟩], .drop 1, .restart, .append 20 [⟨3, 60, 10⟩]]

end Iggy.Log
