/-
L1 model of one partition's storage (server/src/streaming/{partitions,segments,batching}).
Every function mirrors one Rust function, same case structure; comments give file:function.
No imports outside core: this file is linked into the native judge.
-/
namespace Iggy.Log

/-- Storage configuration (configs/system.rs: PartitionConfig, SegmentConfig, CacheConfig, dedup). -/
structure Cfg where
  reqToSave : Nat   -- partition.messages_required_to_save
  segSize   : Nat   -- segment.size (bytes)
  cacheOn   : Bool  -- cache.enabled
  idxCacheOn : Bool -- segment.cache_indexes
  dedupOn   : Bool  -- message_deduplication.enabled
deriving Repr, DecidableEq

/-- A stored message. `size` = its bytes on disk (4-byte length prefix included, models/messages.rs
`extend`); `tag` stands for (payload, headers, checksum), tied to the bytes by the codec layer. -/
structure Msg where
  off : Nat
  id : Nat
  ts : Nat
  size : Nat
  tag : Nat
deriving Repr, DecidableEq

/-- A message as handed to `append_messages` (no offset / timestamp yet). -/
structure InMsg where
  id : Nat
  size : Nat
  tag : Nat
deriving Repr, DecidableEq

/-- One stored batch (batching/message_batch.rs): 24-byte header + payload. -/
structure Batch where
  base : Nat
  lastDelta : Nat
  maxTs : Nat
  msgs : List Msg
deriving Repr, DecidableEq

/-- One 16-byte index record (segments/indexes/index.rs). -/
structure Idx where
  rel : Nat
  pos : Nat
  ts : Nat
deriving Repr, DecidableEq

/-- batching/batch_accumulator.rs -/
structure Acc where
  base : Nat
  cur : Nat
  curTs : Nat
  size : Nat
  msgs : List Msg
deriving Repr, DecidableEq

structure Seg where
  start : Nat
  cur : Nat
  endOff : Nat
  sizeBytes : Nat
  lastIdxPos : Nat
  endTs : Nat
  closed : Bool
  log : List Batch            -- the .log file, oldest batch first
  idxFile : List Idx          -- the .index file
  idxCache : Option (List Idx)
  acc : Option Acc
deriving Repr, DecidableEq

/-- Shared counters touched by segments (C16). -/
structure Counters where
  msgs : Nat := 0
  size : Nat := 0
  segs : Nat := 0
deriving Repr, DecidableEq

structure Part where
  segs : List Seg
  cur : Nat
  shouldInc : Bool
  unsaved : Nat
  cache : Option (List Msg)
  dedup : Option (List Nat)
  consOffs : List (Nat × Nat)
  grpOffs : List (Nat × Nat)
  expiry : Option Nat          -- message_expiry in µs; none = never
  cnt : Counters
deriving Repr, DecidableEq

/-! ## sizes -/

def sumSizes (ms : List Msg) : Nat := (ms.map (·.size)).sum

/-- bytes of a stored batch: header (RETAINED_BATCH_HEADER_LEN = 24) + payload -/
def Batch.bytes (b : Batch) : Nat := 24 + sumSizes b.msgs

def logBytes (l : List Batch) : Nat := (l.map Batch.bytes).sum

/-! ## accumulator (batching/batch_accumulator.rs) -/

def Acc.new (base : Nat) : Acc := { base := base, cur := 0, curTs := 0, size := 0, msgs := [] }

/-- `append`, with the repaired base-offset rule (fix commit 0c52bb1). -/
def Acc.append (a : Acc) (batchSize : Nat) (items : List Msg) : Acc :=
  match items.getLast? with
  | none => a                                        -- assert!(!items.is_empty())
  | some last =>
    { base := if a.msgs.isEmpty then (items.head?.map Msg.off).getD 0 else a.base
      cur := last.off
      curTs := last.ts
      size := a.size + batchSize
      msgs := a.msgs ++ items }

/-- `get_messages_by_offset`: partition_point on both ends. -/
def Acc.getByOffset (a : Acc) (lo hi : Nat) : List Msg :=
  (a.msgs.dropWhile (fun m => m.off < lo)).takeWhile (fun m => m.off ≤ hi)

/-- `get_messages_by_timestamp` -/
def Acc.getByTimestamp (a : Acc) (ts count : Nat) : List Msg :=
  (a.msgs.dropWhile (fun m => m.ts < ts)).take count

/-! ## index lookups -/

/-- `binary_search_index` on the cached index and the scan of `load_index_range_impl` both return the
first entry whose relative offset is ≥ the wanted one (contract of `binary_search_by` on a sorted
slice). -/
def firstGe (idx : List Idx) (rel : Nat) : Option Idx := idx.find? (fun i => rel ≤ i.rel)

/-- Index range for a disk read, cached index (indexes/index.rs: load_highest_lower_bound_index). -/
def rangeCached (idx : List Idx) (relLo relHi : Nat) : Option (Idx × Idx) :=
  match firstGe idx relLo with
  | none => none
  | some s =>
    match firstGe idx relHi with
    | some e => some (s, e)
    | none => idx.getLast?.map (fun l => (s, l))

def Idx.zero : Idx := { rel := 0, pos := 0, ts := 0 }

/-- Index range from the index file (indexes/index_reader.rs: load_index_range_impl). A start that is
never found stays `Index::default()`; an end that is never found is the last entry. -/
def rangeFile (idx : List Idx) (relLo relHi : Nat) : Option (Idx × Idx) :=
  if idx.isEmpty then none else
  some ((firstGe idx relLo).getD Idx.zero, (firstGe idx relHi).getD ((idx.getLast?).getD Idx.zero))

/-! ## log reads (segments/logs/log_reader.rs) -/

/-- `load_batches_by_range_impl` with the repaired stop rule (fix commit 23b7b47): start at byte
position `startPos`, read whole batches, stop after the batch that starts at or after `endPos`. -/
def readRange : List Batch → (pos startPos endPos : Nat) → List Batch
  | [], _, _, _ => []
  | b :: rest, pos, startPos, endPos =>
    if pos < startPos then readRange rest (pos + b.bytes) startPos endPos
    else if endPos ≤ pos then [b]
    else b :: readRange rest (pos + b.bytes) startPos endPos

def batchesMsgs (bs : List Batch) : List Msg := (bs.map (·.msgs)).flatten

/-- segments/reading_messages.rs: load_messages_from_disk -/
def Seg.loadFromDisk (s : Seg) (lo hi : Nat) : List Msg :=
  if hi < lo then [] else
  let r := match s.idxCache with
    | some idx => rangeCached idx (lo - s.start) (hi - s.start)
    | none => rangeFile s.idxFile (lo - s.start) (hi - s.start)
  match r with
  | none => []
  | some (st, en) =>
    (batchesMsgs (readRange s.log 0 st.pos en.pos)).filter (fun m => lo ≤ m.off ∧ m.off ≤ hi)

/-- segments/reading_messages.rs: get_messages_by_offset (count ≥ 1) -/
def Seg.getByOffset (s : Seg) (off count : Nat) : List Msg :=
  if count = 0 then [] else
  let off := if off < s.start then s.start else off
  let hi := off + (count - 1)
  match s.acc with
  | none => s.loadFromDisk off hi
  | some a =>
    if a.msgs.isEmpty then s.loadFromDisk off hi
    else if a.base ≤ off ∧ hi ≤ a.cur then a.getByOffset off hi               -- case 1
    else if hi < a.base then s.loadFromDisk off hi                              -- case 2
    else                                                                        -- case 3
      (if off < a.base then s.loadFromDisk off (a.base - 1) else []) ++
        a.getByOffset (max off a.base) hi

/-- indexes/index_reader.rs: load_index_for_timestamp_impl (always reads the index *file*) -/
def idxForTimestamp (idx : List Idx) (ts : Nat) : Option Idx :=
  if idx.isEmpty then some Idx.zero else
  let rec go : List Idx → Option Idx → Option Idx
    | [], _ => none
    | i :: rest, last => if ts ≤ i.ts then some (last.getD Idx.zero) else go rest (some i)
  go idx none

/-- reading_messages.rs: load_messages_from_disk_by_timestamp -/
def Seg.loadFromDiskByTimestamp (s : Seg) (ts count : Nat) : List Msg :=
  match idxForTimestamp s.idxFile ts with
  | none => []
  | some i =>
    ((batchesMsgs (readRange s.log 0 i.pos (2^32 - 1))).filter (fun m => ts ≤ m.ts)).take count

/-- reading_messages.rs: get_messages_by_timestamp -/
def Seg.getByTimestamp (s : Seg) (ts count : Nat) : List Msg :=
  if count = 0 then [] else
  let disk := s.loadFromDiskByTimestamp ts count
  let remaining := count - disk.length
  let buf := if remaining > 0 then
      match s.acc with
      | some a => a.getByTimestamp ts remaining
      | none => []
    else []
  (disk ++ buf).take count

/-- reading_messages.rs: get_messages_count -/
def Seg.msgCount (s : Seg) : Nat := if s.sizeBytes = 0 then 0 else s.cur - s.start + 1

/-! ## segment writes (segments/writing_messages.rs, segment.rs) -/

/-- segment.rs: Segment::create -/
def Seg.create (cfg : Cfg) (start now : Nat) : Seg :=
  { start := start, cur := start, endOff := 0, sizeBytes := 0, lastIdxPos := 0, endTs := now,
    closed := false, log := [], idxFile := [],
    idxCache := if cfg.idxCacheOn then some [] else none, acc := none }

/-- writing_messages.rs: append_batch (caller guarantees `¬ closed`, `msgs ≠ []`) -/
def Seg.appendBatch (s : Seg) (batchSize : Nat) (msgs : List Msg) : Seg :=
  let a0 := match s.acc with
    | some a => a
    | none => Acc.new ((msgs.head?.map Msg.off).getD 0)
  let a := a0.append batchSize msgs
  { s with acc := some a, endTs := a.curTs, cur := a.cur, sizeBytes := s.sizeBytes + batchSize }

/-- segment.rs: is_full for a segment that is not closed (is_expired is false then) -/
def Seg.isFull (cfg : Cfg) (s : Seg) : Bool := cfg.segSize ≤ s.sizeBytes

/-- writing_messages.rs: persist_messages. Returns the segment and the number of bytes added to the
shared size counters (the batch header). -/
def Seg.persist (cfg : Cfg) (s : Seg) : Seg × Nat :=
  match s.acc with
  | none => (s, 0)
  | some a =>
    if a.msgs.isEmpty then ({ s with acc := none }, 0)       -- `take()` then early return
    else
      let idx : Idx := { rel := a.cur - s.start, pos := s.lastIdxPos, ts := a.curTs }
      let b : Batch := { base := a.base, lastDelta := a.cur - a.base,
                         maxTs := (a.msgs.getLast?.map (·.ts)).getD 0, msgs := a.msgs }
      let s1 : Seg :=
        { s with idxCache := s.idxCache.map (· ++ [idx])
                 acc := some (Acc.new 0)                       -- emptied accumulator is put back
                 log := s.log ++ [b]
                 idxFile := s.idxFile ++ [idx]
                 lastIdxPos := s.lastIdxPos + b.bytes
                 sizeBytes := s.sizeBytes + 24 }
      if s1.isFull cfg then ({ s1 with endOff := s1.cur, closed := true, acc := none }, 24)
      else (s1, 24)

/-- segment.rs: load_from_disk (+ partitions/storage.rs: accumulator installed when not closed) -/
def Seg.load (cfg : Cfg) (start now : Nat) (log : List Batch) (idxFile : List Idx) : Seg :=
  let sz := logBytes log
  let cur := start + ((idxFile.getLast?.map (·.rel)).getD 0)
  let closed := decide (cfg.segSize ≤ sz)
  { start := start, cur := cur, endOff := 0, sizeBytes := sz, lastIdxPos := sz, endTs := now,
    closed := closed, log := log, idxFile := idxFile,
    idxCache := if cfg.idxCacheOn then some idxFile else none,
    acc := if closed then none else some (Acc.new cur) }

/-! ## partition reads (partitions/messages.rs) -/

def Part.lastSegCur (p : Part) : Nat := (p.segs.getLast?.map (·.cur)).getD 0

/-- get_end_offset (count ≥ 1) -/
def Part.endOffset (p : Part) (off count : Nat) : Nat := min (off + (count - 1)) p.lastSegCur

/-- try_get_messages_from_cache + load_messages_from_cache -/
def Part.tryCache (p : Part) (lo hi : Nat) : Option (List Msg) :=
  match p.cache with
  | none => none
  | some c =>
    match c.head? with
    | none => none
    | some first =>
      if hi < lo ∨ p.cur < hi then none
      else if first.off ≤ lo then
        some ((c.drop (lo - first.off)).take (min c.length (hi - first.off + 1) - (lo - first.off)))
      else none

/-- index of the last segment with `start ≤ off` (rposition), 0 if none -/
def rposStart : List Seg → Nat → Nat → Nat → Nat
  | [], _, _, best => best
  | s :: rest, off, i, best => rposStart rest off (i + 1) (if s.start ≤ off then i else best)

/-- filter_segments_by_offsets -/
def Part.filterSegs (p : Part) (lo hi : Nat) : List Seg :=
  (p.segs.drop (rposStart p.segs lo 0 0)).filter (fun s => s.start ≤ hi)

/-- get_messages_from_segments -/
def fromSegs : List Seg → Nat → Nat → List Msg
  | [], _, _ => []
  | s :: rest, off, remaining =>
    if remaining = 0 then [] else
    let ms := s.getByOffset off remaining
    ms ++ fromSegs rest off (remaining - ms.length)

/-- get_messages_by_offset. `count = 0` is rejected by System::poll_messages. -/
def Part.getByOffset (p : Part) (off count : Nat) : List Msg :=
  if p.segs.isEmpty then [] else
  -- below the first segment everything was removed by retention: start at the earliest (fix in /repo)
  let off := max off ((p.segs.head?.map (·.start)).getD 0)
  if p.cur < off then [] else
  let hi := p.endOffset off count
  match p.tryCache off hi with
  | some ms => ms
  | none =>
    match p.filterSegs off hi with
    | [] => []
    | [s] => s.getByOffset off count
    | ss => fromSegs ss off count

def Part.getFirst (p : Part) (count : Nat) : List Msg := p.getByOffset 0 count

def Part.getLast (p : Part) (count : Nat) : List Msg :=
  let req := min count (p.cur + 1)
  p.getByOffset (1 + p.cur - req) req

def lookup (l : List (Nat × Nat)) (k : Nat) : Option Nat := (l.find? (fun e => e.1 = k)).map (·.2)

def insertKV (l : List (Nat × Nat)) (k v : Nat) : List (Nat × Nat) :=
  (k, v) :: l.filter (fun e => e.1 ≠ k)

def eraseK (l : List (Nat × Nat)) (k : Nat) : List (Nat × Nat) := l.filter (fun e => e.1 ≠ k)

/-- get_next_messages; `grp` selects the consumer-group offsets. -/
def Part.getNext (p : Part) (grp : Bool) (cid count : Nat) : List Msg :=
  match lookup (if grp then p.grpOffs else p.consOffs) cid with
  | none => p.getFirst count
  | some o => if o = p.cur then [] else p.getByOffset (o + 1) count

/-- get_messages_by_timestamp -/
def Part.getByTimestamp (p : Part) (ts count : Nat) : List Msg :=
  if p.segs.isEmpty ∨ count = 0 then [] else
  let rec go : List Seg → Nat → List Msg
    | [], _ => []
    | s :: rest, remaining =>
      if s.endTs < ts then go rest remaining else
      let ms := s.getByTimestamp ts remaining
      if remaining - ms.length = 0 then ms else ms ++ go rest (remaining - ms.length)
  go p.segs count

/-! ## partition writes -/

def updLast (l : List Seg) (f : Seg → Seg) : List Seg :=
  match l with
  | [] => []
  | [s] => [f s]
  | s :: rest => s :: updLast rest f

def insertSorted (s : Seg) : List Seg → List Seg
  | [] => [s]
  | t :: rest => if s.start < t.start then s :: t :: rest else t :: insertSorted s rest

/-- partitions/segments.rs: add_persisted_segment (push, then stable sort by start offset) -/
def Part.addSegment (cfg : Cfg) (p : Part) (start now : Nat) : Part :=
  { p with segs := insertSorted (Seg.create cfg start now) p.segs
           cnt := { p.cnt with segs := p.cnt.segs + 1 } }

/-- the dedup filter + numbering loop of append_messages -/
def number (dedup : Option (List Nat)) (base now : Nat) : List InMsg → Nat → List Msg → Option (List Nat) × List Msg
  | [], _, acc => (dedup, acc.reverse)
  | m :: rest, k, acc =>
    match dedup with
    | some ids =>
      if ids.contains m.id then number dedup base now rest k acc
      else number (some (m.id :: ids)) base now rest (k + 1)
             ({ off := base + k, id := m.id, ts := now, size := m.size, tag := m.tag } :: acc)
    | none =>
      number none base now rest (k + 1)
        ({ off := base + k, id := m.id, ts := now, size := m.size, tag := m.tag } :: acc)

inductive Err | segmentNotFound | segmentClosed | invalidOffset | offsetNotFound
deriving Repr, DecidableEq

/-- partitions/messages.rs: append_messages. `now` the clock. -/
def Part.append (cfg : Cfg) (p : Part) (now : Nat) (msgs : List InMsg) : Except Err Part :=
  match p.segs.getLast? with
  | none => .error .segmentNotFound
  | some last =>
    let p := if last.closed then p.addSegment cfg (last.endOff + 1) now else p
    let base := if p.shouldInc then p.cur + 1 else 0
    let (dedup, retained) := number p.dedup base now msgs 0 []
    let batchSize := sumSizes retained          -- dropped duplicates take no space (fix 289246a)
    if retained.isEmpty then .ok { p with dedup := dedup }
    else
      let n := retained.length
      let p := { p with dedup := dedup, cur := base + (n - 1), shouldInc := true }
      let p := { p with segs := updLast p.segs (fun s => s.appendBatch batchSize retained)
                        cnt := { p.cnt with size := p.cnt.size + batchSize, msgs := p.cnt.msgs + n } }
      let p := { p with cache := p.cache.map (· ++ retained), unsaved := p.unsaved + n }
      match p.segs.getLast? with
      | none => .error .segmentNotFound
      | some last =>
        if cfg.reqToSave ≤ p.unsaved ∨ last.isFull cfg then
          let (s', add) := last.persist cfg
          .ok { p with segs := updLast p.segs (fun _ => s'), unsaved := 0
                       cnt := { p.cnt with size := p.cnt.size + add } }
        else .ok p

/-- flush_unsaved_buffer: `while unsaved_messages.is_some() { persist }` — two rounds suffice: the first
writes the batch and leaves the emptied accumulator (or closes the segment), the second takes it. -/
def Part.flush (cfg : Cfg) (p : Part) : Part :=
  if p.unsaved = 0 then p else
  match p.segs.getLast? with
  | none => p
  | some last =>
    let (s1, add1) := last.persist cfg
    let (s2, add2) := if s1.acc.isSome then s1.persist cfg else (s1, 0)
    let (s3, add3) := if s2.acc.isSome then s2.persist cfg else (s2, 0)
    { p with segs := updLast p.segs (fun _ => s3), unsaved := 0
             cnt := { p.cnt with size := p.cnt.size + add1 + add2 + add3 } }

/-- partitions/persistence.rs (via topics/persistence.rs: persist_messages → every segment's
persist_messages; used by the background saver and by shutdown). -/
def Part.save (cfg : Cfg) (p : Part) : Part :=
  let r := p.segs.map (fun s => s.persist cfg)
  { p with segs := r.map (·.1)
           cnt := { p.cnt with size := p.cnt.size + (r.map (·.2)).sum } }

/-- Segment::delete's effect on the counters -/
def Counters.subSeg (c : Counters) (s : Seg) : Counters :=
  { c with size := c.size - s.sizeBytes, msgs := c.msgs - s.msgCount, segs := c.segs - 1 }

/-- partitions/persistence.rs: purge (dedup ids are kept; offsets, cache and segments go) -/
def Part.purge (cfg : Cfg) (p : Part) (now : Nat) : Part :=
  let cnt := p.segs.foldl Counters.subSeg p.cnt
  Part.addSegment cfg
    { p with cur := 0, unsaved := 0, shouldInc := false, consOffs := [], grpOffs := []
             cache := p.cache.map (fun _ => []), segs := [], cnt := cnt } 0 now

/-- segment.rs: is_expired -/
def Seg.isExpired (s : Seg) (expiry : Option Nat) (now : Nat) : Bool :=
  if !s.closed then false else
  match expiry with
  | none => false
  | some e =>
    match (s.getByOffset s.cur 1).head? with
    | none => false
    | some m => m.ts + e ≤ now

/-- channels/commands/maintain_messages.rs: delete_segments for one partition, given start offsets -/
def Part.deleteSegments (cfg : Cfg) (p : Part) (starts : List Nat) (now : Nat) : Part :=
  let (p, lastEnd) := starts.foldl (fun (acc : Part × Nat) st =>
      match acc.1.segs.find? (fun s => s.start = st) with
      | none => acc
      | some s =>
        ({ acc.1 with segs := acc.1.segs.filter (fun t => t.start ≠ st)
                      cnt := acc.1.cnt.subSeg s }, s.endOff)) (p, 0)
  if starts.isEmpty then p
  else if p.segs.isEmpty then p.addSegment cfg (lastEnd + 1) now else p

/-- handle_expired_segments for one partition -/
def Part.expire (cfg : Cfg) (p : Part) (now : Nat) : Part :=
  match p.expiry with
  | none => p
  | some _ =>
    let starts := (p.segs.filter (fun s => s.isExpired p.expiry now)).map (·.start)
    p.deleteSegments cfg starts now

/-- get_oldest_segments + delete_segments for one partition -/
def Part.deleteOldest (cfg : Cfg) (p : Part) (now : Nat) : Part :=
  match p.segs.head? with
  | none => p
  | some s => if s.closed then p.deleteSegments cfg [s.start] now else p

/-- Partition::create(with_segment = true) -/
def Part.create (cfg : Cfg) (expiry : Option Nat) (now : Nat) : Part :=
  { segs := [Seg.create cfg 0 now], cur := 0, shouldInc := false, unsaved := 0
    cache := if cfg.cacheOn then some [] else none
    dedup := if cfg.dedupOn then some [] else none
    consOffs := [], grpOffs := [], expiry := expiry, cnt := { segs := 1 } }

/-- The durable image of a partition: what a restart finds on disk. -/
structure SegFiles where
  start : Nat
  log : List Batch
  idxFile : List Idx
deriving Repr, DecidableEq

def Part.files (p : Part) : List SegFiles :=
  p.segs.map (fun s => { start := s.start, log := s.log, idxFile := s.idxFile })

/-- set end offsets of all but the last segment to `next.start - 1` (storage.rs l.183-197) -/
def fixEnds : List Seg → List Seg
  | [] => []
  | [s] => [s]
  | s :: t :: rest => { s with endOff := t.start - 1 } :: fixEnds (t :: rest)

/-- partitions/storage.rs: load. `cacheLen` is how many of the newest stored messages the warm-up
(topics/messages.rs: load_messages_from_disk_to_cache) put into the cache — an input, observed. -/
def Part.load (cfg : Cfg) (expiry : Option Nat) (now : Nat) (files : List SegFiles)
    (consOffs grpOffs : List (Nat × Nat)) (cacheLen : Nat) : Part :=
  let segs := files.map (fun f => Seg.load cfg f.start now f.log f.idxFile)
  let segs := fixEnds segs
  let segs := match segs.getLast? with
    | some l => if l.closed then updLast segs (fun s => { s with endOff := s.cur }) else segs
    | none => segs
  let shouldInc := segs.any (fun s => s.sizeBytes > 0)
  -- an empty last segment that does not start at 0: the last accepted offset is start - 1 (fix fd7c180)
  let lastEmpty := match segs.getLast? with
    | some l => decide (l.sizeBytes = 0 ∧ 0 < l.start)
    | none => false
  let shouldInc := shouldInc || lastEmpty
  let ids := (batchesMsgs (files.map (·.log)).flatten).map (·.id)
  let all := batchesMsgs (files.map (·.log)).flatten
  let cnt : Counters :=
    { segs := segs.length, size := (segs.map (·.sizeBytes)).sum, msgs := (segs.map Seg.msgCount).sum }
  { segs := segs
    cur := (segs.getLast?.map (fun l => if lastEmpty then l.start - 1 else l.cur)).getD 0
    shouldInc := shouldInc, unsaved := 0
    cache := if cfg.cacheOn then some (all.drop (all.length - cacheLen)) else none
    dedup := if cfg.dedupOn then some ids.eraseDups else none
    consOffs := consOffs, grpOffs := grpOffs, expiry := expiry, cnt := cnt }

/-- graceful shutdown (System::shutdown = persist_messages) followed by a restart -/
def Part.restart (cfg : Cfg) (p : Part) (now cacheLen : Nat) : Part :=
  let p := p.save cfg
  Part.load cfg p.expiry now p.files p.consOffs p.grpOffs cacheLen

/-! ## consumer offsets (partitions/consumer_offsets.rs) -/

def Part.storeOffset (p : Part) (grp : Bool) (cid off : Nat) : Except Err Part :=
  if p.cur < off then .error .invalidOffset
  else if grp then .ok { p with grpOffs := insertKV p.grpOffs cid off }
  else .ok { p with consOffs := insertKV p.consOffs cid off }

def Part.getOffset (p : Part) (grp : Bool) (cid : Nat) : Option Nat :=
  lookup (if grp then p.grpOffs else p.consOffs) cid

def Part.deleteOffset (p : Part) (grp : Bool) (cid : Nat) : Except Err Part :=
  match p.getOffset grp cid with
  | none => .error .offsetNotFound
  | some _ =>
    if grp then .ok { p with grpOffs := eraseK p.grpOffs cid }
    else .ok { p with consOffs := eraseK p.consOffs cid }

/-- cache eviction (cache/buffer.rs: evict_by_size pops from the front); `keep` = entries left,
observed. -/
def Part.evict (p : Part) (keep : Nat) : Part :=
  { p with cache := p.cache.map (fun c => c.drop (c.length - keep)) }

end Iggy.Log
