/-
End-to-end simulation over unbounded histories: every L1 state reachable from `Part.create` by the
modelled operations abstracts to a state reachable in the specification (`SPart.run`, SpecRun.lean),
so every theorem about `SPart.run` / `SPart.Inv` / `SPart.DedupInv` transfers to the storage model.
The transfer corollaries needed by the properties (C01, C02, C14, C16, C18, C03) are stated for L1.
-/
import Iggy.Log.Refine
import Iggy.Log.SpecRun
namespace Iggy.Log

variable {cfg : Cfg} {p : Part}

/-! ## L1 operations as data -/

/-- operations on one partition's storage -/
inductive POp
  | append (now : Nat) (msgs : List InMsg)
  | flush
  | save
  | restart (now cacheLen : Nat)
  | purge (now : Nat)
  | expire (now : Nat)
  | deleteOldest (now : Nat)
  | evict (keep : Nat)
  | storeOffset (grp : Bool) (cid off : Nat)
  | deleteOffset (grp : Bool) (cid : Nat)
deriving Repr

/-- one step; a failed `Except` leaves the state unchanged -/
def Part.stepOp (cfg : Cfg) (p : Part) : POp → Part
  | .append now msgs => match p.append cfg now msgs with | .ok p' => p' | .error _ => p
  | .flush => p.flush cfg
  | .save => p.save cfg
  | .restart now cacheLen => p.restart cfg now cacheLen
  | .purge now => p.purge cfg now
  | .expire now => p.expire cfg now
  | .deleteOldest now => p.deleteOldest cfg now
  | .evict keep => p.evict keep
  | .storeOffset grp cid off => match p.storeOffset grp cid off with | .ok p' => p' | .error _ => p
  | .deleteOffset grp cid => match p.deleteOffset grp cid with | .ok p' => p' | .error _ => p

def Part.runOps (cfg : Cfg) (p : Part) (ops : List POp) : Part := ops.foldl (Part.stepOp cfg) p

/-- side conditions of an operation in a state: every message occupies at least one byte, and the
clock is never behind a stored message -/
def POp.admissible (p : Part) : POp → Prop
  | .append now msgs => (∀ m ∈ msgs, 0 < m.size) ∧ ∀ m ∈ p.msgs, m.ts ≤ now
  | .restart now _ => ∀ m ∈ p.msgs, m.ts ≤ now
  | _ => True

/-- a history all of whose operations are admissible in the state they are applied to -/
def Part.admissibleRun (cfg : Cfg) : Part → List POp → Prop
  | _, [] => True
  | p, op :: rest => op.admissible p ∧ Part.admissibleRun cfg (p.stepOp cfg op) rest

instance (p : Part) : (op : POp) → Decidable (op.admissible p)
  | .append now msgs => inferInstanceAs (Decidable ((∀ m ∈ msgs, 0 < m.size) ∧ ∀ m ∈ p.msgs, m.ts ≤ now))
  | .restart now _ => inferInstanceAs (Decidable (∀ m ∈ p.msgs, m.ts ≤ now))
  | .flush | .save | .purge _ | .expire _ | .deleteOldest _ | .evict _ | .storeOffset .. | .deleteOffset .. =>
    isTrue trivial

instance admissibleRunDecidable (cfg : Cfg) : (p : Part) → (ops : List POp) → Decidable (Part.admissibleRun cfg p ops)
  | _, [] => isTrue trivial
  | p, op :: rest =>
    have := admissibleRunDecidable cfg (p.stepOp cfg op) rest
    inferInstanceAs (Decidable (op.admissible p ∧ Part.admissibleRun cfg (p.stepOp cfg op) rest))

theorem Reach.stepOp (r : Reach cfg p) (op : POp) (ha : op.admissible p) : Reach cfg (p.stepOp cfg op) := by
  cases op with
  | append now msgs =>
    simp only [Part.stepOp]
    split
    · next p' hp => exact Reach.append now msgs r ha.1 ha.2 hp
    · exact r
  | flush => exact r.flush
  | save => exact r.save
  | restart now cacheLen => exact Reach.restart now cacheLen r ha
  | purge now => exact Reach.purge now r
  | expire now => exact Reach.expire now r
  | deleteOldest now => exact Reach.deleteOldest now r
  | evict keep => exact Reach.evict keep r
  | storeOffset grp cid off =>
    simp only [Part.stepOp]
    split
    · next p' hp => exact Reach.storeOffset grp cid off r hp
    · exact r
  | deleteOffset grp cid =>
    simp only [Part.stepOp]
    split
    · next p' hp => exact Reach.deleteOffset grp cid r hp
    · exact r

theorem Reach.runOps (r : Reach cfg p) (ops : List POp) (ha : Part.admissibleRun cfg p ops) :
    Reach cfg (p.runOps cfg ops) := by
  induction ops generalizing p with
  | nil => exact r
  | cons op rest ih => exact ih (r.stepOp op ha.1) ha.2

/-- every admissible history from a fresh partition ends in a reachable state -/
theorem reach_of_run (e : Option Nat) (now0 : Nat) (ops : List POp)
    (ha : Part.admissibleRun cfg (Part.create cfg e now0) ops) :
    Reach cfg ((Part.create cfg e now0).runOps cfg ops) :=
  (Reach.create e now0).runOps ops ha

/-! ## simulation -/

theorem SPart.run_snoc (cfg : Cfg) (e : Option Nat) (ops : List SOp) (op : SOp) :
    SPart.run cfg e (ops ++ [op]) = (SPart.run cfg e ops).step op := by
  simp [SPart.run, List.foldl_append]

/-- **Simulation.** Every reachable L1 state abstracts to a reachable L2 state: there is an abstract
history (`append`s, `purge`s, `drop`s for retention, `restart`s, offset stores/deletes; `flush`, `save`,
`evict` are invisible) whose run is exactly `abs p` — all fields, including the dedup id set. -/
theorem Reach.simulates (hseg : 0 < cfg.segSize) (r : Reach cfg p) :
    ∃ (e0 : Option Nat) (sops : List SOp), abs p = SPart.run cfg e0 sops := by
  induction r with
  | create e now => exact ⟨e, [], create_abs cfg e now⟩
  | @append p p' now msgs r hsz hts hok ih =>
    obtain ⟨e0, sops, hs⟩ := ih
    obtain ⟨p'', e, -, ha⟩ := append_refines (now := now) (msgs := msgs) (r.inv hseg) hsz hts
    rw [hok] at e; cases e
    exact ⟨e0, sops ++ [.append now msgs], by rw [SPart.run_snoc, ← hs, ha]; rfl⟩
  | flush r ih =>
    obtain ⟨e0, sops, hs⟩ := ih
    exact ⟨e0, sops, by rw [(flush_refines (r.inv hseg)).2, hs]⟩
  | save r ih =>
    obtain ⟨e0, sops, hs⟩ := ih
    exact ⟨e0, sops, by rw [(save_refines (r.inv hseg)).2, hs]⟩
  | restart now cacheLen r hnow ih =>
    obtain ⟨e0, sops, hs⟩ := ih
    exact ⟨e0, sops ++ [.restart], by
      rw [SPart.run_snoc, ← hs, (restart_refines (r.inv hseg) hnow cacheLen).2]; rfl⟩
  | purge now r ih =>
    obtain ⟨e0, sops, hs⟩ := ih
    exact ⟨e0, sops ++ [.purge], by rw [SPart.run_snoc, ← hs, (purge_refines (r.inv hseg) now).2]; rfl⟩
  | @storeOffset p p' grp cid off r hok ih =>
    obtain ⟨e0, sops, hs⟩ := ih
    have h1 := (storeOffset_refines (r.inv hseg) grp cid off).1
    rw [hok] at h1
    refine ⟨e0, sops ++ [.store grp cid off], ?_⟩
    rw [SPart.run_snoc, ← hs]
    simp only [SPart.step, ← h1]; rfl
  | @deleteOffset p p' grp cid r hok ih =>
    obtain ⟨e0, sops, hs⟩ := ih
    have h1 := (deleteOffset_refines (r.inv hseg) grp cid).1
    rw [hok] at h1
    refine ⟨e0, sops ++ [.delete grp cid], ?_⟩
    rw [SPart.run_snoc, ← hs]
    simp only [SPart.step, ← h1]; rfl
  | expire now r ih =>
    obtain ⟨e0, sops, hs⟩ := ih
    obtain ⟨n, -, ha, -⟩ := expire_refines (r.inv hseg) now
    exact ⟨e0, sops ++ [.drop n], by rw [SPart.run_snoc, ← hs, ha]; rfl⟩
  | deleteOldest now r ih =>
    obtain ⟨e0, sops, hs⟩ := ih
    obtain ⟨n, -, ha, -⟩ := deleteOldest_refines (r.inv hseg) now
    exact ⟨e0, sops ++ [.drop n], by rw [SPart.run_snoc, ← hs, ha]; rfl⟩
  | evict keep r ih =>
    obtain ⟨e0, sops, hs⟩ := ih
    exact ⟨e0, sops, by rw [(evict_refines (r.inv hseg) keep).2, hs]⟩

/-- the same for histories given as data -/
theorem runOps_simulates (hseg : 0 < cfg.segSize) (e : Option Nat) (now0 : Nat) (ops : List POp)
    (ha : Part.admissibleRun cfg (Part.create cfg e now0) ops) :
    ((Part.create cfg e now0).runOps cfg ops).Inv cfg ∧
      ∃ (e0 : Option Nat) (sops : List SOp),
        abs ((Part.create cfg e now0).runOps cfg ops) = SPart.run cfg e0 sops :=
  ⟨(reach_of_run e now0 ops ha).inv hseg, (reach_of_run e now0 ops ha).simulates hseg⟩

/-! ## transfer: the spec-level invariants hold of every reachable L1 state -/

/-- `SPart.run_inv` transferred -/
theorem reach_specInv (hseg : 0 < cfg.segSize) (r : Reach cfg p) : (abs p).Inv := by
  obtain ⟨e0, sops, hs⟩ := r.simulates hseg
  rw [hs]; exact SPart.run_inv cfg e0 sops

/-- `SPart.run_dedupInv` transferred -/
theorem reach_specDedupInv (hseg : 0 < cfg.segSize) (r : Reach cfg p) : (abs p).DedupInv := by
  obtain ⟨e0, sops, hs⟩ := r.simulates hseg
  rw [hs]; exact SPart.run_dedupInv cfg e0 sops

/-- (a) C01: the retained offsets are `lo, lo+1, …, next-1`: no gap, no duplicate, in order
(transferred from `SPart.offsets_range`) -/
theorem reach_offsets_consecutive (hseg : 0 < cfg.segSize) (r : Reach cfg p) :
    ∃ lo, p.msgs.map (·.off) = List.range' lo p.msgs.length ∧ lo + p.msgs.length = p.next :=
  SPart.offsets_range (abs p) (reach_specInv hseg r)

/-- (a) with the witness: `lo` is the first segment's start offset -/
theorem reach_offsets_firstStart (hseg : 0 < cfg.segSize) (r : Reach cfg p) :
    p.msgs.map (·.off) = List.range' p.firstStart p.msgs.length ∧
      p.firstStart + p.msgs.length = p.next :=
  ⟨consecutiveFrom_map_off _ _ (r.inv hseg).msgs_consecutive, (r.inv hseg).tiled'.2⟩

/-- (b) C02/C14: a poll by offset returns exactly the retained messages with offsets in
`[max off lo, max off lo + count)`, `lo` = first retained offset (`p.firstStart`) -/
theorem reach_poll_exact (hseg : 0 < cfg.segSize) (r : Reach cfg p) {off count : Nat} (hc : 0 < count) :
    p.getByOffset off count =
      p.msgs.filter (fun m => max off p.firstStart ≤ m.off ∧ m.off < max off p.firstStart + count) := by
  rw [getByOffset_refines (r.inv hseg) hc, readPart_pollOffset (r.inv hseg)]

/-- (b) for any `lo` as in (a) -/
theorem reach_poll_exact' (hseg : 0 < cfg.segSize) (r : Reach cfg p) {off count lo : Nat} (hc : 0 < count)
    (hlo : p.msgs.map (·.off) = List.range' lo p.msgs.length) :
    p.getByOffset off count =
      p.msgs.filter (fun m => max off lo ≤ m.off ∧ m.off < max off lo + count) := by
  rw [reach_poll_exact hseg r hc]
  cases hm : p.msgs with
  | nil => rfl
  | cons f rest =>
    have h1 := (reach_offsets_firstStart hseg r).1
    rw [hm] at h1 hlo
    simp only [List.map_cons, List.length_cons, List.range'_succ, List.cons.injEq] at h1 hlo
    rw [← h1.1, ← hlo.1]

/-- every polled message is a retained message, and the polled offsets are consecutive
(transferred from `SPart.pollOffset_sublist`, `SPart.pollOffset_consecutive`) -/
theorem reach_poll_sublist (hseg : 0 < cfg.segSize) (r : Reach cfg p) {off count : Nat} (hc : 0 < count) :
    (p.getByOffset off count).Sublist p.msgs := by
  rw [getByOffset_refines (r.inv hseg) hc]
  exact SPart.pollOffset_sublist (abs p) off count

/-- (c) C18: with deduplication on no id is retained twice, and every retained id is remembered -/
theorem reach_ids_nodup (hseg : 0 < cfg.segSize) (r : Reach cfg p) (hd : p.dedup.isSome) :
    (p.msgs.map (·.id)).Nodup := by
  obtain ⟨ids, hids⟩ := Option.isSome_iff_exists.1 hd
  exact (reach_specDedupInv hseg r ids hids).2

theorem reach_ids_remembered (hseg : 0 < cfg.segSize) (r : Reach cfg p) {ids : List Nat}
    (hd : p.dedup = some ids) : ∀ m ∈ p.msgs, m.id ∈ ids :=
  (reach_specDedupInv hseg r ids hd).1

/-! ## (d) C16: reported sizes and counts equal what is stored -/

/-- the messages still buffered in accumulators -/
def Part.buffered (p : Part) : List Msg := (p.segs.map Seg.accMsgs).flatten

theorem sum_sizeBytes_eq {l : List Seg} (h : ∀ s ∈ l, s.Inv cfg) :
    (l.map (·.sizeBytes)).sum =
      (l.map (fun s => logBytes s.log)).sum + sumSizes (l.map Seg.accMsgs).flatten := by
  induction l with
  | nil => rfl
  | cons s l ih =>
    have hs := (h s (by simp)).size
    have := ih (fun t ht => h t (by simp [ht]))
    simp only [List.map_cons, List.sum_cons, List.flatten_cons, sumSizes_append]
    omega

theorem reach_counts (hseg : 0 < cfg.segSize) (r : Reach cfg p) :
    p.cnt.msgs = p.msgs.length ∧ p.cnt.segs = p.segs.length ∧
      p.cnt.size = (p.segs.map (·.sizeBytes)).sum :=
  ⟨(r.inv hseg).cntMsgs, (r.inv hseg).cntSegs, (r.inv hseg).cntSize⟩

/-- byte-exactness: the reported size is the bytes of all log files (24-byte batch headers included)
plus the bytes of the buffered messages -/
theorem reach_size_exact (hseg : 0 < cfg.segSize) (r : Reach cfg p) :
    p.cnt.size = (p.segs.map (fun s => logBytes s.log)).sum + sumSizes p.buffered := by
  rw [(r.inv hseg).cntSize]; exact sum_sizeBytes_eq (r.inv hseg).segs

/-- every segment reports its own size and message count exactly -/
theorem reach_seg_counts (hseg : 0 < cfg.segSize) (r : Reach cfg p) {s : Seg} (hs : s ∈ p.segs) :
    s.sizeBytes = logBytes s.log + sumSizes s.accMsgs ∧ s.msgCount = s.msgs.length ∧
      s.lastIdxPos = logBytes s.log := by
  have h := r.inv hseg
  refine ⟨(h.segs s hs).size, (h.segs s hs).msgCount ?_, (h.segs s hs).pos⟩
  intro m hm
  exact h.sizes m (by rw [Part.msgs_eq]; exact mem_segsMsgs.2 ⟨s, hs, hm⟩)

/-! ## (e) C03: a restart finds what was acknowledged, and reports the same figures -/

theorem sum_sizeBytes_reloadFix {now : Nat} {l : List Seg} (h : ∀ s ∈ l, s.Inv cfg)
    (ha : ∀ s ∈ l, s.accMsgs = []) :
    ((l.map (Seg.reloadFix cfg now)).map (·.sizeBytes)).sum = (l.map (·.sizeBytes)).sum := by
  induction l with
  | nil => rfl
  | cons s l ih =>
    simp only [List.map_cons, List.sum_cons]
    rw [Seg.reloadFix_sizeBytes (h s (by simp)) (ha s (by simp)),
      ih (fun t ht => h t (by simp [ht])) (fun t ht => ha t (by simp [ht]))]

theorem reach_restart_same (hseg : 0 < cfg.segSize) (r : Reach cfg p) {now : Nat}
    (hnow : ∀ m ∈ p.msgs, m.ts ≤ now) (n : Nat) :
    (p.restart cfg now n).msgs = p.msgs ∧ (p.restart cfg now n).next = p.next ∧
      (p.restart cfg now n).consOffs = p.consOffs ∧ (p.restart cfg now n).grpOffs = p.grpOffs ∧
      (p.restart cfg now n).expiry = p.expiry ∧
      (p.restart cfg now n).cnt.msgs = p.cnt.msgs ∧
      (p.restart cfg now n).cnt.size = (p.save cfg).cnt.size ∧
      (p.restart cfg now n).cnt.segs = p.cnt.segs := by
  have h := r.inv hseg
  obtain ⟨hinv, habs⟩ := restart_refines h hnow n
  have hm : (p.restart cfg now n).msgs = p.msgs := congrArg SPart.msgs habs
  have hq := (save_refines h).1
  have hacc := Part.save_accMsgs cfg p
  have hsegs : (p.restart cfg now n).segs = (p.save cfg).segs.map (Seg.reloadFix cfg now) := by
    rw [Part.restart_eq]; exact Part.reloaded_segs hq hacc n
  refine ⟨hm, congrArg SPart.next habs, congrArg SPart.consOffs habs, congrArg SPart.grpOffs habs,
    congrArg SPart.expiry habs, ?_, ?_, ?_⟩
  · rw [hinv.cntMsgs, h.cntMsgs, hm]
  · rw [hinv.cntSize, hq.cntSize, hsegs]
    exact sum_sizeBytes_reloadFix hq.segs hacc
  · rw [hinv.cntSegs, h.cntSegs, hsegs, List.length_map, Part.save_segs, List.length_map]

/-- after a restart every poll by offset returns what it returned before -/
theorem reach_restart_poll (hseg : 0 < cfg.segSize) (r : Reach cfg p) {now : Nat}
    (hnow : ∀ m ∈ p.msgs, m.ts ≤ now) (n : Nat) {off count : Nat} (hc : 0 < count) :
    (p.restart cfg now n).getByOffset off count = p.getByOffset off count := by
  have h := r.inv hseg
  obtain ⟨hinv, habs⟩ := restart_refines h hnow n
  rw [getByOffset_refines hinv hc, getByOffset_refines h hc, habs]
  rfl

/-! ## non-vacuity: a concrete admissible history (appends with a duplicate id, persist on threshold,
segment roll-over, retention, offsets, restart) -/

def rxOps : List POp :=
  [.append 1 [rxIn 1], .append 2 [rxIn 2, rxIn 1, rxIn 3], .append 3 [rxIn 4, rxIn 5], .append 4 [rxIn 6],
   .storeOffset false 7 5, .deleteOldest 5, .evict 1, .restart 6 2, .append 7 [rxIn 2, rxIn 7]]

example : Part.admissibleRun rxCfg (Part.create rxCfg none 0) rxOps := by decide
example : Reach rxCfg ((Part.create rxCfg none 0).runOps rxCfg rxOps) := reach_of_run none 0 rxOps (by decide)
example : ((Part.create rxCfg none 0).runOps rxCfg rxOps).msgs.map (fun m => (m.off, m.id)) =
    [(5, 6), (6, 2), (7, 7)] := by decide
example : ((Part.create rxCfg none 0).runOps rxCfg rxOps).Inv rxCfg := by decide

end Iggy.Log
