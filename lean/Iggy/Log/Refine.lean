/-
L1 (`Iggy.Log.Model`, `Part`) refines L2 (`Iggy.Log.Spec`, `SPart`) through `abs`, under the
representation invariant `Part.Inv` (`Iggy.Log.Abs`), for all inputs.  This file collects the main
theorems under their official names; the proofs are in `Iggy/Log/Lemmas/*.lean`.

Statements that are FALSE of the model as originally planned are kept in comments next to the
`…_partial` version that is proved, together with a machine-checked counterexample
(`…_counterexample`), see "reads" below.
-/
import Iggy.Log.Lemmas.Append
import Iggy.Log.Lemmas.Persist
import Iggy.Log.Lemmas.ReadSeg
import Iggy.Log.Lemmas.ReadPart
import Iggy.Log.Lemmas.ReadTs
import Iggy.Log.Lemmas.Restart
import Iggy.Log.Lemmas.Misc
import Iggy.Log.Lemmas.Retention
import Iggy.Log.Lemmas.Decide
namespace Iggy.Log

variable {cfg : Cfg} {p : Part}

/-! ## 1. create -/

theorem create_inv (e : Option Nat) (now : Nat) (hseg : 0 < cfg.segSize) :
    (Part.create cfg e now).Inv cfg := Part.create_inv e now hseg

theorem create_abs (cfg : Cfg) (e : Option Nat) (now : Nat) :
    abs (Part.create cfg e now) = SPart.create cfg e := Part.create_abs cfg e now

/-! ## 2. append -/

/-- `append_messages` always succeeds on a state satisfying the invariant, re-establishes it, and
appends exactly the messages the spec accepts (dedup filter, offsets `next, next+1, …`), whatever
happens underneath (segment roll-over, persist on threshold / full segment, cache extension). -/
theorem append_refines {now : Nat} {msgs : List InMsg} (h : p.Inv cfg)
    (hsz : ∀ m ∈ msgs, 0 < m.size) (hts : ∀ m ∈ p.msgs, m.ts ≤ now) :
    ∃ p', p.append cfg now msgs = .ok p' ∧ p'.Inv cfg ∧ abs p' = (abs p).append now msgs :=
  Part.append_refines h hsz hts

/-! ## 3. flush / save -/

theorem flush_refines (h : p.Inv cfg) : (p.flush cfg).Inv cfg ∧ abs (p.flush cfg) = abs p :=
  Part.flush_refines h

theorem save_refines (h : p.Inv cfg) : (p.save cfg).Inv cfg ∧ abs (p.save cfg) = abs p :=
  Part.save_refines h

/-! ## 4. reads -/

/-- segment level: whichever tier holds them (disk via cached index, disk via index file,
accumulator), a segment read returns exactly the slice `[max off start, max off start + count)` -/
theorem segGetByOffset_refines {s : Seg} (h : s.Inv cfg) (off count : Nat) :
    s.getByOffset off count =
      s.msgs.filter (fun m => max off s.start ≤ m.off ∧ m.off < max off s.start + count) :=
  Seg.getByOffset_eq h off count

/-
The planned statement

  getByOffset_refines : p.Inv cfg → 0 < count → p.getByOffset off count = (abs p).pollOffset off count

is FALSE of the model once retention has deleted the first segment: for `off` below the first retained
offset the model computes `hi = min (off + (count-1)) lastSegCur` from the *unclamped* `off` and keeps
only segments with `start ≤ hi`, so it returns `[]` (or too few messages) where the spec (C14) clamps
to the first retained message; with the cache on, a stale cache can even return deleted messages.
See `getByOffset_counterexample` / `getLast_counterexample` below.  What is missing is exactly the
hypothesis `p.firstStart ≤ off` (the first segment's start offset), or alternatively "the slice reaches
the end of the log and the cache is not stale".
-/
theorem getByOffset_refines_partial {off count : Nat} (h : p.Inv cfg) (hc : 0 < count)
    (hlo : p.firstStart ≤ off) : p.getByOffset off count = (abs p).pollOffset off count :=
  Part.getByOffset_eq (segReadSpec cfg) h hc hlo

/-- second sufficient condition: the requested slice reaches the end and the cache is not stale -/
theorem getByOffset_refines_partial' {off count : Nat} (h : p.Inv cfg) (hc : 0 < count)
    (hlo : p.firstStart ≤ off ∨ (p.next ≤ off + count ∧ ∀ c, p.cache = some c → c <:+ p.msgs)) :
    p.getByOffset off count = (abs p).pollOffset off count :=
  Part.getByOffset_eq_gen (segReadSpec cfg) h hc hlo

/-- full statement `p.Inv cfg → 0 < count → p.getFirst count = (abs p).pollFirst count` is false after
retention (same reason); missing: `p.firstStart = 0` -/
theorem getFirst_refines_partial {count : Nat} (h : p.Inv cfg) (hc : 0 < count)
    (hF : p.firstStart = 0) : p.getFirst count = (abs p).pollFirst count :=
  Part.getFirst_eq (segReadSpec cfg) h hc hF

/-- full statement `p.Inv cfg → 0 < count → p.getLast count = (abs p).pollLast count` is false with
a stale cache after retention (`getLast_counterexample`); missing: the slice stays within the retained
messages, or the cache is not stale -/
theorem getLast_refines_partial {count : Nat} (h : p.Inv cfg) (hc : 0 < count)
    (hlo : p.firstStart ≤ p.next - min count p.next ∨ ∀ c, p.cache = some c → c <:+ p.msgs) :
    p.getLast count = (abs p).pollLast count :=
  Part.getLast_eq_gen (segReadSpec cfg) h hc hlo

/-- without a cache `getLast` is right unconditionally -/
theorem getLast_refines_of_no_cache {count : Nat} (h : p.Inv cfg) (hc : 0 < count)
    (hcache : p.cache = none) : p.getLast count = (abs p).pollLast count :=
  Part.getLast_eq_of_no_cache (segReadSpec cfg) h hc hcache

/-- full statement `p.Inv cfg → 0 < count → p.getNext grp cid count = (abs p).pollNext grp cid count`
is false after retention; missing: the stored offset + 1 (or 0 if none) is not below the first
retained offset.  `offsBound` is not needed: the model's shortcut `o = cur → []` agrees with the spec. -/
theorem getNext_refines_partial {grp : Bool} {cid count : Nat} (h : p.Inv cfg) (hc : 0 < count)
    (hlo : match lookup (if grp then p.grpOffs else p.consOffs) cid with
           | none => p.firstStart = 0 | some o => p.firstStart ≤ o + 1) :
    p.getNext grp cid count = (abs p).pollNext grp cid count :=
  Part.getNext_eq (segReadSpec cfg) h hc hlo

/-- full statement `p.Inv cfg → 0 < count → p.getByTimestamp ts count = (abs p).pollTimestamp ts count`
is false for a segment whose log file reaches 4 GiB (`getByTimestamp_counterexample`): the model reads
with end position `u32::MAX` and stops after the first batch starting at or beyond it.  Missing:
`hsmall`.  (`0 < count` is not needed.) -/
theorem getByTimestamp_refines_partial (h : p.Inv cfg)
    (hsmall : ∀ s ∈ p.segs, logBytes s.log < 2^32) (ts count : Nat) :
    p.getByTimestamp ts count = (abs p).pollTimestamp ts count :=
  Part.getByTimestamp_eq h hsmall ts count

/-! ## 5. restart -/

/-- graceful shutdown + restart.  `hnow` (no stored message is newer than the restart time) is needed
because `Seg.load` sets `end_timestamp := now` and timestamp polls skip segments by `end_timestamp`. -/
theorem restart_refines {now : Nat} (h : p.Inv cfg) (hnow : ∀ m ∈ p.msgs, m.ts ≤ now) (cacheLen : Nat) :
    (p.restart cfg now cacheLen).Inv cfg ∧
    abs (p.restart cfg now cacheLen) =
      { abs p with ids := (abs p).ids.map (fun _ => ((abs p).msgs.map (·.id)).eraseDups) } :=
  Part.restart_refines h hnow cacheLen

/-- the same with `eraseDups` removed (it is the identity under the invariant's `Nodup` clause) -/
theorem restart_refines' {now : Nat} (h : p.Inv cfg) (hnow : ∀ m ∈ p.msgs, m.ts ≤ now) (cacheLen : Nat) :
    abs (p.restart cfg now cacheLen) =
      { abs p with ids := (abs p).ids.map (fun _ => (abs p).msgs.map (·.id)) } :=
  Part.restart_refines' h hnow cacheLen

/-! ## 6. purge -/

theorem purge_refines (h : p.Inv cfg) (now : Nat) :
    (p.purge cfg now).Inv cfg ∧ abs (p.purge cfg now) = (abs p).purge := Part.purge_refines h now

/-! ## 7. consumer offsets -/

theorem storeOffset_refines (h : p.Inv cfg) (grp : Bool) (cid off : Nat) :
    (p.storeOffset grp cid off).map abs = (abs p).storeOffset grp cid off ∧
      ∀ p', p.storeOffset grp cid off = .ok p' → p'.Inv cfg := Part.storeOffset_refines h grp cid off

theorem getOffset_refines (p : Part) (grp : Bool) (cid : Nat) :
    p.getOffset grp cid = (abs p).getOffset grp cid := Part.getOffset_refines p grp cid

theorem deleteOffset_refines (h : p.Inv cfg) (grp : Bool) (cid : Nat) :
    (p.deleteOffset grp cid).map abs = (abs p).deleteOffset grp cid ∧
      ∀ p', p.deleteOffset grp cid = .ok p' → p'.Inv cfg := Part.deleteOffset_refines h grp cid

/-! ## 8. retention -/

/-- Expiry drops a prefix of the retained messages, keeps `next`, and is legal: every dropped message
is expired and sits in a closed segment.  No `cfg.cacheOn = false` hypothesis: the invariant's cache
clause allows a stale cache (cache ⊇ retained messages). -/
theorem expire_refines (h : p.Inv cfg) (now : Nat) :
    ∃ n, (p.expire cfg now).Inv cfg ∧ abs (p.expire cfg now) = (abs p).dropPrefix n ∧
      (p.expire cfg now).next = p.next ∧
      ∀ m ∈ p.msgs.take n, (∃ e, p.expiry = some e ∧ m.ts + e ≤ now) ∧
        ∃ s ∈ p.segs, s.closed = true ∧ m ∈ s.msgs :=
  Part.expire_refines (segReadSpec cfg) h now

/-- size-based retention drops at most the first segment, and only if it is closed -/
theorem deleteOldest_refines (h : p.Inv cfg) (now : Nat) :
    ∃ n, (p.deleteOldest cfg now).Inv cfg ∧ abs (p.deleteOldest cfg now) = (abs p).dropPrefix n ∧
      (p.deleteOldest cfg now).next = p.next ∧
      ∀ m ∈ p.msgs.take n, ∃ s, p.segs.head? = some s ∧ s.closed = true ∧ m ∈ s.msgs :=
  Part.deleteOldest_refines h now

/-! ## 9. cache eviction -/

theorem evict_refines (h : p.Inv cfg) (keep : Nat) :
    (p.evict keep).Inv cfg ∧ abs (p.evict keep) = abs p := Part.evict_refines h keep

/-! ## reachable states

Everything the partition can do, as one inductive predicate; the invariant holds in every reachable
state, and `append` never fails there.  Side conditions: the clock is never behind a stored message
(`append`, `restart`), and every message occupies at least one byte. -/

inductive Reach (cfg : Cfg) : Part → Prop
  | create (e : Option Nat) (now : Nat) : Reach cfg (Part.create cfg e now)
  | append {p p' : Part} (now : Nat) (msgs : List InMsg) : Reach cfg p → (∀ m ∈ msgs, 0 < m.size) →
      (∀ m ∈ p.msgs, m.ts ≤ now) → p.append cfg now msgs = .ok p' → Reach cfg p'
  | flush {p : Part} : Reach cfg p → Reach cfg (p.flush cfg)
  | save {p : Part} : Reach cfg p → Reach cfg (p.save cfg)
  | restart {p : Part} (now cacheLen : Nat) : Reach cfg p → (∀ m ∈ p.msgs, m.ts ≤ now) →
      Reach cfg (p.restart cfg now cacheLen)
  | purge {p : Part} (now : Nat) : Reach cfg p → Reach cfg (p.purge cfg now)
  | storeOffset {p p' : Part} (grp : Bool) (cid off : Nat) : Reach cfg p →
      p.storeOffset grp cid off = .ok p' → Reach cfg p'
  | deleteOffset {p p' : Part} (grp : Bool) (cid : Nat) : Reach cfg p →
      p.deleteOffset grp cid = .ok p' → Reach cfg p'
  | expire {p : Part} (now : Nat) : Reach cfg p → Reach cfg (p.expire cfg now)
  | deleteOldest {p : Part} (now : Nat) : Reach cfg p → Reach cfg (p.deleteOldest cfg now)
  | evict {p : Part} (keep : Nat) : Reach cfg p → Reach cfg (p.evict keep)

theorem Reach.inv (hseg : 0 < cfg.segSize) (r : Reach cfg p) : p.Inv cfg := by
  induction r with
  | create e now => exact create_inv e now hseg
  | append now msgs _ hsz hts hok ih =>
    obtain ⟨p'', e, hinv, -⟩ := append_refines (now := now) (msgs := msgs) ih hsz hts
    rw [hok] at e; cases e; exact hinv
  | flush _ ih => exact (flush_refines ih).1
  | save _ ih => exact (save_refines ih).1
  | restart now cacheLen _ hnow ih => exact (restart_refines ih hnow cacheLen).1
  | purge now _ ih => exact (purge_refines ih now).1
  | storeOffset grp cid off _ hok ih => exact (storeOffset_refines ih grp cid off).2 _ hok
  | deleteOffset grp cid _ hok ih => exact (deleteOffset_refines ih grp cid).2 _ hok
  | expire now _ ih => exact (expire_refines ih now).choose_spec.1
  | deleteOldest now _ ih => exact (deleteOldest_refines ih now).choose_spec.1
  | evict keep _ ih => exact (evict_refines ih keep).1

/-- on a reachable state `append_messages` cannot fail (no `segmentNotFound`) -/
theorem Reach.append_ok (hseg : 0 < cfg.segSize) (r : Reach cfg p) {now : Nat} {msgs : List InMsg}
    (hsz : ∀ m ∈ msgs, 0 < m.size) (hts : ∀ m ∈ p.msgs, m.ts ≤ now) :
    ∃ p', p.append cfg now msgs = .ok p' ∧ Reach cfg p' ∧ abs p' = (abs p).append now msgs := by
  obtain ⟨p', e, -, ha⟩ := append_refines (now := now) (msgs := msgs) (r.inv hseg) hsz hts
  exact ⟨p', e, Reach.append now msgs r hsz hts e, ha⟩

/-! ## non-vacuity and counterexamples

A concrete run: create, four appends (`reqToSave = 2`, `segSize = 100`, every message 20 bytes, cache,
index cache and dedup on; the second append carries a duplicate id), then size-based retention.  The
invariant is *decidable* (`Lemmas/Decide.lean`), so it is checked on every state by evaluation, and
independently derived through the theorems. -/

def exCfg : Cfg := { reqToSave := 2, segSize := 100, cacheOn := true, idxCacheOn := true, dedupOn := true }
def exIn (i : Nat) : InMsg := { id := i, size := 20, tag := i }
def exGet (e : Except Err Part) : Part := match e with | .ok p => p | .error _ => Part.create exCfg none 0

def ex0 : Part := Part.create exCfg none 0
def ex1 : Part := exGet (ex0.append exCfg 1 [exIn 1])                    -- buffered only
def ex2 : Part := exGet (ex1.append exCfg 2 [exIn 2, exIn 1, exIn 3])    -- duplicate dropped, persisted
def ex3 : Part := exGet (ex2.append exCfg 3 [exIn 4, exIn 5])            -- segment full: closed
def ex4 : Part := exGet (ex3.append exCfg 4 [exIn 6])                    -- rolled over to segment 2
def ex5 : Part := ex4.deleteOldest exCfg 5                               -- first segment deleted, cache stale

example : ex0.append exCfg 1 [exIn 1] = .ok ex1 := rfl
example : ex1.append exCfg 2 [exIn 2, exIn 1, exIn 3] = .ok ex2 := rfl
example : ex2.append exCfg 3 [exIn 4, exIn 5] = .ok ex3 := rfl
example : ex3.append exCfg 4 [exIn 6] = .ok ex4 := rfl
example : ex0.Inv exCfg := by decide
example : ex1.Inv exCfg := by decide
example : ex2.Inv exCfg := by decide
example : ex3.Inv exCfg := by decide
example : ex4.Inv exCfg := by decide
example : ex5.Inv exCfg := by decide
example : ex4.msgs.map (·.off) = [0, 1, 2, 3, 4, 5] := by decide
example : ex4.segs.map (fun s => (s.start, s.closed, s.log.length, s.accMsgs.length)) =
    [(0, true, 2, 0), (5, false, 0, 1)] := by decide
example : ex5.msgs.map (·.off) = [5] ∧ ex5.cache.map (·.map (·.off)) = some [0, 1, 2, 3, 4, 5] := by decide

/-- the same through the theorems: the invariant holds after create + two appends -/
example : ∃ p1 p2, ex0.append exCfg 1 [exIn 1] = .ok p1 ∧
    p1.append exCfg 2 [exIn 2, exIn 1, exIn 3] = .ok p2 ∧ p2.Inv exCfg ∧
    abs p2 = ((SPart.create exCfg none).append 1 [exIn 1]).append 2 [exIn 2, exIn 1, exIn 3] := by
  have h0 : ex0.Inv exCfg := create_inv none 0 (by decide)
  obtain ⟨p1, e1, h1, a1⟩ := append_refines (now := 1) (msgs := [exIn 1]) h0 (by decide) (by decide)
  have hp1 : p1 = ex1 := by
    have : (.ok p1 : Except Err Part) = .ok ex1 := e1.symm.trans rfl
    cases this; rfl
  obtain ⟨p2, e2, h2, a2⟩ := append_refines (now := 2) (msgs := [exIn 2, exIn 1, exIn 3]) h1 (by decide)
    (by subst hp1; decide)
  exact ⟨p1, p2, e1, e2, h2, by
    rw [a2, a1, show abs ex0 = SPart.create exCfg none from create_abs _ _ _]⟩

/-- `getByOffset_refines` without `firstStart ≤ off` is false: after retention deleted offsets 0–4,
polling from offset 0 returns the deleted message 0 from the stale cache (and nothing at all when the
cache is off, see `getFirst_counterexample`), while the spec returns the first retained message
(offset 5). -/
theorem getByOffset_counterexample :
    ∃ (cfg : Cfg) (p : Part) (off count : Nat), p.Inv cfg ∧ 0 < count ∧
      p.getByOffset off count ≠ (abs p).pollOffset off count :=
  ⟨exCfg, ex5, 0, 1, by decide, by decide, by decide⟩

example : (ex5.getByOffset 0 1).map (·.off) = [0] ∧ ((abs ex5).pollOffset 0 1).map (·.off) = [5] := by
  decide

/-- the same without a cache -/
def exCfgNoCache : Cfg := { exCfg with cacheOn := false }
def ex5' : Part :=
  let get (e : Except Err Part) : Part := match e with | .ok p => p | .error _ => Part.create exCfgNoCache none 0
  let q := get ((Part.create exCfgNoCache none 0).append exCfgNoCache 1 [exIn 1, exIn 2, exIn 3, exIn 4])
  let q := get (q.append exCfgNoCache 2 [exIn 5])
  q.deleteOldest exCfgNoCache 3

theorem getFirst_counterexample :
    ∃ (cfg : Cfg) (p : Part) (count : Nat), p.Inv cfg ∧ p.cache = none ∧ 0 < count ∧
      p.getFirst count ≠ (abs p).pollFirst count :=
  ⟨exCfgNoCache, ex5', 1, by decide, by decide, by decide, by decide⟩

example : ex5'.getFirst 1 = [] ∧ ((abs ex5').pollFirst 1).map (·.off) = [4] := by decide

/-- `getLast_refines` is false with a stale cache: deleted messages are served from the cache -/
theorem getLast_counterexample :
    ∃ (cfg : Cfg) (p : Part) (count : Nat), p.Inv cfg ∧ 0 < count ∧
      p.getLast count ≠ (abs p).pollLast count :=
  ⟨exCfg, ex5, 3, by decide, by decide, by decide⟩

example : (ex5.getLast 3).map (·.off) = [3, 4, 5] ∧ ((abs ex5).pollLast 3).map (·.off) = [5] := by decide

/-- `getByTimestamp_refines` without the 4 GiB bound is false -/
theorem getByTimestamp_counterexample :
    ∃ (cfg : Cfg) (p : Part) (ts count : Nat), p.Inv cfg ∧ 0 < count ∧
      p.getByTimestamp ts count ≠ (abs p).pollTimestamp ts count :=
  ⟨readTsCexCfg, readTsCexPart, 0, 10, readTsCexPart_inv, by decide, readTsCexPart_neq⟩

end Iggy.Log
