/-
L1 (`Iggy.Log.Model`, `Part`) refines L2 (`Iggy.Log.Spec`, `SPart`) through `abs`, under the
representation invariant `Part.Inv` (`Iggy.Log.Abs`), for all inputs.  This file collects the main
theorems under their official names; the proofs are in `Iggy/Log/Lemmas/*.lean`.

The only statement that is FALSE of the model as planned is the timestamp poll on a log file of 4 GiB or
more: it is kept in a comment next to the `…_partial` version that is proved, together with a
machine-checked counterexample (`getByTimestamp_counterexample`).
-/
import Iggy.Log.Lemmas.Append
import Iggy.Log.Lemmas.Persist
import Iggy.Log.Lemmas.ReadSeg
import Iggy.Log.Lemmas.ReadPart
import Iggy.Log.Lemmas.ReadTs
import Iggy.Log.Lemmas.Restart
import Iggy.Log.Lemmas.Misc
import Iggy.Log.Lemmas.Retention
import Iggy.Log.Lemmas.Decide
namespace Iggy.Log

variable {cfg : Cfg} {p : Part}

/-! ## 1. create -/

theorem create_inv (e : Option Nat) (now : Nat) (hseg : 0 < cfg.segSize) :
    (Part.create cfg e now).Inv cfg := Part.create_inv e now hseg

theorem create_abs (cfg : Cfg) (e : Option Nat) (now : Nat) :
    abs (Part.create cfg e now) = SPart.create cfg e := Part.create_abs cfg e now

/-! ## 2. append -/

/-- `append_messages` always succeeds on a state satisfying the invariant, re-establishes it, and
appends exactly the messages the spec accepts (dedup filter, offsets `next, next+1, …`), whatever
happens underneath (segment roll-over, persist on threshold / full segment, cache extension). -/
theorem append_refines {now : Nat} {msgs : List InMsg} (h : p.Inv cfg)
    (hsz : ∀ m ∈ msgs, 0 < m.size) (hts : ∀ m ∈ p.msgs, m.ts ≤ now) :
    ∃ p', p.append cfg now msgs = .ok p' ∧ p'.Inv cfg ∧ abs p' = (abs p).append now msgs :=
  Part.append_refines h hsz hts

/-! ## 3. flush / save -/

theorem flush_refines (h : p.Inv cfg) : (p.flush cfg).Inv cfg ∧ abs (p.flush cfg) = abs p :=
  Part.flush_refines h

theorem save_refines (h : p.Inv cfg) : (p.save cfg).Inv cfg ∧ abs (p.save cfg) = abs p :=
  Part.save_refines h

/-! ## 4. reads -/

/-- segment level: whichever tier holds them (disk via cached index, disk via index file,
accumulator), a segment read returns exactly the slice `[max off start, max off start + count)` -/
theorem segGetByOffset_refines {s : Seg} (h : s.Inv cfg) (off count : Nat) :
    s.getByOffset off count =
      s.msgs.filter (fun m => max off s.start ≤ m.off ∧ m.off < max off s.start + count) :=
  Seg.getByOffset_eq h off count

/-- A poll by offset returns exactly the requested slice of the retained messages, whichever tier
holds it (cache — stale or not —, accumulator, disk through either index path), across segment
boundaries; a poll below the earliest retained offset starts at the earliest retained message (C14).
(The first version of the model, mirroring the server before the fix in /repo, violated this after
retention: see the regression examples at the end of this file.) -/
theorem getByOffset_refines {off count : Nat} (h : p.Inv cfg) (hc : 0 < count) :
    p.getByOffset off count = (abs p).pollOffset off count :=
  Part.getByOffset_eq (segReadSpec cfg) h hc

theorem getFirst_refines {count : Nat} (h : p.Inv cfg) (hc : 0 < count) :
    p.getFirst count = (abs p).pollFirst count :=
  Part.getFirst_eq (segReadSpec cfg) h hc

theorem getLast_refines {count : Nat} (h : p.Inv cfg) (hc : 0 < count) :
    p.getLast count = (abs p).pollLast count :=
  Part.getLast_eq (segReadSpec cfg) h hc

/-- `offsBound` is not needed: the model's shortcut `o = cur → []` agrees with the spec. -/
theorem getNext_refines {grp : Bool} {cid count : Nat} (h : p.Inv cfg) (hc : 0 < count) :
    p.getNext grp cid count = (abs p).pollNext grp cid count :=
  Part.getNext_eq (segReadSpec cfg) h hc

/-- full statement `p.Inv cfg → 0 < count → p.getByTimestamp ts count = (abs p).pollTimestamp ts count`
is false for a segment whose log file reaches 4 GiB (`getByTimestamp_counterexample`): the model reads
with end position `u32::MAX` and stops after the first batch starting at or beyond it.  Missing:
`hsmall`.  (`0 < count` is not needed.) -/
theorem getByTimestamp_refines_partial (h : p.Inv cfg)
    (hsmall : ∀ s ∈ p.segs, logBytes s.log < 2^32) (ts count : Nat) :
    p.getByTimestamp ts count = (abs p).pollTimestamp ts count :=
  Part.getByTimestamp_eq h hsmall ts count

/-! ## 5. restart -/

/-- graceful shutdown + restart.  `hnow` (no stored message is newer than the restart time) is needed
because `Seg.load` sets `end_timestamp := now` and timestamp polls skip segments by `end_timestamp`. -/
theorem restart_refines {now : Nat} (h : p.Inv cfg) (hnow : ∀ m ∈ p.msgs, m.ts ≤ now) (cacheLen : Nat) :
    (p.restart cfg now cacheLen).Inv cfg ∧
    abs (p.restart cfg now cacheLen) =
      { abs p with ids := (abs p).ids.map (fun _ => ((abs p).msgs.map (·.id)).eraseDups) } :=
  Part.restart_refines h hnow cacheLen

/-- the same with `eraseDups` removed (it is the identity under the invariant's `Nodup` clause) -/
theorem restart_refines' {now : Nat} (h : p.Inv cfg) (hnow : ∀ m ∈ p.msgs, m.ts ≤ now) (cacheLen : Nat) :
    abs (p.restart cfg now cacheLen) =
      { abs p with ids := (abs p).ids.map (fun _ => (abs p).msgs.map (·.id)) } :=
  Part.restart_refines' h hnow cacheLen

/-! ## 6. purge -/

theorem purge_refines (h : p.Inv cfg) (now : Nat) :
    (p.purge cfg now).Inv cfg ∧ abs (p.purge cfg now) = (abs p).purge := Part.purge_refines h now

/-! ## 7. consumer offsets -/

theorem storeOffset_refines (h : p.Inv cfg) (grp : Bool) (cid off : Nat) :
    (p.storeOffset grp cid off).map abs = (abs p).storeOffset grp cid off ∧
      ∀ p', p.storeOffset grp cid off = .ok p' → p'.Inv cfg := Part.storeOffset_refines h grp cid off

theorem getOffset_refines (p : Part) (grp : Bool) (cid : Nat) :
    p.getOffset grp cid = (abs p).getOffset grp cid := Part.getOffset_refines p grp cid

theorem deleteOffset_refines (h : p.Inv cfg) (grp : Bool) (cid : Nat) :
    (p.deleteOffset grp cid).map abs = (abs p).deleteOffset grp cid ∧
      ∀ p', p.deleteOffset grp cid = .ok p' → p'.Inv cfg := Part.deleteOffset_refines h grp cid

/-! ## 8. retention -/

/-- Expiry drops a prefix of the retained messages, keeps `next`, and is legal: every dropped message
is expired and sits in a closed segment.  No `cfg.cacheOn = false` hypothesis: the invariant's cache
clause allows a stale cache (cache ⊇ retained messages). -/
theorem expire_refines (h : p.Inv cfg) (now : Nat) :
    ∃ n, (p.expire cfg now).Inv cfg ∧ abs (p.expire cfg now) = (abs p).dropPrefix n ∧
      (p.expire cfg now).next = p.next ∧
      ∀ m ∈ p.msgs.take n, (∃ e, p.expiry = some e ∧ m.ts + e ≤ now) ∧
        ∃ s ∈ p.segs, s.closed = true ∧ m ∈ s.msgs :=
  Part.expire_refines (segReadSpec cfg) h now

/-- size-based retention drops at most the first segment, and only if it is closed -/
theorem deleteOldest_refines (h : p.Inv cfg) (now : Nat) :
    ∃ n, (p.deleteOldest cfg now).Inv cfg ∧ abs (p.deleteOldest cfg now) = (abs p).dropPrefix n ∧
      (p.deleteOldest cfg now).next = p.next ∧
      ∀ m ∈ p.msgs.take n, ∃ s, p.segs.head? = some s ∧ s.closed = true ∧ m ∈ s.msgs :=
  Part.deleteOldest_refines h now

/-! ## 9. cache eviction -/

theorem evict_refines (h : p.Inv cfg) (keep : Nat) :
    (p.evict keep).Inv cfg ∧ abs (p.evict keep) = abs p := Part.evict_refines h keep

/-! ## reachable states

Everything the partition can do, as one inductive predicate; the invariant holds in every reachable
state, and `append` never fails there.  Side conditions: the clock is never behind a stored message
(`append`, `restart`), and every message occupies at least one byte. -/

inductive Reach (cfg : Cfg) : Part → Prop
  | create (e : Option Nat) (now : Nat) : Reach cfg (Part.create cfg e now)
  | append {p p' : Part} (now : Nat) (msgs : List InMsg) : Reach cfg p → (∀ m ∈ msgs, 0 < m.size) →
      (∀ m ∈ p.msgs, m.ts ≤ now) → p.append cfg now msgs = .ok p' → Reach cfg p'
  | flush {p : Part} : Reach cfg p → Reach cfg (p.flush cfg)
  | save {p : Part} : Reach cfg p → Reach cfg (p.save cfg)
  | restart {p : Part} (now cacheLen : Nat) : Reach cfg p → (∀ m ∈ p.msgs, m.ts ≤ now) →
      Reach cfg (p.restart cfg now cacheLen)
  | purge {p : Part} (now : Nat) : Reach cfg p → Reach cfg (p.purge cfg now)
  | storeOffset {p p' : Part} (grp : Bool) (cid off : Nat) : Reach cfg p →
      p.storeOffset grp cid off = .ok p' → Reach cfg p'
  | deleteOffset {p p' : Part} (grp : Bool) (cid : Nat) : Reach cfg p →
      p.deleteOffset grp cid = .ok p' → Reach cfg p'
  | expire {p : Part} (now : Nat) : Reach cfg p → Reach cfg (p.expire cfg now)
  | deleteOldest {p : Part} (now : Nat) : Reach cfg p → Reach cfg (p.deleteOldest cfg now)
  | evict {p : Part} (keep : Nat) : Reach cfg p → Reach cfg (p.evict keep)

theorem Reach.inv (hseg : 0 < cfg.segSize) (r : Reach cfg p) : p.Inv cfg := by
  induction r with
  | create e now => exact create_inv e now hseg
  | append now msgs _ hsz hts hok ih =>
    obtain ⟨p'', e, hinv, -⟩ := append_refines (now := now) (msgs := msgs) ih hsz hts
    rw [hok] at e; cases e; exact hinv
  | flush _ ih => exact (flush_refines ih).1
  | save _ ih => exact (save_refines ih).1
  | restart now cacheLen _ hnow ih => exact (restart_refines ih hnow cacheLen).1
  | purge now _ ih => exact (purge_refines ih now).1
  | storeOffset grp cid off _ hok ih => exact (storeOffset_refines ih grp cid off).2 _ hok
  | deleteOffset grp cid _ hok ih => exact (deleteOffset_refines ih grp cid).2 _ hok
  | expire now _ ih => exact (expire_refines ih now).choose_spec.1
  | deleteOldest now _ ih => exact (deleteOldest_refines ih now).choose_spec.1
  | evict keep _ ih => exact (evict_refines ih keep).1

/-- on a reachable state `append_messages` cannot fail (no `segmentNotFound`) -/
theorem Reach.append_ok (hseg : 0 < cfg.segSize) (r : Reach cfg p) {now : Nat} {msgs : List InMsg}
    (hsz : ∀ m ∈ msgs, 0 < m.size) (hts : ∀ m ∈ p.msgs, m.ts ≤ now) :
    ∃ p', p.append cfg now msgs = .ok p' ∧ Reach cfg p' ∧ abs p' = (abs p).append now msgs := by
  obtain ⟨p', e, -, ha⟩ := append_refines (now := now) (msgs := msgs) (r.inv hseg) hsz hts
  exact ⟨p', e, Reach.append now msgs r hsz hts e, ha⟩

/-! ## non-vacuity and counterexamples

A concrete run: create, four appends (`reqToSave = 2`, `segSize = 100`, every message 20 bytes, cache,
index cache and dedup on; the second append carries a duplicate id), then size-based retention.  The
invariant is *decidable* (`Lemmas/Decide.lean`), so it is checked on every state by evaluation, and
independently derived through the theorems. -/

def rxCfg : Cfg := { reqToSave := 2, segSize := 100, cacheOn := true, idxCacheOn := true, dedupOn := true }
def rxIn (i : Nat) : InMsg := { id := i, size := 20, tag := i }
def rxGet (e : Except Err Part) : Part := match e with | .ok p => p | .error _ => Part.create rxCfg none 0

def rx0 : Part := Part.create rxCfg none 0
def rx1 : Part := rxGet (rx0.append rxCfg 1 [rxIn 1])                    -- buffered only
def rx2 : Part := rxGet (rx1.append rxCfg 2 [rxIn 2, rxIn 1, rxIn 3])    -- duplicate dropped, persisted
def rx3 : Part := rxGet (rx2.append rxCfg 3 [rxIn 4, rxIn 5])            -- segment full: closed
def rx4 : Part := rxGet (rx3.append rxCfg 4 [rxIn 6])                    -- rolled over to segment 2
def rx5 : Part := rx4.deleteOldest rxCfg 5                               -- first segment deleted, cache stale

example : rx0.append rxCfg 1 [rxIn 1] = .ok rx1 := rfl
example : rx1.append rxCfg 2 [rxIn 2, rxIn 1, rxIn 3] = .ok rx2 := rfl
example : rx2.append rxCfg 3 [rxIn 4, rxIn 5] = .ok rx3 := rfl
example : rx3.append rxCfg 4 [rxIn 6] = .ok rx4 := rfl
example : rx0.Inv rxCfg := by decide
example : rx1.Inv rxCfg := by decide
example : rx2.Inv rxCfg := by decide
example : rx3.Inv rxCfg := by decide
example : rx4.Inv rxCfg := by decide
example : rx5.Inv rxCfg := by decide
example : rx4.msgs.map (·.off) = [0, 1, 2, 3, 4, 5] := by decide
example : rx4.segs.map (fun s => (s.start, s.closed, s.log.length, s.accMsgs.length)) =
    [(0, true, 2, 0), (5, false, 0, 1)] := by decide
example : rx5.msgs.map (·.off) = [5] ∧ rx5.cache.map (·.map (·.off)) = some [0, 1, 2, 3, 4, 5] := by decide

/-- the same through the theorems: the invariant holds after create + two appends -/
example : ∃ p1 p2, rx0.append rxCfg 1 [rxIn 1] = .ok p1 ∧
    p1.append rxCfg 2 [rxIn 2, rxIn 1, rxIn 3] = .ok p2 ∧ p2.Inv rxCfg ∧
    abs p2 = ((SPart.create rxCfg none).append 1 [rxIn 1]).append 2 [rxIn 2, rxIn 1, rxIn 3] := by
  have h0 : rx0.Inv rxCfg := create_inv none 0 (by decide)
  obtain ⟨p1, e1, h1, a1⟩ := append_refines (now := 1) (msgs := [rxIn 1]) h0 (by decide) (by decide)
  have hp1 : p1 = rx1 := by
    have : (.ok p1 : Except Err Part) = .ok rx1 := e1.symm.trans rfl
    cases this; rfl
  obtain ⟨p2, e2, h2, a2⟩ := append_refines (now := 2) (msgs := [rxIn 2, rxIn 1, rxIn 3]) h1 (by decide)
    (by subst hp1; decide)
  exact ⟨p1, p2, e1, e2, h2, by
    rw [a2, a1, show abs rx0 = SPart.create rxCfg none from create_abs _ _ _]⟩

/-! Regression examples for the defect found with the first version of the model (fixed in /repo and
in `Part.getByOffset`): after retention deleted offsets 0–4 (`rx5`: the cache still holds them), a
poll from offset 0 used to return the deleted message 0 from the stale cache (or nothing when the cache
is off), `getLast 3` used to return the deleted messages 3, 4.  Now all answers start at the earliest
retained message. -/

example : (rx5.getByOffset 0 1).map (·.off) = [5] ∧ ((abs rx5).pollOffset 0 1).map (·.off) = [5] := by
  decide
example : rx5.getByOffset 0 1 = (abs rx5).pollOffset 0 1 := getByOffset_refines (cfg := rxCfg) (by decide) (by decide)
example : (rx5.getLast 3).map (·.off) = [5] ∧ ((abs rx5).pollLast 3).map (·.off) = [5] := by decide
example : (rx5.getFirst 2).map (·.off) = [5] := by decide

/-- the same history without a cache -/
def rxCfgNoCache : Cfg := { rxCfg with cacheOn := false }
def rx5' : Part :=
  let get (e : Except Err Part) : Part := match e with | .ok p => p | .error _ => Part.create rxCfgNoCache none 0
  let q := get ((Part.create rxCfgNoCache none 0).append rxCfgNoCache 1 [rxIn 1, rxIn 2, rxIn 3, rxIn 4])
  let q := get (q.append rxCfgNoCache 2 [rxIn 5])
  q.deleteOldest rxCfgNoCache 3

example : rx5'.Inv rxCfgNoCache ∧ rx5'.cache = none ∧ rx5'.firstStart = 4 := by decide
example : (rx5'.getFirst 1).map (·.off) = [4] ∧ ((abs rx5').pollFirst 1).map (·.off) = [4] := by decide
example : (rx5'.getByOffset 2 5).map (·.off) = [4] := by decide

/-- `getByTimestamp_refines` without the 4 GiB bound is false -/
theorem getByTimestamp_counterexample :
    ∃ (cfg : Cfg) (p : Part) (ts count : Nat), p.Inv cfg ∧ 0 < count ∧
      p.getByTimestamp ts count ≠ (abs p).pollTimestamp ts count :=
  ⟨readTsCexCfg, readTsCexPart, 0, 10, readTsCexPart_inv, by decide, readTsCexPart_neq⟩

end Iggy.Log
