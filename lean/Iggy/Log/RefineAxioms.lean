/-
Axiom audit of the main refinement theorems: run `lake env lean Iggy/Log/RefineAxioms.lean`;
only `propext`, `Classical.choice`, `Quot.sound` may appear.
-/
import Iggy.Log.Refine
import Iggy.Log.RefineRun
open Iggy.Log

#print axioms create_inv
#print axioms create_abs
#print axioms append_refines
#print axioms flush_refines
#print axioms save_refines
#print axioms segGetByOffset_refines
#print axioms getByOffset_refines
#print axioms getFirst_refines
#print axioms getLast_refines
#print axioms getNext_refines
#print axioms getByTimestamp_refines_partial
#print axioms restart_refines
#print axioms restart_refines'
#print axioms purge_refines
#print axioms storeOffset_refines
#print axioms getOffset_refines
#print axioms deleteOffset_refines
#print axioms expire_refines
#print axioms deleteOldest_refines
#print axioms evict_refines
#print axioms Reach.inv
#print axioms Reach.append_ok
#print axioms getByTimestamp_counterexample
-- RefineRun
#print axioms Reach.stepOp
#print axioms Reach.runOps
#print axioms reach_of_run
#print axioms Reach.simulates
#print axioms runOps_simulates
#print axioms reach_specInv
#print axioms reach_specDedupInv
#print axioms reach_offsets_consecutive
#print axioms reach_offsets_firstStart
#print axioms reach_poll_exact
#print axioms reach_poll_exact'
#print axioms reach_poll_sublist
#print axioms reach_ids_nodup
#print axioms reach_ids_remembered
#print axioms reach_counts
#print axioms reach_size_exact
#print axioms reach_seg_counts
#print axioms reach_restart_same
#print axioms reach_restart_poll
