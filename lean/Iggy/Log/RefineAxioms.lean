/-
Axiom audit of the main refinement theorems: run `lake env lean Iggy/Log/RefineAxioms.lean`;
only `propext`, `Classical.choice`, `Quot.sound` may appear.
-/
import Iggy.Log.Refine
open Iggy.Log

#print axioms create_inv
#print axioms create_abs
#print axioms append_refines
#print axioms flush_refines
#print axioms save_refines
#print axioms segGetByOffset_refines
#print axioms getByOffset_refines_partial
#print axioms getByOffset_refines_partial'
#print axioms getFirst_refines_partial
#print axioms getLast_refines_partial
#print axioms getLast_refines_of_no_cache
#print axioms getNext_refines_partial
#print axioms getByTimestamp_refines_partial
#print axioms restart_refines
#print axioms restart_refines'
#print axioms purge_refines
#print axioms storeOffset_refines
#print axioms getOffset_refines
#print axioms deleteOffset_refines
#print axioms expire_refines
#print axioms deleteOldest_refines
#print axioms evict_refines
#print axioms Reach.inv
#print axioms Reach.append_ok
#print axioms getByOffset_counterexample
#print axioms getFirst_counterexample
#print axioms getLast_counterexample
#print axioms getByTimestamp_counterexample
