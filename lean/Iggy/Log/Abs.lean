/-
Abstraction function `abs : Part → SPart` and the representation invariant `Inv` of the partition
storage model.  Everything here is computable / decidable so that the judge can evaluate `Inv` on
the model state after every replayed operation and refutations close by `decide`.
-/
import Iggy.Log.Model
import Iggy.Log.Spec
namespace Iggy.Log

/-! ## abstraction -/

def Seg.accMsgs (s : Seg) : List Msg := match s.acc with | some a => a.msgs | none => []

/-- every message a segment holds: stored batches first, then the not-yet-saved buffer -/
def Seg.msgs (s : Seg) : List Msg := batchesMsgs s.log ++ s.accMsgs

def Part.msgs (p : Part) : List Msg := (p.segs.map Seg.msgs).flatten

def Part.next (p : Part) : Nat := if p.shouldInc then p.cur + 1 else 0

def abs (p : Part) : SPart :=
  { msgs := p.msgs, next := p.next, ids := p.dedup, consOffs := p.consOffs, grpOffs := p.grpOffs,
    expiry := p.expiry }

/-! ## invariant -/

/-- offsets `lo, lo+1, …` -/
def consecutiveFrom : Nat → List Msg → Prop
  | _, [] => True
  | lo, m :: rest => m.off = lo ∧ consecutiveFrom (lo + 1) rest

instance : (lo : Nat) → (l : List Msg) → Decidable (consecutiveFrom lo l)
  | _, [] => isTrue trivial
  | lo, m :: rest =>
    have := instDecidableConsecutiveFrom (lo + 1) rest
    inferInstanceAs (Decidable (m.off = lo ∧ consecutiveFrom (lo + 1) rest))

/-- timestamps never decrease along the log -/
def tsSorted : List Msg → Prop
  | [] => True
  | [_] => True
  | a :: b :: rest => a.ts ≤ b.ts ∧ tsSorted (b :: rest)

instance : (l : List Msg) → Decidable (tsSorted l)
  | [] => isTrue trivial
  | [_] => isTrue trivial
  | a :: b :: rest =>
    have := instDecidableTsSorted (b :: rest)
    inferInstanceAs (Decidable (a.ts ≤ b.ts ∧ tsSorted (b :: rest)))

/-- a stored batch describes its messages: non-empty, header fields right -/
def Batch.WF (b : Batch) : Prop :=
  b.msgs ≠ [] ∧ b.msgs.head?.map (·.off) = some b.base ∧
  b.msgs.getLast?.map (·.off) = some (b.base + b.lastDelta) ∧
  b.msgs.getLast?.map (·.ts) = some b.maxTs

instance (b : Batch) : Decidable b.WF := by unfold Batch.WF; infer_instance

/-- the index a log file should have: one record per batch —
(last offset − segment start, byte position of the batch, its max timestamp) -/
def mkIdx (start : Nat) : Nat → List Batch → List Idx
  | _, [] => []
  | pos, b :: rest =>
    { rel := b.base + b.lastDelta - start, pos := pos, ts := b.maxTs } :: mkIdx start (pos + b.bytes) rest

structure Seg.Inv (cfg : Cfg) (s : Seg) : Prop where
  batches : ∀ b ∈ s.log, b.WF
  offsets : consecutiveFrom s.start s.msgs
  idxFile : s.idxFile = mkIdx s.start 0 s.log
  idxCache : s.idxCache = if cfg.idxCacheOn then some s.idxFile else none
  pos : s.lastIdxPos = logBytes s.log
  size : s.sizeBytes = logBytes s.log + sumSizes s.accMsgs
  cur : s.cur = s.start + (s.msgs.length - 1)
  accHdr : ∀ a, s.acc = some a → a.msgs ≠ [] →
    a.msgs.head?.map (·.off) = some a.base ∧ a.msgs.getLast?.map (·.off) = some a.cur ∧
    a.msgs.getLast?.map (·.ts) = some a.curTs
  /-- `end_timestamp` bounds every message of the segment (`get_messages_by_timestamp` skips a
  segment whose `end_timestamp` is below the wanted one) -/
  endTs : ∀ m ∈ s.msgs, m.ts ≤ s.endTs
  closed : s.closed = true → s.acc = none ∧ s.endOff = s.cur ∧ cfg.segSize ≤ s.sizeBytes
  open_ : s.closed = false → s.sizeBytes < cfg.segSize ∨ s.accMsgs ≠ []

/-- segments tile the offset interval that ends at `next` -/
def chain : List Seg → Nat → Prop
  | [], _ => False
  | [s], next => s.start + s.msgs.length = next
  | s :: t :: rest, next => s.start + s.msgs.length = t.start ∧ s.closed = true ∧ chain (t :: rest) next

structure Part.Inv (cfg : Cfg) (p : Part) : Prop where
  segs : ∀ s ∈ p.segs, s.Inv cfg
  chain : chain p.segs p.next
  sizes : ∀ m ∈ p.msgs, 0 < m.size
  ts : tsSorted p.msgs
  /-- the in-memory cache holds consecutive offsets that end at `next`, and agrees with the retained
  messages: it is a suffix of them, or (after retention deleted segments whose messages are still
  cached) they are a suffix of it -/
  cache : ∀ c, p.cache = some c →
    (c <:+ p.msgs ∨ p.msgs <:+ c) ∧ consecutiveFrom (p.next - c.length) c ∧ c.length ≤ p.next
  cacheCfg : p.cache.isSome = cfg.cacheOn
  dedupCfg : p.dedup.isSome = cfg.dedupOn
  dedupIds : ∀ ids, p.dedup = some ids → (∀ m ∈ p.msgs, m.id ∈ ids) ∧ (p.msgs.map (·.id)).Nodup
  cntMsgs : p.cnt.msgs = p.msgs.length
  cntSize : p.cnt.size = (p.segs.map (·.sizeBytes)).sum
  cntSegs : p.cnt.segs = p.segs.length
  offsBound : (∀ e ∈ p.consOffs, e.2 < p.next ∨ (e.2 = 0 ∧ p.next = 0)) ∧
              (∀ e ∈ p.grpOffs, e.2 < p.next ∨ (e.2 = 0 ∧ p.next = 0))
  /-- `current_offset` of a partition that never accepted a message is 0 -/
  curZero : p.shouldInc = false → p.cur = 0
  segSize : 0 < cfg.segSize

end Iggy.Log
