/-
Facts derived from the representation invariant: shape of the segment list, global consecutiveness of
the retained messages, counters.
-/
import Iggy.Log.Lemmas.Basic
namespace Iggy.Log

/-- all messages of a list of segments -/
def segsMsgs (l : List Seg) : List Msg := (l.map Seg.msgs).flatten

theorem Part.msgs_eq (p : Part) : p.msgs = segsMsgs p.segs := rfl

@[simp] theorem segsMsgs_nil : segsMsgs [] = [] := rfl
@[simp] theorem segsMsgs_cons (s : Seg) (l : List Seg) : segsMsgs (s :: l) = s.msgs ++ segsMsgs l := by
  simp [segsMsgs]
@[simp] theorem segsMsgs_append (l1 l2 : List Seg) : segsMsgs (l1 ++ l2) = segsMsgs l1 ++ segsMsgs l2 := by
  simp [segsMsgs]

theorem mem_segsMsgs {l : List Seg} {m : Msg} : m ∈ segsMsgs l ↔ ∃ s ∈ l, m ∈ s.msgs := by
  simp only [segsMsgs, List.mem_flatten, List.mem_map]
  constructor
  · rintro ⟨_, ⟨a, ha, rfl⟩, hm⟩; exact ⟨a, ha, hm⟩
  · rintro ⟨s, hs, hm⟩; exact ⟨_, ⟨s, hs, rfl⟩, hm⟩

theorem segsMsgs_map_of_msgs {l : List Seg} {f : Seg → Seg} (h : ∀ s ∈ l, (f s).msgs = s.msgs) :
    segsMsgs (l.map f) = segsMsgs l := by
  induction l with
  | nil => rfl
  | cons a l ih => simp [h a (by simp), ih (fun s hs => h s (by simp [hs]))]

/-! ## segment facts -/

theorem Seg.Inv.log_ne_nil_of_closed {cfg : Cfg} {s : Seg} (h : s.Inv cfg) (hseg : 0 < cfg.segSize)
    (hc : s.closed = true) : s.log ≠ [] := by
  obtain ⟨hacc, _, hsz⟩ := h.closed hc
  have := h.size
  intro hl
  simp [Seg.accMsgs, hacc, hl] at this
  omega

theorem Seg.Inv.msgs_ne_nil_of_closed {cfg : Cfg} {s : Seg} (h : s.Inv cfg) (hseg : 0 < cfg.segSize)
    (hc : s.closed = true) : s.msgs ≠ [] := by
  have := batchesMsgs_ne_nil h.batches (h.log_ne_nil_of_closed hseg hc)
  simp [Seg.msgs, this]

theorem Seg.Inv.accMsgs_nil_of_closed {cfg : Cfg} {s : Seg} (h : s.Inv cfg) (hc : s.closed = true) :
    s.accMsgs = [] := by
  simp [Seg.accMsgs, (h.closed hc).1]

theorem Seg.Inv.msgs_eq_log_of_closed {cfg : Cfg} {s : Seg} (h : s.Inv cfg) (hc : s.closed = true) :
    s.msgs = batchesMsgs s.log := by
  simp [Seg.msgs, h.accMsgs_nil_of_closed hc]

/-- `get_messages_count` is right as long as every message occupies at least one byte -/
theorem Seg.Inv.msgCount {cfg : Cfg} {s : Seg} (h : s.Inv cfg) (hs : ∀ m ∈ s.msgs, 0 < m.size) :
    s.msgCount = s.msgs.length := by
  unfold Seg.msgCount
  split
  · next hz =>
    have hsz := h.size
    have h1 : logBytes s.log = 0 := by omega
    have h2 : sumSizes s.accMsgs = 0 := by omega
    have h3 := logBytes_eq_zero h1
    have h4 := sumSizes_eq_zero (fun m hm => hs m (by simp [Seg.msgs, hm])) h2
    simp [Seg.msgs, h3, h4]
  · next hz =>
    have hne : s.msgs ≠ [] := by
      intro hnil
      have hsz := h.size
      simp only [Seg.msgs, List.append_eq_nil_iff] at hnil
      have hl : s.log = [] := by
        by_cases hl : s.log = []
        · exact hl
        · exact absurd hnil.1 (batchesMsgs_ne_nil h.batches hl)
      simp [hl, hnil.2] at hsz
      exact hz hsz
    have := h.cur
    have : 0 < s.msgs.length := List.length_pos_iff.2 hne
    omega

theorem Seg.Inv.log_consecutive {cfg : Cfg} {s : Seg} (h : s.Inv cfg) :
    consecutiveFrom s.start (batchesMsgs s.log) := (consecutiveFrom_append_iff.1 h.offsets).1

theorem Seg.Inv.acc_consecutive {cfg : Cfg} {s : Seg} (h : s.Inv cfg) :
    consecutiveFrom (s.start + (batchesMsgs s.log).length) s.accMsgs :=
  (consecutiveFrom_append_iff.1 h.offsets).2

/-! ## tiling -/

/-- segments tile offsets from `a` on; every segment but the last is closed -/
def tiled : Nat → List Seg → Prop
  | _, [] => True
  | a, s :: rest => s.start = a ∧ (rest ≠ [] → s.closed = true) ∧ tiled (a + s.msgs.length) rest

theorem chain_iff_tiled {l : List Seg} {n : Nat} :
    chain l n ↔ l ≠ [] ∧ ∃ a, tiled a l ∧ a + (segsMsgs l).length = n := by
  induction l with
  | nil => simp [chain]
  | cons s l ih =>
    cases l with
    | nil => simp [chain, tiled]
    | cons t r =>
      rw [chain_cons_cons, ih]
      simp only [ne_eq, reduceCtorEq, not_false_eq_true, true_and, tiled, segsMsgs_cons,
        List.length_append, forall_const]
      constructor
      · rintro ⟨h1, h2, a, ⟨h3, h4, h5⟩, h6⟩
        subst h3
        refine ⟨s.start, ⟨rfl, h2, h1.symm, ?_, ?_⟩, ?_⟩
        · exact h4
        · rw [h1]; exact h5
        · omega
      · rintro ⟨a, ⟨h1, h2, h3, h4, h5⟩, h6⟩
        subst h1
        refine ⟨h3.symm, h2, t.start, ⟨rfl, h4, ?_⟩, ?_⟩
        · rw [h3]; exact h5
        · omega

theorem tiled.consecutive {a : Nat} {l : List Seg} (h : tiled a l)
    (hc : ∀ s ∈ l, consecutiveFrom s.start s.msgs) : consecutiveFrom a (segsMsgs l) := by
  induction l generalizing a with
  | nil => simp [consecutiveFrom]
  | cons s l ih =>
    obtain ⟨h1, _, h3⟩ := h
    subst h1
    rw [segsMsgs_cons, consecutiveFrom_append_iff]
    exact ⟨hc s (by simp), ih h3 (fun t ht => hc t (by simp [ht]))⟩

theorem tiled_append {a : Nat} {l1 l2 : List Seg} :
    tiled a (l1 ++ l2) ↔
      tiled a l1 ∧ (l2 ≠ [] → ∀ s ∈ l1, s.closed = true) ∧ tiled (a + (segsMsgs l1).length) l2 := by
  induction l1 generalizing a with
  | nil => simp [tiled]
  | cons s l ih =>
    simp only [List.cons_append, tiled, ih, segsMsgs_cons, List.length_append, Nat.add_assoc]
    constructor
    · rintro ⟨h1, h2, h3, h4, h5⟩
      refine ⟨⟨h1, fun hl => h2 (by simp [hl]), h3⟩, ?_, h5⟩
      intro h2' t ht
      rcases List.mem_cons.1 ht with rfl | ht
      · exact h2 (by simp [h2'])
      · exact h4 h2' t ht
    · rintro ⟨⟨h1, h2, h3⟩, h4, h5⟩
      refine ⟨h1, ?_, h3, fun hl t ht => h4 hl t (by simp [ht]), h5⟩
      intro hne
      by_cases hl : l = []
      · subst hl
        simp at hne
        exact h4 hne s (by simp)
      · exact h2 hl

/-! ## partition facts -/

theorem Part.Inv.segs_ne_nil {cfg : Cfg} {p : Part} (h : p.Inv cfg) : p.segs ≠ [] :=
  chain_ne_nil h.chain

theorem Part.Inv.exists_snoc {cfg : Cfg} {p : Part} (h : p.Inv cfg) :
    ∃ init last, p.segs = init ++ [last] := exists_snoc_of_ne_nil h.segs_ne_nil

theorem Part.Inv.tiled {cfg : Cfg} {p : Part} (h : p.Inv cfg) :
    ∃ a, tiled a p.segs ∧ a + p.msgs.length = p.next :=
  (chain_iff_tiled.1 h.chain).2

/-- the first segment's start offset -/
def Part.firstStart (p : Part) : Nat := (p.segs.head?.map (·.start)).getD 0

theorem tiled.head_start {a : Nat} {l : List Seg} (h : Iggy.Log.tiled a l) (hl : l ≠ []) :
    (l.head?.map (·.start)).getD 0 = a := by
  cases l with
  | nil => exact absurd rfl hl
  | cons s r => simp [h.1]

theorem Part.Inv.tiled' {cfg : Cfg} {p : Part} (h : p.Inv cfg) :
    Iggy.Log.tiled p.firstStart p.segs ∧ p.firstStart + p.msgs.length = p.next := by
  obtain ⟨a, h1, h2⟩ := h.tiled
  have := h1.head_start h.segs_ne_nil
  unfold Part.firstStart
  rw [this]; exact ⟨h1, h2⟩

/-- the retained messages carry the offsets `firstStart, …, next - 1` -/
theorem Part.Inv.msgs_consecutive {cfg : Cfg} {p : Part} (h : p.Inv cfg) :
    consecutiveFrom p.firstStart p.msgs :=
  h.tiled'.1.consecutive (fun s hs => (h.segs s hs).offsets)

theorem Part.Inv.msgs_nil_of_not_inc {cfg : Cfg} {p : Part} (h : p.Inv cfg) (hi : p.shouldInc = false) :
    p.msgs = [] := by
  have := h.tiled'.2
  simp [Part.next, hi] at this
  exact this.2

theorem Part.Inv.last_facts {cfg : Cfg} {p : Part} (h : p.Inv cfg) {init : List Seg} {last : Seg}
    (hs : p.segs = init ++ [last]) :
    (∀ s ∈ init, s.closed = true) ∧ last.start + last.msgs.length = p.next ∧
      (∀ s ∈ init, s.start + s.msgs.length ≤ last.start) := by
  have hc := h.chain
  rw [hs, chain_snoc] at hc
  refine ⟨?_, hc.2, ?_⟩
  · rcases hc.1 with rfl | ⟨_, h2⟩
    · simp
    · exact h2
  · obtain ⟨a, ht, -⟩ := h.tiled
    rw [hs, tiled_append] at ht
    obtain ⟨h1, -, h3'⟩ := ht
    have h3 : last.start = a + (segsMsgs init).length := h3'.1
    clear hc hs h3'
    intro s hsm
    induction init generalizing a with
    | nil => simp at hsm
    | cons t r ih =>
      obtain ⟨e1, _, e3⟩ := h1
      rcases List.mem_cons.1 hsm with rfl | hsm
      · simp at h3; omega
      · exact ih _ e3 (by simp at h3; omega) hsm

end Iggy.Log
