/-
The dedup filter + numbering loop `number`: offsets `base + k, base + k + 1, …` are given, in order, to
exactly the accepted messages (first occurrence of every id not yet in the dedup set).
-/
import Iggy.Log.Lemmas.Basic
namespace Iggy.Log

/-- the message `number` builds -/
def mkMsg (base now k : Nat) (m : InMsg) : Msg :=
  { off := base + k, id := m.id, ts := now, size := m.size, tag := m.tag }

theorem number_acc_split (base now : Nat) (l : List InMsg) (d : Option (List Nat)) (k : Nat) (acc : List Msg) :
    number d base now l k acc =
      ((number d base now l k []).1, acc.reverse ++ (number d base now l k []).2) := by
  induction l generalizing d k acc with
  | nil => simp [number]
  | cons m rest ih =>
    cases d with
    | none =>
      simp only [number]
      rw [ih none (k + 1) (_ :: acc), ih none (k + 1) [_]]
      simp
    | some ids =>
      simp only [number]
      split
      · exact ih _ _ _
      · rw [ih _ (k + 1) (_ :: acc), ih _ (k + 1) [_]]
        simp

theorem number_nil (base now : Nat) (d : Option (List Nat)) (k : Nat) :
    number d base now [] k [] = (d, []) := rfl

theorem number_cons_none (base now : Nat) (m : InMsg) (l : List InMsg) (k : Nat) :
    number none base now (m :: l) k [] =
      ((number none base now l (k + 1) []).1, mkMsg base now k m :: (number none base now l (k + 1) []).2) := by
  simp only [number]
  rw [number_acc_split]; rfl

theorem number_cons_some_dup (base now : Nat) (m : InMsg) (l : List InMsg) (k : Nat) (ids : List Nat)
    (h : ids.contains m.id = true) :
    number (some ids) base now (m :: l) k [] = number (some ids) base now l k [] := by
  simp only [number, h, if_true]

theorem number_cons_some_new (base now : Nat) (m : InMsg) (l : List InMsg) (k : Nat) (ids : List Nat)
    (h : ids.contains m.id = false) :
    number (some ids) base now (m :: l) k [] =
      ((number (some (m.id :: ids)) base now l (k + 1) []).1,
        mkMsg base now k m :: (number (some (m.id :: ids)) base now l (k + 1) []).2) := by
  simp only [number, h, Bool.false_eq_true, if_false]
  rw [number_acc_split]; rfl

/-- what `number` guarantees about its result `(d', r)` -/
structure NumberSpec (d : Option (List Nat)) (base now : Nat) (l : List InMsg) (k : Nat)
    (d' : Option (List Nat)) (r : List Msg) : Prop where
  cons : consecutiveFrom (base + k) r
  ts : ∀ m ∈ r, m.ts = now
  sizes : (∀ m ∈ l, 0 < m.size) → ∀ m ∈ r, 0 < m.size
  isSome : d'.isSome = d.isSome
  ids : ∀ ids, d = some ids → ∃ ids', d' = some ids' ∧ (∀ i ∈ ids, i ∈ ids') ∧
    (∀ m ∈ r, m.id ∈ ids') ∧ (∀ m ∈ r, m.id ∉ ids) ∧ (r.map (·.id)).Nodup

theorem number_spec (base now : Nat) (l : List InMsg) (d : Option (List Nat)) (k : Nat) :
    NumberSpec d base now l k (number d base now l k []).1 (number d base now l k []).2 := by
  induction l generalizing d k with
  | nil =>
    rw [number_nil]
    exact ⟨trivial, by simp, by simp, rfl, fun ids h => ⟨ids, h, fun _ h => h, by simp, by simp, by simp⟩⟩
  | cons m rest ih =>
    cases d with
    | none =>
      rw [number_cons_none]
      have := ih none (k + 1)
      refine ⟨⟨rfl, by simpa [Nat.add_assoc] using this.cons⟩, ?_, ?_, this.isSome, by simp⟩
      · intro x hx
        rcases List.mem_cons.1 hx with rfl | hx
        · rfl
        · exact this.ts x hx
      · intro hs x hx
        rcases List.mem_cons.1 hx with rfl | hx
        · exact hs m (by simp)
        · exact this.sizes (fun y hy => hs y (by simp [hy])) x hx
    | some ids =>
      by_cases hc : ids.contains m.id = true
      · rw [number_cons_some_dup _ _ _ _ _ _ hc]
        have := ih (some ids) k
        exact ⟨this.cons, this.ts, fun hs => this.sizes (fun y hy => hs y (by simp [hy])), this.isSome,
          this.ids⟩
      · have hc' : ids.contains m.id = false := by simpa using hc
        rw [number_cons_some_new _ _ _ _ _ _ hc']
        have := ih (some (m.id :: ids)) (k + 1)
        refine ⟨⟨rfl, by simpa [Nat.add_assoc] using this.cons⟩, ?_, ?_, this.isSome, ?_⟩
        · intro x hx
          rcases List.mem_cons.1 hx with rfl | hx
          · rfl
          · exact this.ts x hx
        · intro hs x hx
          rcases List.mem_cons.1 hx with rfl | hx
          · exact hs m (by simp)
          · exact this.sizes (fun y hy => hs y (by simp [hy])) x hx
        · intro ids0 hids0
          cases hids0
          obtain ⟨ids', h1, h2, h3, h4, h5⟩ := this.ids _ rfl
          have hnot : m.id ∉ ids := by simpa using hc'
          refine ⟨ids', h1, fun i hi => h2 i (by simp [hi]), ?_, ?_, ?_⟩
          · intro x hx
            rcases List.mem_cons.1 hx with rfl | hx
            · exact h2 _ (by simp [mkMsg])
            · exact h3 x hx
          · intro x hx
            rcases List.mem_cons.1 hx with rfl | hx
            · exact hnot
            · intro hin; exact h4 x hx (by simp [hin])
          · simp only [List.map_cons, List.nodup_cons]
            refine ⟨?_, h5⟩
            intro hin
            obtain ⟨x, hx, hxe⟩ := List.mem_map.1 hin
            exact h4 x hx (by simp [hxe, mkMsg])

end Iggy.Log
