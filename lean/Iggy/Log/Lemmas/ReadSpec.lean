/-
Interface between the segment-level and the partition-level read proofs.
-/
import Iggy.Log.Lemmas.SegOps
namespace Iggy.Log

/-- What the partition-level read proofs need from a segment: `Seg.getByOffset off count` returns
exactly the segment's messages with offsets in `[lo, lo + count)`, `lo = max off s.start`
(proved for every segment satisfying `Seg.Inv` in `Lemmas/ReadSeg.lean`). -/
def SegReadSpec (cfg : Cfg) : Prop :=
  ∀ s : Seg, s.Inv cfg → ∀ off count : Nat,
    s.getByOffset off count =
      s.msgs.filter (fun m => max off s.start ≤ m.off ∧ m.off < max off s.start + count)

end Iggy.Log
