/-
Lemmas about polls under no-wait confirmation (definitions: Iggy/Log/NoWait.lean).
Proof device: `run s l` = the longest prefix of `l` whose offsets are `s, s+1, …`; the fixed read paths
compute `run` of what the tiers show, and `run` of a sub-sequence of a gap-free list is a prefix of it.
-/
import Iggy.Log.NoWait
import Iggy.Log.SpecProps
import Iggy.Log.Lemmas.Basic
namespace Iggy.Log.NoWait
open Iggy.Log

/-- longest prefix of `l` with offsets `s, s+1, …` -/
def run : Nat → List Msg → List Msg
  | _, [] => []
  | s, x :: r => if x.off = s then x :: run (s + 1) r else []

theorem contigPrefix_cons_eq_run (x : Msg) (r : List Msg) :
    contigPrefix (x :: r) = run x.off (x :: r) := by
  induction r generalizing x with
  | nil => simp [contigPrefix, run]
  | cons z r ih =>
    simp only [contigPrefix]
    by_cases h : z.off = x.off + 1
    · rw [if_pos h, ih z]
      simp [run, h]
    · rw [if_neg h]
      simp [run, h]

theorem head?_contigPrefix (l : List Msg) : (contigPrefix l).head? = l.head? := by
  match l with
  | [] => rfl
  | [a] => rfl
  | a :: b :: r => simp only [contigPrefix]; split <;> rfl

theorem visibleByOffset_eq_run (seen : List Msg) (lo cur start count : Nat) :
    visibleByOffset seen lo cur start count =
      if max start lo > cur then [] else run (max start lo) (rawByOffset seen lo start count) := by
  unfold visibleByOffset
  split
  · rfl
  · simp only
    cases h : rawByOffset seen lo start count with
    | nil => simp [contigPrefix, run]
    | cons f r =>
      simp only [List.head?_cons, Option.any_some, bne_iff_ne, ne_eq]
      by_cases hf : f.off = max start lo
      · rw [if_neg (by simpa using hf), contigPrefix_cons_eq_run, hf]
      · rw [if_pos (by simpa using hf)]
        simp [run, hf]

theorem run_prefix_self (s : Nat) (l : List Msg) : run s l <+: l := by
  induction l generalizing s with
  | nil => exact List.prefix_refl _
  | cons x r ih =>
    simp only [run]
    split
    · exact (List.cons_prefix_cons).2 ⟨rfl, ih _⟩
    · exact List.nil_prefix

theorem run_of_consecutive {s : Nat} {l : List Msg} (h : consecutiveFrom s l) : run s l = l := by
  induction l generalizing s with
  | nil => rfl
  | cons x r ih => simp only [run, h.1, if_true, ih h.2]

/-- a sub-sequence of offsets `> s` has an empty `s`-run -/
theorem run_eq_nil_of_lt {s s' : Nat} {r a : List Msg} (hs : r.Sublist a) (hc : consecutiveFrom s' a)
    (h : s < s') : run s r = [] := by
  cases r with
  | nil => rfl
  | cons x r' =>
    have hx : x ∈ a := hs.subset (List.mem_cons_self ..)
    have := consecutiveFrom_mem_ge s' a hc x hx
    have hne : x.off ≠ s := by omega
    simp [run, hne]

/-- more visible ⇒ longer run -/
theorem run_mono {s : Nat} {r₁ r₂ a : List Msg} (h₁ : r₁.Sublist r₂) (h₂ : r₂.Sublist a)
    (hc : consecutiveFrom s a) : run s r₁ <+: run s r₂ := by
  induction a generalizing s r₁ r₂ with
  | nil =>
    have := List.sublist_nil.1 h₂; subst this
    have := List.sublist_nil.1 h₁; subst this
    exact List.prefix_refl _
  | cons y a' ih =>
    rcases List.sublist_cons_iff.1 h₂ with h₂' | ⟨r₂', rfl, h₂'⟩
    · rw [run_eq_nil_of_lt (h₁.trans h₂') hc.2 (Nat.lt_succ_self s)]
      exact List.nil_prefix
    · rcases List.sublist_cons_iff.1 h₁ with h₁' | ⟨r₁', rfl, h₁'⟩
      · rw [run_eq_nil_of_lt (h₁'.trans h₂') hc.2 (Nat.lt_succ_self s)]
        exact List.nil_prefix
      · simp only [run, hc.1, if_true]
        exact (List.cons_prefix_cons).2 ⟨rfl, ih h₁' h₂' hc.2⟩

/-- the run of a sub-sequence of a gap-free list is a prefix of that list -/
theorem run_prefix_of_sublist {s : Nat} {r a : List Msg} (hs : r.Sublist a) (hc : consecutiveFrom s a) :
    run s r <+: a := by
  have := run_mono hs (List.Sublist.refl a) hc
  rwa [run_of_consecutive hc] at this

theorem run_prefix_mono {s : Nat} {l₁ l₂ : List Msg} (h : l₁ <+: l₂) : run s l₁ <+: run s l₂ := by
  obtain ⟨t, rfl⟩ := h
  induction l₁ generalizing s with
  | nil => exact List.nil_prefix
  | cons x l ih =>
    simp only [List.cons_append, run]
    split
    · exact (List.cons_prefix_cons).2 ⟨rfl, ih⟩
    · exact List.prefix_refl _

theorem run_take (s n : Nat) (l : List Msg) : run s (l.take n) = (run s l).take n := by
  induction l generalizing s n with
  | nil => simp [run]
  | cons x r ih =>
    cases n with
    | zero => simp [run]
    | succ n =>
      simp only [List.take_succ_cons, run]
      split
      · simp [ih]
      · simp

/-! ## facts about the accepted messages -/

theorem consecutiveFrom_take {c : Nat} {l : List Msg} (h : consecutiveFrom c l) (n : Nat) :
    consecutiveFrom c (l.take n) := by
  have := h
  rw [← List.take_append_drop n l, consecutiveFrom_append_iff] at this
  exact this.1

theorem consecutiveFrom_filter_ge {lo s : Nat} {l : List Msg} (h : consecutiveFrom lo l) (hs : lo ≤ s) :
    consecutiveFrom s (l.filter (fun m => s ≤ m.off)) := by
  induction l generalizing lo with
  | nil => trivial
  | cons y a ih =>
    by_cases hy : s ≤ y.off
    · have hlo : s = lo := by have := h.1; omega
      subst hlo
      have hall : (y :: a).filter (fun m => s ≤ m.off) = y :: a := by
        rw [List.filter_eq_self]
        intro m hm
        have := (consecutiveFrom.bounds h m hm).1
        simpa using this
      rw [hall]; exact h
    · rw [List.filter_cons_of_neg (by simpa using hy)]
      exact ih h.2 (by have := h.1; omega)

/-- offsets and timestamps grow together along the accepted messages -/
theorem ts_le_of_off_le {lo : Nat} {l : List Msg} (hc : consecutiveFrom lo l) (hts : tsSorted l)
    {a b : Msg} (ha : a ∈ l) (hb : b ∈ l) (h : a.off ≤ b.off) : a.ts ≤ b.ts := by
  rw [tsSorted_iff_pairwise] at hts
  induction l generalizing lo with
  | nil => cases ha
  | cons y l ih =>
    have hp := List.pairwise_cons.1 hts
    rcases List.mem_cons.1 ha with rfl | ha'
    · rcases List.mem_cons.1 hb with rfl | hb'
      · exact Nat.le_refl _
      · exact hp.1 b hb'
    · rcases List.mem_cons.1 hb with rfl | hb'
      · have := (consecutiveFrom.bounds hc.2 a ha').1
        have := hc.1
        omega
      · exact ih hc.2 hp.2 ha' hb'

/-- every offset between the first retained one and an accepted one is accepted (no gap) -/
theorem exists_off {lo : Nat} {l : List Msg} (hc : consecutiveFrom lo l) {f : Msg} (hf : f ∈ l)
    {k : Nat} (h1 : lo ≤ k) (h2 : k ≤ f.off) : ∃ p ∈ l, p.off = k := by
  induction l generalizing lo with
  | nil => cases hf
  | cons y l ih =>
    by_cases hk : k = lo
    · exact ⟨y, List.mem_cons_self .., by rw [hc.1, hk]⟩
    · rcases List.mem_cons.1 hf with rfl | hf'
      · have := hc.1; omega
      · obtain ⟨p, hp, hpk⟩ := ih hc.2 hf' (by omega)
        exact ⟨p, List.mem_cons_of_mem _ hp, hpk⟩

/-- if `f` matches and everything before it is older than `t`, the matches are exactly the accepted
messages from `f` on -/
theorem filter_ts_eq_filter_off {lo : Nat} {acc : List Msg} (hc : consecutiveFrom lo acc)
    (hts : tsSorted acc) {f : Msg} {t : Nat} (hf : f ∈ acc) (hft : t ≤ f.ts)
    (hbefore : ∀ m ∈ acc, m.off < f.off → m.ts < t) :
    acc.filter (fun m => t ≤ m.ts) = acc.filter (fun m => f.off ≤ m.off) := by
  apply List.filter_congr
  intro m hm
  by_cases h : m.off < f.off
  · have := hbefore m hm h
    simp only [decide_eq_decide]
    omega
  · have := ts_le_of_off_le hc hts hf hm (by omega)
    simp only [decide_eq_decide]
    omega

/-! ## the specification's answers as filters -/

theorem specAnswerByOffset_eq_filter {lo : Nat} {acc : List Msg} (hc : consecutiveFrom lo acc)
    (start count : Nat) :
    specAnswerByOffset acc start count =
      acc.filter (fun m => max start lo ≤ m.off ∧ m.off < max start lo + count) := by
  cases acc with
  | nil => simp [specAnswerByOffset, specPart, SPart.pollOffset]
  | cons y a => simp [specAnswerByOffset, specPart, SPart.pollOffset, hc.1]

theorem specAnswerByOffset_consecutive {lo : Nat} {acc : List Msg} (hc : consecutiveFrom lo acc)
    (start count : Nat) : consecutiveFrom (max start lo) (specAnswerByOffset acc start count) := by
  rw [specAnswerByOffset_eq_filter hc]
  have := consecutiveFrom_filter_range lo (max start lo) (max start lo + count) acc hc
  rwa [Nat.max_eq_right (Nat.le_max_right start lo)] at this

end Iggy.Log.NoWait
