/-
`Part.create` and `Part.append` refine `SPart.create` and `SPart.append`.
-/
import Iggy.Log.Lemmas.Persist
import Iggy.Log.Lemmas.Number
namespace Iggy.Log

/-! ## create -/

theorem Part.create_inv {cfg : Cfg} (e : Option Nat) (now : Nat) (hseg : 0 < cfg.segSize) :
    (Part.create cfg e now).Inv cfg where
  segs := by
    intro s hs
    simp only [Part.create, List.mem_singleton] at hs
    subst hs; exact Seg.create_inv cfg 0 now hseg
  chain := by simp [Part.create, chain, Part.next]
  sizes := by simp [Part.create, Part.msgs]
  ts := by simp [Part.create, Part.msgs, tsSorted]
  cache := by
    intro c hc
    have : c = [] := by
      simp only [Part.create] at hc
      split at hc <;> simp_all
    subst this
    simp [consecutiveFrom]
  cacheCfg := by simp only [Part.create]; split <;> simp_all
  dedupCfg := by simp only [Part.create]; split <;> simp_all
  dedupIds := by simp [Part.create, Part.msgs]
  cntMsgs := by simp [Part.create, Part.msgs]
  cntSize := by simp [Part.create]
  cntSegs := by simp [Part.create]
  offsBound := by simp [Part.create]
  curZero := by simp [Part.create]
  segSize := hseg

theorem Part.create_abs (cfg : Cfg) (e : Option Nat) (now : Nat) :
    abs (Part.create cfg e now) = SPart.create cfg e := by
  simp [abs, Part.create, SPart.create, Part.msgs, Part.next]

/-! ## append, step 1: roll over to a fresh segment when the last one is closed -/

def Part.roll (cfg : Cfg) (p : Part) (now : Nat) : Part :=
  match p.segs.getLast? with
  | some last => if last.closed then p.addSegment cfg (last.endOff + 1) now else p
  | none => p

/-- the state after the accepted messages were numbered and buffered -/
def Part.accepted (p : Part) (d' : Option (List Nat)) (retained : List Msg) : Part :=
  { p with
    dedup := d', cur := p.next + (retained.length - 1), shouldInc := true
    segs := updLast p.segs (fun s => s.appendBatch (sumSizes retained) retained)
    cnt := { p.cnt with size := p.cnt.size + sumSizes retained, msgs := p.cnt.msgs + retained.length }
    cache := p.cache.map (· ++ retained), unsaved := p.unsaved + retained.length }

def Part.maybePersist (cfg : Cfg) (p : Part) : Except Err Part :=
  match p.segs.getLast? with
  | none => .error .segmentNotFound
  | some last =>
    if cfg.reqToSave ≤ p.unsaved ∨ last.isFull cfg then
      .ok { p with segs := updLast p.segs (fun _ => (last.persist cfg).1), unsaved := 0
                   cnt := { p.cnt with size := p.cnt.size + (last.persist cfg).2 } }
    else .ok p

/-- `Part.append` in steps -/
theorem Part.append_eq (cfg : Cfg) (p : Part) (now : Nat) (msgs : List InMsg) :
    p.append cfg now msgs =
      match p.segs.getLast? with
      | none => .error .segmentNotFound
      | some _ =>
        let p1 := p.roll cfg now
        let r := number p1.dedup p1.next now msgs 0 []
        if r.2.isEmpty then .ok { p1 with dedup := r.1 }
        else (p1.accepted r.1 r.2).maybePersist cfg := by
  unfold Part.append
  cases h : p.segs.getLast? with
  | none => rfl
  | some last =>
    simp only [Part.roll, h]
    rfl

theorem Part.roll_spec {cfg : Cfg} {p : Part} (h : p.Inv cfg) (now : Nat) :
    (p.roll cfg now).Inv cfg ∧ abs (p.roll cfg now) = abs p ∧ (p.roll cfg now).msgs = p.msgs ∧
      ∃ init last, (p.roll cfg now).segs = init ++ [last] ∧ last.closed = false := by
  obtain ⟨init, last, hs⟩ := h.exists_snoc
  have hl : p.segs.getLast? = some last := by simp [hs]
  unfold Part.roll
  simp only [hl]
  split
  · next hc =>
    have hlast : last.Inv cfg := h.segs last (by simp [hs])
    obtain ⟨hclosedInit, hnext, hle⟩ := h.last_facts hs
    have hne := hlast.msgs_ne_nil_of_closed h.segSize hc
    have hlen : 0 < last.msgs.length := List.length_pos_iff.2 hne
    have hend : last.endOff + 1 = p.next := by
      rw [(hlast.closed hc).2.1, hlast.cur]; omega
    have hsegs : (p.addSegment cfg (last.endOff + 1) now).segs = p.segs ++ [Seg.create cfg p.next now] := by
      simp only [Part.addSegment, hend]
      apply insertSorted_snoc
      intro s hsm
      rw [hs] at hsm
      simp only [List.mem_append, List.mem_singleton] at hsm
      rcases hsm with hsm | rfl
      · have := hle s hsm; simp; omega
      · simp; omega
    have hm : (p.addSegment cfg (last.endOff + 1) now).msgs = p.msgs := by
      rw [Part.msgs_eq, hsegs, Part.msgs_eq]; simp
    refine ⟨?_, abs_eq_of_same hm rfl rfl rfl rfl rfl rfl, hm, p.segs, _, hsegs, rfl⟩
    refine h.of_same_msgs hm rfl rfl rfl rfl rfl rfl ?_ ?_ rfl ?_ ?_
    · intro s hsm
      rw [hsegs] at hsm
      simp only [List.mem_append, List.mem_singleton] at hsm
      rcases hsm with hsm | rfl
      · exact h.segs s hsm
      · exact Seg.create_inv cfg _ now h.segSize
    · rw [hsegs, chain_snoc]
      refine ⟨Or.inr ⟨?_, ?_⟩, by simp⟩
      · simpa using h.chain
      · intro s hsm
        rw [hs] at hsm
        simp only [List.mem_append, List.mem_singleton] at hsm
        rcases hsm with hsm | rfl
        · exact hclosedInit s hsm
        · exact hc
    · rw [hsegs]
      show p.cnt.size = _
      simp [h.cntSize]
    · rw [hsegs]
      show p.cnt.segs + 1 = _
      simp [h.cntSegs]
  · next hc =>
    exact ⟨h, rfl, rfl, init, last, hs, by simpa using hc⟩

/-! ## append, step 2: buffer the accepted messages -/

theorem Part.accepted_spec {cfg : Cfg} {p : Part} (h : p.Inv cfg) {init : List Seg} {last : Seg}
    (hs : p.segs = init ++ [last]) (hopen : last.closed = false) {now : Nat} {l : List InMsg}
    {d' : Option (List Nat)} {r : List Msg} (hn : NumberSpec p.dedup p.next now l 0 d' r) (hne : r ≠ [])
    (hsz : ∀ m ∈ l, 0 < m.size) (hts : ∀ m ∈ p.msgs, m.ts ≤ now) :
    (p.accepted d' r).Inv cfg ∧
      abs (p.accepted d' r) = { abs p with msgs := p.msgs ++ r, next := p.next + r.length, ids := d' } ∧
      (p.accepted d' r).segs = init ++ [last.appendBatch (sumSizes r) r] := by
  have hlast : last.Inv cfg := h.segs last (by simp [hs])
  obtain ⟨hclosedInit, hnext, hle⟩ := h.last_facts hs
  have hlen : 0 < r.length := List.length_pos_iff.2 hne
  have hcons : consecutiveFrom p.next r := by simpa using hn.cons
  have hsegs : (p.accepted d' r).segs = init ++ [last.appendBatch (sumSizes r) r] := by
    simp [Part.accepted, hs]
  have hm : (p.accepted d' r).msgs = p.msgs ++ r := by
    rw [Part.msgs_eq, hsegs, Part.msgs_eq, hs]
    simp [Seg.appendBatch_msgs hne]
  have hnx : (p.accepted d' r).next = p.next + r.length := by
    simp only [Part.accepted, Part.next]; simp; omega
  have hlastmem : ∀ m ∈ last.msgs, m ∈ p.msgs := by
    intro m hm'
    rw [Part.msgs_eq, hs]; simp [hm']
  have hlast' : (last.appendBatch (sumSizes r) r).Inv cfg :=
    Seg.appendBatch_inv hlast hopen hne (by rw [hnext]; exact hcons)
      (fun m hm' => hts m (hlastmem m hm')) hn.ts
  refine ⟨?_, ?_, hsegs⟩
  · refine
      { segs := ?_
        chain := ?_
        sizes := ?_
        ts := ?_
        cache := ?_
        cacheCfg := ?_
        dedupCfg := ?_
        dedupIds := ?_
        cntMsgs := ?_
        cntSize := ?_
        cntSegs := ?_
        offsBound := ?_
        curZero := by simp [Part.accepted]
        segSize := h.segSize }
    · intro s hsm
      rw [hsegs] at hsm
      simp only [List.mem_append, List.mem_singleton] at hsm
      rcases hsm with hsm | rfl
      · exact h.segs s (by simp [hs, hsm])
      · exact hlast'
    · rw [hsegs, hnx, chain_snoc]
      have hc := h.chain
      rw [hs, chain_snoc] at hc
      refine ⟨hc.1, ?_⟩
      rw [Seg.appendBatch_start, Seg.appendBatch_msgs hne]
      simp only [List.length_append]; omega
    · rw [hm]
      intro m hm'
      rcases List.mem_append.1 hm' with hm' | hm'
      · exact h.sizes m hm'
      · exact hn.sizes hsz m hm'
    · rw [hm, tsSorted_iff_pairwise, List.pairwise_append]
      refine ⟨tsSorted_iff_pairwise.1 h.ts, ?_, ?_⟩
      · have : ∀ m ∈ r, m.ts = now := hn.ts
        clear hm hcons hne hlen hn hlast' hsegs hnx
        induction r with
        | nil => simp
        | cons a t ih =>
          refine List.pairwise_cons.2 ⟨?_, ih (fun m hm => this m (by simp [hm]))⟩
          intro b hb
          rw [this a (by simp), this b (by simp [hb])]
          exact Nat.le_refl _
      · intro a ha b hb
        rw [hn.ts b hb]; exact hts a ha
    · intro c' hc'
      rw [hm, hnx]
      have : ∃ c, p.cache = some c ∧ c' = c ++ r := by
        simp only [Part.accepted] at hc'
        cases hpc : p.cache with
        | none => simp [hpc] at hc'
        | some c => simp [hpc] at hc'; exact ⟨c, rfl, hc'.symm⟩
      obtain ⟨c, hpc, rfl⟩ := this
      obtain ⟨hsuf, hcc, hcl⟩ := h.cache c hpc
      refine ⟨?_, ?_, ?_⟩
      · rcases hsuf with hsuf | hsuf
        · exact Or.inl (List.suffix_append_self_iff.2 hsuf)
        · exact Or.inr (List.suffix_append_self_iff.2 hsuf)
      · simp only [List.length_append]
        have e1 : p.next + r.length - (c.length + r.length) = p.next - c.length := by omega
        rw [e1, consecutiveFrom_append_iff]
        refine ⟨hcc, ?_⟩
        have e2 : p.next - c.length + c.length = p.next := by omega
        rw [e2]; exact hcons
      · simp only [List.length_append]; omega
    · have := h.cacheCfg
      simp only [Part.accepted]
      cases hpc : p.cache <;> simp_all
    · show d'.isSome = _
      rw [hn.isSome]; exact h.dedupCfg
    · intro ids' hids'
      have hids' : d' = some ids' := hids'
      cases hpd : p.dedup with
      | none =>
        have := hn.isSome
        simp [hpd, hids'] at this
      | some ids =>
        obtain ⟨ids'', e1, e2, e3, e4, e5⟩ := hn.ids ids hpd
        rw [hids'] at e1; cases e1
        obtain ⟨i1, i2⟩ := h.dedupIds ids hpd
        rw [hm]
        refine ⟨?_, ?_⟩
        · intro m hm'
          rcases List.mem_append.1 hm' with hm' | hm'
          · exact e2 _ (i1 m hm')
          · exact e3 m hm'
        · rw [List.map_append, List.nodup_append]
          refine ⟨i2, e5, ?_⟩
          intro a ha b hb hab
          obtain ⟨x, hx, rfl⟩ := List.mem_map.1 ha
          obtain ⟨y, hy, rfl⟩ := List.mem_map.1 hb
          exact e4 y hy (hab ▸ i1 x hx)
    · rw [hm]
      show p.cnt.msgs + r.length = _
      simp [h.cntMsgs]
    · rw [hsegs]
      show p.cnt.size + sumSizes r = _
      rw [h.cntSize, hs]
      simp; omega
    · rw [hsegs]
      show p.cnt.segs = _
      rw [h.cntSegs, hs]; simp
    · rw [hnx]
      have := h.offsBound
      constructor
      · intro e he
        rcases this.1 e he with h1 | ⟨h1, h2⟩
        · left; omega
        · left; omega
      · intro e he
        rcases this.2 e he with h1 | ⟨h1, h2⟩
        · left; omega
        · left; omega
  · simp only [abs, hm, hnx]
    rfl

/-! ## append, step 3: persist when the threshold is reached or the segment is full -/

theorem Part.maybePersist_spec {cfg : Cfg} {p : Part} (h : p.Inv cfg) :
    ∃ p', p.maybePersist cfg = .ok p' ∧ p'.Inv cfg ∧ abs p' = abs p := by
  obtain ⟨init, last, hs⟩ := h.exists_snoc
  have hl : p.segs.getLast? = some last := by simp [hs]
  unfold Part.maybePersist
  simp only [hl]
  split
  · refine ⟨_, rfl, ?_⟩
    simp only [hs, updLast_snoc]
    exact h.persist_last hs (PersistRel.persist (h.segs last (by simp [hs]))) 0 _ rfl
  · exact ⟨p, rfl, h, rfl⟩

/-! ## append -/

theorem Part.append_refines {cfg : Cfg} {p : Part} {now : Nat} {msgs : List InMsg} (h : p.Inv cfg)
    (hsz : ∀ m ∈ msgs, 0 < m.size) (hts : ∀ m ∈ p.msgs, m.ts ≤ now) :
    ∃ p', p.append cfg now msgs = .ok p' ∧ p'.Inv cfg ∧ abs p' = (abs p).append now msgs := by
  obtain ⟨init0, last0, hs0⟩ := h.exists_snoc
  have hl : p.segs.getLast? = some last0 := by simp [hs0]
  rw [Part.append_eq]
  simp only [hl]
  obtain ⟨h1, habs1, hm1, init, last, hs, hopen⟩ := Part.roll_spec h now
  have hnext1 : (p.roll cfg now).next = p.next := by
    have := congrArg SPart.next habs1; simpa [abs] using this
  have hdedup1 : (p.roll cfg now).dedup = p.dedup := by
    have := congrArg SPart.ids habs1; simpa [abs] using this
  have hn := number_spec (p.roll cfg now).next now msgs (p.roll cfg now).dedup 0
  have hspec : (abs p).append now msgs =
      { abs p with
        msgs := p.msgs ++ (number (p.roll cfg now).dedup (p.roll cfg now).next now msgs 0 []).2
        next := p.next + (number (p.roll cfg now).dedup (p.roll cfg now).next now msgs 0 []).2.length
        ids := (number (p.roll cfg now).dedup (p.roll cfg now).next now msgs 0 []).1 } := by
    rw [hnext1, hdedup1]; rfl
  generalize number (p.roll cfg now).dedup (p.roll cfg now).next now msgs 0 [] = r at hn hspec ⊢
  by_cases he : r.2 = []
  · simp only [he, List.isEmpty_nil, if_true]
    refine ⟨_, rfl, ?_, ?_⟩
    · have hmsgs : ({ p.roll cfg now with dedup := r.1 } : Part).msgs = (p.roll cfg now).msgs := rfl
      have hbase := h1.of_same_msgs (p' := { p.roll cfg now with dedup := (p.roll cfg now).dedup })
        rfl rfl rfl rfl rfl rfl rfl h1.segs h1.chain rfl h1.cntSize h1.cntSegs
      exact
        { hbase with
          dedupCfg := by show r.1.isSome = _; rw [hn.isSome]; exact h1.dedupCfg
          dedupIds := by
            intro ids' hids'
            have hids' : r.1 = some ids' := hids'
            rw [hmsgs]
            cases hpd : (p.roll cfg now).dedup with
            | none => have := hn.isSome; simp [hpd, hids'] at this
            | some ids =>
              obtain ⟨ids'', e1, e2, -⟩ := hn.ids ids hpd
              rw [hids'] at e1; cases e1
              obtain ⟨i1, i2⟩ := h1.dedupIds ids hpd
              exact ⟨fun m hm => e2 _ (i1 m hm), i2⟩ }
    · rw [hspec, he]
      simp only [abs, List.append_nil, List.length_nil, Nat.add_zero]
      show _ = ({ msgs := p.msgs, next := p.next, ids := r.1, consOffs := p.consOffs,
                  grpOffs := p.grpOffs, expiry := p.expiry } : SPart)
      have e1 : (p.roll cfg now).consOffs = p.consOffs := by
        have := congrArg SPart.consOffs habs1; simpa [abs] using this
      have e2 : (p.roll cfg now).grpOffs = p.grpOffs := by
        have := congrArg SPart.grpOffs habs1; simpa [abs] using this
      have e3 : (p.roll cfg now).expiry = p.expiry := by
        have := congrArg SPart.expiry habs1; simpa [abs] using this
      have e4 : ({ p.roll cfg now with dedup := r.1 } : Part).next = p.next := hnext1
      have e5 : ({ p.roll cfg now with dedup := r.1 } : Part).msgs = p.msgs := hm1
      rw [e4, e5]
      simp [e1, e2, e3]
  · have he' : r.2.isEmpty = false := by simpa using he
    simp only [he', Bool.false_eq_true, if_false]
    obtain ⟨h2, habs2, -⟩ := Part.accepted_spec h1 hs hopen hn he hsz (by rw [hm1]; exact hts)
    obtain ⟨p', hp', h3, habs3⟩ := Part.maybePersist_spec (cfg := cfg) h2
    refine ⟨p', hp', h3, ?_⟩
    rw [habs3, habs2, hspec, habs1, hm1, hnext1]

end Iggy.Log
