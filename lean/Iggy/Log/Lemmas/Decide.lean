/-
`Seg.Inv` and `Part.Inv` are decidable: the judge can evaluate them on every replayed model state, and
concrete (non-)instances close by `decide`.
-/
import Iggy.Log.Abs
namespace Iggy.Log

instance chainDecidable : (l : List Seg) → (n : Nat) → Decidable (chain l n)
  | [], _ => isFalse (fun h => h)
  | [s], n => inferInstanceAs (Decidable (s.start + s.msgs.length = n))
  | s :: t :: rest, n =>
    have := chainDecidable (t :: rest) n
    inferInstanceAs (Decidable (s.start + s.msgs.length = t.start ∧ s.closed = true ∧ chain (t :: rest) n))

/-- `Seg.Inv` as one decidable conjunction -/
def Seg.InvD (cfg : Cfg) (s : Seg) : Prop :=
  (∀ b ∈ s.log, b.WF) ∧ consecutiveFrom s.start s.msgs ∧ s.idxFile = mkIdx s.start 0 s.log ∧
  s.idxCache = (if cfg.idxCacheOn then some s.idxFile else none) ∧ s.lastIdxPos = logBytes s.log ∧
  s.sizeBytes = logBytes s.log + sumSizes s.accMsgs ∧ s.cur = s.start + (s.msgs.length - 1) ∧
  (∀ a, a ∈ s.acc → (a.msgs ≠ [] →
    a.msgs.head?.map (·.off) = some a.base ∧ a.msgs.getLast?.map (·.off) = some a.cur ∧
    a.msgs.getLast?.map (·.ts) = some a.curTs)) ∧
  (∀ m ∈ s.msgs, m.ts ≤ s.endTs) ∧
  (s.closed = true → s.acc = none ∧ s.endOff = s.cur ∧ cfg.segSize ≤ s.sizeBytes) ∧
  (s.closed = false → s.sizeBytes < cfg.segSize ∨ s.accMsgs ≠ [])

instance (cfg : Cfg) (s : Seg) : Decidable (s.InvD cfg) := by unfold Seg.InvD; infer_instance

theorem Seg.inv_iff_invD {cfg : Cfg} {s : Seg} : s.Inv cfg ↔ s.InvD cfg :=
  ⟨fun h => ⟨h.batches, h.offsets, h.idxFile, h.idxCache, h.pos, h.size, h.cur,
      fun a ha => h.accHdr a (Option.mem_def.1 ha), h.endTs, h.closed, h.open_⟩,
   fun ⟨h1, h2, h3, h4, h5, h6, h7, h8, h9, h10, h11⟩ =>
    ⟨h1, h2, h3, h4, h5, h6, h7, fun a ha => h8 a (Option.mem_def.2 ha), h9, h10, h11⟩⟩

instance (cfg : Cfg) (s : Seg) : Decidable (s.Inv cfg) := decidable_of_iff _ Seg.inv_iff_invD.symm

/-- `Part.Inv` as one decidable conjunction -/
def Part.InvD (cfg : Cfg) (p : Part) : Prop :=
  (∀ s ∈ p.segs, s.Inv cfg) ∧ chain p.segs p.next ∧ (∀ m ∈ p.msgs, 0 < m.size) ∧ tsSorted p.msgs ∧
  (∀ c, c ∈ p.cache →
    (c <:+ p.msgs ∨ p.msgs <:+ c) ∧ consecutiveFrom (p.next - c.length) c ∧ c.length ≤ p.next) ∧
  p.cache.isSome = cfg.cacheOn ∧ p.dedup.isSome = cfg.dedupOn ∧
  (∀ ids, ids ∈ p.dedup → (∀ m ∈ p.msgs, m.id ∈ ids) ∧ (p.msgs.map (·.id)).Nodup) ∧
  p.cnt.msgs = p.msgs.length ∧ p.cnt.size = (p.segs.map (·.sizeBytes)).sum ∧
  p.cnt.segs = p.segs.length ∧
  ((∀ e ∈ p.consOffs, e.2 < p.next ∨ (e.2 = 0 ∧ p.next = 0)) ∧
    (∀ e ∈ p.grpOffs, e.2 < p.next ∨ (e.2 = 0 ∧ p.next = 0))) ∧
  (p.shouldInc = false → p.cur = 0) ∧ 0 < cfg.segSize

instance (cfg : Cfg) (p : Part) : Decidable (p.InvD cfg) := by unfold Part.InvD; infer_instance

theorem Part.inv_iff_invD {cfg : Cfg} {p : Part} : p.Inv cfg ↔ p.InvD cfg :=
  ⟨fun h => ⟨h.segs, h.chain, h.sizes, h.ts, fun c hc => h.cache c (Option.mem_def.1 hc), h.cacheCfg,
      h.dedupCfg, fun i hi => h.dedupIds i (Option.mem_def.1 hi), h.cntMsgs, h.cntSize, h.cntSegs,
      h.offsBound, h.curZero, h.segSize⟩,
   fun ⟨h1, h2, h3, h4, h5, h6, h7, h8, h9, h10, h11, h12, h13, h14⟩ =>
    ⟨h1, h2, h3, h4, fun c hc => h5 c (Option.mem_def.2 hc), h6, h7,
      fun i hi => h8 i (Option.mem_def.2 hi), h9, h10, h11, h12, h13, h14⟩⟩

instance (cfg : Cfg) (p : Part) : Decidable (p.Inv cfg) := decidable_of_iff _ Part.inv_iff_invD.symm

end Iggy.Log
