/-
Refinement of the "small" partition operations: purge, consumer offsets, cache eviction.
-/
import Iggy.Log.Lemmas.SegOps
namespace Iggy.Log

/-! ## counters after deleting every segment -/

theorem misc_foldl_subSeg (segs : List Seg) (c : Counters) :
    (segs.foldl Counters.subSeg c).msgs = c.msgs - (segs.map Seg.msgCount).sum ∧
    (segs.foldl Counters.subSeg c).size = c.size - (segs.map (·.sizeBytes)).sum ∧
    (segs.foldl Counters.subSeg c).segs = c.segs - segs.length := by
  induction segs generalizing c with
  | nil => simp
  | cons s l ih =>
    obtain ⟨h1, h2, h3⟩ := ih (c.subSeg s)
    simp only [List.foldl_cons, List.map_cons, List.sum_cons, List.length_cons]
    rw [h1, h2, h3]
    simp only [Counters.subSeg]
    omega

theorem misc_sum_msgCount {cfg : Cfg} {l : List Seg} (hi : ∀ s ∈ l, s.Inv cfg)
    (hs : ∀ m ∈ segsMsgs l, 0 < m.size) : (l.map Seg.msgCount).sum = (segsMsgs l).length := by
  induction l with
  | nil => rfl
  | cons s l ih =>
    have h1 : s.msgCount = s.msgs.length :=
      (hi s (by simp)).msgCount (fun m hm => hs m (by simp [hm]))
    have h2 := ih (fun t ht => hi t (by simp [ht])) (fun m hm => hs m (by simp [hm]))
    simp [h1, h2]

/-! ## purge -/

theorem Part.purge_refines {cfg : Cfg} {p : Part} (h : p.Inv cfg) (now : Nat) :
    (p.purge cfg now).Inv cfg ∧ abs (p.purge cfg now) = (abs p).purge := by
  obtain ⟨c1, c2, c3⟩ := misc_foldl_subSeg p.segs p.cnt
  have hcount : (p.segs.map Seg.msgCount).sum = p.msgs.length :=
    misc_sum_msgCount h.segs h.sizes
  have hsegs : (p.purge cfg now).segs = [Seg.create cfg 0 now] := rfl
  have hmsgs : (p.purge cfg now).msgs = [] := rfl
  have hnext : (p.purge cfg now).next = 0 := rfl
  refine ⟨?_, rfl⟩
  refine
    { segs := by
        intro s hs
        rw [hsegs] at hs
        rw [List.mem_singleton.1 hs]
        exact Seg.create_inv cfg 0 now h.segSize
      chain := by rw [hsegs, hnext]; exact chain_singleton.2 rfl
      sizes := by rw [hmsgs]; simp
      ts := by rw [hmsgs]; trivial
      cache := ?_
      cacheCfg := by
        have := h.cacheCfg
        show (p.cache.map (fun _ => ([] : List Msg))).isSome = cfg.cacheOn
        simpa using this
      dedupCfg := h.dedupCfg
      dedupIds := by rw [hmsgs]; intro ids _; simp
      cntMsgs := by
        rw [hmsgs]
        show (p.segs.foldl Counters.subSeg p.cnt).msgs = 0
        rw [c1, hcount, h.cntMsgs]; simp
      cntSize := by
        rw [hsegs]
        show (p.segs.foldl Counters.subSeg p.cnt).size = _
        rw [c2, h.cntSize]; simp
      cntSegs := by
        rw [hsegs]
        show (p.segs.foldl Counters.subSeg p.cnt).segs + 1 = _
        rw [c3, h.cntSegs]; simp
      offsBound := by
        refine ⟨?_, ?_⟩ <;> intro e he <;> exact absurd he (by show e ∉ []; simp)
      curZero := fun _ => rfl
      segSize := h.segSize }
  intro c hc
  have hc' : p.cache.map (fun _ => ([] : List Msg)) = some c := hc
  have : c = [] := by
    cases hp : p.cache with
    | none => simp [hp] at hc'
    | some x => simp [hp] at hc'; exact hc'
  subst this
  rw [hmsgs, hnext]
  simp [consecutiveFrom]

/-! ## consumer offsets -/

theorem Part.getOffset_refines (p : Part) (grp : Bool) (cid : Nat) :
    p.getOffset grp cid = (abs p).getOffset grp cid := rfl

theorem misc_cur_lt_iff {cfg : Cfg} {p : Part} (h : p.Inv cfg) (off : Nat) :
    p.cur < off ↔ (abs p).cur < off := by
  show p.cur < off ↔ p.next - 1 < off
  unfold Part.next
  cases hi : p.shouldInc with
  | true => simp
  | false => have := h.curZero hi; simp [this]

/-- an invariant-preserving change of the stored consumer offsets -/
theorem misc_inv_offs {cfg : Cfg} {p : Part} (h : p.Inv cfg) (co go : List (Nat × Nat))
    (hco : ∀ e ∈ co, e.2 < p.next ∨ (e.2 = 0 ∧ p.next = 0))
    (hgo : ∀ e ∈ go, e.2 < p.next ∨ (e.2 = 0 ∧ p.next = 0)) :
    ({ p with consOffs := co, grpOffs := go } : Part).Inv cfg :=
  { segs := h.segs
    chain := h.chain
    sizes := h.sizes
    ts := h.ts
    cache := h.cache
    cacheCfg := h.cacheCfg
    dedupCfg := h.dedupCfg
    dedupIds := h.dedupIds
    cntMsgs := h.cntMsgs
    cntSize := h.cntSize
    cntSegs := h.cntSegs
    offsBound := ⟨hco, hgo⟩
    curZero := h.curZero
    segSize := h.segSize }

theorem misc_insertKV_bound {l : List (Nat × Nat)} {k v : Nat} {P : Nat → Prop}
    (hl : ∀ e ∈ l, P e.2) (hv : P v) : ∀ e ∈ insertKV l k v, P e.2 := by
  intro e he
  rcases List.mem_cons.1 he with rfl | he
  · exact hv
  · exact hl e (List.mem_filter.1 he).1

theorem misc_eraseK_bound {l : List (Nat × Nat)} {k : Nat} {P : Nat → Prop}
    (hl : ∀ e ∈ l, P e.2) : ∀ e ∈ eraseK l k, P e.2 := by
  intro e he
  exact hl e (List.mem_filter.1 he).1

theorem Part.storeOffset_refines {cfg : Cfg} {p : Part} (h : p.Inv cfg) (grp : Bool) (cid off : Nat) :
    (p.storeOffset grp cid off).map abs = (abs p).storeOffset grp cid off ∧
      ∀ p', p.storeOffset grp cid off = .ok p' → p'.Inv cfg := by
  have hiff := misc_cur_lt_iff h off
  unfold Part.storeOffset SPart.storeOffset
  by_cases hlt : p.cur < off
  · have hlt' := hiff.1 hlt
    simp only [hlt, hlt', ↓reduceIte]
    exact ⟨rfl, fun p' hp => by cases hp⟩
  · have hlt' : ¬ (abs p).cur < off := fun hx => hlt (hiff.2 hx)
    simp only [hlt, hlt', ↓reduceIte]
    have hoff : off < p.next ∨ (off = 0 ∧ p.next = 0) := by
      unfold Part.next
      cases hi : p.shouldInc with
      | true => left; simp; omega
      | false => right; have := h.curZero hi; simp; omega
    cases grp with
    | true =>
      refine ⟨rfl, ?_⟩
      intro p' hp
      simp only [↓reduceIte, Except.ok.injEq] at hp
      subst hp
      exact misc_inv_offs h p.consOffs (insertKV p.grpOffs cid off) h.offsBound.1
        (misc_insertKV_bound (P := fun v => v < p.next ∨ (v = 0 ∧ p.next = 0)) h.offsBound.2 hoff)
    | false =>
      refine ⟨rfl, ?_⟩
      intro p' hp
      simp only [Bool.false_eq_true, ↓reduceIte, Except.ok.injEq] at hp
      subst hp
      exact misc_inv_offs h (insertKV p.consOffs cid off) p.grpOffs
        (misc_insertKV_bound (P := fun v => v < p.next ∨ (v = 0 ∧ p.next = 0)) h.offsBound.1 hoff)
        h.offsBound.2

theorem Part.deleteOffset_refines {cfg : Cfg} {p : Part} (h : p.Inv cfg) (grp : Bool) (cid : Nat) :
    (p.deleteOffset grp cid).map abs = (abs p).deleteOffset grp cid ∧
      ∀ p', p.deleteOffset grp cid = .ok p' → p'.Inv cfg := by
  unfold Part.deleteOffset SPart.deleteOffset
  rw [← Part.getOffset_refines]
  cases hg : p.getOffset grp cid with
  | none => exact ⟨rfl, fun p' hp => by cases hp⟩
  | some o =>
    simp only
    cases grp with
    | true =>
      refine ⟨rfl, ?_⟩
      intro p' hp
      simp only [↓reduceIte, Except.ok.injEq] at hp
      subst hp
      exact misc_inv_offs h p.consOffs (eraseK p.grpOffs cid) h.offsBound.1
        (misc_eraseK_bound (P := fun v => v < p.next ∨ (v = 0 ∧ p.next = 0)) h.offsBound.2)
    | false =>
      refine ⟨rfl, ?_⟩
      intro p' hp
      simp only [Bool.false_eq_true, ↓reduceIte, Except.ok.injEq] at hp
      subst hp
      exact misc_inv_offs h (eraseK p.consOffs cid) p.grpOffs
        (misc_eraseK_bound (P := fun v => v < p.next ∨ (v = 0 ∧ p.next = 0)) h.offsBound.1)
        h.offsBound.2

/-! ## cache eviction -/

theorem Part.evict_refines {cfg : Cfg} {p : Part} (h : p.Inv cfg) (keep : Nat) :
    (p.evict keep).Inv cfg ∧ abs (p.evict keep) = abs p := by
  refine ⟨?_, rfl⟩
  refine
    { segs := h.segs
      chain := h.chain
      sizes := h.sizes
      ts := h.ts
      cache := ?_
      cacheCfg := by
        have := h.cacheCfg
        show (p.cache.map (fun c => c.drop (c.length - keep))).isSome = cfg.cacheOn
        simpa using this
      dedupCfg := h.dedupCfg
      dedupIds := h.dedupIds
      cntMsgs := h.cntMsgs
      cntSize := h.cntSize
      cntSegs := h.cntSegs
      offsBound := h.offsBound
      curZero := h.curZero
      segSize := h.segSize }
  intro c' hc'
  have hc'' : p.cache.map (fun c => c.drop (c.length - keep)) = some c' := hc'
  cases hp : p.cache with
  | none => simp [hp] at hc''
  | some c =>
    simp only [hp, Option.map_some, Option.some.injEq] at hc''
    subst hc''
    obtain ⟨h1, h2, h3⟩ := h.cache c hp
    have hsuf : c.drop (c.length - keep) <:+ c := List.drop_suffix _ _
    show (c.drop (c.length - keep) <:+ p.msgs ∨ p.msgs <:+ c.drop (c.length - keep)) ∧
      consecutiveFrom (p.next - (c.drop (c.length - keep)).length) (c.drop (c.length - keep)) ∧
      (c.drop (c.length - keep)).length ≤ p.next
    refine ⟨?_, ?_, ?_⟩
    · rcases h1 with h1 | h1
      · exact Or.inl (hsuf.trans h1)
      · exact List.suffix_or_suffix_of_suffix hsuf h1
    · have := h2.drop (c.length - keep)
      have e : p.next - (c.drop (c.length - keep)).length = p.next - c.length + (c.length - keep) := by
        simp only [List.length_drop]; omega
      rw [e]; exact this
    · simp only [List.length_drop]; omega

end Iggy.Log
