/-
Partition-level read-by-offset: `Part.getByOffset` / `getFirst` / `getLast` / `getNext` agree with the
abstract `pollOffset` / `pollFirst` / `pollLast` / `pollNext`, given the segment-level read theorem
`SegReadSpec` (proved in `Lemmas/ReadSeg.lean`).
-/
import Iggy.Log.Lemmas.ReadSpec
namespace Iggy.Log

/-! ## consecutive lists and range filters -/

/-- on a list with consecutive offsets a range filter is a `drop`/`take` -/
theorem readPart_filter_range {c : Nat} {l : List Msg} (h : consecutiveFrom c l) (lo hiX : Nat) :
    l.filter (fun m => lo ≤ m.off ∧ m.off < hiX) = (l.drop (lo - c)).take (hiX - max lo c) := by
  induction l generalizing c with
  | nil => simp
  | cons a l ih =>
    obtain ⟨h1, h2⟩ := h
    have ih := ih h2
    by_cases hlo : lo ≤ c
    · have e1 : lo - c = 0 := by omega
      have e2 : lo - (c + 1) = 0 := by omega
      rw [e1]; rw [e2] at ih
      by_cases hh : c < hiX
      · have e3 : hiX - max lo c = (hiX - max lo (c + 1)) + 1 := by omega
        have hp : lo ≤ a.off ∧ a.off < hiX := by omega
        rw [e3, List.filter_cons, if_pos (by simpa using hp), ih]; simp
      · have e3 : hiX - max lo c = 0 := by omega
        have e4 : hiX - max lo (c + 1) = 0 := by omega
        have hp : ¬ (lo ≤ a.off ∧ a.off < hiX) := by omega
        rw [e3, List.filter_cons, if_neg (by simpa using hp), ih, e4]; simp
    · have hp : ¬ (lo ≤ a.off ∧ a.off < hiX) := by omega
      have e1 : lo - c = (lo - (c + 1)) + 1 := by omega
      have e3 : hiX - max lo c = hiX - max lo (c + 1) := by omega
      rw [List.filter_cons, if_neg (by simpa using hp), ih, e1, e3]; simp

theorem readPart_filter_range_length {c : Nat} {l : List Msg} (h : consecutiveFrom c l) (lo hiX : Nat) :
    (l.filter (fun m => lo ≤ m.off ∧ m.off < hiX)).length
      = min (hiX - max lo c) (l.length - (lo - c)) := by
  rw [readPart_filter_range h]; simp [List.length_take, List.length_drop]

/-! ## tiled segment lists -/

theorem readPart_tiled_start_ge {a : Nat} {l : List Seg} (h : tiled a l) : ∀ t ∈ l, a ≤ t.start := by
  induction l generalizing a with
  | nil => simp
  | cons s r ih =>
    intro t ht
    rcases List.mem_cons.1 ht with rfl | ht
    · exact Nat.le_of_eq h.1.symm
    · have := ih h.2.2 t ht; omega

theorem readPart_tiled_bounds {cfg : Cfg} {a : Nat} {l : List Seg} (h : tiled a l)
    (hi : ∀ s ∈ l, s.Inv cfg) : ∀ m ∈ segsMsgs l, a ≤ m.off ∧ m.off < a + (segsMsgs l).length :=
  (h.consecutive (fun s hs => (hi s hs).offsets)).bounds

/-- `get_messages_from_segments` over a tiled list of segments returns the slice `[lo, lo + rem)` of
their messages, `lo` = the wanted offset clamped to the first segment's start -/
theorem readPart_fromSegs {cfg : Cfg} (hseg : SegReadSpec cfg) {a : Nat} {l : List Seg}
    (ht : tiled a l) (hi : ∀ s ∈ l, s.Inv cfg) (off rem : Nat) :
    fromSegs l off rem =
      (segsMsgs l).filter (fun m => max off a ≤ m.off ∧ m.off < max off a + rem) := by
  induction l generalizing a rem with
  | nil => simp [fromSegs]
  | cons s rest ih =>
    obtain ⟨h1, _, h3⟩ := ht
    subst h1
    rw [fromSegs]
    by_cases hr : rem = 0
    · subst hr; simp
    · rw [if_neg hr]
      simp only []
      have hs := hi s (by simp)
      have hrest : ∀ t ∈ rest, t.Inv cfg := fun t ht => hi t (by simp [ht])
      rw [hseg s hs off rem, segsMsgs_cons, List.filter_append]
      congr 1
      rw [ih h3 hrest, readPart_filter_range_length hs.offsets]
      apply List.filter_congr
      intro m hm
      have hb := readPart_tiled_bounds h3 hrest m hm
      rw [decide_eq_decide]
      omega

/-! ## `rposStart` and `filterSegs` -/

theorem readPart_rposStart_none {l : List Seg} {off : Nat} (h : ∀ t ∈ l, off < t.start) (i best : Nat) :
    rposStart l off i best = best := by
  induction l generalizing i best with
  | nil => rfl
  | cons s r ih =>
    have hs := h s (by simp)
    rw [rposStart, ih (fun t ht => h t (by simp [ht])), if_neg (by omega)]

theorem readPart_rposStart_split {pre post : List Seg} {s : Seg} {off : Nat}
    (hs : s.start ≤ off) (hpost : ∀ t ∈ post, off < t.start) (i best : Nat) :
    rposStart (pre ++ s :: post) off i best = i + pre.length := by
  induction pre generalizing i best with
  | nil => simp [rposStart, readPart_rposStart_none hpost, hs]
  | cons a pre ih => simp only [List.cons_append, rposStart, ih, List.length_cons]; omega

theorem readPart_exists_last {l : List Seg} {off : Nat} (h : ∃ t ∈ l, t.start ≤ off) :
    ∃ pre s post, l = pre ++ s :: post ∧ s.start ≤ off ∧ ∀ t ∈ post, off < t.start := by
  induction l with
  | nil => simp at h
  | cons a l ih =>
    by_cases hl : ∃ t ∈ l, t.start ≤ off
    · obtain ⟨pre, s, post, e, h1, h2⟩ := ih hl
      exact ⟨a :: pre, s, post, by simp [e], h1, h2⟩
    · obtain ⟨t, ht, hto⟩ := h
      rcases List.mem_cons.1 ht with rfl | ht
      · refine ⟨[], t, l, rfl, hto, ?_⟩
        intro u hu
        have : ¬ u.start ≤ off := fun hh => hl ⟨u, hu, hh⟩
        omega
      · exact absurd ⟨t, ht, hto⟩ hl

/-- the segments from the last one that starts at or below `off` on (all of them if there is none) -/
theorem readPart_drop_rpos {cfg : Cfg} {a : Nat} {l : List Seg} (ht : tiled a l)
    (hi : ∀ s ∈ l, s.Inv cfg) (off : Nat) :
    ∃ pre l2 a2, l = pre ++ l2 ∧ l.drop (rposStart l off 0 0) = l2 ∧ tiled a2 l2 ∧
      max off a2 = max off a ∧ ∀ m ∈ segsMsgs pre, m.off < max off a := by
  by_cases hex : ∃ t ∈ l, t.start ≤ off
  · obtain ⟨pre, s, post, e, h1, h2⟩ := readPart_exists_last hex
    subst e
    obtain ⟨t1, -, t3⟩ := tiled_append.1 ht
    have hs : s.start = a + (segsMsgs pre).length := t3.1
    refine ⟨pre, s :: post, _, rfl, ?_, t3, by omega, ?_⟩
    · rw [readPart_rposStart_split h1 h2]; simp
    · intro m hm
      have := readPart_tiled_bounds t1 (fun u hu => hi u (by simp [hu])) m hm
      omega
  · refine ⟨[], l, a, rfl, ?_, ht, rfl, by simp⟩
    rw [readPart_rposStart_none]; · simp
    intro t ht'
    have : ¬ t.start ≤ off := fun hh => hex ⟨t, ht', hh⟩
    omega

/-- on a tiled list the segments with `start ≤ hi` form a prefix -/
theorem readPart_filter_start {a : Nat} {l : List Seg} (ht : tiled a l) (hi : Nat) :
    ∃ rest, l = l.filter (fun s => s.start ≤ hi) ++ rest ∧ ∀ t ∈ rest, hi < t.start := by
  induction l generalizing a with
  | nil => exact ⟨[], by simp⟩
  | cons s r ih =>
    by_cases hs : s.start ≤ hi
    · obtain ⟨rest, e, h⟩ := ih ht.2.2
      refine ⟨rest, ?_, h⟩
      rw [List.filter_cons, if_pos (by simpa using hs), List.cons_append, ← e]
    · refine ⟨s :: r, ?_, ?_⟩
      · have : (s :: r).filter (fun s => decide (s.start ≤ hi)) = [] := by
          rw [List.filter_eq_nil_iff]
          intro t ht'
          have := readPart_tiled_start_ge ht t ht'
          have := ht.1
          simp; omega
        rw [this]; rfl
      · intro t ht'
        have := readPart_tiled_start_ge ht t ht'
        have := ht.1
        omega

/-- the segment path of `get_messages_by_offset`: `filter_segments_by_offsets` followed by
`get_messages_from_segments`. `hH`: the upper end `hiO` used for selecting segments does not cut off
wanted messages. -/
theorem readPart_segPath {cfg : Cfg} (hseg : SegReadSpec cfg) {a : Nat} {l : List Seg}
    (ht : tiled a l) (hi : ∀ s ∈ l, s.Inv cfg) (off hiO count : Nat)
    (hH : ∀ m ∈ segsMsgs l, max off a ≤ m.off → m.off < max off a + count → m.off ≤ hiO) :
    fromSegs ((l.drop (rposStart l off 0 0)).filter (fun s => s.start ≤ hiO)) off count =
      (segsMsgs l).filter (fun m => max off a ≤ m.off ∧ m.off < max off a + count) := by
  obtain ⟨pre, l2, a2, e, hd, t2, hmax, hpre⟩ := readPart_drop_rpos ht hi off
  rw [hd]
  obtain ⟨rest, e2, hrest⟩ := readPart_filter_start t2 hiO
  generalize hk : l2.filter (fun s => decide (s.start ≤ hiO)) = keep at e2 ⊢
  subst e2
  subst e
  obtain ⟨tk, -, -⟩ := tiled_append.1 t2
  rw [readPart_fromSegs hseg tk (fun s hs => hi s (by simp [hs])), hmax]
  simp only [segsMsgs_append, List.filter_append]
  have h1 : (segsMsgs pre).filter (fun m => max off a ≤ m.off ∧ m.off < max off a + count) = [] := by
    rw [List.filter_eq_nil_iff]
    intro m hm
    have := hpre m hm
    simp; omega
  have h2 : (segsMsgs rest).filter (fun m => max off a ≤ m.off ∧ m.off < max off a + count) = [] := by
    rw [List.filter_eq_nil_iff]
    intro m hm
    obtain ⟨t, htr, hmt⟩ := mem_segsMsgs.1 hm
    have hb := (hi t (by simp [htr])).offsets.bounds m hmt
    have hlt := hrest t htr
    have := hH m (by simp only [segsMsgs_append, List.mem_append]; exact Or.inr (Or.inr hm))
    simp; omega
  rw [h1, h2]; simp

/-! ## partition facts for reads -/

theorem Part.Inv.off_bounds {cfg : Cfg} {p : Part} (h : p.Inv cfg) :
    ∀ m ∈ p.msgs, p.firstStart ≤ m.off ∧ m.off < p.next := by
  intro m hm
  have := h.msgs_consecutive.bounds m hm
  have := h.tiled'.2
  omega

theorem Part.Inv.off_le_lastSegCur {cfg : Cfg} {p : Part} (h : p.Inv cfg) :
    ∀ m ∈ p.msgs, m.off ≤ p.lastSegCur := by
  intro m hm
  obtain ⟨init, last, hs⟩ := h.exists_snoc
  have hl : p.lastSegCur = last.cur := by simp [Part.lastSegCur, hs]
  have := (h.last_facts hs).2.1
  have := (h.segs last (by simp [hs])).cur
  have := h.off_bounds m hm
  omega

/-- the specification's slice, with the clamping written as a `max` -/
theorem readPart_pollOffset {cfg : Cfg} {p : Part} (h : p.Inv cfg) (off count : Nat) :
    (abs p).pollOffset off count =
      p.msgs.filter (fun m => max off p.firstStart ≤ m.off ∧ m.off < max off p.firstStart + count) := by
  unfold SPart.pollOffset
  show List.filter _ p.msgs = _
  have hc := h.msgs_consecutive
  cases hm : p.msgs with
  | nil => simp
  | cons f r =>
    rw [hm] at hc
    have : f.off = p.firstStart := hc.1
    simp only [abs, hm, List.head?_cons, this]

/-! ## the cache path -/

theorem readPart_tryCache_some {p : Part} {lo hi : Nat} {r : List Msg} (hr : p.tryCache lo hi = some r) :
    ∃ c first, p.cache = some c ∧ c.head? = some first ∧ lo ≤ hi ∧ hi ≤ p.cur ∧ first.off ≤ lo ∧
      r = (c.drop (lo - first.off)).take (min c.length (hi - first.off + 1) - (lo - first.off)) := by
  unfold Part.tryCache at hr
  split at hr
  · simp at hr
  · next c hc =>
    split at hr
    · simp at hr
    · next first hf =>
      split at hr
      · simp at hr
      · next h1 =>
        split at hr
        · next h2 =>
          exact ⟨c, first, hc, hf, by omega, by omega, h2, by simpa using hr.symm⟩
        · simp at hr

/-- what the cache returns is the slice `[lo, hi]` of the cached messages -/
theorem readPart_cache_slice {c : List Msg} {first : Msg} {k lo hi : Nat} (hcons : consecutiveFrom k c)
    (hf : c.head? = some first) (h1 : lo ≤ hi) (h2 : first.off ≤ lo) :
    (c.drop (lo - first.off)).take (min c.length (hi - first.off + 1) - (lo - first.off)) =
      c.filter (fun m => lo ≤ m.off ∧ m.off < hi + 1) := by
  have hk : first.off = k := hcons.head hf
  rw [readPart_filter_range hcons, hk, List.take_eq_take_iff, List.length_drop]
  omega

/-- the cached messages and the retained messages have the same slices above `firstStart` -/
theorem readPart_cache_filter {cfg : Cfg} {p : Part} (h : p.Inv cfg) {c : List Msg} {first : Msg}
    (hc : p.cache = some c) (hf : c.head? = some first) {lo : Nat} (h2 : first.off ≤ lo)
    (hlo : p.firstStart ≤ lo ∨ c <:+ p.msgs) (q : Msg → Bool) (hq : ∀ m, m.off < lo → q m = false) :
    p.firstStart ≤ lo ∧ c.filter q = p.msgs.filter q := by
  obtain ⟨hsuf, hcons, hlen⟩ := h.cache c hc
  have hk : first.off = p.next - c.length := hcons.head hf
  have hpc := h.msgs_consecutive
  have hn := h.tiled'.2
  have hcase : c <:+ p.msgs ∨ (p.firstStart ≤ lo ∧ p.msgs <:+ c) := by
    rcases hlo with hlo | hlo
    · rcases hsuf with hs | hs
      · exact Or.inl hs
      · exact Or.inr ⟨hlo, hs⟩
    · exact Or.inl hlo
  rcases hcase with ⟨x, hx⟩ | ⟨hlo, x, hx⟩
  · rw [← hx] at hpc hn ⊢
    have hxb := (consecutiveFrom_append_iff.1 hpc).1.bounds
    have hcc := (consecutiveFrom_append_iff.1 hpc).2
    have : first.off = p.firstStart + x.length := hcc.head hf
    refine ⟨by omega, ?_⟩
    have : x.filter q = [] := by
      rw [List.filter_eq_nil_iff]
      intro m hm
      have := hxb m hm
      simp [hq m (by omega)]
    rw [List.filter_append, this]; rfl
  · refine ⟨hlo, ?_⟩
    rw [← hx] at hcons hlen ⊢
    have hxb := (consecutiveFrom_append_iff.1 hcons).1.bounds
    have : x.filter q = [] := by
      rw [List.filter_eq_nil_iff]
      intro m hm
      have := hxb m hm
      simp only [List.length_append] at this hlen
      simp [hq m (by omega)]
    rw [List.filter_append, this]; rfl

/-! ## `get_messages_by_offset` -/

/-- `Part.getByOffset` after the start offset was clamped to the first segment -/
def Part.getByOffsetFrom (p : Part) (off count : Nat) : List Msg :=
  if p.cur < off then [] else
  let hi := p.endOffset off count
  match p.tryCache off hi with
  | some ms => ms
  | none =>
    match p.filterSegs off hi with
    | [] => []
    | [s] => s.getByOffset off count
    | ss => fromSegs ss off count

theorem Part.getByOffset_unfold (p : Part) (off count : Nat) :
    p.getByOffset off count =
      if p.segs.isEmpty then [] else p.getByOffsetFrom (max off p.firstStart) count := rfl

/-- a poll that starts at or above the first segment returns the specified slice — from the cache
(stale or not) or from the segments -/
theorem Part.getByOffsetFrom_eq {cfg : Cfg} {p : Part} {off count : Nat} (hseg : SegReadSpec cfg)
    (h : p.Inv cfg) (hc : 0 < count) (hlo : p.firstStart ≤ off) :
    p.getByOffsetFrom off count = (abs p).pollOffset off count := by
  rw [readPart_pollOffset h]
  obtain ⟨ht, hn⟩ := h.tiled'
  unfold Part.getByOffsetFrom
  by_cases hcur : p.cur < off
  · rw [if_pos hcur]
    symm
    rw [List.filter_eq_nil_iff]
    intro m hm
    have := h.off_bounds m hm
    unfold Part.next at this
    split at this <;> simp <;> omega
  · rw [if_neg hcur]
    simp only []
    -- every wanted message is at or below the computed end offset
    have hH : ∀ m ∈ p.msgs, max off p.firstStart ≤ m.off → m.off < max off p.firstStart + count →
        m.off ≤ p.endOffset off count := by
      intro m hm h1 h2
      have := h.off_le_lastSegCur m hm
      have := h.off_bounds m hm
      unfold Part.endOffset
      omega
    split
    · next r hr =>
      obtain ⟨c, first, hcache, hf, h1, h2, h3, rfl⟩ := readPart_tryCache_some hr
      obtain ⟨-, hcons, -⟩ := h.cache c hcache
      rw [readPart_cache_slice hcons hf h1 h3]
      obtain ⟨hfs, he⟩ := readPart_cache_filter h hcache hf h3 (Or.inl hlo)
        (fun m => decide (off ≤ m.off ∧ m.off < p.endOffset off count + 1))
        (fun m hm => by simp; omega)
      rw [he]
      apply List.filter_congr
      intro m hm
      have := hH m hm
      rw [decide_eq_decide]
      unfold Part.endOffset at *
      omega
    · have hs := readPart_segPath hseg ht h.segs off (p.endOffset off count) count hH
      have hf : p.filterSegs off (p.endOffset off count) =
          (p.segs.drop (rposStart p.segs off 0 0)).filter (fun s => s.start ≤ p.endOffset off count) := rfl
      rw [← hf] at hs
      rw [← Part.msgs_eq] at hs
      rw [← hs]
      split
      · next he => rw [he]; rfl
      · next s he => rw [he]; simp [fromSegs, Nat.ne_of_gt hc]
      · rfl

/-- `get_messages_by_offset` returns exactly the specified slice, wherever the poll starts (below the
first retained offset it starts at the earliest retained message) and whatever the cache holds. -/
theorem Part.getByOffset_eq {cfg : Cfg} {p : Part} {off count : Nat} (hseg : SegReadSpec cfg)
    (h : p.Inv cfg) (hc : 0 < count) :
    p.getByOffset off count = (abs p).pollOffset off count := by
  have hemp : p.segs.isEmpty = false := by simp [h.segs_ne_nil]
  rw [Part.getByOffset_unfold, hemp]
  simp only [Bool.false_eq_true, if_false]
  rw [Part.getByOffsetFrom_eq hseg h hc (Nat.le_max_right _ _), readPart_pollOffset h,
    readPart_pollOffset h]
  have e : max (max off p.firstStart) p.firstStart = max off p.firstStart := by omega
  rw [e]

/-! ## first / last / next -/

theorem Part.getFirst_eq {cfg : Cfg} {p : Part} {count : Nat} (hseg : SegReadSpec cfg)
    (h : p.Inv cfg) (hc : 0 < count) : p.getFirst count = (abs p).pollFirst count :=
  Part.getByOffset_eq hseg h hc

theorem Part.getLast_eq {cfg : Cfg} {p : Part} {count : Nat} (hseg : SegReadSpec cfg)
    (h : p.Inv cfg) (hc : 0 < count) : p.getLast count = (abs p).pollLast count := by
  unfold Part.getLast SPart.pollLast
  show p.getByOffset _ _ = (abs p).pollOffset (p.next - min count p.next) (min count p.next)
  cases hi : p.shouldInc with
  | true =>
    have hn : p.next = p.cur + 1 := by simp [Part.next, hi]
    have e : 1 + p.cur - min count (p.cur + 1) = p.next - min count p.next := by omega
    rw [e, ← hn]
    exact Part.getByOffset_eq hseg h (by omega)
  | false =>
    have hm := h.msgs_nil_of_not_inc hi
    rw [Part.getByOffset_eq hseg h (by omega), readPart_pollOffset h, readPart_pollOffset h, hm]
    rfl

/-- `get_next_messages`; the model's shortcut for a stored offset equal to `current_offset` agrees
with the specification because no retained message lies beyond `current_offset`. -/
theorem Part.getNext_eq {cfg : Cfg} {p : Part} {grp : Bool} {cid count : Nat} (hseg : SegReadSpec cfg)
    (h : p.Inv cfg) (hc : 0 < count) :
    p.getNext grp cid count = (abs p).pollNext grp cid count := by
  unfold Part.getNext SPart.pollNext
  show _ = (match lookup (if grp then p.grpOffs else p.consOffs) cid with
    | none => (abs p).pollFirst count
    | some o => (abs p).pollOffset (o + 1) count)
  cases hl : lookup (if grp then p.grpOffs else p.consOffs) cid with
  | none => exact Part.getFirst_eq hseg h hc
  | some o =>
    simp only []
    by_cases ho : o = p.cur
    · rw [if_pos ho, readPart_pollOffset h]
      symm
      rw [List.filter_eq_nil_iff]
      intro m hm
      have := h.off_bounds m hm
      unfold Part.next at this
      split at this <;> simp <;> omega
    · rw [if_neg ho]
      exact Part.getByOffset_eq hseg h hc

end Iggy.Log
