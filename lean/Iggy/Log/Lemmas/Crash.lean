/-
Crash recovery of one segment (`Iggy/Log/Crash.lean`): `reconcile` maps every durable image a process
death can leave while a batch is being persisted to a clean disk state, `Seg.load` of a clean disk state
satisfies the segment invariant, and the partition `Part.load` builds on the surviving files satisfies
the partition invariant and holds a prefix of the accepted messages.
-/
import Iggy.Log.Crash
import Iggy.Log.Lemmas.Restart
namespace Iggy.Log

/-! ## byte positions of batches -/

@[simp] theorem endPos_zero (l : List Batch) : endPos l 0 = 0 := by simp [endPos]

@[simp] theorem endPos_cons_succ (b : Batch) (l : List Batch) (j : Nat) :
    endPos (b :: l) (j + 1) = b.bytes + endPos l j := by simp [endPos]

theorem endPos_length (l : List Batch) : endPos l l.length = logBytes l := by simp [endPos]

/-- batch positions are strictly increasing: every batch occupies at least its 24-byte header -/
theorem endPos_lt {l : List Batch} {j k : Nat} (hjk : j < k) (hk : k ≤ l.length) :
    endPos l j < endPos l k := by
  induction l generalizing j k with
  | nil => simp at hk; omega
  | cons b l ih =>
    cases k with
    | zero => omega
    | succ k =>
      cases j with
      | zero => have := b.bytes_pos; simp only [endPos_zero, endPos_cons_succ]; omega
      | succ j =>
        have := ih (j := j) (k := k) (by omega) (by simpa using hk)
        simp only [endPos_cons_succ]; omega

theorem endPos_inj {l : List Batch} {j k : Nat} (hj : j ≤ l.length) (hk : k ≤ l.length)
    (h : endPos l j = endPos l k) : j = k := by
  rcases Nat.lt_trichotomy j k with hlt | heq | hgt
  · have := endPos_lt hlt hk; omega
  · exact heq
  · have := endPos_lt hgt hj; omega

theorem endPos_take {l : List Batch} {j k : Nat} (hjk : j ≤ k) : endPos (l.take k) j = endPos l j := by
  simp [endPos, List.take_take, Nat.min_eq_left hjk]

theorem endPos_append_left {l : List Batch} (l' : List Batch) {j : Nat} (hj : j ≤ l.length) :
    endPos (l ++ l') j = endPos l j := by
  simp [endPos, List.take_append_of_le_length hj]

/-- the batch that starts at `endPos l j` is found by the scan of `reconcile` -/
theorem find_endPos {l : List Batch} {j : Nat} (hj : j < l.length) :
    (List.range l.length).find? (fun i => endPos l i == endPos l j) = some j := by
  rw [List.find?_range_eq_some]
  refine ⟨by simp, by simpa using hj, ?_⟩
  intro i hi
  have := endPos_lt hi (Nat.le_of_lt hj)
  simp; omega

theorem idxValid_iff {l : List Batch} {e : Idx} :
    idxValid l e = true ↔ ∃ j, j < l.length ∧ endPos l j = e.pos := by
  simp [idxValid]

/-- a record that points at the end of the log does not describe a complete batch -/
theorem idxValid_end {l : List Batch} {e : Idx} (h : e.pos = logBytes l) : idxValid l e = false := by
  cases hv : idxValid l e with
  | false => rfl
  | true =>
    obtain ⟨j, hj, he⟩ := idxValid_iff.1 hv
    have := endPos_lt hj (Nat.le_refl _)
    rw [endPos_length] at this
    omega

/-- more generally: a record that points at or beyond the end of the log -/
theorem idxValid_beyond {l : List Batch} {e : Idx} (h : logBytes l ≤ e.pos) : idxValid l e = false := by
  cases hv : idxValid l e with
  | false => rfl
  | true =>
    obtain ⟨j, hj, he⟩ := idxValid_iff.1 hv
    have := endPos_lt hj (Nat.le_refl _)
    rw [endPos_length] at this
    omega

/-! ## the index of a log -/

theorem mkIdx_snoc (st pos : Nat) (l : List Batch) (b : Batch) :
    mkIdx st pos (l ++ [b]) =
      mkIdx st pos l ++ [{ rel := b.base + b.lastDelta - st, pos := pos + logBytes l, ts := b.maxTs }] := by
  rw [mkIdx_append]; rfl

theorem mem_mkIdx_pos {st pos : Nat} {l : List Batch} {e : Idx} (h : e ∈ mkIdx st pos l) :
    ∃ j, j < l.length ∧ e.pos = pos + endPos l j := by
  induction l generalizing pos with
  | nil => simp at h
  | cons b l ih =>
    simp only [mkIdx, List.mem_cons] at h
    rcases h with rfl | h
    · exact ⟨0, by simp, by simp⟩
    · obtain ⟨j, hj, he⟩ := ih h
      exact ⟨j + 1, by simpa using hj, by rw [he, endPos_cons_succ]; omega⟩

/-- every record of the index of a prefix of the log describes a complete batch of the log -/
theorem idxValid_mkIdx_take {st : Nat} {l : List Batch} {k : Nat} {e : Idx}
    (h : e ∈ mkIdx st 0 (l.take k)) : idxValid l e = true := by
  obtain ⟨j, hj, he⟩ := mem_mkIdx_pos h
  rw [List.length_take] at hj
  rw [idxValid_iff]
  refine ⟨j, by omega, ?_⟩
  rw [he, endPos_take (by omega)]; omega

/-- the last record of the index of the first `k + 1` batches points at batch `k` -/
theorem mkIdx_take_getLast {st : Nat} {l : List Batch} {k : Nat} (hk : k < l.length) :
    ∃ e, (mkIdx st 0 (l.take (k + 1))).getLast? = some e ∧ e.pos = endPos l k := by
  rw [← List.take_append_getElem hk, mkIdx_snoc]
  exact ⟨{ rel := l[k].base + l[k].lastDelta - st, pos := 0 + logBytes (l.take k), ts := l[k].maxTs },
    by simp, by simp [endPos]⟩

/-! ## `reconcile` -/

/-- step 1 of `reconcile`: the index records kept -/
def recKeep (log : List Batch) (idx : List Idx) : List Idx :=
  (idx.reverse.dropWhile (fun e => !idxValid log e)).reverse

/-- the number of batches the kept records cover -/
def recCovered (log : List Batch) (keep : List Idx) : Nat :=
  match keep.getLast? with
  | some e => (((List.range log.length).find? (fun i => endPos log i == e.pos)).map (· + 1)).getD 0
  | none => 0

theorem reconcile_eq (d : SegDisk) :
    reconcile d =
      { d with
        idx := recKeep d.log d.idx ++
          mkIdx d.start (endPos d.log (recCovered d.log (recKeep d.log d.idx)))
            (d.log.drop (recCovered d.log (recKeep d.log d.idx)))
        idxTorn := false, logTorn := false } := rfl

@[simp] theorem reconcile_log (d : SegDisk) : (reconcile d).log = d.log := rfl
@[simp] theorem reconcile_start (d : SegDisk) : (reconcile d).start = d.start := rfl
@[simp] theorem reconcile_logTorn_eq (d : SegDisk) : (reconcile d).logTorn = false := rfl
@[simp] theorem reconcile_idxTorn_eq (d : SegDisk) : (reconcile d).idxTorn = false := rfl

theorem recKeep_append {log : List Batch} {good junk : List Idx}
    (hgood : ∀ e ∈ good, idxValid log e = true) (hjunk : ∀ e ∈ junk, idxValid log e = false) :
    recKeep log (good ++ junk) = good := by
  unfold recKeep
  rw [List.reverse_append, List.dropWhile_append_of_pos (by
    intro e he
    simp [hjunk e (List.mem_reverse.1 he)])]
  have : good.reverse.dropWhile (fun e => !idxValid log e) = good.reverse := by
    cases hr : good.reverse with
    | nil => rfl
    | cons a r =>
      have ha : a ∈ good := by
        have : a ∈ good.reverse := by simp [hr]
        exact List.mem_reverse.1 this
      exact List.dropWhile_cons_of_neg (by simp [hgood a ha])
  rw [this, List.reverse_reverse]

theorem recCovered_mkIdx_take {st : Nat} {l : List Batch} {k : Nat} (hk : k ≤ l.length) :
    recCovered l (mkIdx st 0 (l.take k)) = k := by
  unfold recCovered
  cases k with
  | zero => simp
  | succ k =>
    obtain ⟨e, he, hpos⟩ := mkIdx_take_getLast (st := st) (l := l) (k := k) hk
    simp only [he, hpos, find_endPos hk, Option.map_some, Option.getD_some]

/-- the disk state with log `log` and exactly its index, nothing torn -/
def cleanDisk (start : Nat) (log : List Batch) : SegDisk :=
  { start := start, log := log, logTorn := false, idx := mkIdx start 0 log, idxTorn := false }

/-- **what recovery computes.** Whenever the index file consists of the index of the first `k` batches of
the log followed by records that do not describe a complete batch, `reconcile` produces the clean state
of the same log: the junk is dropped, the batches beyond `k` are indexed, torn tails are cut. -/
theorem reconcile_of_prefix {d : SegDisk} {k : Nat} {junk : List Idx} (hk : k ≤ d.log.length)
    (hidx : d.idx = mkIdx d.start 0 (d.log.take k) ++ junk)
    (hjunk : ∀ e ∈ junk, idxValid d.log e = false) : reconcile d = cleanDisk d.start d.log := by
  rw [reconcile_eq, hidx, recKeep_append (fun e he => idxValid_mkIdx_take he) hjunk,
    recCovered_mkIdx_take hk]
  have h1 : endPos d.log k = 0 + logBytes (d.log.take k) := by simp [endPos]
  rw [h1, ← mkIdx_append, List.take_append_drop]
  rfl

theorem SegDisk.Consistent.eq_cleanDisk {d : SegDisk} (h : d.Consistent) : d = cleanDisk d.start d.log := by
  obtain ⟨h1, h2, h3, -⟩ := h
  cases d
  simp_all [cleanDisk]

theorem cleanDisk_consistent {start : Nat} {log : List Batch} (hwf : ∀ b ∈ log, b.WF) :
    (cleanDisk start log).Consistent := ⟨rfl, rfl, rfl, hwf⟩

/-- a clean disk state (also: the state after a clean shutdown) is left alone -/
theorem reconcile_consistent {d : SegDisk} (h : d.Consistent) : reconcile d = d := by
  rw [reconcile_of_prefix (k := d.log.length) (junk := []) (Nat.le_refl _) (by simpa using h.1) (by simp)]
  exact h.eq_cleanDisk.symm

/-- torn tails play no role in recovery (files are modelled at batch granularity: a reader sees exactly
the complete records of a torn file) -/
theorem reconcile_logTorn (d : SegDisk) (t : Bool) : reconcile { d with logTorn := t } = reconcile d := rfl

theorem reconcile_idxTorn (d : SegDisk) (t : Bool) : reconcile { d with idxTorn := t } = reconcile d := rfl

/-! ## the batch being persisted -/

/-- the batch `Seg.persist` appends to the log (meaningful when the buffer is non-empty) -/
def persistBatch (s : Seg) : Batch := (s.acc.getD (Acc.new 0)).pBatch

/-- the index record `Seg.persist` appends to the index file -/
def persistIdx (s : Seg) : Idx := s.pIdx (s.acc.getD (Acc.new 0))

/-- the disk state once both appends of `Seg.persist` are complete -/
def Seg.diskAfter (s : Seg) : SegDisk :=
  { s.disk with log := s.log ++ [persistBatch s], idx := s.idxFile ++ [persistIdx s] }

section persistFiles
variable {cfg : Cfg} {s : Seg}

theorem Seg.acc_of_accMsgs_ne_nil (hne : s.accMsgs ≠ []) :
    ∃ a, s.acc = some a ∧ a.msgs ≠ [] ∧ s.accMsgs = a.msgs := by
  unfold Seg.accMsgs at hne ⊢
  cases ha : s.acc with
  | none => simp [ha] at hne
  | some a => exact ⟨a, rfl, by simpa [ha] using hne, rfl⟩

theorem persistBatch_msgs (s : Seg) : (persistBatch s).msgs = s.accMsgs := by
  unfold persistBatch Seg.accMsgs Acc.pBatch
  cases s.acc <;> rfl

/-- `persistBatch` / `persistIdx` are what `Seg.persist` writes -/
theorem Seg.persist_files (hne : s.accMsgs ≠ []) :
    (s.persist cfg).1.log = s.log ++ [persistBatch s] ∧
      (s.persist cfg).1.idxFile = s.idxFile ++ [persistIdx s] := by
  obtain ⟨a, ha, hne', -⟩ := Seg.acc_of_accMsgs_ne_nil hne
  rw [Seg.persist_some ha hne']
  unfold persistBatch persistIdx
  rw [ha]
  split <;> exact ⟨rfl, rfl⟩

theorem Seg.persist_disk (hne : s.accMsgs ≠ []) : (s.persist cfg).1.disk = s.diskAfter := by
  obtain ⟨h1, h2⟩ := Seg.persist_files (cfg := cfg) hne
  simp only [Seg.disk, Seg.diskAfter, h1, h2, Seg.persist_start]

theorem persistIdx_pos (h : s.Inv cfg) : (persistIdx s).pos = logBytes s.log := h.pos

theorem Seg.disk_consistent (h : s.Inv cfg) : s.disk.Consistent := ⟨h.idxFile, rfl, rfl, h.batches⟩

theorem Seg.diskAfter_consistent (h : s.Inv cfg) (hne : s.accMsgs ≠ []) : s.diskAfter.Consistent := by
  rw [← Seg.persist_disk (cfg := cfg) hne]
  exact Seg.disk_consistent (Seg.persist_inv h)

theorem persistBatch_wf (h : s.Inv cfg) (hne : s.accMsgs ≠ []) : (persistBatch s).WF :=
  (Seg.diskAfter_consistent h hne).2.2.2 _ (by simp [Seg.diskAfter])

theorem Seg.disk_eq_cleanDisk (h : s.Inv cfg) : s.disk = cleanDisk s.start s.log :=
  (Seg.disk_consistent h).eq_cleanDisk

theorem Seg.diskAfter_eq_cleanDisk (h : s.Inv cfg) (hne : s.accMsgs ≠ []) :
    s.diskAfter = cleanDisk s.start (s.log ++ [persistBatch s]) :=
  (Seg.diskAfter_consistent h hne).eq_cleanDisk

/-! ## reconciling the durable images of an interrupted `persist` -/

/-- the log append had not completed (torn or not started), the index untouched -/
theorem reconcile_before (h : s.Inv cfg) (t : Bool) : reconcile { s.disk with logTorn := t } = s.disk :=
  reconcile_consistent (Seg.disk_consistent h)

/-- the log holds the complete new batch, its index record is missing or torn: the batch is indexed -/
theorem reconcile_log_ahead (h : s.Inv cfg) (hne : s.accMsgs ≠ []) (t : Bool) :
    reconcile { s.disk with log := s.log ++ [persistBatch s], idxTorn := t } = s.diskAfter := by
  rw [Seg.diskAfter_eq_cleanDisk h hne]
  refine reconcile_of_prefix (k := s.log.length) (junk := []) (by simp) ?_ (by simp)
  simp [Seg.disk, h.idxFile]

/-- the index record is complete but its batch never reached the log (no-wait confirmation): the
record is dropped -/
theorem reconcile_idx_ahead (h : s.Inv cfg) (t : Bool) :
    reconcile { s.disk with idx := s.idxFile ++ [persistIdx s], logTorn := t } = s.disk := by
  rw [Seg.disk_eq_cleanDisk h]
  refine reconcile_of_prefix (k := s.log.length) (junk := [persistIdx s]) (by simp [cleanDisk]) ?_ ?_
  · simp [cleanDisk, h.idxFile]
  · intro e he
    rw [List.mem_singleton] at he
    subst he
    exact idxValid_end (persistIdx_pos h)

/-- both appends complete -/
theorem reconcile_after (h : s.Inv cfg) (hne : s.accMsgs ≠ []) : reconcile s.diskAfter = s.diskAfter :=
  reconcile_consistent (Seg.diskAfter_consistent h hne)

/-- wait confirmation: log append, then index append -/
theorem reconcile_images_wait (h : s.Inv cfg) (hne : s.accMsgs ≠ []) :
    (persistImages .wait s.disk (persistBatch s) (persistIdx s)).map reconcile =
      [s.disk, s.disk, s.diskAfter, s.diskAfter, s.diskAfter] := by
  simp only [persistImages, List.map_cons, List.map_nil]
  rw [show reconcile s.disk = s.disk from reconcile_before h false,
    show reconcile { s.disk with logTorn := true } = s.disk from reconcile_before h true,
    show reconcile { s.disk with log := s.disk.log ++ [persistBatch s] } = s.diskAfter from
      reconcile_log_ahead h hne false,
    show reconcile { s.disk with log := s.disk.log ++ [persistBatch s], idxTorn := true } = s.diskAfter from
      reconcile_log_ahead h hne true,
    show reconcile { s.disk with log := s.disk.log ++ [persistBatch s], idx := s.disk.idx ++ [persistIdx s] } =
      s.diskAfter from reconcile_after h hne]

/-- no-wait confirmation: index append first, the log append later -/
theorem reconcile_images_noWait (h : s.Inv cfg) (hne : s.accMsgs ≠ []) :
    (persistImages .noWait s.disk (persistBatch s) (persistIdx s)).map reconcile =
      [s.disk, s.disk, s.disk, s.disk, s.diskAfter] := by
  simp only [persistImages, List.map_cons, List.map_nil]
  rw [show reconcile s.disk = s.disk from reconcile_before h false,
    show reconcile { s.disk with idxTorn := true } = s.disk from reconcile_before h false,
    show reconcile { s.disk with idx := s.disk.idx ++ [persistIdx s] } = s.disk from
      reconcile_idx_ahead h false,
    show reconcile { s.disk with idx := s.disk.idx ++ [persistIdx s], logTorn := true } = s.disk from
      reconcile_idx_ahead h true,
    show reconcile { s.disk with log := s.disk.log ++ [persistBatch s], idx := s.disk.idx ++ [persistIdx s] } =
      s.diskAfter from reconcile_after h hne]

/-- every durable image reconciles to the clean state before the operation or to the clean state after
it, according to whether the image's log holds the complete new batch -/
theorem reconcile_image_cases (h : s.Inv cfg) (hne : s.accMsgs ≠ []) {c : Confirm} {x : SegDisk}
    (hx : x ∈ persistImages c s.disk (persistBatch s) (persistIdx s)) :
    (x.log = s.log ∧ reconcile x = s.disk) ∨
      (x.log = s.log ++ [persistBatch s] ∧ reconcile x = s.diskAfter) := by
  cases c with
  | wait =>
    have hm := reconcile_images_wait h hne
    simp only [persistImages, List.map_cons, List.map_nil, List.cons.injEq, and_true] at hm hx
    simp only [List.mem_cons, List.not_mem_nil, or_false] at hx
    obtain ⟨h1, h2, h3, h4, h5⟩ := hm
    rcases hx with rfl | rfl | rfl | rfl | rfl
    · exact Or.inl ⟨rfl, h1⟩
    · exact Or.inl ⟨rfl, h2⟩
    · exact Or.inr ⟨rfl, h3⟩
    · exact Or.inr ⟨rfl, h4⟩
    · exact Or.inr ⟨rfl, h5⟩
  | noWait =>
    have hm := reconcile_images_noWait h hne
    simp only [persistImages, List.map_cons, List.map_nil, List.cons.injEq, and_true] at hm hx
    simp only [List.mem_cons, List.not_mem_nil, or_false] at hx
    obtain ⟨h1, h2, h3, h4, h5⟩ := hm
    rcases hx with rfl | rfl | rfl | rfl | rfl
    · exact Or.inl ⟨rfl, h1⟩
    · exact Or.inl ⟨rfl, h2⟩
    · exact Or.inl ⟨rfl, h3⟩
    · exact Or.inl ⟨rfl, h4⟩
    · exact Or.inr ⟨rfl, h5⟩

end persistFiles

/-! ## loading a clean disk state -/

/-- the end-offset fix-up `Part.load` applies to a last segment that is full (storage.rs l.183-197) -/
def Seg.fixEnd (s : Seg) : Seg := { s with endOff := if s.closed then s.cur else s.endOff }

@[simp] theorem Seg.fixEnd_msgs (s : Seg) : s.fixEnd.msgs = s.msgs := rfl
@[simp] theorem Seg.fixEnd_start (s : Seg) : s.fixEnd.start = s.start := rfl
@[simp] theorem Seg.fixEnd_cur (s : Seg) : s.fixEnd.cur = s.cur := rfl
@[simp] theorem Seg.fixEnd_closed (s : Seg) : s.fixEnd.closed = s.closed := rfl
@[simp] theorem Seg.fixEnd_log (s : Seg) : s.fixEnd.log = s.log := rfl
@[simp] theorem Seg.fixEnd_idxFile (s : Seg) : s.fixEnd.idxFile = s.idxFile := rfl
@[simp] theorem Seg.fixEnd_accMsgs (s : Seg) : s.fixEnd.accMsgs = s.accMsgs := rfl
theorem Seg.fixEnd_of_open {s : Seg} (h : s.closed = false) : s.fixEnd = s := by
  cases s
  simp_all [Seg.fixEnd]

section load
variable {cfg : Cfg} {start now : Nat} {log : List Batch}

@[simp] theorem Seg.load_accMsgs (idx : List Idx) : (Seg.load cfg start now log idx).accMsgs = [] := by
  unfold Seg.accMsgs
  show (match (if decide (cfg.segSize ≤ logBytes log) then none else some (Acc.new _)) with
    | some a => a.msgs | none => []) = []
  cases decide (cfg.segSize ≤ logBytes log) <;> rfl

@[simp] theorem Seg.load_msgs (idx : List Idx) :
    (Seg.load cfg start now log idx).msgs = batchesMsgs log := by
  simp [Seg.msgs_def, Seg.load_accMsgs]
  rfl

theorem Seg.load_closed (idx : List Idx) :
    (Seg.load cfg start now log idx).closed = decide (cfg.segSize ≤ logBytes log) := rfl

/-- `Seg.load` of a log of well-formed, consecutively numbered batches and exactly its index satisfies
the segment invariant (after `Part.load`'s end-offset fix-up when the log fills the segment) -/
theorem Seg.load_fixEnd_inv (hwf : ∀ b ∈ log, b.WF) (hc : consecutiveFrom start (batchesMsgs log))
    (hnow : ∀ m ∈ batchesMsgs log, m.ts ≤ now) :
    (Seg.load cfg start now log (mkIdx start 0 log)).fixEnd.Inv cfg := by
  have hm : (Seg.load cfg start now log (mkIdx start 0 log)).fixEnd.msgs = batchesMsgs log := by simp
  exact
    { batches := hwf
      offsets := by rw [hm]; exact hc
      idxFile := rfl
      idxCache := rfl
      pos := rfl
      size := by
        rw [Seg.fixEnd_accMsgs, Seg.load_accMsgs]
        rfl
      cur := by rw [hm]; exact restart_lastRel hwf hc 0
      accHdr := by
        intro a hacc hne
        have : (Seg.load cfg start now log (mkIdx start 0 log)).accMsgs = a.msgs := by
          unfold Seg.accMsgs
          rw [show (Seg.load cfg start now log (mkIdx start 0 log)).acc = some a from hacc]
        rw [Seg.load_accMsgs] at this
        exact absurd this.symm hne
      endTs := by rw [hm]; exact hnow
      closed := by
        intro hcl
        have hcl' : decide (cfg.segSize ≤ logBytes log) = true := hcl
        refine ⟨?_, ?_, ?_⟩
        · show (if decide (cfg.segSize ≤ logBytes log) then none else some (Acc.new _)) = none
          rw [hcl']; rfl
        · show (if decide (cfg.segSize ≤ logBytes log) then _ else _) = _
          rw [hcl']; rfl
        · exact of_decide_eq_true hcl'
      open_ := by
        intro hcl
        have hcl' : decide (cfg.segSize ≤ logBytes log) = false := hcl
        left
        show logBytes log < cfg.segSize
        have := of_decide_eq_false hcl'
        omega }

end load

/-! ## the recovered segment -/

/-- the last segment of a partition after a restart on the disk state `d`: `recoverSeg` followed by the
end-offset fix-up of `Part.load` -/
def recoverLast (cfg : Cfg) (now : Nat) (d : SegDisk) : Seg := (recoverSeg cfg now d).fixEnd

section recover
variable {cfg : Cfg} {now : Nat}

theorem recoverSeg_eq (d : SegDisk) :
    recoverSeg cfg now d = Seg.load cfg d.start now d.log (reconcile d).idx := rfl

/-- the recovered segment holds exactly the messages of the complete batches of the log file -/
@[simp] theorem recoverSeg_msgs (d : SegDisk) : (recoverSeg cfg now d).msgs = batchesMsgs d.log := by
  rw [recoverSeg_eq, Seg.load_msgs]

@[simp] theorem recoverLast_msgs (d : SegDisk) : (recoverLast cfg now d).msgs = batchesMsgs d.log := by
  simp [recoverLast]

@[simp] theorem recoverLast_start (d : SegDisk) : (recoverLast cfg now d).start = d.start := rfl
@[simp] theorem recoverLast_log (d : SegDisk) : (recoverLast cfg now d).log = d.log := rfl
@[simp] theorem recoverLast_idxFile (d : SegDisk) : (recoverLast cfg now d).idxFile = (reconcile d).idx := rfl
@[simp] theorem recoverLast_accMsgs (d : SegDisk) : (recoverLast cfg now d).accMsgs = [] := by
  simp [recoverLast, recoverSeg_eq]

theorem recoverLast_closed (d : SegDisk) :
    (recoverLast cfg now d).closed = decide (cfg.segSize ≤ logBytes d.log) := rfl

theorem recoverLast_of_open {d : SegDisk} (h : logBytes d.log < cfg.segSize) :
    recoverLast cfg now d = recoverSeg cfg now d := by
  apply Seg.fixEnd_of_open
  rw [recoverSeg_eq, Seg.load_closed]
  simp; omega

/-- recovery on a disk state that reconciles to a clean state yields a segment satisfying the invariant -/
theorem recoverLast_inv {d : SegDisk} (hrec : reconcile d = cleanDisk d.start d.log)
    (hwf : ∀ b ∈ d.log, b.WF) (hc : consecutiveFrom d.start (batchesMsgs d.log))
    (hnow : ∀ m ∈ batchesMsgs d.log, m.ts ≤ now) : (recoverLast cfg now d).Inv cfg := by
  unfold recoverLast
  rw [recoverSeg_eq, hrec]
  exact Seg.load_fixEnd_inv hwf hc hnow

end recover

/-! ## a crash while the buffer of segment `s` is being persisted -/

section crash
variable {cfg : Cfg} {s : Seg} {now : Nat} {c : Confirm} {x : SegDisk}

theorem batchesMsgs_after (s : Seg) : batchesMsgs (s.log ++ [persistBatch s]) = s.msgs := by
  simp [persistBatch_msgs, Seg.msgs_def]

theorem image_start (h : s.Inv cfg) (hne : s.accMsgs ≠ [])
    (hx : x ∈ persistImages c s.disk (persistBatch s) (persistIdx s)) : x.start = s.start := by
  rcases reconcile_image_cases h hne hx with ⟨-, hr⟩ | ⟨-, hr⟩
  · exact congrArg SegDisk.start hr
  · exact congrArg SegDisk.start hr

/-- what the recovered segment holds: everything stored before the operation, plus the whole buffer iff
the image's log holds the complete new batch -/
theorem image_msgs (h : s.Inv cfg) (hne : s.accMsgs ≠ [])
    (hx : x ∈ persistImages c s.disk (persistBatch s) (persistIdx s)) :
    (x.log = s.log ∧ batchesMsgs x.log = batchesMsgs s.log) ∨
      (x.log = s.log ++ [persistBatch s] ∧ batchesMsgs x.log = s.msgs) := by
  rcases reconcile_image_cases h hne hx with ⟨hl, -⟩ | ⟨hl, -⟩
  · exact Or.inl ⟨hl, by rw [hl]⟩
  · exact Or.inr ⟨hl, by rw [hl, batchesMsgs_after]⟩

theorem image_reconcile_clean (h : s.Inv cfg) (hne : s.accMsgs ≠ [])
    (hx : x ∈ persistImages c s.disk (persistBatch s) (persistIdx s)) :
    reconcile x = cleanDisk x.start x.log ∧ (∀ b ∈ x.log, b.WF) := by
  have hst := image_start h hne hx
  rcases reconcile_image_cases h hne hx with ⟨hl, hr⟩ | ⟨hl, hr⟩
  · rw [hr, hst, hl]
    exact ⟨Seg.disk_eq_cleanDisk h, h.batches⟩
  · rw [hr, hst, hl]
    exact ⟨Seg.diskAfter_eq_cleanDisk h hne, (Seg.diskAfter_consistent h hne).2.2.2⟩

theorem image_recoverLast_inv (h : s.Inv cfg) (hne : s.accMsgs ≠ []) (hnow : ∀ m ∈ s.msgs, m.ts ≤ now)
    (hx : x ∈ persistImages c s.disk (persistBatch s) (persistIdx s)) :
    (recoverLast cfg now x).Inv cfg := by
  obtain ⟨hrec, hwf⟩ := image_reconcile_clean h hne hx
  have hst := image_start h hne hx
  refine recoverLast_inv hrec hwf ?_ ?_
  · rw [hst]
    rcases image_msgs h hne hx with ⟨-, hm⟩ | ⟨-, hm⟩
    · rw [hm]; exact h.log_consecutive
    · rw [hm]; exact h.offsets
  · rcases image_msgs h hne hx with ⟨-, hm⟩ | ⟨-, hm⟩
    · rw [hm]; exact fun m hm' => hnow m (by simp [Seg.msgs_def, hm'])
    · rw [hm]; exact hnow

theorem image_msgs_prefix (h : s.Inv cfg) (hne : s.accMsgs ≠ [])
    (hx : x ∈ persistImages c s.disk (persistBatch s) (persistIdx s)) :
    batchesMsgs x.log <+: s.msgs ∧ batchesMsgs s.log <+: batchesMsgs x.log := by
  rcases image_msgs h hne hx with ⟨-, hm⟩ | ⟨-, hm⟩
  · rw [hm]; exact ⟨List.prefix_append _ _, List.prefix_refl _⟩
  · rw [hm]; exact ⟨List.prefix_refl _, List.prefix_append _ _⟩

end crash

/-- both appends complete: the last image, in both confirmation modes -/
theorem diskAfter_mem (s : Seg) (c : Confirm) :
    s.diskAfter ∈ persistImages c s.disk (persistBatch s) (persistIdx s) := by
  cases c <;> simp only [persistImages, List.mem_cons] <;>
    exact Or.inr (Or.inr (Or.inr (Or.inr (Or.inl rfl))))

theorem Seg.Inv.last_off {cfg : Cfg} {r : Seg} (hi : r.Inv cfg) {m : Msg} (hm : r.msgs.getLast? = some m) :
    m.off = r.cur ∧ m.off + 1 = r.start + r.msgs.length := by
  have h1 := hi.offsets.getLast hm
  have h2 := hi.cur
  have h3 : 0 < r.msgs.length := by
    cases hr : r.msgs with
    | nil => simp [hr] at hm
    | cons a l => simp
  exact ⟨by omega, h1⟩

/-! ## lifting to a partition whose last segment is being persisted -/

def SegDisk.files (d : SegDisk) : SegFiles := { start := d.start, log := d.log, idxFile := d.idx }

/-- what is on disk for the partition: the earlier segments are clean, the last one is in state `x` -/
def Part.crashDisks (p : Part) (x : SegDisk) : List SegDisk := p.segs.dropLast.map Seg.disk ++ [x]

/-- restart on these files: every segment is reconciled, then the partition is loaded. `co`, `go`: the
consumer offsets found on disk; `cl`: how many messages the warm-up puts into the cache -/
def Part.recover (cfg : Cfg) (p : Part) (now : Nat) (x : SegDisk) (co go : List (Nat × Nat)) (cl : Nat) :
    Part :=
  Part.load cfg p.expiry now ((p.crashDisks x).map (fun d => (reconcile d).files)) co go cl

/-- a clean partition with segments `init ++ [t]` (proof device: the recovered partition is the reload
of this one) -/
def crashVirtual (cfg : Cfg) (p : Part) (init : List Seg) (t : Seg) (co go : List (Nat × Nat)) : Part :=
  { segs := init ++ [t]
    cur := t.start + t.msgs.length - 1
    shouldInc := decide (0 < t.start + t.msgs.length)
    unsaved := 0
    cache := if cfg.cacheOn then some [] else none
    dedup := if cfg.dedupOn then some ((segsMsgs (init ++ [t])).map (·.id)) else none
    consOffs := co, grpOffs := go, expiry := p.expiry
    cnt := { msgs := (segsMsgs (init ++ [t])).length
             size := ((init ++ [t]).map (·.sizeBytes)).sum
             segs := (init ++ [t]).length } }

section part
variable {cfg : Cfg} {p : Part} {init : List Seg} {s t : Seg} {co go : List (Nat × Nat)}

theorem crashVirtual_next : (crashVirtual cfg p init t co go).next = t.start + t.msgs.length := by
  unfold Part.next crashVirtual
  simp only
  split
  · next h => have := of_decide_eq_true h; omega
  · next h => have := of_decide_eq_false (Bool.eq_false_iff.2 h); omega

theorem crashVirtual_msgs : (crashVirtual cfg p init t co go).msgs = segsMsgs init ++ t.msgs := by
  rw [Part.msgs_eq]
  simp [crashVirtual]

theorem crashVirtual_inv (hp : p.Inv cfg) (hs : p.segs = init ++ [s]) (ht : t.Inv cfg)
    (hst : t.start = s.start) (hpre : t.msgs <+: s.msgs)
    (hco : ∀ e ∈ co, e.2 < t.start + t.msgs.length ∨ (e.2 = 0 ∧ t.start + t.msgs.length = 0))
    (hgo : ∀ e ∈ go, e.2 < t.start + t.msgs.length ∨ (e.2 = 0 ∧ t.start + t.msgs.length = 0)) :
    (crashVirtual cfg p init t co go).Inv cfg := by
  have hnext := crashVirtual_next (cfg := cfg) (p := p) (init := init) (t := t) (co := co) (go := go)
  have hmsgs := crashVirtual_msgs (cfg := cfg) (p := p) (init := init) (t := t) (co := co) (go := go)
  have hpm : p.msgs = segsMsgs init ++ s.msgs := by rw [Part.msgs_eq, hs]; simp
  have hprefix : (crashVirtual cfg p init t co go).msgs <+: p.msgs := by
    rw [hmsgs, hpm]
    exact (List.prefix_append_right_inj _).2 hpre
  exact
    { segs := by
        intro u hu
        have hu' : u ∈ init ++ [t] := hu
        simp only [List.mem_append, List.mem_singleton] at hu'
        rcases hu' with hu' | rfl
        · exact hp.segs u (by simp [hs, hu'])
        · exact ht
      chain := by
        rw [hnext]
        show chain (init ++ [t]) _
        have hc := hp.chain
        rw [hs, chain_snoc] at hc
        rw [chain_snoc, hst]
        exact ⟨hc.1, rfl⟩
      sizes := fun m hm => hp.sizes m (hprefix.subset hm)
      ts := by
        have := hp.ts
        rw [tsSorted_iff_pairwise] at this ⊢
        exact this.sublist hprefix.sublist
      cache := by
        intro c hc
        have hc' : (if cfg.cacheOn then some [] else none) = some c := hc
        cases hon : cfg.cacheOn
        · simp [hon] at hc'
        · simp only [hon, if_true, Option.some.injEq] at hc'
          subst hc'
          exact ⟨Or.inl (List.nil_suffix), trivial, Nat.zero_le _⟩
      cacheCfg := by
        show (if cfg.cacheOn then some [] else none : Option (List Msg)).isSome = cfg.cacheOn
        cases cfg.cacheOn <;> rfl
      dedupCfg := by
        show (if cfg.dedupOn then some _ else none : Option (List Nat)).isSome = cfg.dedupOn
        cases cfg.dedupOn <;> rfl
      dedupIds := by
        intro ids hids
        have hids' : (if cfg.dedupOn then some ((segsMsgs (init ++ [t])).map (·.id)) else none) = some ids :=
          hids
        cases hon : cfg.dedupOn
        · simp [hon] at hids'
        · simp only [hon, if_true, Option.some.injEq] at hids'
          subst hids'
          rw [Part.msgs_eq]
          refine ⟨fun m hm => List.mem_map.2 ⟨m, hm, rfl⟩, ?_⟩
          have hcfg := hp.dedupCfg
          rw [hon] at hcfg
          obtain ⟨ids0, h0⟩ := Option.isSome_iff_exists.1 hcfg
          have hnd := (hp.dedupIds ids0 h0).2
          have hsub : ((crashVirtual cfg p init t co go).msgs.map (·.id)).Sublist (p.msgs.map (·.id)) :=
            hprefix.sublist.map _
          exact hsub.nodup hnd
      cntMsgs := rfl
      cntSize := rfl
      cntSegs := rfl
      offsBound := by rw [hnext]; exact ⟨hco, hgo⟩
      curZero := by
        intro hi
        have hi' : decide (0 < t.start + t.msgs.length) = false := hi
        have := of_decide_eq_false hi'
        show t.start + t.msgs.length - 1 = 0
        omega
      segSize := hp.segSize }

end part

section partCrash
variable {cfg : Cfg} {p : Part} {init : List Seg} {s : Seg} {now : Nat} {c : Confirm} {x : SegDisk}
  {co go : List (Nat × Nat)}

/-- the recovered partition is the reload of the clean partition `init ++ [recoverLast x]` -/
theorem Part.recover_eq (hp : p.Inv cfg) (hs : p.segs = init ++ [s]) (cl : Nat) :
    p.recover cfg now x co go cl =
      (crashVirtual cfg p init (recoverLast cfg now x) co go).reloaded cfg now cl := by
  unfold Part.recover Part.reloaded
  have hfiles : (p.crashDisks x).map (fun d => (reconcile d).files) =
      (crashVirtual cfg p init (recoverLast cfg now x) co go).files := by
    unfold Part.crashDisks Part.files
    rw [hs, List.dropLast_concat]
    show _ = (init ++ [recoverLast cfg now x]).map _
    simp only [List.map_append, List.map_map, List.map_cons, List.map_nil]
    congr 1
    apply List.map_congr_left
    intro u hu
    have hui : u.Inv cfg := hp.segs u (by simp [hs, hu])
    simp only [Function.comp_apply, reconcile_consistent (Seg.disk_consistent hui)]
    rfl
  rw [hfiles]
  rfl

/-- restart of a partition whose last segment's files are in any state `x` that reconciles to a clean
state holding a prefix of the segment's messages -/
theorem Part.recover_spec_of_clean (hp : p.Inv cfg) (hs : p.segs = init ++ [s]) (hxs : x.start = s.start)
    (hrec : reconcile x = cleanDisk x.start x.log) (hwf : ∀ b ∈ x.log, b.WF)
    (hpre : batchesMsgs x.log <+: s.msgs) (hnow : ∀ m ∈ p.msgs, m.ts ≤ now)
    (hco : ∀ e ∈ co, e.2 < s.start + (batchesMsgs x.log).length ∨
      (e.2 = 0 ∧ s.start + (batchesMsgs x.log).length = 0))
    (hgo : ∀ e ∈ go, e.2 < s.start + (batchesMsgs x.log).length ∨
      (e.2 = 0 ∧ s.start + (batchesMsgs x.log).length = 0)) (cl : Nat) :
    (p.recover cfg now x co go cl).Inv cfg ∧
      (p.recover cfg now x co go cl).msgs = segsMsgs init ++ batchesMsgs x.log ∧
      (p.recover cfg now x co go cl).next = s.start + (batchesMsgs x.log).length := by
  have hsi : s.Inv cfg := hp.segs s (by simp [hs])
  have hpm : p.msgs = segsMsgs init ++ s.msgs := by rw [Part.msgs_eq, hs]; simp
  have hnow' : ∀ m ∈ batchesMsgs x.log, m.ts ≤ now :=
    fun m hm => hnow m (by rw [hpm]; exact List.mem_append_right _ (hpre.subset hm))
  have hc : consecutiveFrom x.start (batchesMsgs x.log) := by
    obtain ⟨rest, hrest⟩ := hpre
    have := hsi.offsets
    rw [← hrest] at this
    rw [hxs]
    exact (consecutiveFrom_append_iff.1 this).1
  have ht : (recoverLast cfg now x).Inv cfg := recoverLast_inv hrec hwf hc hnow'
  have hst : (recoverLast cfg now x).start = s.start := by rw [recoverLast_start]; exact hxs
  have hv := crashVirtual_inv (co := co) (go := go) hp hs ht hst (by simpa using hpre)
    (by rw [hst, recoverLast_msgs]; exact hco) (by rw [hst, recoverLast_msgs]; exact hgo)
  have hacc : ∀ u ∈ (crashVirtual cfg p init (recoverLast cfg now x) co go).segs, u.accMsgs = [] := by
    intro u hu
    have hu' : u ∈ init ++ [recoverLast cfg now x] := hu
    simp only [List.mem_append, List.mem_singleton] at hu'
    rcases hu' with hu' | rfl
    · exact (hp.segs u (by simp [hs, hu'])).accMsgs_nil_of_closed ((hp.last_facts hs).1 u hu')
    · simp
  have hvm := crashVirtual_msgs (cfg := cfg) (p := p) (init := init) (t := recoverLast cfg now x)
    (co := co) (go := go)
  rw [Part.recover_eq hp hs]
  refine ⟨Part.reloaded_inv hv hacc ?_ cl, ?_, ?_⟩
  · intro m hm
    rw [hvm] at hm
    refine hnow m ?_
    rw [hpm]
    rcases List.mem_append.1 hm with hm | hm
    · exact List.mem_append_left _ hm
    · exact List.mem_append_right _ (hpre.subset (by simpa using hm))
  · rw [Part.reloaded_msgs hv hacc, hvm]; simp
  · rw [(Part.reloaded_next hv hacc cl).1, crashVirtual_next, hst]; simp

/-- the last segment was being persisted -/
theorem Part.recover_spec (hp : p.Inv cfg) (hs : p.segs = init ++ [s]) (hne : s.accMsgs ≠ [])
    (hx : x ∈ persistImages c s.disk (persistBatch s) (persistIdx s))
    (hnow : ∀ m ∈ p.msgs, m.ts ≤ now)
    (hco : ∀ e ∈ co, e.2 < s.start + (batchesMsgs x.log).length ∨
      (e.2 = 0 ∧ s.start + (batchesMsgs x.log).length = 0))
    (hgo : ∀ e ∈ go, e.2 < s.start + (batchesMsgs x.log).length ∨
      (e.2 = 0 ∧ s.start + (batchesMsgs x.log).length = 0)) (cl : Nat) :
    (p.recover cfg now x co go cl).Inv cfg ∧
      (p.recover cfg now x co go cl).msgs = segsMsgs init ++ batchesMsgs x.log ∧
      (p.recover cfg now x co go cl).next = s.start + (batchesMsgs x.log).length := by
  have hsi : s.Inv cfg := hp.segs s (by simp [hs])
  obtain ⟨hrec, hwf⟩ := image_reconcile_clean hsi hne hx
  exact Part.recover_spec_of_clean hp hs (image_start hsi hne hx) hrec hwf (image_msgs_prefix hsi hne hx).1
    hnow hco hgo cl

/-- no file mutation was in flight: the last segment's files are clean (its buffer, if any, is lost) -/
theorem Part.recover_spec_idle (hp : p.Inv cfg) (hs : p.segs = init ++ [s])
    (hnow : ∀ m ∈ p.msgs, m.ts ≤ now)
    (hco : ∀ e ∈ co, e.2 < s.start + (batchesMsgs s.log).length ∨
      (e.2 = 0 ∧ s.start + (batchesMsgs s.log).length = 0))
    (hgo : ∀ e ∈ go, e.2 < s.start + (batchesMsgs s.log).length ∨
      (e.2 = 0 ∧ s.start + (batchesMsgs s.log).length = 0)) (cl : Nat) :
    (p.recover cfg now s.disk co go cl).Inv cfg ∧
      (p.recover cfg now s.disk co go cl).msgs = segsMsgs init ++ batchesMsgs s.log ∧
      (p.recover cfg now s.disk co go cl).next = s.start + (batchesMsgs s.log).length := by
  have hsi : s.Inv cfg := hp.segs s (by simp [hs])
  have hrec : reconcile s.disk = cleanDisk s.disk.start s.disk.log := by
    rw [reconcile_consistent (Seg.disk_consistent hsi)]; exact Seg.disk_eq_cleanDisk hsi
  exact Part.recover_spec_of_clean (x := s.disk) hp hs rfl hrec hsi.batches
    (by rw [Seg.msgs_def]; exact List.prefix_append _ _) hnow hco hgo cl

end partCrash

end Iggy.Log
