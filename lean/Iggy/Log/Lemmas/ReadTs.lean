/-
Polling by timestamp: the model (`Seg.getByTimestamp`, `Part.getByTimestamp`) returns what the
specification (`SPart.pollTimestamp`) says, provided no log file reaches 4 GiB (the reader passes
`u32::MAX` as the end position of the read).
-/
import Iggy.Log.Lemmas.SegOps
namespace Iggy.Log

/-! ## sorted lists -/

/-- on a timestamp-sorted list `partition_point` (dropWhile) is the filter -/
theorem readTs_dropWhile_eq_filter {l : List Msg} (h : l.Pairwise (fun a b => a.ts ≤ b.ts)) (ts : Nat) :
    l.dropWhile (fun m => m.ts < ts) = l.filter (fun m => ts ≤ m.ts) := by
  induction l with
  | nil => rfl
  | cons a l ih =>
    obtain ⟨h1, h2⟩ := List.pairwise_cons.1 h
    rw [List.dropWhile_cons]
    by_cases ha : a.ts < ts
    · have : ¬ ts ≤ a.ts := by omega
      simp [ha, this, ih h2]
    · have hle : ts ≤ a.ts := by omega
      have hall : l.filter (fun m => ts ≤ m.ts) = l := by
        rw [List.filter_eq_self]
        intro b hb
        have := h1 b hb
        simp; omega
      simp [ha, hle, hall]

/-- in a sorted list the last element bounds all -/
theorem readTs_le_getLast {l : List Msg} (h : l.Pairwise (fun a b => a.ts ≤ b.ts)) {x : Msg}
    (hx : l.getLast? = some x) : ∀ m ∈ l, m.ts ≤ x.ts := by
  obtain ⟨ys, rfl⟩ := List.getLast?_eq_some_iff.1 hx
  intro m hm
  rcases List.mem_append.1 hm with hm | hm
  · exact (List.pairwise_append.1 h).2.2 m hm x (by simp)
  · simp at hm; subst hm; exact Nat.le_refl _

theorem Acc.getByTimestamp_eq {a : Acc} (h : a.msgs.Pairwise (fun a b => a.ts ≤ b.ts)) (ts n : Nat) :
    a.getByTimestamp ts n = (a.msgs.filter (fun m => ts ≤ m.ts)).take n := by
  unfold Acc.getByTimestamp
  rw [readTs_dropWhile_eq_filter h]

/-- a well-formed batch whose `maxTs` is below `ts` holds no message at or after `ts` -/
theorem readTs_batch_filter_nil {b : Batch} (hwf : b.WF) (hs : b.msgs.Pairwise (fun a b => a.ts ≤ b.ts))
    {ts : Nat} (hlt : b.maxTs < ts) : b.msgs.filter (fun m => ts ≤ m.ts) = [] := by
  rw [List.filter_eq_nil_iff]
  intro m hm
  obtain ⟨_, _, _, h4⟩ := hwf
  cases hl : b.msgs.getLast? with
  | none => simp [hl] at h4
  | some x =>
    simp [hl] at h4
    have := readTs_le_getLast hs hl m hm
    simp; omega

theorem readTs_batches_filter_nil {l : List Batch} (hwf : ∀ b ∈ l, b.WF)
    (hs : (batchesMsgs l).Pairwise (fun a b => a.ts ≤ b.ts)) {ts : Nat} (hlt : ∀ b ∈ l, b.maxTs < ts) :
    (batchesMsgs l).filter (fun m => ts ≤ m.ts) = [] := by
  induction l with
  | nil => rfl
  | cons b l ih =>
    rw [batchesMsgs_cons] at hs ⊢
    obtain ⟨h1, h2, _⟩ := List.pairwise_append.1 hs
    rw [List.filter_append, readTs_batch_filter_nil (hwf b (by simp)) h1 (hlt b (by simp)),
      ih (fun c hc => hwf c (by simp [hc])) h2 (fun c hc => hlt c (by simp [hc]))]
    rfl

/-! ## the index lookup -/

/-- `load_index_for_timestamp_impl`'s scan over the index of the batches `done ++ l`, having passed
`done`: it fails only if every batch ends before `ts`; otherwise the position it returns is the
start of a batch before which every batch ends before `ts`. -/
theorem readTs_go_spec (start ts : Nat) (l done : List Batch) (last : Option Idx)
    (hdone : ∀ b ∈ done, b.maxTs < ts)
    (hlast : ∃ d1 d2, done = d1 ++ d2 ∧ (last.getD Idx.zero).pos = logBytes d1) :
    match idxForTimestamp.go ts (mkIdx start (logBytes done) l) last with
    | none => ∀ b ∈ done ++ l, b.maxTs < ts
    | some i => ∃ pre rest, done ++ l = pre ++ rest ∧ i.pos = logBytes pre ∧ ∀ b ∈ pre, b.maxTs < ts := by
  induction l generalizing done last with
  | nil => simpa [mkIdx, idxForTimestamp.go] using hdone
  | cons b l ih =>
    simp only [mkIdx, idxForTimestamp.go]
    by_cases hb : ts ≤ b.maxTs
    · simp only [hb, ↓reduceIte]
      obtain ⟨d1, d2, h1, h2⟩ := hlast
      refine ⟨d1, d2 ++ b :: l, by simp [h1], h2, ?_⟩
      intro c hc; exact hdone c (by simp [h1, hc])
    · simp only [hb, ↓reduceIte]
      have := ih (done ++ [b]) (some { rel := b.base + b.lastDelta - start, pos := logBytes done, ts := b.maxTs })
        (by
          intro c hc
          rcases List.mem_append.1 hc with hc | hc
          · exact hdone c hc
          · simp at hc; subst hc; omega)
        ⟨done, [b], rfl, rfl⟩
      simpa [logBytes_append, List.append_assoc] using this

theorem readTs_idxForTimestamp_spec (start ts : Nat) (l : List Batch) :
    match idxForTimestamp (mkIdx start 0 l) ts with
    | none => ∀ b ∈ l, b.maxTs < ts
    | some i => ∃ pre rest, l = pre ++ rest ∧ i.pos = logBytes pre ∧ ∀ b ∈ pre, b.maxTs < ts := by
  unfold idxForTimestamp
  by_cases he : (mkIdx start 0 l).isEmpty = true
  · simp only [he, ↓reduceIte]
    exact ⟨[], l, rfl, rfl, by simp⟩
  · simp only [he]
    have := readTs_go_spec start ts l [] none (by simp) ⟨[], [], rfl, rfl⟩
    simpa using this

/-! ## the log read -/

/-- skipping phase: the batches that start before `pos + logBytes pre` are exactly `pre` -/
theorem readTs_readRange_skip (pre rest : List Batch) (pos ep : Nat) :
    readRange (pre ++ rest) pos (pos + logBytes pre) ep =
      readRange rest (pos + logBytes pre) (pos + logBytes pre) ep := by
  induction pre generalizing pos with
  | nil => simp
  | cons b l ih =>
    have hb := b.bytes_pos
    have hlt : pos < pos + (b.bytes + logBytes l) := by omega
    simp only [List.cons_append, readRange, logBytes_cons, hlt, ↓reduceIte]
    have := ih (pos + b.bytes)
    simpa [Nat.add_assoc] using this

/-- taking phase: everything is read if the file ends early enough -/
theorem readTs_readRange_all (l : List Batch) (pos sp ep : Nat) (hsp : sp ≤ pos)
    (hep : pos + logBytes l ≤ ep + 24) : readRange l pos sp ep = l := by
  induction l generalizing pos with
  | nil => rfl
  | cons b l ih =>
    have hb := b.bytes_pos
    have hlt : ¬ pos < sp := by omega
    simp only [readRange, hlt, ↓reduceIte]
    cases l with
    | nil => split <;> rfl
    | cons c r =>
      have hc := c.bytes_pos
      simp only [logBytes_cons] at hep ih
      have : ¬ ep ≤ pos := by omega
      simp only [this, ↓reduceIte]
      rw [ih (pos + b.bytes) (by omega) (by omega)]

theorem readTs_readRange (pre rest : List Batch) (ep : Nat) (hep : logBytes (pre ++ rest) ≤ ep + 24) :
    readRange (pre ++ rest) 0 (logBytes pre) ep = rest := by
  have h1 := readTs_readRange_skip pre rest 0 ep
  simp only [Nat.zero_add] at h1
  rw [h1, readTs_readRange_all rest _ _ ep (Nat.le_refl _) (by simpa using hep)]

/-! ## segment level -/

theorem Seg.loadFromDiskByTimestamp_eq {cfg : Cfg} {s : Seg} (h : s.Inv cfg)
    (hts : (batchesMsgs s.log).Pairwise (fun a b => a.ts ≤ b.ts))
    (hsmall : logBytes s.log < 2^32) (ts count : Nat) :
    s.loadFromDiskByTimestamp ts count = ((batchesMsgs s.log).filter (fun m => ts ≤ m.ts)).take count := by
  unfold Seg.loadFromDiskByTimestamp
  have hspec := readTs_idxForTimestamp_spec s.start ts s.log
  rw [h.idxFile]
  cases hi : idxForTimestamp (mkIdx s.start 0 s.log) ts with
  | none =>
    simp only [hi] at hspec
    simp only []
    rw [readTs_batches_filter_nil h.batches hts hspec]
    simp
  | some i =>
    simp only [hi] at hspec
    obtain ⟨pre, rest, hl, hpos, hpre⟩ := hspec
    simp only []
    have hwf := h.batches
    rw [hl] at hwf hts hsmall ⊢
    rw [hpos, readTs_readRange pre rest _ (by omega)]
    rw [batchesMsgs_append] at hts ⊢
    rw [List.filter_append,
      readTs_batches_filter_nil (fun b hb => hwf b (by simp [hb])) (List.pairwise_append.1 hts).1 hpre]
    rfl

theorem readTs_take_glue {α} (D A : List α) (n : Nat) :
    (D.take n ++ A.take (n - (D.take n).length)).take n = (D ++ A).take n := by
  rw [List.take_append, List.take_append, List.take_take, List.take_take, List.length_take]
  have h1 : min n n = n := by omega
  have h2 : min (n - min n D.length) (n - min n D.length) = n - D.length := by omega
  rw [h1, h2]

theorem readTs_ite_take {α} (l : List α) (r : Nat) : (if r > 0 then l.take r else []) = l.take r := by
  by_cases hr : r > 0
  · simp [hr]
  · have : r = 0 := by omega
    simp [this]

theorem Seg.getByTimestamp_eq {cfg : Cfg} {s : Seg} (h : s.Inv cfg) (hts : tsSorted s.msgs)
    (hsmall : logBytes s.log < 2^32) (ts count : Nat) :
    s.getByTimestamp ts count = (s.msgs.filter (fun m => ts ≤ m.ts)).take count := by
  rw [tsSorted_iff_pairwise, Seg.msgs, List.pairwise_append] at hts
  obtain ⟨hd, ha, _⟩ := hts
  unfold Seg.getByTimestamp
  by_cases hc : count = 0
  · simp [hc]
  simp only [hc, ↓reduceIte]
  rw [Seg.loadFromDiskByTimestamp_eq h hd hsmall]
  cases hacc : s.acc with
  | none =>
    have hnil : s.accMsgs = [] := by simp [Seg.accMsgs, hacc]
    simp only [ite_self, List.append_nil, List.take_take, Nat.min_self, Seg.msgs, hnil]
  | some a =>
    have hm : s.accMsgs = a.msgs := by simp [Seg.accMsgs, hacc]
    rw [hm] at ha
    simp only [Acc.getByTimestamp_eq ha, readTs_ite_take, readTs_take_glue, Seg.msgs, hm,
      List.filter_append]

/-! ## partition level -/

theorem readTs_go_eq {cfg : Cfg} (ts : Nat) (l : List Seg) (hinv : ∀ s ∈ l, s.Inv cfg)
    (hsmall : ∀ s ∈ l, logBytes s.log < 2^32)
    (hts : (segsMsgs l).Pairwise (fun a b => a.ts ≤ b.ts)) (rem : Nat) :
    Part.getByTimestamp.go ts l rem = ((segsMsgs l).filter (fun m => ts ≤ m.ts)).take rem := by
  induction l generalizing rem with
  | nil => simp [Part.getByTimestamp.go]
  | cons s l ih =>
    rw [segsMsgs_cons] at hts ⊢
    obtain ⟨hs, hl, _⟩ := List.pairwise_append.1 hts
    have ih' := ih (fun t ht => hinv t (by simp [ht])) (fun t ht => hsmall t (by simp [ht])) hl
    have hsi := hinv s (by simp)
    rw [Part.getByTimestamp.go, List.filter_append]
    by_cases hend : s.endTs < ts
    · simp only [hend, ↓reduceIte]
      have : s.msgs.filter (fun m => ts ≤ m.ts) = [] := by
        rw [List.filter_eq_nil_iff]
        intro m hm
        have := hsi.endTs m hm
        simp; omega
      rw [this, ih']; rfl
    · simp only [hend, ↓reduceIte]
      rw [Seg.getByTimestamp_eq hsi (tsSorted_iff_pairwise.2 hs) (hsmall s (by simp)), ih',
        List.take_append, List.length_take]
      split
      · next hz =>
        have : rem - (s.msgs.filter (fun m => ts ≤ m.ts)).length = 0 := by omega
        simp [this]
      · next hz =>
        have : rem - min rem (s.msgs.filter (fun m => ts ≤ m.ts)).length =
            rem - (s.msgs.filter (fun m => ts ≤ m.ts)).length := by omega
        rw [this]

theorem Part.getByTimestamp_eq {cfg : Cfg} {p : Part} (h : p.Inv cfg)
    (hsmall : ∀ s ∈ p.segs, logBytes s.log < 2^32) (ts count : Nat) :
    p.getByTimestamp ts count = (abs p).pollTimestamp ts count := by
  have hgo := readTs_go_eq ts p.segs h.segs hsmall (tsSorted_iff_pairwise.1 h.ts) count
  unfold Part.getByTimestamp SPart.pollTimestamp
  show _ = ((segsMsgs p.segs).filter (fun m => ts ≤ m.ts)).take count
  split
  · next hc =>
    rcases hc with hc | hc
    · have : p.segs = [] := by simpa using hc
      simp [this]
    · simp [hc]
  · exact hgo

/-! ## the size hypothesis is necessary

A segment (and a partition made of it) that satisfies the invariant and is sorted by timestamp, but
whose log file exceeds 4 GiB: its first batch holds one message of `2^32` bytes.  The read that
`load_messages_from_disk_by_timestamp` issues ends at `u32::MAX`, so it stops after the second batch
and the third batch's message is never returned. -/

def readTsCexCfg : Cfg := { reqToSave := 1, segSize := 2^33, cacheOn := false, idxCacheOn := false, dedupOn := false }
def readTsCexLog : List Batch :=
  [ { base := 0, lastDelta := 0, maxTs := 1, msgs := [{ off := 0, id := 0, ts := 1, size := 2^32, tag := 0 }] },
    { base := 1, lastDelta := 0, maxTs := 2, msgs := [{ off := 1, id := 1, ts := 2, size := 1, tag := 0 }] },
    { base := 2, lastDelta := 0, maxTs := 3, msgs := [{ off := 2, id := 2, ts := 3, size := 1, tag := 0 }] } ]
def readTsCexSeg : Seg :=
  { start := 0, cur := 2, endOff := 0, sizeBytes := logBytes readTsCexLog, lastIdxPos := logBytes readTsCexLog,
    endTs := 3, closed := false, log := readTsCexLog, idxFile := mkIdx 0 0 readTsCexLog, idxCache := none,
    acc := none }

theorem readTsCexSeg_inv : readTsCexSeg.Inv readTsCexCfg where
  batches := by decide
  offsets := by decide
  idxFile := rfl
  idxCache := by decide
  pos := rfl
  size := by decide
  cur := by decide
  accHdr := by intro a ha; simp [readTsCexSeg] at ha
  endTs := by decide
  closed := by decide
  open_ := by decide

def readTsCexPart : Part :=
  { segs := [readTsCexSeg], cur := 2, shouldInc := true, unsaved := 0, cache := none, dedup := none,
    consOffs := [], grpOffs := [], expiry := none,
    cnt := { msgs := 3, size := logBytes readTsCexLog, segs := 1 } }

theorem readTsCexPart_inv : readTsCexPart.Inv readTsCexCfg where
  segs := by intro s hs; simp [readTsCexPart] at hs; subst hs; exact readTsCexSeg_inv
  chain := by show readTsCexSeg.start + readTsCexSeg.msgs.length = readTsCexPart.next; decide
  sizes := by decide
  ts := by decide
  cache := by intro c hc; simp [readTsCexPart] at hc
  cacheCfg := by decide
  dedupCfg := by decide
  dedupIds := by intro c hc; simp [readTsCexPart] at hc
  cntMsgs := by decide
  cntSize := by decide
  cntSegs := by decide
  offsBound := by decide
  curZero := by decide
  segSize := by decide

theorem readTsCexSeg_sorted : tsSorted readTsCexSeg.msgs := by decide

theorem readTsCexSeg_large : ¬ logBytes readTsCexSeg.log < 2^32 := by decide

/-- the third batch is lost: the second batch starts at byte `2^32 + 24 ≥ u32::MAX`, the read stops -/
theorem readTsCexSeg_neq :
    readTsCexSeg.getByTimestamp 0 10 ≠ (readTsCexSeg.msgs.filter (fun m => 0 ≤ m.ts)).take 10 := by decide

example : (readTsCexSeg.getByTimestamp 0 10).map (·.off) = [0, 1] := by decide
example : ((readTsCexSeg.msgs.filter (fun m => 0 ≤ m.ts)).take 10).map (·.off) = [0, 1, 2] := by decide

theorem readTsCexPart_neq : readTsCexPart.getByTimestamp 0 10 ≠ (abs readTsCexPart).pollTimestamp 0 10 := by decide
end Iggy.Log
