/-
Graceful shutdown + restart (`Part.restart` = `Part.save` then `Part.load` of the files) preserves the
invariant and the abstract state, except that the dedup id set is recomputed from the stored messages.
-/
import Iggy.Log.Lemmas.Persist
namespace Iggy.Log

/-! ## general list facts -/

theorem restart_eraseDups_of_nodup {l : List Nat} (h : l.Nodup) : l.eraseDups = l := by
  induction l with
  | nil => rfl
  | cons a l ih =>
    have h' := List.nodup_cons.1 h
    rw [List.eraseDups_cons]
    have hf : l.filter (fun b => !b == a) = l := by
      rw [List.filter_eq_self]
      intro b hb
      have : b ≠ a := fun e => h'.1 (e ▸ hb)
      simpa using this
    rw [hf, ih h'.2]

theorem restart_nodup_eraseDups (l : List Nat) : l.eraseDups.Nodup := by
  induction hn : l.length using Nat.strongRecOn generalizing l with
  | _ n ih =>
    cases l with
    | nil => simp
    | cons a l =>
      rw [List.eraseDups_cons, List.nodup_cons]
      refine ⟨?_, ?_⟩
      · rw [List.mem_eraseDups]
        simp
      · subst hn
        exact ih _ (by
          have := List.length_filter_le (fun b => !b == a) l
          simp only [List.length_cons]; omega) _ rfl

/-! ## loading one segment -/

/-- `Seg.load` of the files of `s` -/
def Seg.reload (cfg : Cfg) (now : Nat) (s : Seg) : Seg := Seg.load cfg s.start now s.log s.idxFile

/-- the reloaded segment after the end-offset fix-ups of `Part.load` -/
def Seg.reloadFix (cfg : Cfg) (now : Nat) (s : Seg) : Seg :=
  { s.reload cfg now with endOff := if s.closed then s.cur else 0 }

section seg
variable {cfg : Cfg} {now : Nat} {s : Seg}

@[simp] theorem Seg.reload_start : (s.reload cfg now).start = s.start := rfl
@[simp] theorem Seg.reload_log : (s.reload cfg now).log = s.log := rfl
@[simp] theorem Seg.reload_idxFile : (s.reload cfg now).idxFile = s.idxFile := rfl
@[simp] theorem Seg.reload_endOff : (s.reload cfg now).endOff = 0 := rfl
@[simp] theorem Seg.reload_endTs : (s.reload cfg now).endTs = now := rfl
theorem Seg.reload_sizeBytes' : (s.reload cfg now).sizeBytes = logBytes s.log := rfl
theorem Seg.reload_lastIdxPos : (s.reload cfg now).lastIdxPos = logBytes s.log := rfl
theorem Seg.reload_closed' : (s.reload cfg now).closed = decide (cfg.segSize ≤ logBytes s.log) := rfl
theorem Seg.reload_cur' :
    (s.reload cfg now).cur = s.start + ((s.idxFile.getLast?.map (·.rel)).getD 0) := rfl
theorem Seg.reload_idxCache :
    (s.reload cfg now).idxCache = if cfg.idxCacheOn then some s.idxFile else none := rfl
theorem Seg.reload_acc :
    (s.reload cfg now).acc =
      if (s.reload cfg now).closed then none else some (Acc.new (s.reload cfg now).cur) := rfl

@[simp] theorem Seg.reload_accMsgs : (s.reload cfg now).accMsgs = [] := by
  unfold Seg.accMsgs
  rw [Seg.reload_acc]
  cases (s.reload cfg now).closed <;> simp [Acc.new]

theorem Seg.reload_msgs (ha : s.accMsgs = []) : (s.reload cfg now).msgs = s.msgs := by
  simp [Seg.msgs, ha]

theorem Seg.Inv.sizeBytes_of_accMsgs_nil (h : s.Inv cfg) (ha : s.accMsgs = []) :
    s.sizeBytes = logBytes s.log := by
  have := h.size; simp [ha] at this; exact this

theorem Seg.reload_sizeBytes (h : s.Inv cfg) (ha : s.accMsgs = []) :
    (s.reload cfg now).sizeBytes = s.sizeBytes := by
  rw [Seg.reload_sizeBytes', h.sizeBytes_of_accMsgs_nil ha]

theorem Seg.reload_closed (h : s.Inv cfg) (ha : s.accMsgs = []) :
    (s.reload cfg now).closed = s.closed := by
  rw [Seg.reload_closed', ← h.sizeBytes_of_accMsgs_nil ha]
  cases hc : s.closed with
  | true => simpa using (h.closed hc).2.2
  | false =>
    rcases h.open_ hc with h1 | h1
    · simpa using h1
    · exact absurd ha h1

/-- the last index record points at the last stored message -/
theorem restart_lastRel {start : Nat} {log : List Batch} (hwf : ∀ b ∈ log, b.WF)
    (hc : consecutiveFrom start (batchesMsgs log)) (pos : Nat) :
    start + (((mkIdx start pos log).getLast?.map (·.rel)).getD 0) =
      start + ((batchesMsgs log).length - 1) := by
  by_cases hnil : log = []
  · subst hnil; simp
  · obtain ⟨init, b, rfl⟩ := exists_snoc_of_ne_nil hnil
    have hb := hwf b (by simp)
    obtain ⟨hne, -, hlast, -⟩ := hb
    rw [mkIdx_append]
    simp only [mkIdx, List.getLast?_append, List.getLast?_singleton, Option.some_or, Option.map_some,
      Option.getD_some]
    cases hl : b.msgs.getLast? with
    | none => simp [hne] at hl
    | some m =>
      have hm : (batchesMsgs (init ++ [b])).getLast? = some m := by
        simp [List.getLast?_append, hl]
      have := hc.getLast hm
      simp [hl] at hlast
      omega

theorem Seg.reload_cur (h : s.Inv cfg) (ha : s.accMsgs = []) : (s.reload cfg now).cur = s.cur := by
  rw [Seg.reload_cur', h.idxFile, restart_lastRel h.batches h.log_consecutive, h.cur]
  simp [Seg.msgs, ha]

end seg

/-! ## the reloaded segment with the end offset fixed up -/

section segfix
variable {cfg : Cfg} {now : Nat} {s : Seg}

@[simp] theorem Seg.reloadFix_start : (s.reloadFix cfg now).start = s.start := rfl
@[simp] theorem Seg.reloadFix_log : (s.reloadFix cfg now).log = s.log := rfl
@[simp] theorem Seg.reloadFix_idxFile : (s.reloadFix cfg now).idxFile = s.idxFile := rfl
@[simp] theorem Seg.reloadFix_endTs : (s.reloadFix cfg now).endTs = now := rfl
theorem Seg.reloadFix_endOff : (s.reloadFix cfg now).endOff = if s.closed then s.cur else 0 := rfl
theorem Seg.reloadFix_acc : (s.reloadFix cfg now).acc = (s.reload cfg now).acc := rfl
theorem Seg.reloadFix_closed' : (s.reloadFix cfg now).closed = (s.reload cfg now).closed := rfl
theorem Seg.reloadFix_cur' : (s.reloadFix cfg now).cur = (s.reload cfg now).cur := rfl
theorem Seg.reloadFix_sizeBytes' : (s.reloadFix cfg now).sizeBytes = (s.reload cfg now).sizeBytes := rfl
theorem Seg.reloadFix_lastIdxPos : (s.reloadFix cfg now).lastIdxPos = logBytes s.log := rfl
theorem Seg.reloadFix_idxCache :
    (s.reloadFix cfg now).idxCache = if cfg.idxCacheOn then some s.idxFile else none := rfl

@[simp] theorem Seg.reloadFix_accMsgs : (s.reloadFix cfg now).accMsgs = [] :=
  Seg.reload_accMsgs (cfg := cfg) (now := now) (s := s)

theorem Seg.reloadFix_msgs (ha : s.accMsgs = []) : (s.reloadFix cfg now).msgs = s.msgs :=
  Seg.reload_msgs (cfg := cfg) (now := now) ha

theorem Seg.reloadFix_sizeBytes (h : s.Inv cfg) (ha : s.accMsgs = []) :
    (s.reloadFix cfg now).sizeBytes = s.sizeBytes := Seg.reload_sizeBytes (now := now) h ha

theorem Seg.reloadFix_closed (h : s.Inv cfg) (ha : s.accMsgs = []) :
    (s.reloadFix cfg now).closed = s.closed := Seg.reload_closed (now := now) h ha

theorem Seg.reloadFix_cur (h : s.Inv cfg) (ha : s.accMsgs = []) :
    (s.reloadFix cfg now).cur = s.cur := Seg.reload_cur (now := now) h ha

/-- an open reloaded segment needs no fix-up -/
theorem Seg.reloadFix_of_open (hc : s.closed = false) : s.reloadFix cfg now = s.reload cfg now := by
  simp [Seg.reloadFix, hc, Seg.reload, Seg.load]

/-- `fixEnds` computes the right end offset of a closed segment from its successor's start -/
theorem Seg.reloadFix_of_next (h : s.Inv cfg) (hseg : 0 < cfg.segSize) (hc : s.closed = true) {t : Nat}
    (ht : s.start + s.msgs.length = t) :
    ({ s.reload cfg now with endOff := t - 1 } : Seg) = s.reloadFix cfg now := by
  have hne := h.msgs_ne_nil_of_closed hseg hc
  have : 0 < s.msgs.length := List.length_pos_iff.2 hne
  have hcur := h.cur
  have : t - 1 = s.cur := by omega
  simp [Seg.reloadFix, hc, this]

/-- the last-segment fix-up of `Part.load` -/
theorem Seg.reloadFix_of_closed (h : s.Inv cfg) (ha : s.accMsgs = []) (hc : s.closed = true) :
    ({ s.reload cfg now with endOff := (s.reload cfg now).cur } : Seg) = s.reloadFix cfg now := by
  simp [Seg.reloadFix, hc, Seg.reload_cur h ha]

theorem Seg.reloadFix_inv (h : s.Inv cfg) (ha : s.accMsgs = []) (hnow : ∀ m ∈ s.msgs, m.ts ≤ now) :
    (s.reloadFix cfg now).Inv cfg := by
  have hm : (s.reloadFix cfg now).msgs = s.msgs := Seg.reloadFix_msgs ha
  have hcl : (s.reloadFix cfg now).closed = s.closed := Seg.reloadFix_closed h ha
  have hcur : (s.reloadFix cfg now).cur = s.cur := Seg.reloadFix_cur h ha
  have hsz : (s.reloadFix cfg now).sizeBytes = s.sizeBytes := Seg.reloadFix_sizeBytes h ha
  exact
    { batches := h.batches
      offsets := by rw [hm]; exact h.offsets
      idxFile := h.idxFile
      idxCache := Seg.reloadFix_idxCache
      pos := Seg.reloadFix_lastIdxPos
      size := by simp [Seg.reloadFix_sizeBytes', Seg.reload_sizeBytes']
      cur := by rw [hm, hcur]; exact h.cur
      accHdr := by
        intro a hacc hne
        rw [Seg.reloadFix_acc, Seg.reload_acc] at hacc
        cases hx : (s.reload cfg now).closed
        · simp [hx] at hacc; subst hacc; simp [Acc.new] at hne
        · simp [hx] at hacc
      endTs := by rw [hm]; exact hnow
      closed := by
        intro hc
        rw [hcl] at hc
        refine ⟨?_, ?_, ?_⟩
        · rw [Seg.reloadFix_acc, Seg.reload_acc, ← Seg.reloadFix_closed', hcl, hc]; rfl
        · rw [Seg.reloadFix_endOff, hcur, hc]; rfl
        · rw [hsz]; exact (h.closed hc).2.2
      open_ := by
        intro hc
        rw [hcl] at hc
        rw [hsz]
        rcases h.open_ hc with h1 | h1
        · exact Or.inl h1
        · exact absurd ha h1 }

/-- with an empty buffer, "no bytes" and "no messages" coincide -/
theorem Seg.Inv.sizeBytes_eq_zero_iff (h : s.Inv cfg) (ha : s.accMsgs = []) :
    s.sizeBytes = 0 ↔ s.msgs = [] := by
  rw [h.sizeBytes_of_accMsgs_nil ha]
  constructor
  · intro hz
    simp [Seg.msgs, ha, logBytes_eq_zero hz]
  · intro hm
    by_cases hl : s.log = []
    · simp [hl]
    · have := batchesMsgs_ne_nil h.batches hl
      simp [Seg.msgs, ha] at hm
      exact absurd hm this

end segfix

/-! ## the loaded segment list -/

/-- the segment list `Part.load` ends up with, from the freshly loaded segments -/
def loadSegs (segs0 : List Seg) : List Seg :=
  match (fixEnds segs0).getLast? with
  | some l =>
    if l.closed then updLast (fixEnds segs0) (fun s => { s with endOff := s.cur }) else fixEnds segs0
  | none => fixEnds segs0

theorem Part.files_map_load (cfg : Cfg) (now : Nat) (q : Part) :
    q.files.map (fun f => Seg.load cfg f.start now f.log f.idxFile) = q.segs.map (Seg.reload cfg now) := by
  simp [Part.files, List.map_map, Function.comp_def, Seg.reload]

theorem Part.files_logs (q : Part) : q.files.map (·.log) = q.segs.map (·.log) := by
  simp [Part.files, List.map_map, Function.comp_def]

theorem fixEnds_cons_cons (s t : Seg) (rest : List Seg) :
    fixEnds (s :: t :: rest) = { s with endOff := t.start - 1 } :: fixEnds (t :: rest) := rfl

theorem restart_fixEnds {cfg : Cfg} {now : Nat} (hseg : 0 < cfg.segSize) {init : List Seg} {last : Seg}
    {n : Nat} (hc : chain (init ++ [last]) n) (hinv : ∀ s ∈ init, s.Inv cfg) :
    fixEnds ((init ++ [last]).map (Seg.reload cfg now)) =
      init.map (Seg.reloadFix cfg now) ++ [last.reload cfg now] := by
  induction init with
  | nil => rfl
  | cons a l ih =>
    have ha := hinv a (by simp)
    cases l with
    | nil =>
      simp only [List.cons_append, List.nil_append, chain_cons_cons] at hc
      have e := Seg.reloadFix_of_next (now := now) ha hseg hc.2.1 hc.1
      simp only [List.cons_append, List.nil_append, List.map_cons, List.map_nil]
      exact congrArg (fun x => [x, last.reload cfg now]) e
    | cons b r =>
      simp only [List.cons_append, chain_cons_cons] at hc
      have e := Seg.reloadFix_of_next (now := now) ha hseg hc.2.1 hc.1
      have ih' := ih hc.2.2 (fun s hs => hinv s (by simp [hs]))
      simp only [List.cons_append, List.map_cons] at ih' ⊢
      rw [fixEnds_cons_cons, ih']
      exact congrArg (fun x => x :: _) e

theorem restart_loadSegs {cfg : Cfg} {now : Nat} (hseg : 0 < cfg.segSize) {l : List Seg} {n : Nat}
    (hc : chain l n) (hinv : ∀ s ∈ l, s.Inv cfg) (hacc : ∀ s ∈ l, s.accMsgs = []) :
    loadSegs (l.map (Seg.reload cfg now)) = l.map (Seg.reloadFix cfg now) := by
  obtain ⟨init, last, rfl⟩ := exists_snoc_of_ne_nil (chain_ne_nil hc)
  have hl := hinv last (by simp)
  have hla := hacc last (by simp)
  unfold loadSegs
  rw [restart_fixEnds hseg hc (fun s hs => hinv s (by simp [hs]))]
  have hlast : (init.map (Seg.reloadFix cfg now) ++ [last.reload cfg now]).getLast? =
      some (last.reload cfg now) := by simp
  rw [hlast]
  have hcl' := Seg.reload_closed (now := now) hl hla
  simp only [List.map_append, List.map_cons, List.map_nil]
  cases hcl : last.closed with
  | true =>
    rw [hcl] at hcl'
    rw [if_pos hcl', updLast_snoc]
    exact congrArg (fun x => _ ++ [x]) (Seg.reloadFix_of_closed hl hla hcl)
  | false =>
    rw [hcl] at hcl'
    rw [if_neg (by simp [hcl']), Seg.reloadFix_of_open hcl]

/-! ## the fields of a loaded partition -/

def loadLastEmpty (segs : List Seg) : Bool :=
  match segs.getLast? with
  | some l => decide (l.sizeBytes = 0 ∧ 0 < l.start)
  | none => false

def loadInc (segs : List Seg) : Bool := segs.any (fun s => s.sizeBytes > 0) || loadLastEmpty segs

def loadCur (segs : List Seg) : Nat :=
  (segs.getLast?.map (fun l => if loadLastEmpty segs then l.start - 1 else l.cur)).getD 0

section loadFields
variable (cfg : Cfg) (e : Option Nat) (now : Nat) (files : List SegFiles) (co go : List (Nat × Nat))
  (cl : Nat)

theorem Part.load_segs : (Part.load cfg e now files co go cl).segs =
    loadSegs (files.map (fun f => Seg.load cfg f.start now f.log f.idxFile)) := rfl
theorem Part.load_shouldInc : (Part.load cfg e now files co go cl).shouldInc =
    loadInc (Part.load cfg e now files co go cl).segs := rfl
theorem Part.load_cur : (Part.load cfg e now files co go cl).cur =
    loadCur (Part.load cfg e now files co go cl).segs := rfl
theorem Part.load_cache : (Part.load cfg e now files co go cl).cache =
    if cfg.cacheOn then
      some ((batchesMsgs (files.map (·.log)).flatten).drop
        ((batchesMsgs (files.map (·.log)).flatten).length - cl))
    else none := rfl
theorem Part.load_dedup : (Part.load cfg e now files co go cl).dedup =
    if cfg.dedupOn then some ((batchesMsgs (files.map (·.log)).flatten).map (·.id)).eraseDups
    else none := rfl
theorem Part.load_consOffs : (Part.load cfg e now files co go cl).consOffs = co := rfl
theorem Part.load_grpOffs : (Part.load cfg e now files co go cl).grpOffs = go := rfl
theorem Part.load_expiry : (Part.load cfg e now files co go cl).expiry = e := rfl
theorem Part.load_cnt_segs : (Part.load cfg e now files co go cl).cnt.segs =
    (Part.load cfg e now files co go cl).segs.length := rfl
theorem Part.load_cnt_size : (Part.load cfg e now files co go cl).cnt.size =
    ((Part.load cfg e now files co go cl).segs.map (·.sizeBytes)).sum := rfl
theorem Part.load_cnt_msgs : (Part.load cfg e now files co go cl).cnt.msgs =
    ((Part.load cfg e now files co go cl).segs.map Seg.msgCount).sum := rfl

end loadFields

/-! ## `should_increment_offset` / `current_offset` of a loaded partition -/

theorem loadLastEmpty_snoc (init : List Seg) (gl : Seg) :
    loadLastEmpty (init ++ [gl]) = decide (gl.sizeBytes = 0 ∧ 0 < gl.start) := by
  simp [loadLastEmpty]

theorem loadCur_snoc (init : List Seg) (gl : Seg) :
    loadCur (init ++ [gl]) = if loadLastEmpty (init ++ [gl]) then gl.start - 1 else gl.cur := by
  simp [loadCur]

theorem restart_loadNext {init : List Seg} {gl : Seg} {n : Nat}
    (hz : ∀ s ∈ init ++ [gl], s.sizeBytes = 0 ↔ s.msgs = [])
    (hcur : gl.cur = gl.start + (gl.msgs.length - 1)) (hn : gl.start + gl.msgs.length = n)
    (hlen : (segsMsgs (init ++ [gl])).length ≤ n) :
    (if loadInc (init ++ [gl]) then loadCur (init ++ [gl]) + 1 else 0) = n ∧
      (loadInc (init ++ [gl]) = false → loadCur (init ++ [gl]) = 0) := by
  have hzl := hz gl (by simp)
  by_cases hm : gl.msgs = []
  · have hsz : gl.sizeBytes = 0 := hzl.2 hm
    by_cases hs : 0 < gl.start
    · have hle : loadLastEmpty (init ++ [gl]) = true := by
        rw [loadLastEmpty_snoc]; simp [hsz, hs]
      have hinc : loadInc (init ++ [gl]) = true := by simp [loadInc, hle]
      rw [hinc, loadCur_snoc, hle]
      simp [hm] at hn
      simp; omega
    · have hle : loadLastEmpty (init ++ [gl]) = false := by
        rw [loadLastEmpty_snoc]; simp [hs]
      have hs0 : gl.start = 0 := by omega
      simp [hm, hs0] at hn
      subst hn
      have hnil : segsMsgs (init ++ [gl]) = [] := List.length_eq_zero_iff.1 (by omega)
      have hall : ∀ s ∈ init ++ [gl], s.sizeBytes = 0 := by
        intro s hs
        refine (hz s hs).2 ?_
        cases hx : s.msgs with
        | nil => rfl
        | cons m r =>
          have : m ∈ segsMsgs (init ++ [gl]) := mem_segsMsgs.2 ⟨s, hs, by simp [hx]⟩
          simp [hnil] at this
      have hany : (init ++ [gl]).any (fun s => s.sizeBytes > 0) = false := by
        rw [List.any_eq_false]
        intro s hs
        simp [hall s hs]
      have hinc : loadInc (init ++ [gl]) = false := by simp only [loadInc, hany, hle]; rfl
      rw [hinc, loadCur_snoc, hle]
      simp [hcur, hm, hs0]
  · have hsz : gl.sizeBytes ≠ 0 := fun h => hm (hzl.1 h)
    have hle : loadLastEmpty (init ++ [gl]) = false := by
      rw [loadLastEmpty_snoc]; simp [hsz]
    have hany : (init ++ [gl]).any (fun s => s.sizeBytes > 0) = true := by
      rw [List.any_eq_true]
      exact ⟨gl, by simp, by simp; omega⟩
    have hinc : loadInc (init ++ [gl]) = true := by simp [loadInc, hany]
    have : 0 < gl.msgs.length := List.length_pos_iff.2 hm
    rw [hinc, loadCur_snoc, hle]
    simp; omega

/-! ## loading the files of a saved partition -/

theorem restart_all_msgs {l : List Seg} (hacc : ∀ s ∈ l, s.accMsgs = []) :
    batchesMsgs (l.map (·.log)).flatten = segsMsgs l := by
  induction l with
  | nil => rfl
  | cons a l ih =>
    simp only [List.map_cons, List.flatten_cons, batchesMsgs_append, segsMsgs_cons,
      ih (fun s hs => hacc s (by simp [hs]))]
    simp [Seg.msgs, hacc a (by simp)]

theorem restart_msgCount_sum {cfg : Cfg} {l : List Seg} (hinv : ∀ s ∈ l, s.Inv cfg)
    (hs : ∀ m ∈ segsMsgs l, 0 < m.size) : (l.map Seg.msgCount).sum = (segsMsgs l).length := by
  induction l with
  | nil => rfl
  | cons a l ih =>
    have h1 := (hinv a (by simp)).msgCount (fun m hm => hs m (by simp [hm]))
    have h2 := ih (fun s hs => hinv s (by simp [hs])) (fun m hm => hs m (by simp [hm]))
    simp [h1, h2]

/-- the partition a restart builds from the files of `q` -/
def Part.reloaded (cfg : Cfg) (q : Part) (now cl : Nat) : Part :=
  Part.load cfg q.expiry now q.files q.consOffs q.grpOffs cl

section reloaded
variable {cfg : Cfg} {q : Part} {now : Nat}

theorem Part.reloaded_segs (hq : q.Inv cfg) (hacc : ∀ s ∈ q.segs, s.accMsgs = []) (cl : Nat) :
    (q.reloaded cfg now cl).segs = q.segs.map (Seg.reloadFix cfg now) := by
  unfold Part.reloaded
  rw [Part.load_segs, Part.files_map_load]
  exact restart_loadSegs hq.segSize hq.chain hq.segs hacc

theorem Part.reloaded_msgs (hq : q.Inv cfg) (hacc : ∀ s ∈ q.segs, s.accMsgs = []) (cl : Nat) :
    (q.reloaded cfg now cl).msgs = q.msgs := by
  rw [Part.msgs_eq, Part.reloaded_segs hq hacc, Part.msgs_eq]
  exact segsMsgs_map_of_msgs (fun s hs => Seg.reloadFix_msgs (hacc s hs))

theorem Part.reloaded_next (hq : q.Inv cfg) (hacc : ∀ s ∈ q.segs, s.accMsgs = []) (cl : Nat) :
    (q.reloaded cfg now cl).next = q.next ∧
      ((q.reloaded cfg now cl).shouldInc = false → (q.reloaded cfg now cl).cur = 0) := by
  have hsegs := Part.reloaded_segs (now := now) hq hacc cl
  have hmsgs := Part.reloaded_msgs (now := now) hq hacc cl
  obtain ⟨init, last, hs⟩ := hq.exists_snoc
  have hlast : last.Inv cfg := hq.segs last (by simp [hs])
  have hla : last.accMsgs = [] := hacc last (by simp [hs])
  have hsegs' : (q.reloaded cfg now cl).segs =
      init.map (Seg.reloadFix cfg now) ++ [last.reloadFix cfg now] := by
    rw [hsegs, hs]; simp
  have key := restart_loadNext (init := init.map (Seg.reloadFix cfg now)) (gl := last.reloadFix cfg now)
    (n := q.next) ?_ ?_ ?_ ?_
  · unfold Part.next
    have e1 : (q.reloaded cfg now cl).shouldInc = loadInc (q.reloaded cfg now cl).segs :=
      Part.load_shouldInc ..
    have e2 : (q.reloaded cfg now cl).cur = loadCur (q.reloaded cfg now cl).segs := Part.load_cur ..
    rw [e1, e2, hsegs']
    exact key
  · intro s hsm
    rw [← hsegs', hsegs] at hsm
    obtain ⟨t, ht, rfl⟩ := List.mem_map.1 hsm
    rw [Seg.reloadFix_sizeBytes (hq.segs t ht) (hacc t ht), Seg.reloadFix_msgs (hacc t ht)]
    exact (hq.segs t ht).sizeBytes_eq_zero_iff (hacc t ht)
  · rw [Seg.reloadFix_cur hlast hla, Seg.reloadFix_msgs hla, Seg.reloadFix_start]
    exact hlast.cur
  · rw [Seg.reloadFix_msgs hla, Seg.reloadFix_start]
    exact (hq.last_facts hs).2.1
  · rw [← hsegs', ← Part.msgs_eq, hmsgs]
    have := hq.tiled'.2
    omega

theorem Part.reloaded_inv (hq : q.Inv cfg) (hacc : ∀ s ∈ q.segs, s.accMsgs = [])
    (hnow : ∀ m ∈ q.msgs, m.ts ≤ now) (cl : Nat) : (q.reloaded cfg now cl).Inv cfg := by
  have hsegs := Part.reloaded_segs (now := now) hq hacc cl
  have hmsgs := Part.reloaded_msgs (now := now) hq hacc cl
  obtain ⟨hnext, hzero⟩ := Part.reloaded_next (now := now) hq hacc cl
  have hall : batchesMsgs (q.files.map (·.log)).flatten = q.msgs := by
    rw [Part.files_logs, restart_all_msgs hacc, Part.msgs_eq]
  have hinvs : ∀ s ∈ (q.reloaded cfg now cl).segs, s.Inv cfg := by
    intro s hsm
    rw [hsegs] at hsm
    obtain ⟨t, ht, rfl⟩ := List.mem_map.1 hsm
    exact Seg.reloadFix_inv (hq.segs t ht) (hacc t ht)
      (fun m hm => hnow m (mem_segsMsgs.2 ⟨t, ht, hm⟩))
  have hcache : (q.reloaded cfg now cl).cache =
      if cfg.cacheOn then some (q.msgs.drop (q.msgs.length - cl)) else none := by
    unfold Part.reloaded; rw [Part.load_cache, hall]
  have hdedup : (q.reloaded cfg now cl).dedup =
      if cfg.dedupOn then some (q.msgs.map (·.id)).eraseDups else none := by
    unfold Part.reloaded; rw [Part.load_dedup, hall]
  exact
    { segs := hinvs
      chain := by
        rw [hnext, hsegs]
        exact chain_map (fun _ _ => Seg.reloadFix_start) (fun s hs => Seg.reloadFix_msgs (hacc s hs))
          (fun s hs hc => by rw [Seg.reloadFix_closed (hq.segs s hs) (hacc s hs)]; exact hc) hq.chain
      sizes := by rw [hmsgs]; exact hq.sizes
      ts := by rw [hmsgs]; exact hq.ts
      cache := by
        intro c hc
        rw [hcache] at hc
        cases hon : cfg.cacheOn
        · simp [hon] at hc
        · simp only [hon, if_true, Option.some.injEq] at hc
          subst hc
          rw [hmsgs, hnext]
          have ht := hq.tiled'.2
          have hcons := hq.msgs_consecutive.drop (q.msgs.length - cl)
          refine ⟨Or.inl (List.drop_suffix _ _), ?_, ?_⟩
          · have : q.next - (q.msgs.drop (q.msgs.length - cl)).length =
                q.firstStart + (q.msgs.length - cl) := by
              simp only [List.length_drop]; omega
            rw [this]; exact hcons
          · simp only [List.length_drop]; omega
      cacheCfg := by rw [hcache]; cases cfg.cacheOn <;> rfl
      dedupCfg := by rw [hdedup]; cases cfg.dedupOn <;> rfl
      dedupIds := by
        intro ids hids
        rw [hdedup] at hids
        cases hon : cfg.dedupOn
        · simp [hon] at hids
        · simp only [hon, if_true, Option.some.injEq] at hids
          subst hids
          rw [hmsgs]
          refine ⟨fun m hm => List.mem_eraseDups.2 (List.mem_map.2 ⟨m, hm, rfl⟩), ?_⟩
          have hcfg := hq.dedupCfg
          rw [hon] at hcfg
          obtain ⟨ids0, h0⟩ := Option.isSome_iff_exists.1 hcfg
          exact (hq.dedupIds ids0 h0).2
      cntMsgs := by
        unfold Part.reloaded
        rw [Part.load_cnt_msgs]
        show ((q.reloaded cfg now cl).segs.map Seg.msgCount).sum = (q.reloaded cfg now cl).msgs.length
        rw [Part.msgs_eq]
        refine restart_msgCount_sum hinvs ?_
        rw [← Part.msgs_eq, hmsgs]; exact hq.sizes
      cntSize := Part.load_cnt_size ..
      cntSegs := Part.load_cnt_segs ..
      offsBound := by
        rw [hnext]
        exact hq.offsBound
      curZero := hzero
      segSize := hq.segSize }

theorem Part.reloaded_abs (hq : q.Inv cfg) (hacc : ∀ s ∈ q.segs, s.accMsgs = []) (cl : Nat) :
    abs (q.reloaded cfg now cl) =
      { abs q with ids := (abs q).ids.map (fun _ => ((abs q).msgs.map (·.id)).eraseDups) } := by
  have hmsgs := Part.reloaded_msgs (now := now) hq hacc cl
  have hnext := (Part.reloaded_next (now := now) hq hacc cl).1
  have hall : batchesMsgs (q.files.map (·.log)).flatten = q.msgs := by
    rw [Part.files_logs, restart_all_msgs hacc, Part.msgs_eq]
  have hdedup : (q.reloaded cfg now cl).dedup =
      if cfg.dedupOn then some (q.msgs.map (·.id)).eraseDups else none := by
    unfold Part.reloaded; rw [Part.load_dedup, hall]
  have hcfg := hq.dedupCfg
  have hids : (q.reloaded cfg now cl).dedup = q.dedup.map (fun _ => (q.msgs.map (·.id)).eraseDups) := by
    rw [hdedup, ← hcfg]
    cases q.dedup <;> rfl
  show SPart.mk _ _ _ _ _ _ = SPart.mk _ _ _ _ _ _
  rw [hmsgs, hnext, hids]
  rfl

end reloaded

/-! ## restart -/

theorem Part.restart_eq (cfg : Cfg) (p : Part) (now cacheLen : Nat) :
    p.restart cfg now cacheLen = (p.save cfg).reloaded cfg now cacheLen := rfl

/-- A graceful shutdown followed by a restart keeps the invariant and the abstract state; only the
dedup id set is recomputed from the stored messages. `hnow`: the clock did not go backwards. -/
theorem Part.restart_refines {cfg : Cfg} {p : Part} (h : p.Inv cfg) {now : Nat}
    (hnow : ∀ m ∈ p.msgs, m.ts ≤ now) (cacheLen : Nat) :
    (p.restart cfg now cacheLen).Inv cfg ∧
    abs (p.restart cfg now cacheLen) =
      { abs p with ids := (abs p).ids.map (fun _ => ((abs p).msgs.map (·.id)).eraseDups) } := by
  obtain ⟨hq, habs⟩ := Part.save_refines h
  have hacc := Part.save_accMsgs cfg p
  have hnow' : ∀ m ∈ (p.save cfg).msgs, m.ts ≤ now := by rw [Part.save_msgs]; exact hnow
  rw [Part.restart_eq]
  refine ⟨Part.reloaded_inv hq hacc hnow' cacheLen, ?_⟩
  rw [Part.reloaded_abs hq hacc cacheLen, habs]

/-- under the invariant the stored ids are already duplicate-free when dedup is on -/
theorem Part.restart_refines' {cfg : Cfg} {p : Part} (h : p.Inv cfg) {now : Nat}
    (hnow : ∀ m ∈ p.msgs, m.ts ≤ now) (cacheLen : Nat) :
    abs (p.restart cfg now cacheLen) =
      { abs p with ids := (abs p).ids.map (fun _ => (abs p).msgs.map (·.id)) } := by
  rw [(Part.restart_refines h hnow cacheLen).2]
  show SPart.mk _ _ _ _ _ _ = SPart.mk _ _ _ _ _ _
  congr 1
  show p.dedup.map _ = p.dedup.map _
  cases hd : p.dedup with
  | none => rfl
  | some ids =>
    simp only [Option.map_some]
    congr 1
    exact restart_eraseDups_of_nodup (h.dedupIds ids hd).2

end Iggy.Log
