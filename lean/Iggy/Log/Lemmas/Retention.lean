/-
Retention (`Part.expire`, `Part.deleteOldest`, both via `Part.deleteSegments`) refines the spec's
`SPart.dropPrefix`, preserves the invariant and is legal: only messages of closed (and, for `expire`,
expired) segments are dropped.
-/
import Iggy.Log.Lemmas.ReadSpec
namespace Iggy.Log

/-! ## shape of the segment list -/

theorem retention_tiled_le_start {a : Nat} {l : List Seg} (h : tiled a l) : ∀ t ∈ l, a ≤ t.start := by
  induction l generalizing a with
  | nil => simp
  | cons s r ih =>
    intro t ht
    rcases List.mem_cons.1 ht with rfl | ht
    · exact Nat.le_of_eq h.1.symm
    · have := ih h.2.2 t ht; omega

/-- along a tiled list of segments every segment but the last is closed and non-empty, so the start
offsets strictly increase -/
theorem retention_tiled_pairwise {cfg : Cfg} {a : Nat} {l : List Seg} (h : tiled a l)
    (hi : ∀ s ∈ l, s.Inv cfg) (hseg : 0 < cfg.segSize) :
    l.Pairwise (fun x y => x.closed = true ∧ x.start < y.start) := by
  induction l generalizing a with
  | nil => simp
  | cons s r ih =>
    refine List.pairwise_cons.2 ⟨?_, ih h.2.2 (fun t ht => hi t (by simp [ht]))⟩
    intro t ht
    have hc : s.closed = true := h.2.1 (List.ne_nil_of_mem ht)
    have hne := (hi s (by simp)).msgs_ne_nil_of_closed hseg hc
    have hlen : 0 < s.msgs.length := List.length_pos_iff.2 hne
    have := retention_tiled_le_start h.2.2 t ht
    have := h.1
    exact ⟨hc, by omega⟩

theorem Part.Inv.segs_pairwise {cfg : Cfg} {p : Part} (h : p.Inv cfg) :
    p.segs.Pairwise (fun x y => x.closed = true ∧ x.start < y.start) :=
  retention_tiled_pairwise h.tiled'.1 h.segs h.segSize

/-! ## the fold of `Part.deleteSegments` -/

/-- one round of the loop in `delete_segments` -/
def Part.delStep (acc : Part × Nat) (st : Nat) : Part × Nat :=
  match acc.1.segs.find? (fun s => s.start = st) with
  | none => acc
  | some s =>
    ({ acc.1 with segs := acc.1.segs.filter (fun t => t.start ≠ st)
                  cnt := acc.1.cnt.subSeg s }, s.endOff)

theorem Part.deleteSegments_eq (cfg : Cfg) (p : Part) (starts : List Nat) (now : Nat) :
    p.deleteSegments cfg starts now =
      if starts.isEmpty then (starts.foldl Part.delStep (p, 0)).1
      else if (starts.foldl Part.delStep (p, 0)).1.segs.isEmpty then
        (starts.foldl Part.delStep (p, 0)).1.addSegment cfg ((starts.foldl Part.delStep (p, 0)).2 + 1) now
      else (starts.foldl Part.delStep (p, 0)).1 := rfl

/-- replace the segment list and the counters -/
def Part.withSegs (p : Part) (segs : List Seg) (cnt : Counters) : Part :=
  { p with segs := segs, cnt := cnt }

@[simp] theorem Part.withSegs_segs (p : Part) (segs : List Seg) (cnt : Counters) :
    (p.withSegs segs cnt).segs = segs := rfl
@[simp] theorem Part.withSegs_cnt (p : Part) (segs : List Seg) (cnt : Counters) :
    (p.withSegs segs cnt).cnt = cnt := rfl
@[simp] theorem Part.withSegs_withSegs (p : Part) (s1 s2 : List Seg) (c1 c2 : Counters) :
    (p.withSegs s1 c1).withSegs s2 c2 = p.withSegs s2 c2 := rfl

theorem Part.delStep_head {q : Part} {e : Nat} {s : Seg} {rest : List Seg} (hs : q.segs = s :: rest)
    (hlt : ∀ t ∈ rest, s.start < t.start) :
    Part.delStep (q, e) s.start = (q.withSegs rest (q.cnt.subSeg s), s.endOff) := by
  have hfind : q.segs.find? (fun t => t.start = s.start) = some s := by
    rw [hs]; simp
  have hfilter : q.segs.filter (fun t => t.start ≠ s.start) = rest := by
    rw [hs, List.filter_cons]
    simp only [ne_eq, not_true_eq_false, decide_false, Bool.false_eq_true, ↓reduceIte]
    rw [List.filter_eq_self]
    intro t ht
    have := hlt t ht
    simp; omega
  simp only [Part.delStep, hfind, hfilter]
  rfl

theorem Part.foldl_delStep_prefix {q : Part} {e : Nat} {pre post : List Seg} (hs : q.segs = pre ++ post)
    (hpw : q.segs.Pairwise (fun x y => x.start < y.start)) :
    (pre.map (·.start)).foldl Part.delStep (q, e) =
      (if pre = [] then q else q.withSegs post (pre.foldl Counters.subSeg q.cnt),
        (pre.getLast?.map (·.endOff)).getD e) := by
  induction pre generalizing q e with
  | nil => simp
  | cons s r ih =>
    rw [hs] at hpw
    simp only [List.cons_append] at hs hpw
    have hpw' := List.pairwise_cons.1 hpw
    rw [List.map_cons, List.foldl_cons, Part.delStep_head hs hpw'.1]
    rw [ih (q := q.withSegs (r ++ post) (q.cnt.subSeg s)) (by simp) (by simpa using hpw'.2)]
    by_cases hr : r = []
    · subst hr; simp at hs ⊢
    · simp [hr, List.getLast?_cons]

/-! ## counters -/

theorem retention_foldl_subSeg (l : List Seg) (c : Counters) :
    l.foldl Counters.subSeg c =
      { msgs := c.msgs - (l.map Seg.msgCount).sum, size := c.size - (l.map (·.sizeBytes)).sum,
        segs := c.segs - l.length } := by
  induction l generalizing c with
  | nil => simp
  | cons s r ih =>
    rw [List.foldl_cons, ih]
    simp only [Counters.subSeg, List.map_cons, List.sum_cons, List.length_cons, Counters.mk.injEq]
    omega

theorem retention_sum_msgCount {cfg : Cfg} {l : List Seg} (hi : ∀ s ∈ l, s.Inv cfg)
    (hs : ∀ m ∈ segsMsgs l, 0 < m.size) : (l.map Seg.msgCount).sum = (segsMsgs l).length := by
  induction l with
  | nil => simp
  | cons s r ih =>
    have h1 := (hi s (by simp)).msgCount (fun m hm => hs m (by simp [hm]))
    have h2 := ih (fun t ht => hi t (by simp [ht])) (fun m hm => hs m (by simp [hm]))
    simp [h1, h2]

/-! ## replacing the segment list by one that holds a suffix of the messages -/

theorem Part.withSegs_msgs (p : Part) (segs : List Seg) (cnt : Counters) :
    (p.withSegs segs cnt).msgs = segsMsgs segs := rfl

theorem Part.withSegs_next (p : Part) (segs : List Seg) (cnt : Counters) :
    (p.withSegs segs cnt).next = p.next := rfl

theorem Part.Inv.withSegs {cfg : Cfg} {p : Part} (h : p.Inv cfg) {segs' : List Seg} {cnt' : Counters}
    {n : Nat} (hsegs : ∀ s ∈ segs', s.Inv cfg) (hchain : Iggy.Log.chain segs' p.next)
    (hmsgs : segsMsgs segs' = p.msgs.drop n)
    (hc1 : cnt'.msgs = (segsMsgs segs').length) (hc2 : cnt'.size = (segs'.map (·.sizeBytes)).sum)
    (hc3 : cnt'.segs = segs'.length) : (p.withSegs segs' cnt').Inv cfg := by
  have hm : (p.withSegs segs' cnt').msgs = p.msgs.drop n := hmsgs
  have hsub : (p.msgs.drop n).Sublist p.msgs := List.drop_sublist n p.msgs
  refine
    { segs := hsegs
      chain := hchain
      sizes := by rw [hm]; exact fun m hmm => h.sizes m (List.mem_of_mem_drop hmm)
      ts := by
        rw [hm, tsSorted_iff_pairwise]
        exact (tsSorted_iff_pairwise.1 h.ts).sublist hsub
      cache := ?_
      cacheCfg := h.cacheCfg
      dedupCfg := h.dedupCfg
      dedupIds := ?_
      cntMsgs := hc1
      cntSize := hc2
      cntSegs := hc3
      offsBound := h.offsBound
      curZero := h.curZero
      segSize := h.segSize }
  · intro c hc
    obtain ⟨h1, h2, h3⟩ := h.cache c hc
    refine ⟨?_, h2, h3⟩
    rw [hm]
    have hsuf : p.msgs.drop n <:+ p.msgs := List.drop_suffix n p.msgs
    rcases h1 with h1 | h1
    · exact List.suffix_or_suffix_of_suffix h1 hsuf
    · exact Or.inr (hsuf.trans h1)
  · intro ids hids
    obtain ⟨h1, h2⟩ := h.dedupIds ids hids
    rw [hm]
    refine ⟨fun m hmm => h1 m (List.mem_of_mem_drop hmm), ?_⟩
    rw [List.map_drop]
    exact h2.sublist (List.drop_sublist n _)

/-! ## deleting a closed prefix of the segment list -/

theorem Part.addSegment_withSegs_nil (cfg : Cfg) (p : Part) (cnt : Counters) (start now : Nat) :
    (p.withSegs [] cnt).addSegment cfg start now =
      p.withSegs [Seg.create cfg start now] { cnt with segs := cnt.segs + 1 } := rfl

/-- what `delete_segments` computes when it is given the start offsets of a prefix of the segment list -/
theorem Part.deleteSegments_prefix_eq {cfg : Cfg} {p : Part} (h : p.Inv cfg) {pre post : List Seg}
    (hs : p.segs = pre ++ post) (hcl : ∀ s ∈ pre, s.closed = true) (now : Nat) :
    p.deleteSegments cfg (pre.map (·.start)) now =
      if pre = [] then p
      else if post = [] then
        p.withSegs [Seg.create cfg p.next now]
          { (pre.foldl Counters.subSeg p.cnt) with segs := (pre.foldl Counters.subSeg p.cnt).segs + 1 }
      else p.withSegs post (pre.foldl Counters.subSeg p.cnt) := by
  have hpw : p.segs.Pairwise (fun x y => x.start < y.start) := h.segs_pairwise.imp (fun hxy => hxy.2)
  rw [Part.deleteSegments_eq, Part.foldl_delStep_prefix hs hpw]
  by_cases hpre : pre = []
  · subst hpre; simp
  · have hmap : (pre.map (·.start)).isEmpty = false := by simpa using hpre
    simp only [hmap, hpre, if_false, Bool.false_eq_true, Part.withSegs_segs, List.isEmpty_iff]
    by_cases hpost : post = []
    · subst hpost
      simp only [if_true]
      rw [Part.addSegment_withSegs_nil]
      obtain ⟨init, last, rfl⟩ := exists_snoc_of_ne_nil hpre
      simp only [List.append_nil] at hs
      have hlc : last.closed = true := hcl last (by simp)
      have hli : last.Inv cfg := h.segs last (by simp [hs])
      have hne := hli.msgs_ne_nil_of_closed h.segSize hlc
      have hlen : 0 < last.msgs.length := List.length_pos_iff.2 hne
      have h1 := (hli.closed hlc).2.1
      have h2 := hli.cur
      have h3 := (h.last_facts hs).2.1
      have : last.endOff + 1 = p.next := by omega
      simp [this]
    · simp [hpost]

theorem Part.deleteSegments_prefix {cfg : Cfg} {p : Part} (h : p.Inv cfg) {pre post : List Seg}
    (hs : p.segs = pre ++ post) (hcl : ∀ s ∈ pre, s.closed = true) (now : Nat) :
    (p.deleteSegments cfg (pre.map (·.start)) now).Inv cfg ∧
      abs (p.deleteSegments cfg (pre.map (·.start)) now) = (abs p).dropPrefix (segsMsgs pre).length ∧
      (p.deleteSegments cfg (pre.map (·.start)) now).next = p.next ∧
      p.msgs.take (segsMsgs pre).length = segsMsgs pre := by
  have hmsgs : p.msgs = segsMsgs pre ++ segsMsgs post := by rw [Part.msgs_eq, hs, segsMsgs_append]
  have htake : p.msgs.take (segsMsgs pre).length = segsMsgs pre := by rw [hmsgs, List.take_left]
  have hdrop : p.msgs.drop (segsMsgs pre).length = segsMsgs post := by rw [hmsgs, List.drop_left]
  rw [Part.deleteSegments_prefix_eq h hs hcl]
  by_cases hpre : pre = []
  · subst hpre
    rw [if_pos rfl]
    refine ⟨h, ?_, rfl, htake⟩
    simp [SPart.dropPrefix]
  · simp only [hpre, if_false]
    have hpreInv : ∀ s ∈ pre, s.Inv cfg := fun s hsm => h.segs s (by simp [hs, hsm])
    have hpostInv : ∀ s ∈ post, s.Inv cfg := fun s hsm => h.segs s (by simp [hs, hsm])
    have hpreSz : ∀ m ∈ segsMsgs pre, 0 < m.size := fun m hm => h.sizes m (by simp [hmsgs, hm])
    have hcnt := retention_foldl_subSeg pre p.cnt
    rw [retention_sum_msgCount hpreInv hpreSz] at hcnt
    have hc1 := h.cntMsgs
    have hc2 := h.cntSize
    have hc3 := h.cntSegs
    rw [hmsgs, List.length_append] at hc1
    rw [hs, List.map_append, List.sum_append_nat] at hc2
    rw [hs, List.length_append] at hc3
    have key : ∀ (segs' : List Seg) (cnt' : Counters), (∀ s ∈ segs', s.Inv cfg) → chain segs' p.next →
        segsMsgs segs' = segsMsgs post → cnt'.msgs = (segsMsgs segs').length →
        cnt'.size = (segs'.map (·.sizeBytes)).sum → cnt'.segs = segs'.length →
        (p.withSegs segs' cnt').Inv cfg ∧
          abs (p.withSegs segs' cnt') = (abs p).dropPrefix (segsMsgs pre).length ∧
          (p.withSegs segs' cnt').next = p.next ∧
          p.msgs.take (segsMsgs pre).length = segsMsgs pre := by
      intro segs' cnt' a1 a2 a3 a4 a5 a6
      refine ⟨h.withSegs (n := (segsMsgs pre).length) a1 a2 (by rw [a3, hdrop]) a4 a5 a6, ?_, rfl, htake⟩
      simp only [abs, SPart.dropPrefix, Part.withSegs_next, Part.withSegs_msgs, a3, hdrop]
      rfl
    by_cases hpost : post = []
    · subst hpost
      simp only [if_true]
      refine key _ _ ?_ ?_ ?_ ?_ ?_ ?_
      · intro s hsm
        rw [List.mem_singleton.1 hsm]
        exact Seg.create_inv cfg _ _ h.segSize
      · simp [chain_singleton]
      · simp
      · simp [hcnt]; simp at hc1; omega
      · simp [hcnt]; simp at hc2; omega
      · simp [hcnt]; simp at hc3; omega
    · simp only [hpost, if_false]
      refine key _ _ hpostInv (chain_append_right (hs ▸ h.chain) hpost) rfl ?_ ?_ ?_
      · rw [hcnt]; simp; omega
      · rw [hcnt]; simp; omega
      · rw [hcnt]; simp; omega

theorem retention_abs_dropPrefix_zero (p : Part) : abs p = (abs p).dropPrefix 0 := by
  simp [SPart.dropPrefix]

/-! ## `deleteOldest` -/

theorem Part.deleteOldest_refines {cfg : Cfg} {p : Part} (h : p.Inv cfg) (now : Nat) :
    ∃ n, (p.deleteOldest cfg now).Inv cfg ∧ abs (p.deleteOldest cfg now) = (abs p).dropPrefix n ∧
      (p.deleteOldest cfg now).next = p.next ∧
      ∀ m ∈ p.msgs.take n, ∃ s, p.segs.head? = some s ∧ s.closed = true ∧ m ∈ s.msgs := by
  cases hsegs : p.segs with
  | nil => exact absurd hsegs h.segs_ne_nil
  | cons s rest =>
    by_cases hc : s.closed = true
    · have heq : p.deleteOldest cfg now = p.deleteSegments cfg ([s].map (·.start)) now := by
        simp [Part.deleteOldest, hsegs, hc]
      have hs : p.segs = [s] ++ rest := by simp [hsegs]
      obtain ⟨h1, h2, h3, h4⟩ := Part.deleteSegments_prefix h hs (by simpa using hc) now
      rw [← heq] at h1 h2 h3
      refine ⟨_, h1, h2, h3, ?_⟩
      intro m hm
      rw [h4] at hm
      exact ⟨s, by simp, hc, by simpa using hm⟩
    · have heq : p.deleteOldest cfg now = p := by
        simp [Part.deleteOldest, hsegs, hc]
      rw [heq]
      exact ⟨0, h, retention_abs_dropPrefix_zero p, rfl, by simp⟩

/-! ## `isExpired` -/

theorem retention_filter_last {c : Nat} {init : List Msg} {l : Msg} (h : consecutiveFrom c (init ++ [l])) :
    (init ++ [l]).filter (fun m => c + init.length ≤ m.off ∧ m.off < c + init.length + 1) = [l] := by
  obtain ⟨h1, h2⟩ := consecutiveFrom_append_iff.1 h
  have hl : l.off = c + init.length := h2.1
  rw [List.filter_append]
  have : init.filter (fun m => c + init.length ≤ m.off ∧ m.off < c + init.length + 1) = [] := by
    rw [List.filter_eq_nil_iff]
    intro m hm
    have := h1.bounds m hm
    simp; omega
  rw [this]
  simp [hl]

/-- the message `is_expired` looks at is the last one of the segment -/
theorem Seg.Inv.getByOffset_cur {cfg : Cfg} {s : Seg} (hseg : SegReadSpec cfg) (hi : s.Inv cfg)
    (hne : s.msgs ≠ []) : (s.getByOffset s.cur 1).head? = s.msgs.getLast? := by
  rw [hseg s hi]
  obtain ⟨init, l, hm⟩ := exists_snoc_of_ne_nil hne
  have hoff := hi.offsets
  have hcur := hi.cur
  rw [hm] at hoff hcur ⊢
  have hmax : max s.cur s.start = s.start + init.length := by
    simp at hcur; omega
  rw [hmax, retention_filter_last hoff]
  simp

theorem Seg.isExpired_iff {cfg : Cfg} {s : Seg} (hseg : SegReadSpec cfg) (hi : s.Inv cfg)
    (h0 : 0 < cfg.segSize) (e now : Nat) :
    s.isExpired (some e) now = true ↔
      s.closed = true ∧ ∃ l, s.msgs.getLast? = some l ∧ l.ts + e ≤ now := by
  unfold Seg.isExpired
  by_cases hc : s.closed = true
  · have hne := hi.msgs_ne_nil_of_closed h0 hc
    rw [hi.getByOffset_cur hseg hne]
    simp only [hc, Bool.not_true, Bool.false_eq_true, if_false, true_and]
    cases hl : s.msgs.getLast? with
    | none => simp
    | some l => simp
  · simp [hc]

/-! ## the expired segments form a prefix -/

/-- a predicate that is downward closed along a list selects a prefix of it -/
theorem retention_filter_prefix {α : Type} (q : α → Bool) (l : List α)
    (h : l.Pairwise (fun x y => q y = true → q x = true)) :
    ∃ rest, l = l.filter q ++ rest ∧ ∀ y ∈ rest, q y = false := by
  induction l with
  | nil => exact ⟨[], by simp, by simp⟩
  | cons x t ih =>
    obtain ⟨h1, h2⟩ := List.pairwise_cons.1 h
    by_cases hx : q x = true
    · obtain ⟨rest, e1, e2⟩ := ih h2
      refine ⟨rest, ?_, e2⟩
      rw [List.filter_cons_of_pos hx, List.cons_append, ← e1]
    · have hall : ∀ y ∈ x :: t, q y = false := by
        intro y hy
        rcases List.mem_cons.1 hy with rfl | hy
        · simpa using hx
        · cases hq : q y with
          | false => rfl
          | true => exact absurd (h1 y hy hq) hx
      refine ⟨x :: t, ?_, hall⟩
      have : (x :: t).filter q = [] := by
        rw [List.filter_eq_nil_iff]
        intro y hy
        simp [hall y hy]
      rw [this]; rfl

/-- timestamps do not decrease from one segment to a later one -/
theorem retention_ts_pairwise {l : List Seg} (h : (segsMsgs l).Pairwise (fun a b => a.ts ≤ b.ts)) :
    l.Pairwise (fun x y => ∀ m ∈ x.msgs, ∀ m' ∈ y.msgs, m.ts ≤ m'.ts) := by
  induction l with
  | nil => simp
  | cons s r ih =>
    rw [segsMsgs_cons, List.pairwise_append] at h
    refine List.pairwise_cons.2 ⟨?_, ih h.2.1⟩
    intro y hy m hm m' hm'
    exact h.2.2 m hm m' (mem_segsMsgs.2 ⟨y, hy, hm'⟩)

theorem retention_le_last_ts {ms : List Msg} (h : ms.Pairwise (fun a b => a.ts ≤ b.ts)) {l : Msg}
    (hl : ms.getLast? = some l) : ∀ m ∈ ms, m.ts ≤ l.ts := by
  obtain ⟨init, rfl⟩ := List.getLast?_eq_some_iff.1 hl
  intro m hm
  rcases List.mem_append.1 hm with hm | hm
  · exact (List.pairwise_append.1 h).2.2 m hm l (by simp)
  · rw [List.mem_singleton.1 hm]; exact Nat.le_refl _

theorem Part.Inv.seg_ts_pairwise {cfg : Cfg} {p : Part} (h : p.Inv cfg) {s : Seg} (hs : s ∈ p.segs) :
    s.msgs.Pairwise (fun a b => a.ts ≤ b.ts) := by
  have hsub : s.msgs.Sublist p.msgs := List.sublist_flatten_of_mem (List.mem_map.2 ⟨s, hs, rfl⟩)
  exact (tsSorted_iff_pairwise.1 h.ts).sublist hsub

theorem Part.Inv.expired_pairwise {cfg : Cfg} {p : Part} (hseg : SegReadSpec cfg) (h : p.Inv cfg)
    (e now : Nat) :
    p.segs.Pairwise (fun x y => y.isExpired (some e) now = true → x.isExpired (some e) now = true) := by
  have h1 := h.segs_pairwise
  have h2 := retention_ts_pairwise (tsSorted_iff_pairwise.1 h.ts)
  refine (h1.and h2).imp_of_mem ?_
  intro x y hx hy hxy hexp
  obtain ⟨⟨hxc, -⟩, hts⟩ := hxy
  rw [Seg.isExpired_iff hseg (h.segs y hy) h.segSize] at hexp
  rw [Seg.isExpired_iff hseg (h.segs x hx) h.segSize]
  obtain ⟨-, ly, hly, hle⟩ := hexp
  have hne := (h.segs x hx).msgs_ne_nil_of_closed h.segSize hxc
  refine ⟨hxc, x.msgs.getLast hne, List.getLast?_eq_some_getLast hne, ?_⟩
  have := hts _ (List.getLast_mem hne) ly (List.mem_of_getLast? hly)
  omega

/-! ## `expire` -/

theorem Part.expire_refines {cfg : Cfg} {p : Part} (hseg : SegReadSpec cfg) (h : p.Inv cfg) (now : Nat) :
    ∃ n, (p.expire cfg now).Inv cfg ∧ abs (p.expire cfg now) = (abs p).dropPrefix n ∧
      (p.expire cfg now).next = p.next ∧
      ∀ m ∈ p.msgs.take n, (∃ e, p.expiry = some e ∧ m.ts + e ≤ now) ∧
        ∃ s ∈ p.segs, s.closed = true ∧ m ∈ s.msgs := by
  cases hexp : p.expiry with
  | none =>
    have heq : p.expire cfg now = p := by simp [Part.expire, hexp]
    rw [heq]
    exact ⟨0, h, retention_abs_dropPrefix_zero p, rfl, by simp⟩
  | some e =>
    have heq : p.expire cfg now =
        p.deleteSegments cfg ((p.segs.filter (fun s => s.isExpired (some e) now)).map (·.start)) now := by
      simp [Part.expire, hexp]
    obtain ⟨post, hs, -⟩ := retention_filter_prefix (fun s => s.isExpired (some e) now) p.segs
      (h.expired_pairwise hseg e now)
    have hpre : ∀ s ∈ p.segs.filter (fun s => s.isExpired (some e) now),
        s ∈ p.segs ∧ s.isExpired (some e) now = true := fun s hsm => List.mem_filter.1 hsm
    have hcl : ∀ s ∈ p.segs.filter (fun s => s.isExpired (some e) now), s.closed = true := by
      intro s hsm
      obtain ⟨h1, h2⟩ := hpre s hsm
      exact ((Seg.isExpired_iff hseg (h.segs s h1) h.segSize e now).1 h2).1
    obtain ⟨h1, h2, h3, h4⟩ := Part.deleteSegments_prefix h hs hcl now
    rw [← heq] at h1 h2 h3
    refine ⟨_, h1, h2, h3, ?_⟩
    intro m hm
    rw [h4] at hm
    obtain ⟨s, hsm, hms⟩ := mem_segsMsgs.1 hm
    obtain ⟨hsp, hse⟩ := hpre s hsm
    obtain ⟨hc, l, hl, hle⟩ := (Seg.isExpired_iff hseg (h.segs s hsp) h.segSize e now).1 hse
    have := retention_le_last_ts (h.seg_ts_pairwise hsp) hl m hms
    exact ⟨⟨e, rfl, by omega⟩, s, hsp, hc, hms⟩

end Iggy.Log
