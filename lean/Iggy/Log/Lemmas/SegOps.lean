/-
Segment-level operations preserve the segment invariant: `Seg.create`, `Seg.appendBatch`, `Seg.persist`.
-/
import Iggy.Log.Lemmas.Inv
namespace Iggy.Log

/-! ## create -/

@[simp] theorem Seg.create_msgs (cfg : Cfg) (start now : Nat) : (Seg.create cfg start now).msgs = [] := rfl
@[simp] theorem Seg.create_start (cfg : Cfg) (start now : Nat) : (Seg.create cfg start now).start = start := rfl
@[simp] theorem Seg.create_sizeBytes (cfg : Cfg) (start now : Nat) :
    (Seg.create cfg start now).sizeBytes = 0 := rfl
@[simp] theorem Seg.create_closed (cfg : Cfg) (start now : Nat) :
    (Seg.create cfg start now).closed = false := rfl

theorem Seg.create_inv (cfg : Cfg) (start now : Nat) (hseg : 0 < cfg.segSize) :
    (Seg.create cfg start now).Inv cfg where
  batches := by simp [Seg.create]
  offsets := by simp [consecutiveFrom]
  idxFile := rfl
  idxCache := by simp [Seg.create]
  pos := rfl
  size := rfl
  cur := by simp [Seg.create, Seg.msgs, Seg.accMsgs]
  accHdr := by simp [Seg.create]
  endTs := by simp
  closed := by simp
  open_ := by intro _; left; simpa using hseg

/-! ## appendBatch -/

section appendBatch
variable {s : Seg} {bs : Nat} {msgs : List Msg}

@[simp] theorem Seg.appendBatch_start : (s.appendBatch bs msgs).start = s.start := rfl
@[simp] theorem Seg.appendBatch_closed : (s.appendBatch bs msgs).closed = s.closed := rfl
@[simp] theorem Seg.appendBatch_log : (s.appendBatch bs msgs).log = s.log := rfl
@[simp] theorem Seg.appendBatch_idxFile : (s.appendBatch bs msgs).idxFile = s.idxFile := rfl
@[simp] theorem Seg.appendBatch_idxCache : (s.appendBatch bs msgs).idxCache = s.idxCache := rfl
@[simp] theorem Seg.appendBatch_lastIdxPos : (s.appendBatch bs msgs).lastIdxPos = s.lastIdxPos := rfl
@[simp] theorem Seg.appendBatch_endOff : (s.appendBatch bs msgs).endOff = s.endOff := rfl
@[simp] theorem Seg.appendBatch_sizeBytes : (s.appendBatch bs msgs).sizeBytes = s.sizeBytes + bs := rfl

/-- the accumulator a segment hands to `Acc.append` -/
def Seg.acc0 (s : Seg) (msgs : List Msg) : Acc :=
  match s.acc with
  | some a => a
  | none => Acc.new ((msgs.head?.map Msg.off).getD 0)

theorem Seg.acc0_msgs : (s.acc0 msgs).msgs = s.accMsgs := by
  unfold Seg.acc0 Seg.accMsgs; cases s.acc <;> rfl

theorem Seg.appendBatch_acc (hne : msgs ≠ []) :
    (s.appendBatch bs msgs).acc = some
      { base := if s.accMsgs.isEmpty then (msgs.head?.map Msg.off).getD 0 else (s.acc0 msgs).base
        cur := (msgs.getLast hne).off
        curTs := (msgs.getLast hne).ts
        size := (s.acc0 msgs).size + bs
        msgs := s.accMsgs ++ msgs } := by
  have hl : msgs.getLast? = some (msgs.getLast hne) := List.getLast?_eq_some_getLast hne
  show some (Acc.append (s.acc0 msgs) bs msgs) = _
  simp only [Acc.append, hl, Seg.acc0_msgs]

theorem Seg.appendBatch_accMsgs (hne : msgs ≠ []) :
    (s.appendBatch bs msgs).accMsgs = s.accMsgs ++ msgs := by
  simp [Seg.accMsgs, Seg.appendBatch_acc hne]

theorem Seg.appendBatch_msgs (hne : msgs ≠ []) : (s.appendBatch bs msgs).msgs = s.msgs ++ msgs := by
  simp [Seg.msgs, Seg.appendBatch_accMsgs hne]

theorem Seg.appendBatch_cur (hne : msgs ≠ []) : (s.appendBatch bs msgs).cur = (msgs.getLast hne).off := by
  have hl : msgs.getLast? = some (msgs.getLast hne) := List.getLast?_eq_some_getLast hne
  show (Acc.append (s.acc0 msgs) bs msgs).cur = _
  simp only [Acc.append, hl]

theorem Seg.appendBatch_endTs (hne : msgs ≠ []) : (s.appendBatch bs msgs).endTs = (msgs.getLast hne).ts := by
  have hl : msgs.getLast? = some (msgs.getLast hne) := List.getLast?_eq_some_getLast hne
  show (Acc.append (s.acc0 msgs) bs msgs).curTs = _
  simp only [Acc.append, hl]

theorem Seg.appendBatch_inv {cfg : Cfg} {now : Nat} (h : s.Inv cfg) (hopen : s.closed = false)
    (hne : msgs ≠ []) (hc : consecutiveFrom (s.start + s.msgs.length) msgs)
    (hold : ∀ m ∈ s.msgs, m.ts ≤ now) (hnew : ∀ m ∈ msgs, m.ts = now) :
    (s.appendBatch (sumSizes msgs) msgs).Inv cfg := by
  have hl : msgs.getLast? = some (msgs.getLast hne) := List.getLast?_eq_some_getLast hne
  have hoffs : consecutiveFrom s.start (s.msgs ++ msgs) := consecutiveFrom_append_iff.2 ⟨h.offsets, hc⟩
  have hlast := hc.getLast hl
  have hlen : 0 < msgs.length := List.length_pos_iff.2 hne
  refine
    { batches := h.batches
      offsets := by rw [Seg.appendBatch_msgs hne]; exact hoffs
      idxFile := h.idxFile
      idxCache := h.idxCache
      pos := h.pos
      size := by
        simp only [Seg.appendBatch_sizeBytes, Seg.appendBatch_log, Seg.appendBatch_accMsgs hne,
          sumSizes_append, h.size]; omega
      cur := by
        rw [Seg.appendBatch_cur hne, Seg.appendBatch_msgs hne, Seg.appendBatch_start]
        simp only [List.length_append]; omega
      accHdr := ?_
      endTs := by
        rw [Seg.appendBatch_msgs hne, Seg.appendBatch_endTs hne]
        have := hnew _ (List.getLast_mem hne)
        intro m hm
        rcases List.mem_append.1 hm with hm | hm
        · have := hold m hm; omega
        · have := hnew m hm; omega
      closed := by simp [hopen]
      open_ := by intro _; right; simp [Seg.appendBatch_accMsgs hne, hne] }
  intro a ha _
  rw [Seg.appendBatch_acc hne] at ha
  cases ha
  simp only
  refine ⟨?_, ?_, ?_⟩
  · by_cases he : s.accMsgs = []
    · cases msgs with
      | nil => exact absurd rfl hne
      | cons m r => simp [he]
    · have hsome : ∃ a, s.acc = some a := by
        unfold Seg.accMsgs at he; cases hacc : s.acc with
        | none => simp [hacc] at he
        | some a => exact ⟨a, rfl⟩
      obtain ⟨a, hacc⟩ := hsome
      have hm : s.accMsgs = a.msgs := by simp [Seg.accMsgs, hacc]
      have := (h.accHdr a hacc (hm ▸ he)).1
      have hb : (s.acc0 msgs).base = a.base := by simp [Seg.acc0, hacc]
      rw [hb]
      cases hx : s.accMsgs with
      | nil => exact absurd hx he
      | cons x r => rw [hm] at hx; simp [hx] at this ⊢; exact this
  · simp [List.getLast?_append, hl]
  · simp [List.getLast?_append, hl]

end appendBatch

/-! ## persist -/

section persist
variable {cfg : Cfg} {s : Seg}

theorem Seg.persist_start : (s.persist cfg).1.start = s.start := by
  unfold Seg.persist; split
  · rfl
  · split
    · rfl
    · simp only; split <;> rfl

theorem Seg.persist_cur : (s.persist cfg).1.cur = s.cur := by
  unfold Seg.persist; split
  · rfl
  · split
    · rfl
    · simp only; split <;> rfl

theorem Seg.persist_endTs : (s.persist cfg).1.endTs = s.endTs := by
  unfold Seg.persist; split
  · rfl
  · split
    · rfl
    · simp only; split <;> rfl

theorem Seg.persist_msgs : (s.persist cfg).1.msgs = s.msgs := by
  unfold Seg.persist; split
  · rfl
  · next a ha =>
    split
    · next he =>
      have : a.msgs = [] := by simpa using he
      simp [Seg.msgs, Seg.accMsgs, ha, this]
    · simp only; split <;> simp [Seg.msgs, Seg.accMsgs, ha, Acc.new]

theorem Seg.persist_accMsgs : (s.persist cfg).1.accMsgs = [] := by
  unfold Seg.persist; split
  · next ha => simp [Seg.accMsgs, ha]
  · split
    · rfl
    · simp only; split <;> simp [Seg.accMsgs, Acc.new]

theorem Seg.persist_sizeBytes : (s.persist cfg).1.sizeBytes = s.sizeBytes + (s.persist cfg).2 := by
  unfold Seg.persist; split
  · rfl
  · split
    · rfl
    · simp only; split <;> rfl

theorem Seg.persist_closed_of_closed (hc : s.closed = true) : (s.persist cfg).1.closed = true := by
  unfold Seg.persist; split
  · exact hc
  · split
    · exact hc
    · simp only; split
      · rfl
      · exact hc

/-- a segment whose buffer is already empty is not changed by `persist`, up to dropping the empty
accumulator -/
theorem Seg.persist_of_accMsgs_nil (h : s.accMsgs = []) :
    s.persist cfg = ({ s with acc := none }, 0) := by
  unfold Seg.persist; split
  · next ha => cases s; simp_all
  · next a ha =>
    have : a.msgs = [] := by simpa [Seg.accMsgs, ha] using h
    simp [this]

/-- the index record `persist` writes -/
def Seg.pIdx (s : Seg) (a : Acc) : Idx := { rel := a.cur - s.start, pos := s.lastIdxPos, ts := a.curTs }

/-- the batch `persist` writes -/
def Acc.pBatch (a : Acc) : Batch :=
  { base := a.base, lastDelta := a.cur - a.base, maxTs := (a.msgs.getLast?.map (·.ts)).getD 0,
    msgs := a.msgs }

/-- the segment after `persist` wrote the batch; `cl`, `eo`, `ac`: closed flag, end offset and
accumulator, which depend on the `is_full` test -/
def Seg.written (s : Seg) (a : Acc) (cl : Bool) (eo : Nat) (ac : Option Acc) : Seg :=
  { s with
    idxCache := s.idxCache.map (· ++ [s.pIdx a])
    acc := ac
    log := s.log ++ [a.pBatch]
    idxFile := s.idxFile ++ [s.pIdx a]
    lastIdxPos := s.lastIdxPos + a.pBatch.bytes
    sizeBytes := s.sizeBytes + 24
    endOff := eo
    closed := cl }

theorem Seg.persist_some {a : Acc} (ha : s.acc = some a) (hne : a.msgs ≠ []) :
    s.persist cfg =
      if cfg.segSize ≤ s.sizeBytes + 24 then (s.written a true s.cur none, 24)
      else (s.written a s.closed s.endOff (some (Acc.new 0)), 24) := by
  have he : a.msgs.isEmpty = false := by simpa using hne
  unfold Seg.persist
  simp only [ha, he, Bool.false_eq_true, ↓reduceIte, Seg.isFull, decide_eq_true_eq]
  rfl

theorem Seg.written_inv {a : Acc} (h : s.Inv cfg) (ha : s.acc = some a) (hne : a.msgs ≠ [])
    (cl : Bool) (eo : Nat) (ac : Option Acc) (hac : ac = none ∨ ac = some (Acc.new 0))
    (hcl : cl = true → ac = none ∧ eo = s.cur ∧ cfg.segSize ≤ s.sizeBytes + 24)
    (hop : cl = false → s.sizeBytes + 24 < cfg.segSize) :
    (s.written a cl eo ac).Inv cfg := by
  have haccm : s.accMsgs = a.msgs := by simp [Seg.accMsgs, ha]
  obtain ⟨hh, hlo, hlt⟩ := h.accHdr a ha hne
  have hcons := h.acc_consecutive
  rw [haccm] at hcons
  obtain ⟨lastm, hlastm⟩ : ∃ m, a.msgs.getLast? = some m := by
    cases hx : a.msgs.getLast? with
    | none => simp [hne] at hx
    | some m => exact ⟨m, rfl⟩
  obtain ⟨headm, hheadm⟩ : ∃ m, a.msgs.head? = some m := by
    cases hx : a.msgs.head? with
    | none => simp [hne] at hx
    | some m => exact ⟨m, rfl⟩
  have hbase : headm.off = a.base := by simpa [hheadm] using hh
  have hcur : lastm.off = a.cur := by simpa [hlastm] using hlo
  have hcurTs : lastm.ts = a.curTs := by simpa [hlastm] using hlt
  have h1 := hcons.head hheadm
  have h2 := hcons.getLast hlastm
  have hlen : 0 < a.msgs.length := List.length_pos_iff.2 hne
  have hble : a.base ≤ a.cur := by omega
  have haccm' : (s.written a cl eo ac).accMsgs = [] := by
    unfold Seg.accMsgs Seg.written; rcases hac with rfl | rfl <;> rfl
  have hmsgs' : (s.written a cl eo ac).msgs = s.msgs := by
    simp only [Seg.msgs, haccm']
    simp [Seg.written, Acc.pBatch, haccm]
  refine
    { batches := ?_
      offsets := by rw [hmsgs']; exact h.offsets
      idxFile := ?_
      idxCache := ?_
      pos := by simp [Seg.written, h.pos]
      size := by
        rw [haccm']
        have := h.size
        simp [Seg.written, Acc.pBatch, Batch.bytes, haccm] at this ⊢; omega
      cur := by rw [hmsgs']; exact h.cur
      accHdr := by
        intro a' ha' hne'
        rcases hac with rfl | rfl
        · simp [Seg.written] at ha'
        · simp [Seg.written] at ha'; subst ha'; simp [Acc.new] at hne'
      endTs := by rw [hmsgs']; exact h.endTs
      closed := by
        intro hc
        obtain ⟨e1, e2, e3⟩ := hcl hc
        exact ⟨e1, e2, e3⟩
      open_ := by intro hc; exact Or.inl (hop hc) }
  · intro b hb
    simp only [Seg.written, List.mem_append, List.mem_singleton] at hb
    rcases hb with hb | rfl
    · exact h.batches b hb
    · refine ⟨hne, ?_, ?_, ?_⟩
      · simpa [Acc.pBatch] using hh
      · simp only [Acc.pBatch, hlastm, Option.map_some]; congr 1; omega
      · simp [Acc.pBatch, hlastm]
  · simp only [Seg.written, mkIdx_append, h.idxFile, mkIdx, Nat.zero_add, h.pos]
    congr 2
    simp only [Seg.pIdx, Acc.pBatch, Idx.mk.injEq, hlastm, Option.map_some, Option.getD_some, h.pos,
      true_and]
    refine ⟨?_, hcurTs.symm⟩
    omega
  · simp only [Seg.written, h.idxCache]
    split <;> simp

theorem Seg.persist_inv (h : s.Inv cfg) : (s.persist cfg).1.Inv cfg := by
  cases ha : s.acc with
  | none => unfold Seg.persist; simp only [ha]; exact h
  | some a =>
    by_cases hne : a.msgs = []
    · have hacc : s.accMsgs = [] := by simp [Seg.accMsgs, ha, hne]
      rw [Seg.persist_of_accMsgs_nil hacc]
      have hmsgs : ({ s with acc := none } : Seg).msgs = s.msgs := by
        simp [Seg.msgs, Seg.accMsgs, ha, hne]
      exact
        { batches := h.batches
          offsets := by rw [hmsgs]; exact h.offsets
          idxFile := h.idxFile
          idxCache := h.idxCache
          pos := h.pos
          size := by simpa [Seg.accMsgs, ha, hne] using h.size
          cur := by rw [hmsgs]; exact h.cur
          accHdr := by simp
          endTs := by rw [hmsgs]; exact h.endTs
          closed := fun hc => ⟨rfl, (h.closed hc).2⟩
          open_ := fun hc => by
            rcases h.open_ hc with h1 | h1
            · exact Or.inl h1
            · exact absurd hacc h1 }
    · rw [Seg.persist_some ha hne]
      split
      · next hfull =>
        exact Seg.written_inv h ha hne true s.cur none (Or.inl rfl) (fun _ => ⟨rfl, rfl, hfull⟩) (by simp)
      · next hfull =>
        have hclosed : s.closed = false := by
          cases hc : s.closed with
          | false => rfl
          | true => have := (h.closed hc).1; simp [ha] at this
        exact Seg.written_inv h ha hne s.closed s.endOff (some (Acc.new 0)) (Or.inr rfl)
          (by simp [hclosed]) (fun _ => by omega)

end persist

end Iggy.Log
