/-
Partition-level persistence: `Part.flush` and `Part.save` preserve the invariant and the abstraction.
-/
import Iggy.Log.Lemmas.SegOps
namespace Iggy.Log

/-- `s'` is `s` after zero or more `persist` rounds that added `add` bytes of batch headers -/
structure PersistRel (cfg : Cfg) (s s' : Seg) (add : Nat) : Prop where
  inv : s'.Inv cfg
  msgs : s'.msgs = s.msgs
  start : s'.start = s.start
  size : s'.sizeBytes = s.sizeBytes + add
  closed : s.closed = true → s'.closed = true

theorem PersistRel.refl {cfg : Cfg} {s : Seg} (h : s.Inv cfg) : PersistRel cfg s s 0 :=
  ⟨h, rfl, rfl, rfl, id⟩

theorem PersistRel.persist {cfg : Cfg} {s : Seg} (h : s.Inv cfg) :
    PersistRel cfg s (s.persist cfg).1 (s.persist cfg).2 :=
  ⟨Seg.persist_inv h, Seg.persist_msgs, Seg.persist_start, Seg.persist_sizeBytes,
    Seg.persist_closed_of_closed⟩

theorem PersistRel.trans {cfg : Cfg} {s s' s'' : Seg} {a b : Nat} (h1 : PersistRel cfg s s' a)
    (h2 : PersistRel cfg s' s'' b) : PersistRel cfg s s'' (a + b) :=
  ⟨h2.inv, h2.msgs.trans h1.msgs, h2.start.trans h1.start, by rw [h2.size, h1.size]; omega,
    fun hc => h2.closed (h1.closed hc)⟩

/-- a state `p'` that differs from `p` only in the segment list and the counters, with the same
messages, inherits the invariant -/
theorem Part.Inv.of_same_msgs {cfg : Cfg} {p p' : Part} (h : p.Inv cfg)
    (hm : p'.msgs = p.msgs) (hcur : p'.cur = p.cur) (hinc : p'.shouldInc = p.shouldInc)
    (hcache : p'.cache = p.cache) (hdedup : p'.dedup = p.dedup) (hco : p'.consOffs = p.consOffs)
    (hgo : p'.grpOffs = p.grpOffs) (hsegs : ∀ s ∈ p'.segs, s.Inv cfg) (hchain : Iggy.Log.chain p'.segs p.next)
    (hcm : p'.cnt.msgs = p.cnt.msgs) (hcs : p'.cnt.size = (p'.segs.map (·.sizeBytes)).sum)
    (hcg : p'.cnt.segs = p'.segs.length) : p'.Inv cfg := by
  have hnext : p'.next = p.next := by simp [Part.next, hcur, hinc]
  exact
    { segs := hsegs
      chain := by rw [hnext]; exact hchain
      sizes := by rw [hm]; exact h.sizes
      ts := by rw [hm]; exact h.ts
      cache := by rw [hm, hcache, hnext]; exact h.cache
      cacheCfg := by rw [hcache]; exact h.cacheCfg
      dedupCfg := by rw [hdedup]; exact h.dedupCfg
      dedupIds := by rw [hm, hdedup]; exact h.dedupIds
      cntMsgs := by rw [hcm, hm]; exact h.cntMsgs
      cntSize := hcs
      cntSegs := hcg
      offsBound := by rw [hnext, hco, hgo]; exact h.offsBound
      curZero := by rw [hinc, hcur]; exact h.curZero
      segSize := h.segSize }

theorem abs_eq_of_same {p p' : Part} (hm : p'.msgs = p.msgs) (hcur : p'.cur = p.cur)
    (hinc : p'.shouldInc = p.shouldInc) (hdedup : p'.dedup = p.dedup) (hco : p'.consOffs = p.consOffs)
    (hgo : p'.grpOffs = p.grpOffs) (he : p'.expiry = p.expiry) : abs p' = abs p := by
  simp [abs, Part.next, hm, hcur, hinc, hdedup, hco, hgo, he]

/-- replacing the last segment by a persisted version of itself -/
theorem Part.Inv.persist_last {cfg : Cfg} {p : Part} (h : p.Inv cfg) {init : List Seg} {last s' : Seg}
    {add : Nat} (hs : p.segs = init ++ [last]) (hr : PersistRel cfg last s' add) (u sz : Nat)
    (hsz : sz = p.cnt.size + add) :
    ({ p with segs := init ++ [s'], unsaved := u
              cnt := { p.cnt with size := sz } } : Part).Inv cfg ∧
    abs { p with segs := init ++ [s'], unsaved := u
                 cnt := { p.cnt with size := sz } } = abs p := by
  subst hsz
  have hm : segsMsgs (init ++ [s']) = p.msgs := by
    rw [Part.msgs_eq, hs]; simp [hr.msgs]
  refine ⟨h.of_same_msgs hm rfl rfl rfl rfl rfl rfl ?_ ?_ rfl ?_ ?_, abs_eq_of_same hm rfl rfl rfl rfl rfl rfl⟩
  · intro s hsm
    simp only [List.mem_append, List.mem_singleton] at hsm
    rcases hsm with hsm | rfl
    · exact h.segs s (by simp [hs, hsm])
    · exact hr.inv
  · have hc := h.chain
    rw [hs, chain_snoc] at hc
    show Iggy.Log.chain (init ++ [s']) p.next
    rw [chain_snoc, hr.start, hr.msgs]
    exact hc
  · have := h.cntSize
    simp only [hs, List.map_append, List.sum_append, List.map_cons, List.map_nil, List.sum_cons,
      List.sum_nil, hr.size] at this ⊢
    omega
  · simpa [hs] using h.cntSegs

/-! ## flush -/

theorem Part.flush_refines {cfg : Cfg} {p : Part} (h : p.Inv cfg) :
    (p.flush cfg).Inv cfg ∧ abs (p.flush cfg) = abs p := by
  unfold Part.flush
  split
  · exact ⟨h, rfl⟩
  · obtain ⟨init, last, hs⟩ := h.exists_snoc
    have hl : p.segs.getLast? = some last := by simp [hs]
    simp only [hl]
    simp only [hs, updLast_snoc]
    have hlast : last.Inv cfg := h.segs last (by simp [hs])
    have r1 := PersistRel.persist hlast
    -- second round
    have r2 : PersistRel cfg last
        (if (last.persist cfg).1.acc.isSome then (last.persist cfg).1.persist cfg else ((last.persist cfg).1, 0)).1
        ((last.persist cfg).2 +
          (if (last.persist cfg).1.acc.isSome then (last.persist cfg).1.persist cfg else ((last.persist cfg).1, 0)).2) := by
      split
      · exact r1.trans (PersistRel.persist r1.inv)
      · exact r1.trans (PersistRel.refl r1.inv)
    generalize (if (last.persist cfg).1.acc.isSome then (last.persist cfg).1.persist cfg
      else ((last.persist cfg).1, 0)) = q2 at r2 ⊢
    have r3 : PersistRel cfg last
        (if q2.1.acc.isSome then q2.1.persist cfg else (q2.1, 0)).1
        ((last.persist cfg).2 + q2.2 + (if q2.1.acc.isSome then q2.1.persist cfg else (q2.1, 0)).2) := by
      split
      · exact r2.trans (PersistRel.persist r2.inv)
      · exact r2.trans (PersistRel.refl r2.inv)
    exact h.persist_last hs r3 0 _ (by omega)

/-! ## save -/

theorem chain_map {f : Seg → Seg} {l : List Seg} {n : Nat} (hst : ∀ s ∈ l, (f s).start = s.start)
    (hm : ∀ s ∈ l, (f s).msgs = s.msgs) (hc : ∀ s ∈ l, s.closed = true → (f s).closed = true)
    (h : chain l n) : chain (l.map f) n := by
  induction l with
  | nil => exact h.elim
  | cons a l ih =>
    cases l with
    | nil =>
      simp only [List.map_cons, List.map_nil, chain_singleton] at h ⊢
      rw [hst a (by simp), hm a (by simp)]; exact h
    | cons b r =>
      simp only [List.map_cons] at ih ⊢
      rw [chain_cons_cons] at h ⊢
      refine ⟨?_, hc a (by simp) h.2.1, ih (fun s hs => hst s (by simp [hs])) (fun s hs => hm s (by simp [hs]))
        (fun s hs => hc s (by simp [hs])) h.2.2⟩
      rw [hst a (by simp), hm a (by simp), hst b (by simp)]; exact h.1

theorem Part.save_segs (cfg : Cfg) (p : Part) :
    (p.save cfg).segs = p.segs.map (fun s => (s.persist cfg).1) := by
  simp [Part.save, List.map_map, Function.comp_def]

theorem Part.save_msgs (cfg : Cfg) (p : Part) : (p.save cfg).msgs = p.msgs := by
  rw [Part.msgs_eq, Part.save_segs, Part.msgs_eq]
  exact segsMsgs_map_of_msgs (fun s _ => Seg.persist_msgs)

theorem Part.save_refines {cfg : Cfg} {p : Part} (h : p.Inv cfg) :
    (p.save cfg).Inv cfg ∧ abs (p.save cfg) = abs p := by
  have hm := Part.save_msgs cfg p
  refine ⟨h.of_same_msgs hm rfl rfl rfl rfl rfl rfl ?_ ?_ rfl ?_ ?_, abs_eq_of_same hm rfl rfl rfl rfl rfl rfl⟩
  · intro s hs
    rw [Part.save_segs] at hs
    obtain ⟨t, ht, rfl⟩ := List.mem_map.1 hs
    exact Seg.persist_inv (h.segs t ht)
  · rw [Part.save_segs]
    exact chain_map (fun _ _ => Seg.persist_start) (fun _ _ => Seg.persist_msgs)
      (fun _ _ => Seg.persist_closed_of_closed) h.chain
  · rw [Part.save_segs]
    show p.cnt.size + _ = _
    rw [h.cntSize]
    simp only [List.map_map]
    generalize p.segs = l
    induction l with
    | nil => rfl
    | cons a l ih =>
      simp only [List.map_cons, List.sum_cons, Function.comp_apply] at ih ⊢
      rw [Seg.persist_sizeBytes]; omega
  · rw [Part.save_segs, List.length_map]; exact h.cntSegs

/-- after `save` nothing is left in any accumulator -/
theorem Part.save_accMsgs (cfg : Cfg) (p : Part) : ∀ s ∈ (p.save cfg).segs, s.accMsgs = [] := by
  intro s hs
  rw [Part.save_segs] at hs
  obtain ⟨t, _, rfl⟩ := List.mem_map.1 hs
  exact Seg.persist_accMsgs

end Iggy.Log
