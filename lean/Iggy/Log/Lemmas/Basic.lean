/-
Basic list-level facts about the storage model: consecutive offsets, timestamp order, sizes,
index construction, `updLast` / `insertSorted`, and the segment `chain`.
-/
import Iggy.Log.Abs
namespace Iggy.Log

/-! ## consecutiveFrom -/

theorem consecutiveFrom_append_iff {c : Nat} {l1 l2 : List Msg} :
    consecutiveFrom c (l1 ++ l2) ↔ consecutiveFrom c l1 ∧ consecutiveFrom (c + l1.length) l2 := by
  induction l1 generalizing c with
  | nil => simp [consecutiveFrom]
  | cons m l ih =>
    simp only [List.cons_append, consecutiveFrom, ih, List.length_cons]
    have : c + 1 + l.length = c + (l.length + 1) := by omega
    rw [this]; exact and_assoc.symm

theorem consecutiveFrom.bounds {c : Nat} {l : List Msg} (h : consecutiveFrom c l) :
    ∀ m ∈ l, c ≤ m.off ∧ m.off < c + l.length := by
  induction l generalizing c with
  | nil => simp
  | cons a l ih =>
    intro m hm
    rcases List.mem_cons.1 hm with rfl | hm
    · have := h.1; simp; omega
    · have := ih h.2 m hm; simp; omega

theorem consecutiveFrom.head {c : Nat} {l : List Msg} (h : consecutiveFrom c l) {m : Msg}
    (hm : l.head? = some m) : m.off = c := by
  cases l with
  | nil => simp at hm
  | cons a l => simp at hm; subst hm; exact h.1

theorem consecutiveFrom.getLast {c : Nat} {l : List Msg} (h : consecutiveFrom c l) {m : Msg}
    (hm : l.getLast? = some m) : m.off + 1 = c + l.length := by
  obtain ⟨ys, rfl⟩ := List.getLast?_eq_some_iff.1 hm
  have := (consecutiveFrom_append_iff.1 h).2
  simp [consecutiveFrom] at this ⊢; omega

theorem consecutiveFrom.drop {c : Nat} {l : List Msg} (h : consecutiveFrom c l) (n : Nat) :
    consecutiveFrom (c + n) (l.drop n) := by
  induction n generalizing c l with
  | zero => simpa using h
  | succ n ih =>
    cases l with
    | nil => simp [consecutiveFrom]
    | cons a l =>
      have := ih h.2
      simpa [Nat.add_assoc, Nat.add_comm 1 n] using this

theorem consecutiveFrom.pairwise {c : Nat} {l : List Msg} (h : consecutiveFrom c l) :
    l.Pairwise (fun a b => a.off < b.off) := by
  induction l generalizing c with
  | nil => simp
  | cons a l ih =>
    refine List.pairwise_cons.2 ⟨?_, ih h.2⟩
    intro b hb
    have := h.2.bounds b hb
    have := h.1
    omega

/-! ## tsSorted -/

theorem tsSorted_iff_pairwise {l : List Msg} : tsSorted l ↔ l.Pairwise (fun a b => a.ts ≤ b.ts) := by
  induction l with
  | nil => simp [tsSorted]
  | cons a l ih =>
    cases l with
    | nil => simp [tsSorted]
    | cons b l =>
      simp only [tsSorted, ih]
      constructor
      · rintro ⟨hab, h⟩
        refine List.pairwise_cons.2 ⟨?_, h⟩
        intro x hx
        rcases List.mem_cons.1 hx with rfl | hx
        · exact hab
        · exact Nat.le_trans hab ((List.pairwise_cons.1 h).1 x hx)
      · intro h
        have h' := List.pairwise_cons.1 h
        exact ⟨h'.1 b (by simp), h'.2⟩

/-! ## sizes -/

@[simp] theorem sumSizes_nil : sumSizes [] = 0 := rfl
@[simp] theorem sumSizes_cons (m : Msg) (l : List Msg) : sumSizes (m :: l) = m.size + sumSizes l := by
  simp [sumSizes]
@[simp] theorem sumSizes_append (l1 l2 : List Msg) : sumSizes (l1 ++ l2) = sumSizes l1 + sumSizes l2 := by
  simp [sumSizes]

@[simp] theorem logBytes_nil : logBytes [] = 0 := rfl
@[simp] theorem logBytes_cons (b : Batch) (l : List Batch) : logBytes (b :: l) = b.bytes + logBytes l := by
  simp [logBytes]
@[simp] theorem logBytes_append (l1 l2 : List Batch) : logBytes (l1 ++ l2) = logBytes l1 + logBytes l2 := by
  simp [logBytes]

theorem Batch.bytes_pos (b : Batch) : 24 ≤ b.bytes := by simp [Batch.bytes]

theorem logBytes_eq_zero {l : List Batch} (h : logBytes l = 0) : l = [] := by
  cases l with
  | nil => rfl
  | cons b l => have := b.bytes_pos; simp at h; omega

theorem sumSizes_eq_zero {l : List Msg} (hs : ∀ m ∈ l, 0 < m.size) (h : sumSizes l = 0) : l = [] := by
  cases l with
  | nil => rfl
  | cons m l => have := hs m (by simp); simp at h; omega

@[simp] theorem batchesMsgs_nil : batchesMsgs [] = [] := rfl
@[simp] theorem batchesMsgs_cons (b : Batch) (l : List Batch) :
    batchesMsgs (b :: l) = b.msgs ++ batchesMsgs l := by simp [batchesMsgs]
@[simp] theorem batchesMsgs_append (l1 l2 : List Batch) :
    batchesMsgs (l1 ++ l2) = batchesMsgs l1 ++ batchesMsgs l2 := by simp [batchesMsgs]

theorem batchesMsgs_ne_nil {l : List Batch} (hwf : ∀ b ∈ l, b.WF) (h : l ≠ []) : batchesMsgs l ≠ [] := by
  cases l with
  | nil => exact absurd rfl h
  | cons b l => have := (hwf b (by simp)).1; simp [this]

/-! ## mkIdx -/

@[simp] theorem mkIdx_nil (start pos : Nat) : mkIdx start pos [] = [] := rfl

theorem mkIdx_append (start pos : Nat) (l1 l2 : List Batch) :
    mkIdx start pos (l1 ++ l2) = mkIdx start pos l1 ++ mkIdx start (pos + logBytes l1) l2 := by
  induction l1 generalizing pos with
  | nil => simp
  | cons b l ih => simp [mkIdx, ih, Nat.add_assoc]

/-! ## updLast, insertSorted -/

@[simp] theorem updLast_snoc (l : List Seg) (s : Seg) (f : Seg → Seg) :
    updLast (l ++ [s]) f = l ++ [f s] := by
  induction l with
  | nil => rfl
  | cons a l ih =>
    cases l with
    | nil => rfl
    | cons b l => simp only [List.cons_append] at ih ⊢; rw [updLast, ih]; simp

theorem insertSorted_snoc (t : Seg) (l : List Seg) (h : ∀ s ∈ l, s.start ≤ t.start) :
    insertSorted t l = l ++ [t] := by
  induction l with
  | nil => rfl
  | cons a l ih =>
    have ha := h a (by simp)
    have : ¬ t.start < a.start := by omega
    simp [insertSorted, this, ih (fun s hs => h s (by simp [hs]))]

/-! ## Seg.msgs -/

theorem Seg.msgs_def (s : Seg) : s.msgs = batchesMsgs s.log ++ s.accMsgs := rfl

/-! ## chain -/

theorem chain_ne_nil {l : List Seg} {n : Nat} (h : chain l n) : l ≠ [] := by
  cases l with
  | nil => exact h.elim
  | cons _ _ => simp

theorem chain_snoc {init : List Seg} {last : Seg} {n : Nat} :
    chain (init ++ [last]) n ↔
      (init = [] ∨ (chain init last.start ∧ ∀ s ∈ init, s.closed = true)) ∧
        last.start + last.msgs.length = n := by
  induction init with
  | nil => simp [chain]
  | cons a l ih =>
    cases l with
    | nil => simp [chain]; constructor <;> (intro h; simp [h])
    | cons b l =>
      simp only [List.cons_append] at ih ⊢
      simp only [chain, ih]
      simp
      constructor
      · rintro ⟨h1, h2, ⟨h3, h4⟩, h5⟩; exact ⟨⟨⟨h1, h2, h3⟩, h2, h4⟩, h5⟩
      · rintro ⟨⟨⟨h1, h2, h3⟩, _, h4⟩, h5⟩; exact ⟨h1, h2, ⟨h3, h4⟩, h5⟩

theorem exists_snoc_of_ne_nil {α} {l : List α} (h : l ≠ []) : ∃ init last, l = init ++ [last] :=
  ⟨l.dropLast, l.getLast h, (List.dropLast_concat_getLast h).symm⟩

theorem chain_cons_cons {s t : Seg} {rest : List Seg} {n : Nat} :
    chain (s :: t :: rest) n ↔
      s.start + s.msgs.length = t.start ∧ s.closed = true ∧ chain (t :: rest) n := Iff.rfl

theorem chain_singleton {s : Seg} {n : Nat} : chain [s] n ↔ s.start + s.msgs.length = n := Iff.rfl

/-- dropping a proper prefix of a chain leaves a chain -/
theorem chain_append_right {pre post : List Seg} {n : Nat} (h : chain (pre ++ post) n) (hp : post ≠ []) :
    chain post n := by
  induction pre with
  | nil => simpa using h
  | cons a l ih =>
    cases hl : l ++ post with
    | nil => simp at hl; exact absurd hl.2 hp
    | cons b r =>
      simp only [List.cons_append, hl] at h
      exact ih (hl ▸ h.2.2)

end Iggy.Log
