/-
Segment-level read theorem: under `Seg.Inv`, `Seg.getByOffset off count` returns exactly the segment's
messages whose offsets lie in `[max off start, max off start + count)`, whichever tier (disk through
the cached index, disk through the index file, in-memory accumulator) holds them.
-/
import Iggy.Log.Lemmas.ReadSpec
namespace Iggy.Log

/-! ## (a) partition_point reads on a list with increasing offsets are filters -/

theorem readseg_takeWhile_eq_filter {l : List Msg} (hp : l.Pairwise (fun a b => a.off < b.off))
    (hi : Nat) : l.takeWhile (fun m => m.off ≤ hi) = l.filter (fun m => m.off ≤ hi) := by
  induction l with
  | nil => rfl
  | cons a l ih =>
    obtain ⟨h1, h2⟩ := List.pairwise_cons.1 hp
    by_cases ha : a.off ≤ hi
    · simp [ha, ih h2]
    · have : l.filter (fun m => decide (m.off ≤ hi)) = [] := by
        rw [List.filter_eq_nil_iff]
        intro b hb
        have := h1 b hb
        simp; omega
      simp [ha, this]

theorem readseg_dropWhile_eq_filter {l : List Msg} (hp : l.Pairwise (fun a b => a.off < b.off))
    (lo : Nat) : l.dropWhile (fun m => m.off < lo) = l.filter (fun m => lo ≤ m.off) := by
  induction l with
  | nil => rfl
  | cons a l ih =>
    obtain ⟨h1, h2⟩ := List.pairwise_cons.1 hp
    by_cases ha : a.off < lo
    · have ha' : ¬ lo ≤ a.off := by omega
      simp [ha, ha', ih h2]
    · have ha' : lo ≤ a.off := by omega
      have : l.filter (fun m => decide (lo ≤ m.off)) = l := by
        rw [List.filter_eq_self]
        intro b hb
        have := h1 b hb
        simp; omega
      simp [ha, ha', this]

theorem readseg_acc_getByOffset {a : Acc} (hp : a.msgs.Pairwise (fun x y => x.off < y.off))
    (lo hi : Nat) : a.getByOffset lo hi = a.msgs.filter (fun m => lo ≤ m.off ∧ m.off ≤ hi) := by
  unfold Acc.getByOffset
  rw [readseg_dropWhile_eq_filter hp, readseg_takeWhile_eq_filter (hp.filter _), List.filter_filter]
  apply List.filter_congr
  intro m _
  simp [Bool.and_comm]

/-! ## (b) disk reads -/

/-- what `Batch.WF` and consecutive offsets say about the first batch of a log -/
theorem readseg_batch_facts {b : Batch} {rest : List Batch} {c : Nat} (hwf : b.WF)
    (hc : consecutiveFrom c (batchesMsgs (b :: rest))) :
    c ≤ b.base + b.lastDelta ∧ (∀ m ∈ b.msgs, m.off ≤ b.base + b.lastDelta) ∧
      (∀ m ∈ batchesMsgs rest, b.base + b.lastDelta < m.off) ∧
      consecutiveFrom (b.base + b.lastDelta + 1) (batchesMsgs rest) := by
  rw [batchesMsgs_cons, consecutiveFrom_append_iff] at hc
  obtain ⟨hc1, hc2⟩ := hc
  obtain ⟨hne, -, hlast, -⟩ := hwf
  cases hl : b.msgs.getLast? with
  | none => simp [hl] at hlast
  | some x =>
    simp [hl] at hlast
    have h1 := hc1.getLast hl
    have hlen : 0 < b.msgs.length := List.length_pos_iff.2 hne
    have e : b.base + b.lastDelta + 1 = c + b.msgs.length := by omega
    refine ⟨by omega, ?_, ?_, ?_⟩
    · intro m hm; have := hc1.bounds m hm; omega
    · intro m hm; have := hc2.bounds m hm; omega
    · rw [e]; exact hc2

theorem readseg_mkIdx_pos_le (start : Nat) {l : List Batch} {pos : Nat} {e : Idx}
    (he : e ∈ mkIdx start pos l) : pos ≤ e.pos := by
  induction l generalizing pos with
  | nil => simp at he
  | cons b l ih =>
    simp only [mkIdx, List.mem_cons] at he
    rcases he with rfl | he
    · exact Nat.le_refl _
    · have := ih he; omega

theorem readseg_firstGe_cons (start pos : Nat) (b : Batch) (rest : List Batch) (rel : Nat) :
    firstGe (mkIdx start pos (b :: rest)) rel =
      if rel ≤ b.base + b.lastDelta - start
      then some { rel := b.base + b.lastDelta - start, pos := pos, ts := b.maxTs }
      else firstGe (mkIdx start (pos + b.bytes) rest) rel := by
  by_cases h : rel ≤ b.base + b.lastDelta - start <;> simp [firstGe, mkIdx, h]

theorem readseg_firstGe_mem {idx : List Idx} {rel : Nat} {e : Idx} (h : firstGe idx rel = some e) :
    e ∈ idx := List.mem_of_find?_eq_some h


/-- the index entry at which a disk read stops: the first entry whose relative offset reaches `relHi`,
or the last entry when there is none -/
def ReadsegEnd (idx : List Idx) (relHi : Nat) (en : Idx) : Prop :=
  firstGe idx relHi = some en ∨ (firstGe idx relHi = none ∧ idx.getLast? = some en)

theorem ReadsegEnd.mem {idx : List Idx} {r : Nat} {en : Idx} (h : ReadsegEnd idx r en) : en ∈ idx := by
  rcases h with h | ⟨-, h⟩
  · exact readseg_firstGe_mem h
  · exact List.mem_of_getLast? h

theorem ReadsegEnd.cons {start pos : Nat} {b : Batch} {rest : List Batch} {r : Nat} {en : Idx}
    (h : ReadsegEnd (mkIdx start pos (b :: rest)) r en) :
    (r ≤ b.base + b.lastDelta - start ∧
        en = { rel := b.base + b.lastDelta - start, pos := pos, ts := b.maxTs }) ∨
      (rest = [] ∧ en = { rel := b.base + b.lastDelta - start, pos := pos, ts := b.maxTs }) ∨
      (¬ r ≤ b.base + b.lastDelta - start ∧ rest ≠ [] ∧
        ReadsegEnd (mkIdx start (pos + b.bytes) rest) r en) := by
  unfold ReadsegEnd at h
  rw [readseg_firstGe_cons] at h
  by_cases hr : r ≤ b.base + b.lastDelta - start
  · simp only [hr, if_true] at h
    rcases h with h | ⟨h, -⟩
    · left; exact ⟨hr, (Option.some.inj h).symm⟩
    · simp at h
  · simp only [hr, if_false] at h
    cases rest with
    | nil =>
      right; left
      rcases h with h | ⟨-, h⟩
      · simp [firstGe] at h
      · simp [mkIdx] at h; exact ⟨rfl, h.symm⟩
    | cons b' rest' =>
      right; right
      refine ⟨hr, by simp, ?_⟩
      rcases h with h | ⟨h1, h2⟩
      · exact Or.inl h
      · refine Or.inr ⟨h1, ?_⟩
        rw [mkIdx] at h2
        rw [mkIdx] at h2 ⊢
        simpa using h2

/-- taking phase: once the read position has reached the start position, whole batches are read up to
and including the one the end entry points to; what is left out lies above `hi` -/
theorem readseg_take (start lo hi sp : Nat) (hhi : start ≤ hi) (l : List Batch) (pos c : Nat) (en : Idx)
    (hwf : ∀ b ∈ l, b.WF) (hc : consecutiveFrom c (batchesMsgs l)) (hsc : start ≤ c) (hsp : sp ≤ pos)
    (hen : ReadsegEnd (mkIdx start pos l) (hi - start) en) :
    (batchesMsgs (readRange l pos sp en.pos)).filter (fun m => lo ≤ m.off ∧ m.off ≤ hi) =
      (batchesMsgs l).filter (fun m => lo ≤ m.off ∧ m.off ≤ hi) := by
  induction l generalizing pos c with
  | nil => simp [readRange]
  | cons b rest ih =>
    obtain ⟨f1, f2, f3, f4⟩ := readseg_batch_facts (hwf b (by simp)) hc
    have hnsp : ¬ pos < sp := by omega
    rcases hen.cons with ⟨hr, rfl⟩ | ⟨rfl, rfl⟩ | ⟨hr, hne, hend⟩
    · have : (batchesMsgs rest).filter (fun m => lo ≤ m.off ∧ m.off ≤ hi) = [] := by
        rw [List.filter_eq_nil_iff]
        intro m hm
        have := f3 m hm
        simp; omega
      simp only [readRange, hnsp, if_false, Nat.le_refl, if_true, batchesMsgs_cons, batchesMsgs_nil,
        List.filter_append, this, List.filter_nil]
    · simp [readRange, hnsp]
    · have hpos := readseg_mkIdx_pos_le start hend.mem
      have hb := b.bytes_pos
      have h1 : ¬ en.pos ≤ pos := by omega
      have := ih (pos + b.bytes) (b.base + b.lastDelta + 1) (fun x hx => hwf x (by simp [hx])) f4
        (by omega) (by omega) hend
      simp only [readRange, hnsp, h1, if_false, batchesMsgs_cons, List.filter_append, this]


/-- skipping phase: batches before the one the start entry points to lie below `lo` -/
theorem readseg_skip (start lo hi : Nat) (hlo : start ≤ lo) (hlh : lo ≤ hi) (l : List Batch)
    (pos c : Nat) (st en : Idx)
    (hwf : ∀ b ∈ l, b.WF) (hc : consecutiveFrom c (batchesMsgs l)) (hsc : start ≤ c)
    (hst : firstGe (mkIdx start pos l) (lo - start) = some st)
    (hen : ReadsegEnd (mkIdx start pos l) (hi - start) en) :
    (batchesMsgs (readRange l pos st.pos en.pos)).filter (fun m => lo ≤ m.off ∧ m.off ≤ hi) =
      (batchesMsgs l).filter (fun m => lo ≤ m.off ∧ m.off ≤ hi) := by
  induction l generalizing pos c with
  | nil => simp [firstGe] at hst
  | cons b rest ih =>
    obtain ⟨f1, f2, f3, f4⟩ := readseg_batch_facts (hwf b (by simp)) hc
    rw [readseg_firstGe_cons] at hst
    by_cases hr : lo - start ≤ b.base + b.lastDelta - start
    · simp only [hr, if_true] at hst
      have : st.pos = pos := by rw [← Option.some.inj hst]
      rw [this]
      exact readseg_take start lo hi pos (by omega) (b :: rest) pos c en hwf hc hsc (Nat.le_refl _) hen
    · simp only [hr, if_false] at hst
      have hpos := readseg_mkIdx_pos_le start (readseg_firstGe_mem hst)
      have hb := b.bytes_pos
      have hlt : pos < st.pos := by omega
      have hbn : b.msgs.filter (fun m => lo ≤ m.off ∧ m.off ≤ hi) = [] := by
        rw [List.filter_eq_nil_iff]
        intro m hm
        have := f2 m hm
        simp; omega
      rcases hen.cons with ⟨hr', -⟩ | ⟨rfl, -⟩ | ⟨-, -, hend⟩
      · omega
      · simp [firstGe] at hst
      · have := ih (pos + b.bytes) (b.base + b.lastDelta + 1) (fun x hx => hwf x (by simp [hx])) f4
          (by omega) hst hend
        simp only [readRange, hlt, if_true, batchesMsgs_cons, List.filter_append, this, hbn,
          List.nil_append]

/-- no index entry reaches `lo`: nothing stored reaches `lo` -/
theorem readseg_none (start lo hi : Nat) (hlo : start ≤ lo) (l : List Batch) (pos c : Nat)
    (hwf : ∀ b ∈ l, b.WF) (hc : consecutiveFrom c (batchesMsgs l)) (hsc : start ≤ c)
    (hst : firstGe (mkIdx start pos l) (lo - start) = none) :
    (batchesMsgs l).filter (fun m => lo ≤ m.off ∧ m.off ≤ hi) = [] := by
  induction l generalizing pos c with
  | nil => simp
  | cons b rest ih =>
    obtain ⟨f1, f2, f3, f4⟩ := readseg_batch_facts (hwf b (by simp)) hc
    rw [readseg_firstGe_cons] at hst
    by_cases hr : lo - start ≤ b.base + b.lastDelta - start
    · simp [hr] at hst
    · simp only [hr, if_false] at hst
      have hbn : b.msgs.filter (fun m => lo ≤ m.off ∧ m.off ≤ hi) = [] := by
        rw [List.filter_eq_nil_iff]
        intro m hm
        have := f2 m hm
        simp; omega
      have := ih (pos + b.bytes) (b.base + b.lastDelta + 1) (fun x hx => hwf x (by simp [hx])) f4
          (by omega) hst
      simp only [batchesMsgs_cons, List.filter_append, this, hbn, List.append_nil]

theorem readseg_end_exists {idx : List Idx} (h : idx ≠ []) (r : Nat) :
    ReadsegEnd idx r ((firstGe idx r).getD ((idx.getLast?).getD Idx.zero)) := by
  unfold ReadsegEnd
  cases hf : firstGe idx r with
  | some e => left; rfl
  | none =>
    right
    refine ⟨rfl, ?_⟩
    cases hl : idx.getLast? with
    | none => exact absurd (List.getLast?_eq_none_iff.1 hl) h
    | some x => rfl

/-- `load_messages_from_disk`: the stored messages with offsets in `[lo, hi]` -/
theorem Seg.loadFromDisk_eq {cfg : Cfg} {s : Seg} (h : s.Inv cfg) {lo : Nat} (hlo : s.start ≤ lo)
    (hi : Nat) :
    s.loadFromDisk lo hi = (batchesMsgs s.log).filter (fun m => lo ≤ m.off ∧ m.off ≤ hi) := by
  unfold Seg.loadFromDisk
  by_cases hlh : hi < lo
  · simp only [hlh, if_true]
    symm
    rw [List.filter_eq_nil_iff]
    intro m _
    simp; omega
  · simp only [hlh, if_false]
    have hlh' : lo ≤ hi := by omega
    have hwf := h.batches
    have hc := h.log_consecutive
    rw [h.idxCache, h.idxFile]
    by_cases hco : cfg.idxCacheOn = true
    · simp only [hco, if_true, rangeCached]
      cases hst : firstGe (mkIdx s.start 0 s.log) (lo - s.start) with
      | none =>
        simp only []
        exact (readseg_none s.start lo hi hlo s.log 0 s.start hwf hc (Nat.le_refl _) hst).symm
      | some st =>
        have hne : mkIdx s.start 0 s.log ≠ [] := List.ne_nil_of_mem (readseg_firstGe_mem hst)
        have hen := readseg_end_exists hne (hi - s.start)
        cases hf : firstGe (mkIdx s.start 0 s.log) (hi - s.start) with
        | some en =>
          simp only [hf, Option.getD_some] at hen
          simp only []
          exact readseg_skip s.start lo hi hlo hlh' s.log 0 s.start st en hwf hc (Nat.le_refl _) hst hen
        | none =>
          cases hl : (mkIdx s.start 0 s.log).getLast? with
          | none => exact absurd (List.getLast?_eq_none_iff.1 hl) hne
          | some en =>
            simp only [hf, hl, Option.getD_some, Option.getD_none] at hen
            simp only [Option.map_some]
            exact readseg_skip s.start lo hi hlo hlh' s.log 0 s.start st en hwf hc (Nat.le_refl _) hst hen
    · simp only [hco, rangeFile]
      by_cases hne : mkIdx s.start 0 s.log = []
      · have hl : s.log = [] := by
          cases hl : s.log with
          | nil => rfl
          | cons b r => rw [hl] at hne; simp [mkIdx] at hne
        simp [hl]
      · have hen := readseg_end_exists hne (hi - s.start)
        have hemp : (mkIdx s.start 0 s.log).isEmpty = false := by simpa using hne
        simp only [hemp, Bool.false_eq_true, if_false]
        cases hst : firstGe (mkIdx s.start 0 s.log) (lo - s.start) with
        | some st =>
          simp only [Option.getD_some]
          exact readseg_skip s.start lo hi hlo hlh' s.log 0 s.start st _ hwf hc (Nat.le_refl _) hst hen
        | none =>
          simp only [Option.getD_none]
          exact readseg_take s.start lo hi 0 (by omega) s.log 0 s.start _ hwf hc (Nat.le_refl _)
            (Nat.le_refl _) hen


/-! ## (c) the three tiers glued together -/

/-- the body of `Seg.getByOffset` once the bounds `[lo, hi]` are fixed -/
def Seg.readsegBody (s : Seg) (lo hi : Nat) : List Msg :=
  match s.acc with
  | none => s.loadFromDisk lo hi
  | some a =>
    if a.msgs.isEmpty then s.loadFromDisk lo hi
    else if a.base ≤ lo ∧ hi ≤ a.cur then a.getByOffset lo hi
    else if hi < a.base then s.loadFromDisk lo hi
    else
      (if lo < a.base then s.loadFromDisk lo (a.base - 1) else []) ++
        a.getByOffset (max lo a.base) hi

theorem Seg.getByOffset_unfold (s : Seg) (off count : Nat) :
    s.getByOffset off count =
      if count = 0 then [] else
        s.readsegBody (if off < s.start then s.start else off)
          ((if off < s.start then s.start else off) + (count - 1)) := rfl

theorem readseg_acc_facts {cfg : Cfg} {s : Seg} (h : s.Inv cfg) {a : Acc} (ha : s.acc = some a)
    (hne : a.msgs ≠ []) :
    (∀ m ∈ batchesMsgs s.log, m.off < a.base) ∧ (∀ m ∈ a.msgs, a.base ≤ m.off ∧ m.off ≤ a.cur) ∧
      a.msgs.Pairwise (fun x y => x.off < y.off) := by
  have hacc : s.accMsgs = a.msgs := by simp [Seg.accMsgs, ha]
  have hc1 := h.log_consecutive
  have hc2 := h.acc_consecutive
  rw [hacc] at hc2
  obtain ⟨hh, hl, -⟩ := h.accHdr a ha hne
  cases hhd : a.msgs.head? with
  | none => simp [hhd] at hh
  | some x =>
    cases hla : a.msgs.getLast? with
    | none => simp [hla] at hl
    | some y =>
      simp [hhd] at hh
      simp [hla] at hl
      have e1 := hc2.head hhd
      have e2 := hc2.getLast hla
      refine ⟨?_, ?_, hc2.pairwise⟩
      · intro m hm; have := hc1.bounds m hm; omega
      · intro m hm; have := hc2.bounds m hm; omega

theorem Seg.readsegBody_eq {cfg : Cfg} {s : Seg} (h : s.Inv cfg) {lo : Nat} (hlo : s.start ≤ lo)
    (hi : Nat) :
    s.readsegBody lo hi = s.msgs.filter (fun m => lo ≤ m.off ∧ m.off ≤ hi) := by
  have hdisk := fun hi' => Seg.loadFromDisk_eq h hlo hi'
  unfold Seg.readsegBody
  rw [Seg.msgs_def, List.filter_append]
  cases ha : s.acc with
  | none =>
    simp only [Seg.accMsgs, ha, hdisk, List.filter_nil, List.append_nil]
  | some a =>
    have hacc : s.accMsgs = a.msgs := by simp [Seg.accMsgs, ha]
    simp only [hacc]
    by_cases hne : a.msgs = []
    · simp only [hne, List.isEmpty_nil, if_true, hdisk, List.filter_nil, List.append_nil]
    · have hemp : a.msgs.isEmpty = false := by simpa using hne
      obtain ⟨fd, fa, fp⟩ := readseg_acc_facts h ha hne
      simp only [hemp, Bool.false_eq_true, if_false, readseg_acc_getByOffset fp]
      by_cases c1 : a.base ≤ lo ∧ hi ≤ a.cur
      · simp only [c1, and_self, if_true]
        have : (batchesMsgs s.log).filter (fun m => lo ≤ m.off ∧ m.off ≤ hi) = [] := by
          rw [List.filter_eq_nil_iff]
          intro m hm
          have := fd m hm
          simp; omega
        rw [this, List.nil_append]
      · simp only [c1, if_false]
        by_cases c2 : hi < a.base
        · simp only [c2, if_true, hdisk]
          have : a.msgs.filter (fun m => lo ≤ m.off ∧ m.off ≤ hi) = [] := by
            rw [List.filter_eq_nil_iff]
            intro m hm
            have := fa m hm
            simp; omega
          rw [this, List.append_nil]
        · simp only [c2, if_false]
          congr 1
          · by_cases c3 : lo < a.base
            · simp only [c3, if_true, hdisk]
              apply List.filter_congr
              intro m hm
              have := fd m hm
              simp only [decide_eq_decide]; omega
            · simp only [c3, if_false]
              symm
              rw [List.filter_eq_nil_iff]
              intro m hm
              have := fd m hm
              simp; omega
          · apply List.filter_congr
            intro m hm
            have := fa m hm
            simp only [decide_eq_decide]; omega

/-- `get_messages_by_offset` of a segment: exactly the requested slice of the segment's messages -/
theorem Seg.getByOffset_eq {cfg : Cfg} {s : Seg} (h : s.Inv cfg) (off count : Nat) :
    s.getByOffset off count =
      s.msgs.filter (fun m => max off s.start ≤ m.off ∧ m.off < max off s.start + count) := by
  rw [Seg.getByOffset_unfold]
  have hoff : (if off < s.start then s.start else off) = max off s.start := by split <;> omega
  rw [hoff]
  by_cases hcnt : count = 0
  · subst hcnt
    simp only [if_true]
    symm
    rw [List.filter_eq_nil_iff]
    intro m _
    simp
  · simp only [hcnt, if_false]
    rw [Seg.readsegBody_eq h (by omega)]
    apply List.filter_congr
    intro m _
    simp only [decide_eq_decide]; omega

theorem segReadSpec (cfg : Cfg) : SegReadSpec cfg := fun _ h off count => Seg.getByOffset_eq h off count

end Iggy.Log
