/-
Crash model of one segment (C04): the sequence of file mutations of `persist_messages`
(segments/writing_messages.rs l.117-132: the log append, then the index append — under no-wait
confirmation the index append comes first and the persister task appends to the log later), the
durable images a process death can leave after each prefix of that sequence, with the last mutation
applied in full or torn, and the recovery `reconcile` + `Seg.load` performs
(segments/recovery.rs reconcile_log_and_index, fix 03736b4).
Files are modelled at batch granularity: a file = the complete records it holds + "a torn partial
record at the end?"; the byte layer (Iggy/Codec) justifies that a reader sees exactly the complete
records of a torn file.
-/
import Iggy.Log.Abs
namespace Iggy.Log

/-- what is on disk for one segment -/
structure SegDisk where
  start : Nat
  log : List Batch            -- complete batches in the .log file
  logTorn : Bool              -- a partially written batch follows them
  idx : List Idx              -- complete 16-byte records in the .index file
  idxTorn : Bool              -- a partially written record follows them
deriving Repr, DecidableEq

/-- the clean durable state of a segment of the L1 model (accumulator contents are not on disk) -/
def Seg.disk (s : Seg) : SegDisk :=
  { start := s.start, log := s.log, logTorn := false, idx := s.idxFile, idxTorn := false }

/-- byte position where batch number `i` ends -/
def endPos (log : List Batch) (i : Nat) : Nat := logBytes (log.take i)

/-- an index record describes a complete batch of this log: it points at the start of some batch -/
def idxValid (log : List Batch) (e : Idx) : Bool :=
  (List.range log.length).any (fun i => endPos log i == e.pos)

/-- reconcile_log_and_index at batch granularity: drop trailing index records without a complete
batch (torn record included), index every complete batch beyond the index, cut a torn log tail -/
def reconcile (d : SegDisk) : SegDisk :=
  -- step 1: drop trailing invalid records
  let keep := (d.idx.reverse.dropWhile (fun e => !idxValid d.log e)).reverse
  -- the batch the last kept record points at ends here
  let n := match keep.getLast? with
    | some e => (((List.range d.log.length).find? (fun i => endPos d.log i == e.pos)).map (· + 1)).getD 0
    | none => 0
  -- step 2: index the batches beyond it
  { d with idx := keep ++ (mkIdx d.start (endPos d.log n) (d.log.drop n)), idxTorn := false, logTorn := false }

/-- the segment the server works with after start-up on this disk state -/
def recoverSeg (cfg : Cfg) (now : Nat) (d : SegDisk) : Seg :=
  let r := reconcile d
  Seg.load cfg r.start now r.log r.idx

inductive Confirm | wait | noWait
deriving Repr, DecidableEq

/-- durable images while batch `b` with index record `i` is being persisted on top of `d`
(a consistent disk state): after each completed mutation, and with the mutation in flight torn -/
def persistImages (c : Confirm) (d : SegDisk) (b : Batch) (i : Idx) : List SegDisk :=
  match c with
  | .wait =>
    [ d,
      { d with logTorn := true },                                   -- log append torn
      { d with log := d.log ++ [b] },                               -- log appended, index not yet
      { d with log := d.log ++ [b], idxTorn := true },              -- index append torn
      { d with log := d.log ++ [b], idx := d.idx ++ [i] } ]         -- both complete
  | .noWait =>
    [ d,
      { d with idxTorn := true },
      { d with idx := d.idx ++ [i] },                               -- index ahead of the log
      { d with idx := d.idx ++ [i], logTorn := true },
      { d with log := d.log ++ [b], idx := d.idx ++ [i] } ]

/-- a consistent disk state: the index is exactly the index of the log, nothing torn -/
def SegDisk.Consistent (d : SegDisk) : Prop :=
  d.idx = mkIdx d.start 0 d.log ∧ d.logTorn = false ∧ d.idxTorn = false ∧ ∀ b ∈ d.log, b.WF

end Iggy.Log
