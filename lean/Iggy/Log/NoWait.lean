/-
Polls under no-wait confirmation (server/src/streaming/partitions/messages.rs, fixes 5922a8c,
a7c30e4, 959ee6e).

Under no-wait confirmation `persist_messages` hands a batch to the persister task and empties the
buffer; until that task has written the batch it is in NEITHER the in-memory buffer NOR the log file,
while later batches may already sit in the buffer (and, with the message cache on, any accepted
message may be visible through the cache).  Hence what the read tiers can SEE at some instant is a
sub-sequence of the accepted messages: order preserved, arbitrary holes.

  * `acc`  : the accepted (retained) messages — `consecutiveFrom lo acc`, `tsSorted acc`;
  * `seen` : what the tiers can see now — `seen.Sublist acc`;
  * `lo`   : `segments[0].start_offset`, the first retained offset;
  * `cur`  : `current_offset`, the offset of the last accepted message.

`rawByOffset` / `rawByTs` are what the read path collects from the tiers (holes included);
`visibleByOffset` / `visibleByTs` apply the post-processing of the fixed code, statement by statement.
Everything is computable, core only.
-/
import Iggy.Log.Abs
namespace Iggy.Log.NoWait
open Iggy.Log

/-- `messages.windows(2).position(|pair| pair[1].offset != pair[0].offset + 1)
      .map_or(messages.len(), |index| index + 1); messages.truncate(contiguous)`:
the longest prefix whose offsets are consecutive (cut at the first discontinuity). -/
def contigPrefix : List Msg → List Msg
  | [] => []
  | [a] => [a]
  | a :: b :: rest => if b.off = a.off + 1 then a :: contigPrefix (b :: rest) else [a]

/-! ## poll by offset -/

/-- What `get_messages_by_offset` collects from the tiers before the no-wait post-processing: the
visible messages with `start' ≤ offset < start' + count`, `start' = max start lo` (the clamp to the
first retained offset, fix 9561552).  This is the answer of the unfixed code. -/
def rawByOffset (seen : List Msg) (lo start count : Nat) : List Msg :=
  seen.filter (fun m => max start lo ≤ m.off ∧ m.off < max start lo + count)

/-- `Partition::get_messages_by_offset` after fix 5922a8c:
```
let start_offset = max(start_offset, self.segments[0].start_offset);
if start_offset > self.current_offset { return Ok(Vec::new()); }
let mut messages = …;                                              // rawByOffset
if messages.first().is_some_and(|m| m.offset != start_offset) { return Ok(Vec::new()); }
messages.truncate(contiguous); Ok(messages)                        // contigPrefix
```
(When `try_get_messages_from_cache` answers, the result is a slice of the cache, which holds
consecutive accepted offsets up to `cur`: that is the case `seen = acc` of this function.) -/
def visibleByOffset (seen : List Msg) (lo cur start count : Nat) : List Msg :=
  if max start lo > cur then []
  else
    let messages := rawByOffset seen lo start count
    if messages.head?.any (fun m => m.off != max start lo) then []
    else contigPrefix messages

/-! ## poll by timestamp -/

/-- What `get_messages_by_timestamp` collects from the segments (disk part, then buffer part) before
the no-wait post-processing: the first `count` visible messages with `timestamp ≥ t`. -/
def rawByTs (seen : List Msg) (t count : Nat) : List Msg :=
  (seen.filter (fun m => t ≤ m.ts)).take count

/-- `Partition::get_messages_by_timestamp` after fixes a7c30e4 and 959ee6e:
```
messages.truncate(contiguous);                                       // contigPrefix
if let Some(first_offset) = messages.first().map(|m| m.offset) {
    if first_offset > self.segments[0].start_offset
        && self.get_messages_by_offset(first_offset - 1, 1).await?
               .first().map_or(true, |previous| previous.timestamp >= query_ts)
    { return Ok(Vec::new()); }
}
Ok(messages)
```
`seen` is what the timestamp scan over the segments sees; `look` is what the inner
`get_messages_by_offset` sees — the same tiers plus the message cache, so it may differ from `seen`
(this difference is exactly what fix 959ee6e is about). -/
def visibleByTs (seen look : List Msg) (lo cur t count : Nat) : List Msg :=
  let messages := contigPrefix (rawByTs seen t count)
  match messages.head? with
  | none => messages
  | some first =>
    if lo < first.off ∧
        ((visibleByOffset look lo cur (first.off - 1) 1).head?.all (fun previous => t ≤ previous.ts))
    then []
    else messages

/-! ## the specification's answers (Iggy/Log/Spec.lean) -/

/-- the specification state whose retained messages are `acc` (polls read nothing else) -/
def specPart (acc : List Msg) : SPart :=
  { msgs := acc, next := 0, ids := none, consOffs := [], grpOffs := [], expiry := none }

/-- the specification's answer to a poll by offset: `SPart.pollOffset` -/
def specAnswerByOffset (acc : List Msg) (start count : Nat) : List Msg :=
  (specPart acc).pollOffset start count

/-- the specification's answer to a poll by timestamp: `SPart.pollTimestamp` -/
def specAnswerByTs (acc : List Msg) (t count : Nat) : List Msg :=
  (specPart acc).pollTimestamp t count

/-! ## the read path WITHOUT one of the guards (for the necessity witnesses) -/

/-- by offset, without the "first message must be at the requested offset" check -/
def byOffsetNoFirstCheck (seen : List Msg) (lo cur start count : Nat) : List Msg :=
  if max start lo > cur then [] else contigPrefix (rawByOffset seen lo start count)

/-- by offset, without the truncation at the first discontinuity -/
def byOffsetNoTruncate (seen : List Msg) (lo cur start count : Nat) : List Msg :=
  if max start lo > cur then []
  else
    let messages := rawByOffset seen lo start count
    if messages.head?.any (fun m => m.off != max start lo) then [] else messages

/-- by timestamp, truncation only: no predecessor check (the code before a7c30e4 plus truncation) -/
def byTsNoPredCheck (seen : List Msg) (t count : Nat) : List Msg :=
  contigPrefix (rawByTs seen t count)

/-- by timestamp as of a7c30e4: the predecessor must be visible, its timestamp is not looked at -/
def byTsPredVisibleOnly (seen look : List Msg) (lo cur t count : Nat) : List Msg :=
  let messages := contigPrefix (rawByTs seen t count)
  match messages.head? with
  | none => messages
  | some first =>
    if lo < first.off ∧ (visibleByOffset look lo cur (first.off - 1) 1).isEmpty then []
    else messages

end Iggy.Log.NoWait
