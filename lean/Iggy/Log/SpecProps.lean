/-
Properties of the abstract partition `SPart` (L2): what C01, C02, C07, C14, C18 say, stated on the
specification.  The refinement theorems (Iggy/Log/Refine.lean) carry them to the storage model L1.
-/
import Iggy.Log.Spec
import Iggy.Log.Abs
namespace Iggy.Log

/-! ## the numbering loop (shared by L1 `Part.append` and L2 `SPart.append`) -/

theorem number_acc (d : Option (List Nat)) (base now : Nat) (msgs : List InMsg) (k : Nat) (acc : List Msg) :
    (number d base now msgs k acc).2 = acc.reverse ++ (number d base now msgs k []).2 := by
  induction msgs generalizing d k acc with
  | nil => simp [number]
  | cons m rest ih =>
    unfold number
    cases d with
    | none =>
      simp only
      rw [ih none (k+1) (_ :: acc), ih none (k+1) [_]]
      simp
    | some ids =>
      simp only
      split
      · exact ih _ _ _
      · rw [ih _ (k+1) (_ :: acc), ih _ (k+1) [_]]
        simp

theorem number_fst_acc (d : Option (List Nat)) (base now : Nat) (msgs : List InMsg) (k : Nat) (acc : List Msg) :
    (number d base now msgs k acc).1 = (number d base now msgs k []).1 := by
  induction msgs generalizing d k acc with
  | nil => simp [number]
  | cons m rest ih =>
    unfold number
    cases d with
    | none => simp only; rw [ih none (k+1) (_ :: acc), ih none (k+1) [_]]
    | some ids =>
      simp only
      split
      · exact ih _ _ _
      · rw [ih _ (k+1) (_ :: acc), ih _ (k+1) [_]]

/-- C01: the accepted messages of a batch get consecutive offsets `base+k, base+k+1, …` in the order
they were given — for every batch, every dedup state. -/
theorem number_consecutive (d : Option (List Nat)) (base now : Nat) (msgs : List InMsg) (k : Nat) :
    consecutiveFrom (base + k) (number d base now msgs k []).2 := by
  induction msgs generalizing d k with
  | nil => simp [number, consecutiveFrom]
  | cons m rest ih =>
    unfold number
    cases d with
    | none =>
      simp only
      rw [number_acc]
      simp only [List.reverse_cons, List.reverse_nil, List.nil_append, List.singleton_append, consecutiveFrom]
      exact ⟨trivial, by have := ih none (k+1); rwa [show base + (k + 1) = base + k + 1 by omega] at this⟩
    | some ids =>
      simp only
      split
      · exact ih _ _
      · rw [number_acc]
        simp only [List.reverse_cons, List.reverse_nil, List.nil_append, List.singleton_append, consecutiveFrom]
        exact ⟨trivial, by have := ih (some (m.id :: ids)) (k+1); rwa [show base + (k + 1) = base + k + 1 by omega] at this⟩

/-- every numbered message carries the clock value as timestamp -/
theorem number_ts (d : Option (List Nat)) (base now : Nat) (msgs : List InMsg) (k : Nat) :
    ∀ m ∈ (number d base now msgs k []).2, m.ts = now := by
  induction msgs generalizing d k with
  | nil => simp [number]
  | cons m rest ih =>
    unfold number
    cases d with
    | none =>
      simp only; rw [number_acc]
      intro x hx
      simp only [List.reverse_cons, List.reverse_nil, List.nil_append, List.singleton_append, List.mem_cons] at hx
      rcases hx with rfl | hx
      · rfl
      · exact ih none (k+1) x hx
    | some ids =>
      simp only
      split
      · exact ih _ _
      · rw [number_acc]
        intro x hx
        simp only [List.reverse_cons, List.reverse_nil, List.nil_append, List.singleton_append, List.mem_cons] at hx
        rcases hx with rfl | hx
        · rfl
        · exact ih _ (k+1) x hx

/-- with deduplication off nothing is dropped: every given message is accepted, in order (C18 last
sentence) -/
theorem number_none_all (base now : Nat) (msgs : List InMsg) (k : Nat) :
    (number none base now msgs k []).2.map (fun m => (m.id, m.size, m.tag)) =
      msgs.map (fun m => (m.id, m.size, m.tag)) := by
  induction msgs generalizing k with
  | nil => simp [number]
  | cons m rest ih =>
    unfold number
    simp only
    rw [number_acc]
    simp [ih (k+1)]

/-- ids accepted by the loop are exactly the given ids not seen before, first occurrence only; the new
id set is the old one plus the accepted ids (C18) -/
theorem number_some_ids (ids : List Nat) (base now : Nat) (msgs : List InMsg) (k : Nat) :
    ∃ ids', (number (some ids) base now msgs k []).1 = some ids' ∧
      (∀ i, i ∈ ids' ↔ i ∈ ids ∨ i ∈ msgs.map (·.id)) ∧
      (∀ m ∈ (number (some ids) base now msgs k []).2, m.id ∉ ids ∧ m.id ∈ msgs.map (·.id)) ∧
      ((number (some ids) base now msgs k []).2.map (·.id)).Nodup ∧
      (∀ m ∈ msgs, m.id ∉ ids → m.id ∈ (number (some ids) base now msgs k []).2.map (·.id)) := by
  induction msgs generalizing ids k with
  | nil => exact ⟨ids, by simp [number]⟩
  | cons m rest ih =>
    unfold number
    simp only
    split
    · rename_i hc
      have hmem : m.id ∈ ids := by simpa using hc
      obtain ⟨ids', h1, h2, h3, h4, h5⟩ := ih ids k
      refine ⟨ids', h1, ?_, ?_, h4, ?_⟩
      · intro i; rw [h2 i]; simp only [List.map_cons, List.mem_cons]
        constructor
        · rintro (h | h); exact Or.inl h; exact Or.inr (Or.inr h)
        · rintro (h | h | h); exact Or.inl h; exact Or.inl (h ▸ hmem); exact Or.inr h
      · intro x hx; have := h3 x hx; simp only [List.map_cons, List.mem_cons]; exact ⟨this.1, Or.inr this.2⟩
      · intro x hx hn
        simp only [List.mem_cons] at hx
        rcases hx with rfl | hx
        · exact absurd hmem hn
        · exact h5 x hx hn
    · rename_i hc
      have hmem : m.id ∉ ids := by simpa using hc
      obtain ⟨ids', h1, h2, h3, h4, h5⟩ := ih (m.id :: ids) (k+1)
      rw [number_fst_acc, number_acc]
      refine ⟨ids', h1, ?_, ?_, ?_, ?_⟩
      · intro i; rw [h2 i]; simp only [List.map_cons, List.mem_cons]
        constructor
        · rintro ((h | h) | h); exact Or.inr (Or.inl h); exact Or.inl h; exact Or.inr (Or.inr h)
        · rintro (h | h | h); exact Or.inl (Or.inr h); exact Or.inl (Or.inl h); exact Or.inr h
      · intro x hx
        simp only [List.reverse_cons, List.reverse_nil, List.nil_append, List.singleton_append, List.mem_cons] at hx
        rcases hx with rfl | hx
        · exact ⟨hmem, by simp⟩
        · have := h3 x hx
          simp only [List.mem_cons, not_or] at this
          exact ⟨this.1.2, by simp only [List.map_cons, List.mem_cons]; exact Or.inr this.2⟩
      · simp only [List.reverse_cons, List.reverse_nil, List.nil_append, List.singleton_append, List.map_cons, List.nodup_cons]
        refine ⟨?_, h4⟩
        intro hin
        obtain ⟨x, hx, hxe⟩ := List.mem_map.mp hin
        have := (h3 x hx).1
        simp only [List.mem_cons, not_or] at this
        exact this.1 hxe
      · intro x hx hn
        simp only [List.reverse_cons, List.reverse_nil, List.nil_append, List.singleton_append, List.map_cons, List.mem_cons]
        simp only [List.mem_cons] at hx
        rcases hx with rfl | hx
        · exact Or.inl rfl
        · by_cases he : x.id = m.id
          · exact Or.inl he
          · exact Or.inr (h5 x hx (by simp only [List.mem_cons, not_or]; exact ⟨he, hn⟩))

/-! ## invariant of the specification: offsets are gap-free and end at `next` -/

/-- retained offsets are `lo, lo+1, …, next-1` for some `lo` (the earliest retained offset) -/
def SPart.Inv (p : SPart) : Prop := ∃ lo, consecutiveFrom lo p.msgs ∧ lo + p.msgs.length = p.next

theorem consecutiveFrom_append (lo : Nat) (a b : List Msg) :
    consecutiveFrom lo (a ++ b) ↔ consecutiveFrom lo a ∧ consecutiveFrom (lo + a.length) b := by
  induction a generalizing lo with
  | nil => simp [consecutiveFrom]
  | cons m rest ih =>
    simp only [List.cons_append, consecutiveFrom, List.length_cons, ih]
    rw [show lo + 1 + rest.length = lo + (rest.length + 1) by omega]
    exact and_assoc.symm

theorem consecutiveFrom_drop (lo : Nat) (l : List Msg) (n : Nat) (h : consecutiveFrom lo l) :
    consecutiveFrom (lo + min n l.length) (l.drop n) := by
  induction n generalizing lo l with
  | zero => simpa using h
  | succ n ih =>
    cases l with
    | nil => simp [consecutiveFrom]
    | cons m rest =>
      simp only [List.drop_succ_cons, List.length_cons]
      have := ih (lo + 1) rest h.2
      rwa [show lo + min (n + 1) (rest.length + 1) = lo + 1 + min n rest.length by omega]

theorem consecutiveFrom_map_off (lo : Nat) (l : List Msg) (h : consecutiveFrom lo l) :
    l.map (·.off) = List.range' lo l.length := by
  induction l generalizing lo with
  | nil => rfl
  | cons m rest ih =>
    simp only [List.map_cons, List.length_cons, List.range'_succ]
    rw [h.1, ih (lo + 1) h.2]

theorem SPart.create_inv (cfg : Cfg) (e : Option Nat) : (SPart.create cfg e).Inv :=
  ⟨0, trivial, rfl⟩

/-- C01 on the specification: appending keeps the retained offsets gap-free and ending at `next`;
`next` advances by exactly the number of accepted messages. -/
theorem SPart.append_inv (p : SPart) (now : Nat) (msgs : List InMsg) (h : p.Inv) : (p.append now msgs).Inv := by
  obtain ⟨lo, hc, hn⟩ := h
  unfold SPart.append
  simp only
  refine ⟨lo, ?_, ?_⟩
  · rw [consecutiveFrom_append]
    refine ⟨hc, ?_⟩
    have := number_consecutive p.ids p.next now msgs 0
    rw [hn]; simpa using this
  · simp only [List.length_append]; omega

theorem SPart.purge_inv (p : SPart) : p.purge.Inv := ⟨0, trivial, rfl⟩

theorem SPart.dropPrefix_inv (p : SPart) (n : Nat) (h : p.Inv) : (p.dropPrefix n).Inv := by
  obtain ⟨lo, hc, hn⟩ := h
  refine ⟨lo + min n p.msgs.length, consecutiveFrom_drop lo p.msgs n hc, ?_⟩
  simp only [SPart.dropPrefix, List.length_drop]; omega

/-- C14 on the specification: retention never moves `next` (offsets are never rewound) and what is
left is a suffix of what was there. -/
theorem SPart.dropPrefix_next (p : SPart) (n : Nat) :
    (p.dropPrefix n).next = p.next ∧ ∃ pre, p.msgs = pre ++ (p.dropPrefix n).msgs :=
  ⟨rfl, ⟨p.msgs.take n, (List.take_append_drop n p.msgs).symm⟩⟩

/-- C01: in every state satisfying the invariant the retained offsets are exactly
`lo, lo+1, …, next-1`: no gap, no duplicate, in order. -/
theorem SPart.offsets_range (p : SPart) (h : p.Inv) :
    ∃ lo, p.msgs.map (·.off) = List.range' lo p.msgs.length ∧ lo + p.msgs.length = p.next := by
  obtain ⟨lo, hc, hn⟩ := h
  exact ⟨lo, consecutiveFrom_map_off lo p.msgs hc, hn⟩

/-- C01: a send whose messages are all dropped as duplicates consumes no offset -/
theorem SPart.append_all_dropped (p : SPart) (now : Nat) (msgs : List InMsg)
    (h : (number p.ids p.next now msgs 0 []).2 = []) :
    (p.append now msgs).next = p.next ∧ (p.append now msgs).msgs = p.msgs := by
  unfold SPart.append; simp [h]

/-! ## polls on the specification (C02) -/

/-- a poll by offset returns a contiguous run: consecutive offsets, no hole, no repeat -/
theorem SPart.pollOffset_sublist (p : SPart) (off count : Nat) :
    (p.pollOffset off count).Sublist p.msgs := by
  unfold SPart.pollOffset; exact List.filter_sublist

theorem consecutiveFrom_mem_ge (lo : Nat) (l : List Msg) (h : consecutiveFrom lo l) :
    ∀ x ∈ l, lo ≤ x.off := by
  induction l generalizing lo with
  | nil => intro x hx; cases hx
  | cons y ys ih =>
    intro x hx
    simp only [List.mem_cons] at hx
    rcases hx with rfl | hx
    · exact Nat.le_of_eq h.1.symm
    · have := ih (lo + 1) h.2 x hx; omega

theorem consecutiveFrom_filter_range (lo a b : Nat) (l : List Msg) (h : consecutiveFrom lo l) :
    consecutiveFrom (max lo a) (l.filter (fun m => a ≤ m.off ∧ m.off < b)) := by
  induction l generalizing lo with
  | nil => simp [consecutiveFrom]
  | cons m rest ih =>
    have ih' := ih (lo + 1) h.2
    simp only [List.filter_cons]
    split
    · rename_i hm
      simp only [decide_eq_true_eq] at hm
      simp only [consecutiveFrom]
      refine ⟨by have := h.1; omega, ?_⟩
      rwa [show max lo a + 1 = max (lo + 1) a by have := h.1; omega]
    · rename_i hm
      simp only [decide_eq_true_eq, not_and, Nat.not_lt] at hm
      by_cases ha : a ≤ m.off
      · -- m.off ≥ b: nothing after m qualifies either
        have hb := hm ha
        have : rest.filter (fun m => a ≤ m.off ∧ m.off < b) = [] := by
          rw [List.filter_eq_nil_iff]
          intro x hx
          simp only [decide_eq_true_eq, not_and, Nat.not_lt]
          intro _
          have := consecutiveFrom_mem_ge (lo + 1) rest h.2 x hx
          have := h.1; omega
        rw [this]; trivial
      · rwa [show max lo a = max (lo + 1) a by have := h.1; omega]

theorem consecutiveFrom_len_le (s hi : Nat) (l : List Msg) (h : consecutiveFrom s l)
    (hb : ∀ m ∈ l, m.off < hi) (hne : l ≠ []) : s + l.length ≤ hi := by
  induction l generalizing s with
  | nil => exact absurd rfl hne
  | cons x xs ih =>
    cases xs with
    | nil => have := hb x (List.mem_cons_self ..); have := h.1; simp only [List.length_cons, List.length_nil]; omega
    | cons y ys =>
      have := ih (s + 1) h.2 (fun m hm => hb m (List.mem_cons_of_mem _ hm)) (by simp)
      simp only [List.length_cons] at this ⊢; omega

/-- C02: the result of a poll by offset is a gap-free run of offsets starting at the requested offset
(or at the earliest retained one when the request reaches below it) -/
theorem SPart.pollOffset_consecutive (p : SPart) (off count : Nat) (h : p.Inv) :
    ∃ lo, consecutiveFrom lo (p.pollOffset off count) := by
  obtain ⟨lo, hc, _⟩ := h
  unfold SPart.pollOffset
  exact ⟨_, consecutiveFrom_filter_range lo _ _ p.msgs hc⟩

/-- C02: a poll by offset returns *every* retained message in the requested window -/
theorem SPart.pollOffset_complete (p : SPart) (off count : Nat) (m : Msg) (hm : m ∈ p.msgs)
    (h1 : off ≤ m.off) (h2 : m.off < off + count) (hlo : ∀ f, p.msgs.head? = some f → f.off ≤ off) :
    m ∈ p.pollOffset off count := by
  unfold SPart.pollOffset
  cases hh : p.msgs.head? with
  | none => simp [List.mem_filter, hm, h1, h2]
  | some f =>
    have := hlo f hh
    simp only [List.mem_filter, hm, decide_eq_true_eq, true_and]
    rw [Nat.max_eq_left this]; exact ⟨h1, h2⟩

/-- C02: every returned message is a retained message, unaltered (same id, timestamp, size, content
tag as stored) -/
theorem SPart.pollOffset_genuine (p : SPart) (off count : Nat) (m : Msg) (hm : m ∈ p.pollOffset off count) :
    m ∈ p.msgs := (List.mem_filter.mp hm).1

theorem SPart.pollOffset_eq (p : SPart) (off count : Nat) :
    ∃ a, p.pollOffset off count = p.msgs.filter (fun m => a ≤ m.off ∧ m.off < a + count) := ⟨_, rfl⟩

theorem SPart.pollOffset_length_le (p : SPart) (off count : Nat) (h : p.Inv) :
    (p.pollOffset off count).length ≤ count := by
  obtain ⟨lo0, hc0, _⟩ := h
  obtain ⟨a, ha⟩ := SPart.pollOffset_eq p off count
  rw [ha]
  have hc := consecutiveFrom_filter_range lo0 a (a + count) p.msgs hc0
  have hb : ∀ m ∈ p.msgs.filter (fun m => a ≤ m.off ∧ m.off < a + count), m.off < a + count := by
    intro m hm; simp only [List.mem_filter, decide_eq_true_eq] at hm; exact hm.2.2
  by_cases hne : p.msgs.filter (fun m => a ≤ m.off ∧ m.off < a + count) = []
  · rw [hne]; simp
  · have := consecutiveFrom_len_le _ _ _ hc hb hne
    omega

/-! ## consumer offsets on the specification (C07) -/

theorem lookup_insertKV_same (l : List (Nat × Nat)) (k v : Nat) : lookup (insertKV l k v) k = some v := by
  simp [lookup, insertKV]

theorem find?_filter_ne (l : List (Nat × Nat)) (k k' : Nat) (h : k' ≠ k) :
    (l.filter (fun e => e.1 ≠ k)).find? (fun e => e.1 = k') = l.find? (fun e => e.1 = k') := by
  induction l with
  | nil => rfl
  | cons e rest ih =>
    by_cases he : e.1 = k
    · have h1 : decide (e.1 ≠ k) = false := by simp [he]
      have h2 : decide (e.1 = k') = false := by simp [he]; exact fun x => h x.symm
      simp only [List.filter_cons, h1, List.find?_cons, h2]
      exact ih
    · have h1 : decide (e.1 ≠ k) = true := by simp [he]
      simp only [List.filter_cons, h1, if_true, List.find?_cons]
      split
      · rfl
      · exact ih

theorem lookup_insertKV_other (l : List (Nat × Nat)) (k k' v : Nat) (h : k' ≠ k) :
    lookup (insertKV l k v) k' = lookup l k' := by
  unfold lookup insertKV
  have : (decide ((k, v).1 = k')) = false := by simp; exact fun e => h e.symm
  simp only [List.find?_cons, this]
  rw [find?_filter_ne l k k' h]

theorem lookup_eraseK_same (l : List (Nat × Nat)) (k : Nat) : lookup (eraseK l k) k = none := by
  unfold lookup eraseK
  simp only [Option.map_eq_none_iff, List.find?_eq_none, List.mem_filter, decide_eq_true_eq]
  intro x hx; exact hx.2

theorem lookup_eraseK_other (l : List (Nat × Nat)) (k k' : Nat) (h : k' ≠ k) :
    lookup (eraseK l k) k' = lookup l k' := by
  unfold lookup eraseK
  rw [find?_filter_ne l k k' h]

/-- C07: a stored offset is returned unchanged by the next get for the same consumer/group and kind -/
theorem SPart.get_after_store (p p' : SPart) (grp : Bool) (cid off : Nat)
    (h : p.storeOffset grp cid off = .ok p') : p'.getOffset grp cid = some off := by
  unfold SPart.storeOffset at h
  split at h
  · cases h
  · split at h <;> cases h <;> simp_all [SPart.getOffset, lookup_insertKV_same]

/-- C07: a store never touches another consumer, another group, or the other kind — in particular a
consumer and a group that share a numeric id are isolated -/
theorem SPart.store_isolated (p p' : SPart) (grp grp' : Bool) (cid cid' off : Nat)
    (h : p.storeOffset grp cid off = .ok p') (hne : grp' ≠ grp ∨ cid' ≠ cid) :
    p'.getOffset grp' cid' = p.getOffset grp' cid' := by
  unfold SPart.storeOffset at h
  split at h
  · cases h
  · cases grp <;> cases grp' <;> simp only [Bool.false_eq_true, if_false, if_true] at h <;>
      cases h <;> simp only [SPart.getOffset, Bool.false_eq_true, if_false, if_true] <;>
      first
        | rfl
        | (apply lookup_insertKV_other; rcases hne with h | h
           · exact absurd rfl h
           · exact h)

/-- C07: storing beyond the current offset is refused and changes nothing -/
theorem SPart.store_beyond_refused (p : SPart) (grp : Bool) (cid off : Nat) (h : p.cur < off) :
    p.storeOffset grp cid off = .error .invalidOffset := by
  unfold SPart.storeOffset; simp [h]

/-- C07: an explicit delete removes exactly that entry -/
theorem SPart.delete_removes (p p' : SPart) (grp : Bool) (cid : Nat)
    (h : p.deleteOffset grp cid = .ok p') : p'.getOffset grp cid = none := by
  unfold SPart.deleteOffset at h
  split at h
  · cases h
  · split at h <;> cases h <;> simp_all [SPart.getOffset, lookup_eraseK_same]

theorem SPart.delete_isolated (p p' : SPart) (grp grp' : Bool) (cid cid' : Nat)
    (h : p.deleteOffset grp cid = .ok p') (hne : grp' ≠ grp ∨ cid' ≠ cid) :
    p'.getOffset grp' cid' = p.getOffset grp' cid' := by
  unfold SPart.deleteOffset at h
  split at h
  · cases h
  · cases grp <;> cases grp' <;> simp only [Bool.false_eq_true, if_false, if_true] at h <;>
      cases h <;> simp only [SPart.getOffset, Bool.false_eq_true, if_false, if_true] <;>
      first
        | rfl
        | (apply lookup_eraseK_other; rcases hne with h | h
           · exact absurd rfl h
           · exact h)

/-- C07: stored offsets vanish with purge -/
theorem SPart.purge_clears_offsets (p : SPart) (grp : Bool) (cid : Nat) : p.purge.getOffset grp cid = none := by
  cases grp <;> simp [SPart.purge, SPart.getOffset, lookup]

/-- C07: polling `next` returns the messages immediately after the stored offset, from the beginning
when none is stored -/
theorem SPart.pollNext_spec (p : SPart) (grp : Bool) (cid count : Nat) :
    p.pollNext grp cid count =
      match p.getOffset grp cid with
      | none => p.pollOffset 0 count
      | some o => p.pollOffset (o + 1) count := by
  unfold SPart.pollNext SPart.getOffset SPart.pollFirst; rfl

/-- appending, retention and polling never touch stored offsets -/
theorem SPart.append_keeps_offsets (p : SPart) (now : Nat) (msgs : List InMsg) (grp : Bool) (cid : Nat) :
    (p.append now msgs).getOffset grp cid = p.getOffset grp cid := by
  unfold SPart.append SPart.getOffset; rfl

end Iggy.Log
