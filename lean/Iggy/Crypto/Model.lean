/-
Server-side encryption (server/src/streaming/systems/messages.rs append_messages / poll_messages,
server/src/state/file.rs apply / load_entries, sdk/src/utils/crypto.rs).
AES-256-GCM is a parameter: a structure carrying the two laws the code relies on — hypotheses, never
axioms; instantiated by a toy cipher in the non-vacuity examples.
-/
namespace Iggy.Crypto

abbrev Bytes := List UInt8

/-- authenticated encryption with a random nonce prepended to the ciphertext -/
structure Aead where
  Key : Type
  Nonce : Type
  enc : Key → Nonce → Bytes → Bytes
  dec : Key → Bytes → Option Bytes
  /-- law 1: decrypting with the same key gives the plaintext back, whatever the nonce -/
  dec_enc : ∀ k n p, dec k (enc k n p) = some p
  /-- law 2: under another key an authenticated ciphertext is rejected -/
  key_sep : ∀ k k' n p, k ≠ k' → dec k' (enc k n p) = none

variable (A : Aead)

/-- System::append_messages with an encryptor: every payload is encrypted before the topic sees it
(sizes are accounted on the ciphertext); `nonces` are the random nonces drawn, one per message -/
def sealAll (k : A.Key) : List A.Nonce → List Bytes → List Bytes
  | n :: ns, p :: ps => A.enc k n p :: sealAll k ns ps
  | _, _ => []

/-- System::poll_messages with an encryptor: every stored payload is decrypted; the first failure
makes the whole poll fail with cannot_decrypt_data — nothing is delivered -/
def openAll (k : A.Key) : List Bytes → Option (List Bytes)
  | [] => some []
  | c :: cs => match A.dec k c, openAll k cs with
    | some p, some ps => some (p :: ps)
    | _, _ => none

/-- a journal entry's command body as written by FileState::apply: encrypted; the checksum is computed
over the clear form *before* encryption (`ck clear`) -/
structure SealedEntry where
  checksum : Nat
  body : Bytes

def sealEntry (ck : Bytes → Nat) (k : A.Key) (n : A.Nonce) (clear : Bytes) : SealedEntry :=
  { checksum := ck clear, body := A.enc k n clear }

/-- load_entries: decrypt first, then verify the checksum of the clear form -/
def openEntry (ck : Bytes → Nat) (k : A.Key) (e : SealedEntry) : Option Bytes :=
  match A.dec k e.body with
  | none => none                                   -- cannot_decrypt_data
  | some clear => if ck clear = e.checksum then some clear else none

end Iggy.Crypto
