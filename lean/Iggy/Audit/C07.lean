import Iggy.Props.C07
#print axioms Iggy.Props.C07.get_after_store
#print axioms Iggy.Props.C07.store_isolated
#print axioms Iggy.Props.C07.delete_isolated
#print axioms Iggy.Props.C07.store_beyond_refused
#print axioms Iggy.Props.C07.delete_removes
#print axioms Iggy.Props.C07.purge_clears
#print axioms Iggy.Props.C07.survives
#print axioms Iggy.Props.C07.next_after_stored
#print axioms Iggy.Props.C07.l1_offsets_refine
#print axioms Iggy.Props.C07.l1_survive_restart
