import Iggy.Props.C17
#print axioms Iggy.Props.C17.key_in_range
#print axioms Iggy.Props.C17.key_deterministic
#print axioms Iggy.Props.C17.balanced_in_range
#print axioms Iggy.Props.C17.nextPid_pos
#print axioms Iggy.Props.C17.pos_lt
#print axioms Iggy.Props.C17.balanced_rotation
#print axioms Iggy.Props.C17.add_mod_ne
#print axioms Iggy.Props.C17.balanced_window_distinct
#print axioms Iggy.Props.C17.by_id_missing_stores_nothing
#print axioms Iggy.Props.C17.one_send_one_partition
