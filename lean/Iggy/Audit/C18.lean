import Iggy.Props.C18
#print axioms Iggy.Props.C18.ids_nodup
#print axioms Iggy.Props.C18.distinct_never_dropped
#print axioms Iggy.Props.C18.accepted_are_new
#print axioms Iggy.Props.C18.dup_consumes_no_offset
#print axioms Iggy.Props.C18.dedup_off_stores_all
#print axioms Iggy.Props.C18.restart_rebuilds
#print axioms Iggy.Props.C18.l1_ids_nodup
