import Iggy.Props.C14
#print axioms Iggy.Props.C14.expire_deletes_only
#print axioms Iggy.Props.C14.never_expire_loses_nothing
#print axioms Iggy.Props.C14.expire_reachable
#print axioms Iggy.Props.C14.poll_below_earliest
#print axioms Iggy.Props.C14.consecutiveFrom_mem_lt
#print axioms Iggy.Props.C14.survivors_served_as_before
