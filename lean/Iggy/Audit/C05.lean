import Iggy.Props.C05
#print axioms Iggy.Props.C05.wf_init
#print axioms Iggy.Props.C05.wf_step
#print axioms Iggy.Props.C05.catwf_step
#print axioms Iggy.Props.C05.wf_reachable
#print axioms Iggy.Props.C05.replay_eq_runtime
#print axioms Iggy.Props.C05.step_journal
#print axioms Iggy.Props.C05.restart_never_fails
#print axioms Iggy.Props.C05.restart_preserves_view
#print axioms Iggy.Props.C05.restart_keeps_journal
#print axioms Iggy.Props.C05.restart_keeps_partitions
#print axioms Iggy.Props.C05.restart_effects
#print axioms Iggy.Props.C05.restart_keeps_data
#print axioms Iggy.Props.C05.restarts_preserve_view
#print axioms Iggy.Props.C05.restart_after_any_history
