import Iggy.Props.C04
#print axioms Iggy.Props.C04.stored_is_prefix
