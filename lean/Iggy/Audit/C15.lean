import Iggy.Props.C15
#print axioms Iggy.Props.C15.errOf_ne_full
#print axioms Iggy.Props.C15.gate
#print axioms Iggy.Props.C15.refused_changes_nothing
#print axioms Iggy.Props.C15.isFull_iff
#print axioms Iggy.Props.C15.below_or_unlimited_or_deleting_accepts
#print axioms Iggy.Props.C15.small_limit_rejected
#print axioms Iggy.Props.C15.valid_limit_accepted
#print axioms Iggy.Props.C15.oldest_only
#print axioms Iggy.Props.C15.open_segment_kept
