import Iggy.Props.C02
#print axioms Iggy.Props.C02.poll_genuine
#print axioms Iggy.Props.C02.poll_contiguous
#print axioms Iggy.Props.C02.poll_complete
#print axioms Iggy.Props.C02.poll_at_most_count
#print axioms Iggy.Props.C02.poll_in_order
#print axioms Iggy.Props.C02.first_last_next
#print axioms Iggy.Props.C02.timestamp_poll
#print axioms Iggy.Props.C02.identity_ops_invisible
#print axioms Iggy.Props.C02.l1_poll_offset
#print axioms Iggy.Props.C02.l1_poll_exact
#print axioms Iggy.Props.C02.l1_poll_first_last_next
#print axioms Iggy.Props.C02.l1_poll_timestamp_partial
#print axioms Iggy.Props.C02.l1_identity_ops
