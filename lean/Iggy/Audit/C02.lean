import Iggy.Props.C02
#print axioms Iggy.Props.C02.poll_genuine
#print axioms Iggy.Props.C02.poll_contiguous
#print axioms Iggy.Props.C02.poll_complete
#print axioms Iggy.Props.C02.poll_at_most_count
#print axioms Iggy.Props.C02.poll_in_order
#print axioms Iggy.Props.C02.first_last_next
#print axioms Iggy.Props.C02.timestamp_poll
#print axioms Iggy.Props.C02.identity_ops_invisible
