import Iggy.Props.C03
#print axioms Iggy.Props.C03.restart_same
#print axioms Iggy.Props.C03.restart_same_polls
#print axioms Iggy.Props.C03.restart_reachable
#print axioms Iggy.Props.C03.next_after_restart
