import Iggy.Props.C20
#print axioms Iggy.Props.C20.empty_sends_nothing
#print axioms Iggy.Props.C20.sendTo_addressed
