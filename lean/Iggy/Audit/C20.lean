import Iggy.Props.C20
#print axioms Iggy.Props.C20.chunks_flatten
#print axioms Iggy.Props.C20.chunks_bounds
#print axioms Iggy.Props.C20.producer_delivers
#print axioms Iggy.Props.C20.reach_iff_run
#print axioms Iggy.Props.C20.yields_in_order_once
#print axioms Iggy.Props.C20.first_yield_resumes
#print axioms Iggy.Props.C20.resume_after_committed
#print axioms Iggy.Props.C20.lastYield_after_drop
#print axioms Iggy.Props.C20.commit_le_yielded
#print axioms Iggy.Props.C20.commit_le_fetched
#print axioms Iggy.Props.C20.polled_stored
#print axioms Iggy.Props.C20.no_stall
#print axioms Iggy.Props.C20.no_stall_two_polls
#print axioms Iggy.Props.C20.no_skip_across_incarnations
#print axioms Iggy.Props.C20.yields_schedule_independent
#print axioms Iggy.Props.C20.rewound_offset_recovers
