import Iggy.Props.C12
#print axioms Iggy.Props.C12.append_msgs
#print axioms Iggy.Props.C12.final_is_interleaving
#print axioms Iggy.Props.C12.batch_contiguous
#print axioms Iggy.Props.C12.exec_next_ge
#print axioms Iggy.Props.C12.exec_offsets_ge
#print axioms Iggy.Props.C12.consecutiveFrom_mem_lt'
#print axioms Iggy.Props.C12.batches_totally_ordered
#print axioms Iggy.Props.C12.schedule_keeps_invariant
#print axioms Iggy.Props.C12.poll_contiguous_genuine
#print axioms Iggy.Props.C12.ack_visible
#print axioms Iggy.Props.C12.l1_atom_refines
