import Iggy.Props.C20Rewind
#print axioms Iggy.Props.C20Rewind.reachR_iff_runR
#print axioms Iggy.Props.C20Rewind.reach_reachR
#print axioms Iggy.Props.C20Rewind.runR_base
#print axioms Iggy.Props.C20Rewind.rewind_spec
#print axioms Iggy.Props.C20Rewind.yields_in_order_once_rewind
#print axioms Iggy.Props.C20Rewind.yields_consecutive_any_schedule
#print axioms Iggy.Props.C20Rewind.first_yield_resumes_rewind
#print axioms Iggy.Props.C20Rewind.resume_after_committed_rewind
#print axioms Iggy.Props.C20Rewind.commits_yielded_rewind
#print axioms Iggy.Props.C20Rewind.stored_le_consumed_rewind
#print axioms Iggy.Props.C20Rewind.yields_schedule_independent_rewind
#print axioms Iggy.Props.C20Rewind.stored_le_yielded_rewind
#print axioms Iggy.Props.C20Rewind.no_gap_across_incarnations_rewind
#print axioms Iggy.Props.C20Rewind.no_stall_rewind
#print axioms Iggy.Props.C20Rewind.no_stall_rewind_consume
#print axioms Iggy.Props.C20Rewind.no_stall_two_polls_rewind
