import Iggy.Props.C19
#print axioms Iggy.Props.C19.poll_returns_sent
#print axioms Iggy.Props.C19.files_hold_ciphertext
#print axioms Iggy.Props.C19.seal_length
#print axioms Iggy.Props.C19.other_key_never_valid
#print axioms Iggy.Props.C19.undecryptable_is_error
#print axioms Iggy.Props.C19.journal_roundtrip
#print axioms Iggy.Props.C19.journal_other_key
