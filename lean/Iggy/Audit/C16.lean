import Iggy.Props.C16
#print axioms Iggy.Props.C16.count_exact
#print axioms Iggy.Props.C16.size_exact
#print axioms Iggy.Props.C16.restart_same_figures
#print axioms Iggy.Props.C16.hierarchy_sums
#print axioms Iggy.Props.C16.le_sum_of_mem
#print axioms Iggy.Props.C16.delete_never_underflows
