import Iggy.Props.C01
#print axioms Iggy.Props.C01.offsets_consecutive
#print axioms Iggy.Props.C01.cur_is_last
#print axioms Iggy.Props.C01.batch_contiguous_in_order
#print axioms Iggy.Props.C01.dedup_off_all_accepted
#print axioms Iggy.Props.C01.duplicate_consumes_nothing
#print axioms Iggy.Props.C01.next_after_purge_drop_restart
#print axioms Iggy.Props.C01.l1_offsets_consecutive
#print axioms Iggy.Props.C01.l1_append_refines
#print axioms Iggy.Props.C01.l1_simulates
