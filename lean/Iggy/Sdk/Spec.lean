/-
Specification side of C20 (definitions only).

* `Srv`: the abstract server for ONE partition `pid` and ONE consumer identity. It is the specification
  the real server is separately checked against (C02: polling returns the stored run of offsets; C07:
  stored consumer offsets). The message at offset `o` is `msgAt o`.
* `step` / `run` / `Reach`: the composition of the consumer model (`Iggy/Sdk/Model.lean`) with `Srv`,
  one event at a time, mirroring `sdkYield` / `sdkDeliver` of the judge (`Driver/Main.lean`).
  An event that is not enabled is a no-op, so EVERY list of events is a schedule.
* `drop`: modelled as enabled only when the store-offset channel is empty (`pending = []`); the real
  background task drains the channel after the consumer is dropped, which is any number of `deliver`
  events before the `drop`.
* The trace (`List Obs`, chronological) records what the outside world sees: yields, polls (with the
  offset the server had stored when the poll arrived, and the raw reply), store requests that reached the
  server, and re-creations.
-/
import Iggy.Sdk.Model
namespace Iggy.Sdk

/-! ## producer: what a call was asked to do -/

section
variable {Id Part M : Type}

/-- the messages handed to the producer by a call -/
def Call.msgs : Call Id Part M → List M
  | .send msgs => msgs
  | .sendOne m => [m]
  | .sendWithPartitioning msgs _ => msgs
  | .sendTo _ _ msgs _ => msgs

/-- the stream and topic a call addresses: the producer's own unless the call names them -/
def Call.addr (c : PCfg Id Part) : Call Id Part M → Id × Id
  | .sendTo s t _ _ => (s, t)
  | _ => (c.stream, c.topic)

/-- the partitioning a call resolves to: its argument, else the builder's, else balanced -/
def Call.part (c : PCfg Id Part) : Call Id Part M → Part
  | .sendWithPartitioning _ (some p) => p
  | .sendTo _ _ _ (some p) => p
  | _ => c.partitioning.getD c.dflt

end

/-! ## the abstract server -/

/-- the message id at an offset: a fixed function (no proof unfolds it) -/
def idOf (o : Nat) : Nat := o

/-- the message the partition holds at offset `o` -/
def msgAt (o : Nat) : PMsg := ⟨o, idOf o⟩

/-- one partition (messages at offsets `0 .. len-1`) and the offset stored for the consumer identity -/
structure Srv where
  len : Nat
  stored : Option Nat
deriving Repr, DecidableEq

/-- where `PollingStrategy::next` starts: right after the stored offset -/
def resume (stored : Option Nat) : Nat :=
  match stored with
  | some o => o + 1
  | none => 0

def Srv.start (s : Srv) (strat : Strat) (count : Nat) : Nat :=
  match strat with
  | .next => resume s.stored
  | .offset k => k
  | .first => 0
  | .last => s.len - count
  | .timestamp t => min t s.len

/-- `poll_messages`: the run `start .. min (start+count) len - 1`, the current offset, and (auto-commit,
non-empty result) the last returned offset is stored -/
def Srv.poll (s : Srv) (pid : Nat) (strat : Strat) (count : Nat) (auto : Bool) : Reply × Srv :=
  let start := s.start strat count
  let n := min (start + count) s.len - start
  (⟨pid, s.len - 1, (List.range' start n).map msgAt⟩,
   if auto && n > 0 then { s with stored := some (start + n - 1) } else s)

/-- `store_consumer_offset`: refused beyond the partition's current offset -/
def Srv.store (s : Srv) (off : Nat) : Srv × Bool :=
  if off < s.len then ({ s with stored := some off }, true) else (s, false)

/-! ## events, observations -/

inductive Ev
  | pop | poll | deliver | tick | append (n : Nat) | drop
deriving Repr, DecidableEq

inductive Obs
  /-- the consumer's stream yielded a message -/
  | yield (y : Yield)
  /-- a poll reached the server: the offset stored at that moment, the raw reply -/
  | polled (before : Option Nat) (r : List PMsg)
  /-- a store-offset request reached the server (and was accepted or not) -/
  | store (off : Nat) (ok : Bool)
  /-- the consumer was dropped and re-created with the same identity -/
  | dropped
deriving Repr, DecidableEq

abbrev Sys := Cons × Srv

/-- `store_consumer_offset` called by a background task (`allow_replay = false`) -/
def storeOne (c : Cons) (s : Srv) (p o : Nat) : Cons × Srv × List Obs :=
  let (c, send) := c.storeReq p o false
  if send then
    let (s', ok) := s.store o
    (if ok then c.storeAck p o else c, s', [.store o ok])
  else (c, s, [])

/-- one call after the other (`store_offsets_in_background` walks `last_consumed_offsets`) -/
def storeMany : Cons → Srv → List (Nat × Nat) → Cons × Srv × List Obs
  | c, s, [] => (c, s, [])
  | c, s, (p, o) :: rest =>
    let (c1, s1, o1) := storeOne c s p o
    let (c2, s2, o2) := storeMany c1 s1 rest
    (c2, s2, o1 ++ o2)

/-- one event of the composed system (`pid`: the partition the server serves this consumer from;
`strat0`: the strategy the consumer is built with) -/
def step (cfg : CCfg) (pid : Nat) (strat0 : Strat) (sys : Sys) (e : Ev) : Sys × List Obs :=
  let (c, s) := sys
  match e with
  | .pop =>
    match c.pop cfg with
    | some (c', y) => ((c', s), [.yield y])
    | none => ((c, s), [])
  | .poll =>
    if c.buffered.isEmpty then
      let (r, s1) := s.poll pid c.strat cfg.batch cfg.polling
      let (c1, r1, sync) := c.onReply cfg r
      let (s2, o2) : Srv × List Obs := match sync with
        | some (_, o) => ((s1.store o).1, [.store o (s1.store o).2])
        | none => (s1, [])
      let (c2, y) := c1.onPolled cfg r1
      ((c2, s2), [.polled s.stored r.msgs] ++ o2 ++ (match y with | some y => [.yield y] | none => []))
    else ((c, s), [])
  | .deliver =>
    match c.pending with
    | [] => ((c, s), [])
    | (p, o) :: rest =>
      let (c', s', obs) := storeOne { c with pending := rest } s p o
      ((c', s'), obs)
  | .tick =>
    if cfg.interval then
      let (c', s', obs) := storeMany c s c.consumed
      ((c', s'), obs)
    else ((c, s), [])
  | .append n => ((c, { s with len := s.len + n }), [])
  | .drop => if c.pending.isEmpty then ((Cons.new strat0, s), [.dropped]) else ((c, s), [])

/-- a schedule, from any state: final state and trace -/
def run (cfg : CCfg) (pid : Nat) (strat0 : Strat) : Sys → List Ev → Sys × List Obs
  | sys, [] => (sys, [])
  | sys, e :: es =>
    let (sys1, o1) := step cfg pid strat0 sys e
    let (sys2, o2) := run cfg pid strat0 sys1 es
    (sys2, o1 ++ o2)

/-- the states (with the trace that led there) reachable from a fresh consumer and the server `srv0` -/
inductive Reach (cfg : CCfg) (pid : Nat) (strat0 : Strat) (srv0 : Srv) : Sys → List Obs → Prop
  | init : Reach cfg pid strat0 srv0 (Cons.new strat0, srv0) []
  | step {sys tr} (e : Ev) : Reach cfg pid strat0 srv0 sys tr →
      Reach cfg pid strat0 srv0 (step cfg pid strat0 sys e).1 (tr ++ (step cfg pid strat0 sys e).2)

/-! ## reading a trace -/

def yieldsOf (tr : List Obs) : List Yield :=
  tr.filterMap (fun o => match o with | .yield y => some y | _ => none)

/-- the offsets yielded, in order -/
def offsOf (tr : List Obs) : List Nat := (yieldsOf tr).map (·.msg.off)

/-- the offsets the server returned in replies -/
def fetchedOf (tr : List Obs) : List Nat :=
  tr.flatMap (fun o => match o with | .polled _ r => r.map (·.off) | _ => [])

/-- splits a trace at the `dropped` marks: (the finished incarnations, the current one) -/
def incFold (tr : List Obs) : List (List Obs) × List Obs :=
  tr.foldl (fun acc o => if o = .dropped then (acc.1 ++ [acc.2], []) else (acc.1, acc.2 ++ [o])) ([], [])

/-- the part of the trace that belongs to the current incarnation (after the last `dropped`) -/
def curInc (tr : List Obs) : List Obs := (incFold tr).2

/-- the traces of the finished incarnations, oldest first -/
def pastIncs (tr : List Obs) : List (List Obs) := (incFold tr).1

/-- the traces of all incarnations, oldest first (the last one is `curInc`) -/
def incarnations (tr : List Obs) : List (List Obs) := pastIncs tr ++ [curInc tr]

/-- the last offset the current incarnation yielded -/
def lastYield (tr : List Obs) : Option Nat := (offsOf (curInc tr)).getLast?

/-- every observation `x` of the trace, together with the trace `pre` before it, satisfies `P` -/
def Always (P : List Obs → Obs → Prop) (tr : List Obs) : Prop :=
  ∀ pre x post, tr = pre ++ x :: post → P pre x

/-- where the first message of an incarnation comes from: the configured offset, else right after
the offset the server had stored when the poll arrived -/
def firstOff (strat0 : Strat) (before : Option Nat) : Nat :=
  match strat0 with
  | .offset k => k
  | _ => resume before

/-- a yield is right: the partition, the server's message at that offset, and the successor of the
previous yield of this incarnation; the first yield of an incarnation directly follows the poll that
fetched it and is the first message that poll asked for -/
def YieldOK (pid : Nat) (strat0 : Strat) (pre : List Obs) (x : Obs) : Prop :=
  ∀ y, x = .yield y → y.pid = pid ∧ y.msg = msgAt y.msg.off ∧
    match lastYield pre with
    | some l => y.msg.off = l + 1
    | none => ∃ pre' b r, pre = pre' ++ [.polled b r] ∧ y.msg.off = firstOff strat0 b

/-- a store request that reaches the server carries an offset yielded before, and is accepted -/
def StoreOK (pre : List Obs) (x : Obs) : Prop :=
  ∀ off ok, x = .store off ok → ok = true ∧ off ∈ offsOf pre

/-- the offset the server had stored when a poll arrived is the initial one or one committed since:
one the server returned in a reply and, outside polling mode, one the consumer yielded -/
def PolledOK (cfg : CCfg) (srv0 : Srv) (pre : List Obs) (x : Obs) : Prop :=
  ∀ b r, x = .polled b r →
    (b = srv0.stored ∨ ∃ o ∈ fetchedOf pre, b = some o) ∧
    (cfg.polling = false → b = srv0.stored ∨ ∃ o ∈ offsOf pre, b = some o)

/-- the hypotheses of the consumer half of C20: no replay, a batch size, strategy `next` or `offset k` -/
structure Good (cfg : CCfg) (strat0 : Strat) : Prop where
  replay : cfg.replay = false
  batch : 1 ≤ cfg.batch
  strat : strat0 = .next ∨ ∃ k, strat0 = .offset k

/-- the modes that commit consumed offsets through the store-offset channel: each message, every
n-th message (n ≥ 1), after all messages of a batch -/
def ConsumeMode (cfg : CCfg) : Prop := cfg.mode = .each ∨ cfg.mode = .all ∨ ∃ n, 1 ≤ n ∧ cfg.mode = .nth n

/-- the offset the consumer's stream has to yield next: right after the last one this incarnation
consumed, else right after the offset stored on the server -/
def wanted (pid : Nat) (sys : Sys) : Nat :=
  match sys.1.consumed.get? pid with
  | some l => l + 1
  | none => resume sys.2.stored

end Iggy.Sdk
