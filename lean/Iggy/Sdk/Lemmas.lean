/- C20 helpers (producer, traces, the consumer's primitives, the invariant, progress, the statements) -/
import Iggy.Sdk.Lemmas.Producer
import Iggy.Sdk.Lemmas.Trace
import Iggy.Sdk.Lemmas.Prim
import Iggy.Sdk.Lemmas.Inv
import Iggy.Sdk.Lemmas.Steps
import Iggy.Sdk.Lemmas.Progress
import Iggy.Sdk.Lemmas.Main
