/-
Specification side of C20 with REWINDS (definitions only).

In a consumer group the offset stored on the server for a partition belongs to the group, not to one
member: a member that no longer owns the partition can still store an older offset of it (its background
commit stores whatever it consumed last). Seen from the member that owns the partition now, the stored
offset moves BACK behind its back. `Iggy/Sdk/Spec.lean` has no such event (there the consumer is the only
one who stores); this file adds it as an event of the environment, on top of the unchanged `step`:

* `rewind o`: the stored offset becomes `o`; enabled when an offset `so` is stored and `o ≤ so`, otherwise
  a no-op (as for `Ev`, every list of events is a schedule). It leaves no observation in the trace: the
  consumer's side of the world does not see it happen.
* `stepR` / `runR` / `ReachR`: `step` / `run` / `Reach` over the extended alphabet `EvR`.
-/
import Iggy.Sdk.Spec
namespace Iggy.Sdk

/-- somebody else moves the stored offset back to `o` (enabled when an offset `so ≥ o` is stored) -/
def Srv.rewind (s : Srv) (o : Nat) : Srv :=
  match s.stored with
  | some so => if o ≤ so then { s with stored := some o } else s
  | none => s

/-- the events of `Spec.lean` and the rewind of the stored offset -/
inductive EvR
  | base (e : Ev)
  | rewind (o : Nat)
deriving Repr, DecidableEq

/-- one event of the composed system in the world with rewinds -/
def stepR (cfg : CCfg) (pid : Nat) (strat0 : Strat) (sys : Sys) (e : EvR) : Sys × List Obs :=
  match e with
  | .base e => step cfg pid strat0 sys e
  | .rewind o => ((sys.1, sys.2.rewind o), [])

/-- a schedule over the extended alphabet, from any state: final state and trace -/
def runR (cfg : CCfg) (pid : Nat) (strat0 : Strat) : Sys → List EvR → Sys × List Obs
  | sys, [] => (sys, [])
  | sys, e :: es =>
    let (sys1, o1) := stepR cfg pid strat0 sys e
    let (sys2, o2) := runR cfg pid strat0 sys1 es
    (sys2, o1 ++ o2)

/-- the states (with the trace that led there) reachable from a fresh consumer and the server `srv0` when
the stored offset can be moved back at any time -/
inductive ReachR (cfg : CCfg) (pid : Nat) (strat0 : Strat) (srv0 : Srv) : Sys → List Obs → Prop
  | init : ReachR cfg pid strat0 srv0 (Cons.new strat0, srv0) []
  | step {sys tr} (e : EvR) : ReachR cfg pid strat0 srv0 sys tr →
      ReachR cfg pid strat0 srv0 (stepR cfg pid strat0 sys e).1 (tr ++ (stepR cfg pid strat0 sys e).2)

end Iggy.Sdk
