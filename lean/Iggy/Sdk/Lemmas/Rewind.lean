/- C20 helpers: the world in which the stored offset can be moved back (`Iggy/Sdk/Rewind.lean`).
The invariant is `Inv true`: `Inv` without the facts that tie the server's stored offset to what this
client did (`CInv`, `PInv`, `srvFetched`, `srvYielded`, `polledOK`). Every event of `Spec.lean` preserves
it (`Inv.step`, proved once for both worlds), and so does a rewind (`Inv.lower`). -/
import Iggy.Sdk.Rewind
import Iggy.Sdk.Lemmas.Main
namespace Iggy.Sdk
variable {rew : Bool} {cfg : CCfg} {pid : Nat} {strat0 : Strat} {srv0 : Srv}

/-! ## the rewind -/

theorem Srv.rewind_len (s : Srv) (o : Nat) : (s.rewind o).len = s.len := by
  unfold Srv.rewind
  cases s.stored with
  | none => rfl
  | some so => by_cases h : o ≤ so <;> simp [h]

/-- after a rewind the stored offset is at most what it was -/
theorem Srv.rewind_stored (s : Srv) (o so' : Nat) (h : (s.rewind o).stored = some so') :
    ∃ so, s.stored = some so ∧ so' ≤ so := by
  unfold Srv.rewind at h
  cases hs : s.stored with
  | none => rw [hs] at h; simp only at h; rw [hs] at h; cases h
  | some so =>
    rw [hs] at h
    by_cases hle : o ≤ so
    · simp only [hle, ↓reduceIte, Option.some.injEq] at h
      exact ⟨so, rfl, by omega⟩
    · simp only [hle, ↓reduceIte] at h
      rw [hs] at h
      exact ⟨so, rfl, by simp at h; omega⟩

theorem Srv.rewind_enabled (s : Srv) (o so : Nat) (hs : s.stored = some so) (h : o ≤ so) :
    s.rewind o = { s with stored := some o } := by
  simp [Srv.rewind, hs, h]

/-! ## the invariant -/

/-- the invariant of the world without rewinds implies the one of the world with rewinds -/
theorem Inv.weaken {sys : Sys} {tr : List Obs} (h : Inv rew cfg pid strat0 srv0 sys tr) :
    Inv true cfg pid strat0 srv0 sys tr := by
  refine ⟨?_, ?_⟩
  · cases h.phase with
    | fresh hi hc hb hp hs hst => exact .fresh hi hc hb hp hs hst
    | going a n b hi hc hcp hb hlen hso hst hp hC hP =>
      exact .going a n b hi hc hcp hb hlen hso hst hp (fun e => by cases e) (fun e => by cases e)
  · have hg := h.g
    exact {
      genuine := hg.genuine
      yFetched := hg.yFetched
      bFetched := hg.bFetched
      srvFetched := fun e => by cases e
      srvYielded := fun e => by cases e
      srvBelow := hg.srvBelow
      polledBelow := hg.polledBelow
      yieldOK := hg.yieldOK
      storeOK := hg.storeOK
      polledOK := fun e => by cases e
      past := hg.past }

/-- the invariant of the world with rewinds does not mind the stored offset going back -/
theorem Inv.lower {c : Cons} {s s' : Srv} {tr : List Obs} (h : Inv true cfg pid strat0 srv0 (c, s) tr)
    (hlen : s'.len = s.len) (hst : ∀ so', s'.stored = some so' → ∃ so, s.stored = some so ∧ so' ≤ so) :
    Inv true cfg pid strat0 srv0 (c, s') tr := by
  refine ⟨?_, ?_⟩
  · cases h.phase with
    | fresh hi hc hb hp hs hst => exact .fresh hi hc hb hp hs hst
    | going a n b hi hc hcp hb hlen' hso hst' hp hC hP =>
      simp only at hi hc hcp hb hlen' hso hst' hp
      refine .going a n b hi hc hcp hb (by simp only [hlen]; exact hlen') ?_ hst' hp
        (fun e => by cases e) (fun e => by cases e)
      intro hn so' hso'
      obtain ⟨so, e, hle⟩ := hst so' hso'
      have := hso hn so e
      omega
  · have hg := h.g
    exact {
      genuine := by
        intro y hy
        have := hg.genuine y hy
        simp only [hlen]; exact this
      yFetched := hg.yFetched
      bFetched := hg.bFetched
      srvFetched := fun e => by cases e
      srvYielded := fun e => by cases e
      srvBelow := by
        intro hp
        have hle : resume s'.stored ≤ resume s.stored := by
          cases hs' : s'.stored with
          | none => simp [resume]
          | some so' =>
            obtain ⟨so, e, hle⟩ := hst so' hs'
            rw [e]; simp only [resume]; omega
        have hb := hg.srvBelow hp
        simp only at hb ⊢
        rcases hb with e | ⟨o, ho, e⟩
        · exact Or.inl (by omega)
        · exact Or.inr ⟨o, ho, by omega⟩
      polledBelow := hg.polledBelow
      yieldOK := hg.yieldOK
      storeOK := hg.storeOK
      polledOK := fun e => by cases e
      past := hg.past }

theorem Inv.stepR (hg : Good cfg strat0) {sys : Sys} {tr : List Obs}
    (h : Inv true cfg pid strat0 srv0 sys tr) (e : EvR) :
    Inv true cfg pid strat0 srv0 (stepR cfg pid strat0 sys e).1 (tr ++ (stepR cfg pid strat0 sys e).2) := by
  cases e with
  | base e => exact h.step hg e
  | rewind o =>
    obtain ⟨c, s⟩ := sys
    simp only [Iggy.Sdk.stepR, List.append_nil]
    exact h.lower (s.rewind_len o) (s.rewind_stored o)

theorem ReachR.inv (hg : Good cfg strat0) {sys : Sys} {tr : List Obs} (h : ReachR cfg pid strat0 srv0 sys tr) :
    Inv true cfg pid strat0 srv0 sys tr := by
  induction h with
  | init => exact Inv.init
  | step e _ ih => exact ih.stepR hg e

/-- the world with rewinds contains the world without -/
theorem Reach.reachR {sys : Sys} {tr : List Obs} (h : Reach cfg pid strat0 srv0 sys tr) :
    ReachR cfg pid strat0 srv0 sys tr := by
  induction h with
  | init => exact .init
  | step e _ ih => exact ih.step (.base e)

/-- schedules and reachability are the same thing -/
theorem runR_reachR {sys : Sys} {tr : List Obs} (h : ReachR cfg pid strat0 srv0 sys tr) (evs : List EvR) :
    ReachR cfg pid strat0 srv0 (runR cfg pid strat0 sys evs).1 (tr ++ (runR cfg pid strat0 sys evs).2) := by
  induction evs generalizing sys tr with
  | nil => simpa [runR] using h
  | cons e es ih =>
    have := ih (h.step e)
    simpa [runR, List.append_assoc] using this

theorem reachR_runR {sys : Sys} {tr : List Obs} (h : ReachR cfg pid strat0 srv0 sys tr) :
    ∃ evs, runR cfg pid strat0 (Cons.new strat0, srv0) evs = (sys, tr) := by
  induction h with
  | init => exact ⟨[], rfl⟩
  | @step sys tr e _ ih =>
    obtain ⟨evs, he⟩ := ih
    refine ⟨evs ++ [e], ?_⟩
    have key : ∀ (evs : List EvR) (s0 : Sys), runR cfg pid strat0 s0 (evs ++ [e]) =
        ((Iggy.Sdk.stepR cfg pid strat0 (runR cfg pid strat0 s0 evs).1 e).1,
         (runR cfg pid strat0 s0 evs).2 ++ (Iggy.Sdk.stepR cfg pid strat0 (runR cfg pid strat0 s0 evs).1 e).2) := by
      intro evs
      induction evs with
      | nil => intro s0; simp [runR]
      | cons e' es ih' => intro s0; simp [runR, ih', List.append_assoc]
    rw [key, he]

/-- a schedule without rewinds is a schedule of `Spec.lean` -/
theorem runR_base (sys : Sys) (evs : List Ev) :
    runR cfg pid strat0 sys (evs.map .base) = run cfg pid strat0 sys evs := by
  induction evs generalizing sys with
  | nil => rfl
  | cons e es ih => simp only [List.map_cons, runR, run, Iggy.Sdk.stepR, ih]

/-! ## safety -/

theorem yields_in_order_onceR (hg : Good cfg strat0) {sys : Sys} {tr : List Obs}
    (hr : ReachR cfg pid strat0 srv0 sys tr) :
    Always (fun pre x => ∀ y, x = .yield y →
      y.pid = pid ∧ y.msg = msgAt y.msg.off ∧ ∀ l, lastYield pre = some l → y.msg.off = l + 1) tr ∧
    (∀ y ∈ yieldsOf tr, y.msg.off < sys.2.len) ∧
    (∀ inc ∈ incarnations tr, ∃ a, offsOf inc = List.range' a (offsOf inc).length) := by
  have h := hr.inv hg
  refine ⟨h.g.yieldOK.mono ?_, fun y hy => (h.g.genuine y hy).2.2, h.incarnations_range⟩
  intro pre x hx y e
  obtain ⟨h1, h2, h3⟩ := hx y e
  refine ⟨h1, h2, fun l hl => ?_⟩
  rw [hl] at h3; exact h3

theorem first_yield_resumesR (hg : Good cfg strat0) {sys : Sys} {tr : List Obs}
    (hr : ReachR cfg pid strat0 srv0 sys tr) :
    Always (fun pre x => ∀ y, x = .yield y → lastYield pre = none →
      ∃ pre' b r, pre = pre' ++ [.polled b r] ∧ y.msg.off = firstOff strat0 b) tr := by
  refine (hr.inv hg).g.yieldOK.mono ?_
  intro pre x hx y e hl
  have := (hx y e).2.2
  rw [hl] at this; exact this

theorem first_yield_stateR (hg : Good cfg strat0) {sys : Sys} {tr : List Obs}
    (hr : ReachR cfg pid strat0 srv0 sys tr) (hl : lastYield tr = none) (e : EvR) (y : Yield)
    (hy : Obs.yield y ∈ (stepR cfg pid strat0 sys e).2) :
    e = .base .poll ∧ y = ⟨pid, msgAt (firstOff strat0 sys.2.stored)⟩ := by
  obtain ⟨hc, hb, hp, hs, hst⟩ := lastYield_none_fresh (hr.inv hg) hl
  obtain ⟨c, s⟩ := sys
  cases e with
  | base e =>
    obtain ⟨rfl, h2⟩ := fresh_step_yield hg c s hc hb hp hs hst e y hy
    exact ⟨rfl, h2⟩
  | rewind o => simp [Iggy.Sdk.stepR] at hy

theorem commits_yieldedR (hg : Good cfg strat0) {sys : Sys} {tr : List Obs}
    (hr : ReachR cfg pid strat0 srv0 sys tr) :
    Always (fun pre x => ∀ off ok, x = .store off ok → ok = true ∧ off ∈ offsOf pre) tr ∧
    (∀ o ∈ offsOf tr, o ∈ fetchedOf tr) :=
  ⟨(hr.inv hg).g.storeOK, (hr.inv hg).g.yFetched⟩

theorem yields_schedule_independentR (hg : Good cfg strat0) {sys₁ sys₂ : Sys} {tr₁ tr₂ : List Obs}
    {srv₁ srv₂ : Srv}
    (h₁ : ReachR cfg pid strat0 srv₁ sys₁ tr₁) (h₂ : ReachR cfg pid strat0 srv₂ sys₂ tr₂)
    (inc₁ inc₂ : List Obs) (hi₁ : inc₁ ∈ incarnations tr₁) (hi₂ : inc₂ ∈ incarnations tr₂)
    (hhead : (yieldsOf inc₁).head? = (yieldsOf inc₂).head?) (hlen : (yieldsOf inc₁).length ≤ (yieldsOf inc₂).length) :
    yieldsOf inc₁ = (yieldsOf inc₂).take (yieldsOf inc₁).length :=
  runs_prefix ((h₁.inv hg).yields_run inc₁ hi₁) ((h₂.inv hg).yields_run inc₂ hi₂) hhead hlen

/-- with `next` the stored offset is never ahead of what the current incarnation consumed and buffered:
no message is skipped within an incarnation whatever the rewinds -/
theorem stored_le_consumedR (hg : Good cfg .next) {sys : Sys} {tr : List Obs}
    (hr : ReachR cfg pid .next srv0 sys tr) (l so : Nat) (hl : sys.1.consumed.get? pid = some l)
    (hs : sys.2.stored = some so) : so ≤ l + sys.1.buffered.length := by
  cases (hr.inv hg).phase with
  | fresh hi hc _ _ _ _ => rw [hc] at hl; simp at hl
  | going a n b hi hc hcp hb hlen hso hst hp hC hP =>
    rw [hc] at hl; simp only [OffMap.get?_single, Option.some.injEq] at hl
    have := hso rfl so hs
    rw [hb]; simp; omega

/-! ## across incarnations -/

/-- from `r0` on, the offsets yielded so far (by all incarnations) have no gap -/
def NoGap (r0 : Nat) (offs : List Nat) : Prop :=
  ∀ o o', o' ∈ offs → r0 ≤ o → o ≤ o' → o ∈ offs

theorem NoGap.snoc {r0 : Nat} {offs : List Nat} (h : NoGap r0 offs) (off : Nat)
    (hoff : off ≤ r0 ∨ ∃ o' ∈ offs, off ≤ o' + 1) : NoGap r0 (offs ++ [off]) := by
  intro o o' ho' hro hle
  simp only [List.mem_append, List.mem_singleton] at ho' ⊢
  rcases ho' with ho' | rfl
  · exact Or.inl (h o o' ho' hro hle)
  · by_cases he : o = o'
    · exact Or.inr he
    · rcases hoff with e | ⟨o'', ho'', e⟩
      · omega
      · exact Or.inl (h o o'' ho'' hro (by omega))

theorem nogap_of_trace (hpol : cfg.polling = false) (tr : List Obs)
    (hy : Always (YieldOK pid .next) tr) (hp : Always (PolledBelow cfg srv0) tr) :
    NoGap (resume srv0.stored) (offsOf tr) := by
  induction tr using snoc_ind with
  | nil => intro o o' ho'; simp at ho'
  | snoc tr x ih =>
    have ih := ih hy.prefix hp.prefix
    cases x with
    | yield y =>
      simp only [offsOf_append, offsOf_cons_yield, offsOf_nil]
      apply ih.snoc
      have hyo := (hy.last y rfl).2.2
      cases hl : lastYield tr with
      | some l =>
        rw [hl] at hyo
        exact Or.inr ⟨l, lastYield_mem hl, by omega⟩
      | none =>
        rw [hl] at hyo
        obtain ⟨pre', b, r, e, hoff⟩ := hyo
        subst e
        have := (hp.prefix (new := [Obs.yield y])).last b r rfl hpol
        simp only [firstOff] at hoff
        rcases this with e | ⟨o, ho, e⟩
        · left; omega
        · right; exact ⟨o, by simpa using ho, by omega⟩
    | polled b r => simpa using ih
    | store o ok => simpa using ih
    | dropped => simpa using ih

/-- nothing is skipped across re-creations, rewinds or not: from the point the first incarnation resumed
at, the offsets yielded so far have no gap -/
theorem no_gap_across_incarnationsR (hg : Good cfg .next) (hpol : cfg.polling = false) {sys : Sys} {tr : List Obs}
    (hr : ReachR cfg pid .next srv0 sys tr) :
    ∀ o o', o' ∈ offsOf tr → resume srv0.stored ≤ o → o ≤ o' → o ∈ offsOf tr :=
  nogap_of_trace hpol tr (hr.inv hg).g.yieldOK (hr.inv hg).g.polledBelow

/-- outside polling mode the stored offset is never beyond the initial one or never beyond a yielded one -/
theorem stored_le_yieldedR (hg : Good cfg strat0) (hpol : cfg.polling = false) {sys : Sys} {tr : List Obs}
    (hr : ReachR cfg pid strat0 srv0 sys tr) :
    resume sys.2.stored ≤ resume srv0.stored ∨ ∃ o ∈ offsOf tr, resume sys.2.stored ≤ o + 1 :=
  (hr.inv hg).g.srvBelow hpol

/-! ## progress -/

/-- Progress from the invariant WITHOUT the client-belief part (`CInv`) and without an empty channel:
with `next`, auto-commit and a non-polling mode, a reply that was consumed already makes the poll store
the consumed offset whatever the client believes to be stored. -/
theorem no_stall_invR (hg : Good cfg .next) (hauto : cfg.autoCommitEnabled = true) (hpol : cfg.polling = false)
    {sys : Sys} {tr : List Obs} (h : Inv rew cfg pid .next srv0 sys tr)
    (hb : sys.1.buffered = []) (hw : wanted pid sys < sys.2.len) :
    (∃ r, (step cfg pid .next sys .poll).2 = [.polled sys.2.stored r, .yield ⟨pid, msgAt (wanted pid sys)⟩]) ∨
    (∃ r r', (step cfg pid .next sys .poll).2 = [.polled sys.2.stored r, .store (wanted pid sys - 1) true] ∧
      (step cfg pid .next (step cfg pid .next sys .poll).1 .poll).2 =
        [.polled (some (wanted pid sys - 1)) r', .yield ⟨pid, msgAt (wanted pid sys)⟩]) := by
  obtain ⟨c, s⟩ := sys
  simp only at hb
  cases h.phase with
  | fresh hi hc _ _ hs hst =>
    simp only at hc hs hst
    have hwant : wanted pid (c, s) = s.start c.strat cfg.batch := by
      simp [wanted, hc, hst, Srv.start]
    left
    rw [hwant] at hw ⊢
    exact poll_fresh_obs cfg pid .next c s hc hb hs hg.batch hw
  | going a n b hi hc hcp hb' hlen hso hst hp' hC hP =>
    simp only at hc hb' hlen hso hst
    have hb0 : b = 0 := by
      cases b with
      | zero => rfl
      | succ b => rw [hb', List.range'_succ] at hb; simp at hb
    subst hb0
    have hwant : wanted pid (c, s) = a + n + 1 := by simp [wanted, hc]
    rw [hwant] at hw ⊢
    have hw' : a + n + 1 < s.len := hw
    simp only [StratOK] at hst
    have hstart : s.start c.strat cfg.batch = resume s.stored := by rw [hst]; rfl
    have hstle : s.start c.strat cfg.batch ≤ a + n + 1 := by
      rw [hstart]
      cases hs : s.stored with
      | none => simp [resume]
      | some so => have := hso trivial so hs; simp [resume]; omega
    by_cases hreach : a + n + 1 < min (s.start c.strat cfg.batch + cfg.batch) s.len
    · left
      exact poll_going_obs_yield cfg hg.replay pid .next c s (a + n) hc hb hstle hreach
    · right
      have hbatch := hg.batch
      have hstl : s.start c.strat cfg.batch ≤ a + n := by omega
      obtain ⟨r, hstep⟩ := poll_going_sync cfg hg.replay pid .next c s (a + n) hc hb (by omega) hbatch hstl
        (by omega) hauto hpol (Or.inr hst)
      rw [hstep]
      simp only [Nat.add_sub_cancel]
      have h2 := poll_going_obs_yield cfg hg.replay pid .next
        { c with curPart := pid, stored := c.stored.set pid (a + n) } { s with stored := some (a + n) }
        (a + n) hc hb (by simp [hst, Srv.start, resume]) (by simp [hst, Srv.start, resume]; omega)
      obtain ⟨r', h2⟩ := h2
      exact ⟨r, r', rfl, h2⟩

theorem no_stall_reachR (hg : Good cfg .next) (hauto : cfg.autoCommitEnabled = true) (hpol : cfg.polling = false)
    {sys : Sys} {tr : List Obs} (hr : ReachR cfg pid .next srv0 sys tr)
    (hb : sys.1.buffered = []) (hw : wanted pid sys < sys.2.len) :
    Obs.yield ⟨pid, msgAt (wanted pid sys)⟩ ∈ (runR cfg pid .next sys [.base .poll, .base .poll]).2 := by
  have h := hr.inv hg
  simp only [runR, Iggy.Sdk.stepR, List.append_nil]
  rcases no_stall_invR hg hauto hpol h hb hw with ⟨r, e⟩ | ⟨r, r', e1, e2⟩
  · rw [e]; simp
  · rw [e1, e2]; simp

end Iggy.Sdk
