/- C20 helpers: the producer -/
import Iggy.Sdk.Spec
namespace Iggy.Sdk
variable {Id Part M : Type}

theorem chunks_flatten {α : Type} (n : Nat) (l : List α) : (chunks n l).flatten = l := by
  fun_induction chunks n l with
  | case1 l h he => simp_all
  | case2 l h he => simp
  | case3 l h ih => simp [ih]

theorem chunks_bounds {α : Type} {n : Nat} (l : List α) (hn : 0 < n) :
    ∀ c ∈ chunks n l, c ≠ [] ∧ c.length ≤ n := by
  fun_induction chunks n l with
  | case1 l h he => simp
  | case2 l h he =>
    have : l = [] := by rcases h with h | h; omega; exact h
    simp_all
  | case3 l h ih =>
    intro c hc
    simp only [List.mem_cons] at hc
    rcases hc with rfl | hc
    · have h2 : l ≠ [] := fun e => h (Or.inr e)
      refine ⟨?_, ?_⟩
      · cases l with
        | nil => exact absurd rfl h2
        | cons a t =>
          cases n with
          | zero => omega
          | succ k => simp
      · simp [List.length_take]; omega
    · exact ih c hc

theorem path_spec (c : PCfg Id Part) (hb : c.batch ≠ some 0) (s t : Id) (msgs : List M) (p : Option Part) :
    ((c.path s t msgs p).map (·.msgs)).flatten = msgs ∧
    (∀ r ∈ c.path s t msgs p, r.stream = s ∧ r.topic = t ∧ r.part = p.getD (c.partitioning.getD c.dflt) ∧
      r.msgs ≠ [] ∧ r.msgs.length ≤ c.batch.getD MAX_BATCH_SIZE) ∧
    (msgs = [] → c.path s t msgs p = []) := by
  have hn : 0 < c.batch.getD MAX_BATCH_SIZE := by
    cases hc : c.batch with
    | none => simp [MAX_BATCH_SIZE]
    | some b => simp; rw [hc] at hb; simp at hb; omega
  unfold PCfg.path
  by_cases he : msgs.isEmpty
  · simp at he; subst he; simp
  · simp only [he, Bool.false_eq_true, ↓reduceIte, List.map_map]
    refine ⟨?_, ?_, ?_⟩
    · have : ((fun r : Request Id Part M => r.msgs) ∘ fun ch => ⟨s, t, p.getD (c.partitioning.getD c.dflt), ch⟩) = id := by
        funext ch; rfl
      rw [this, List.map_id, chunks_flatten]
    · intro r hr
      simp only [List.mem_map] at hr
      obtain ⟨ch, hch, rfl⟩ := hr
      have := chunks_bounds msgs hn ch hch
      exact ⟨rfl, rfl, rfl, this.1, this.2⟩
    · intro h; subst h; simp at he

theorem producer_delivers (c : PCfg Id Part) (hb : c.batch ≠ some 0) (call : Call Id Part M) :
    ((c.requests call).map (·.msgs)).flatten = call.msgs ∧
    (∀ r ∈ c.requests call, r.stream = (call.addr c).1 ∧ r.topic = (call.addr c).2 ∧ r.part = call.part c ∧
      r.msgs ≠ [] ∧ r.msgs.length ≤ c.batch.getD MAX_BATCH_SIZE) ∧
    (call.msgs = [] → c.requests call = []) := by
  cases call with
  | send msgs => exact path_spec c hb _ _ msgs none
  | sendOne m => exact path_spec c hb _ _ [m] none
  | sendWithPartitioning msgs p => cases p <;> exact path_spec c hb _ _ msgs _
  | sendTo s t msgs p => cases p <;> exact path_spec c hb _ _ msgs _
end Iggy.Sdk
