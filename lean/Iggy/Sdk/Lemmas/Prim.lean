/- C20 helpers: the consumer's primitives on the states that occur (one partition) -/
import Iggy.Sdk.Spec
namespace Iggy.Sdk

@[simp] theorem OffMap.get?_nil (k : Nat) : OffMap.get? [] k = none := rfl
@[simp] theorem OffMap.get?_single (k v : Nat) : OffMap.get? [(k, v)] k = some v := by
  simp [OffMap.get?]
@[simp] theorem OffMap.set_nil (k v : Nat) : OffMap.set [] k v = [(k, v)] := rfl
@[simp] theorem OffMap.set_single (k v w : Nat) : OffMap.set [(k, v)] k w = [(k, w)] := by
  simp [OffMap.set]

@[simp] theorem msgAt_off (o : Nat) : (msgAt o).off = o := rfl

/-- keeping the offsets above `l` of a run of messages -/
theorem filter_run (st k l : Nat) :
    ((List.range' st k).map msgAt).filter (fun m => m.off > l) =
      (List.range' (max st (l + 1)) (st + k - max st (l + 1))).map msgAt := by
  induction k generalizing st with
  | zero => simp; omega
  | succ k ih =>
    rw [List.range'_succ, List.map_cons, List.filter_cons, ih]
    by_cases h : l < st
    · have e1 : max st (l + 1) = st := by omega
      have e2 : max (st + 1) (l + 1) = st + 1 := by omega
      have e3 : st + (k + 1) - st = (st + 1 + k - (st + 1)) + 1 := by omega
      simp only [msgAt_off, gt_iff_lt, h, decide_true, ↓reduceIte, e1, e2, e3, List.range'_succ, List.map_cons]
    · have e1 : max st (l + 1) = l + 1 := by omega
      have e2 : max (st + 1) (l + 1) = l + 1 := by omega
      have e3 : st + 1 + k - (l + 1) = st + (k + 1) - (l + 1) := by omega
      simp only [msgAt_off, gt_iff_lt, h, decide_false, Bool.false_eq_true, ↓reduceIte, e1, e2, e3]

/-! ## `onReply` -/

theorem onReply_empty (cfg : CCfg) (c : Cons) (r : Reply) (h : r.msgs = []) :
    c.onReply cfg r = (c, r, none) := by
  simp [Cons.onReply, h]

/-- the first non-empty reply of an incarnation is handed on as it is -/
theorem onReply_fresh (cfg : CCfg) (c : Cons) (r : Reply) (hc : c.consumed = []) (hs : c.stored = [])
    (h : r.msgs ≠ []) :
    c.onReply cfg r = ({ c with consumed := [(r.pid, 0)], stored := [(r.pid, 0)] }, r, none) := by
  have h' : r.msgs.isEmpty = false := by simpa using h
  simp [Cons.onReply, h', hc, hs]

/-- a later reply: what was consumed is filtered out; if nothing is left and the client believes the
server's offset lags, the consumed offset is committed synchronously -/
theorem onReply_has (cfg : CCfg) (hrep : cfg.replay = false) (c : Cons) (r : Reply) (l : Nat)
    (hc : c.consumed = [(r.pid, l)]) (h : r.msgs ≠ []) (hcur : ∀ m ∈ r.msgs, m.off ≤ r.cur) :
    c.onReply cfg r =
      if r.msgs.filter (fun m => m.off > l) = [] then
        if cfg.autoCommitEnabled && !cfg.polling && ((c.stored.get? r.pid).getD 0 < l || c.strat == .next) then
          ({ c with stored := c.stored.set r.pid l }, { r with msgs := [] }, some (r.pid, l))
        else (c, { r with msgs := [] }, none)
      else
        ({ c with stored := if cfg.polling then c.stored.set r.pid l else
            (match c.stored.get? r.pid with | some _ => c.stored | none => c.stored.set r.pid 0) },
         { r with msgs := r.msgs.filter (fun m => m.off > l) }, none) := by
  have h' : r.msgs.isEmpty = false := by simpa using h
  obtain ⟨strat, buffered, curPart, consumed, stored, pending⟩ := c
  simp only at hc; subst hc
  have hcl : r.msgs.filter (fun m => m.off > l) ≠ [] → (r.cur == l) = false := by
    intro hf
    cases hfl : r.msgs.filter (fun m => m.off > l) with
    | nil => exact absurd hfl hf
    | cons m t =>
      have hm : m ∈ r.msgs.filter (fun m => m.off > l) := by rw [hfl]; simp
      simp only [List.mem_filter, gt_iff_lt, decide_eq_true_eq] at hm
      have := hcur m hm.1
      simp; omega
  unfold Cons.onReply
  simp only [h', hrep, OffMap.get?_single]
  generalize r.msgs.filter (fun m => m.off > l) = f at hcl ⊢
  cases f with
  | nil => simp
  | cons m t =>
    have := hcl (by simp)
    cases OffMap.get? stored r.pid <;> cases cfg.polling <;> simp [this]
/-! ## `pop`, `onPolled` -/

/-- the strategy after consuming `off` -/
def nextStrat (s : Strat) (off : Nat) : Strat :=
  match s with
  | .offset _ => .offset (off + 1)
  | s => s

/-- does consuming `off` send it to the store-offset channel (n-th / each message)? -/
def commitNow (cfg : CCfg) (off : Nat) : Bool := (cfg.nth > 0 && off % cfg.nth == 0) || cfg.eachMsg

theorem pop_nil (cfg : CCfg) (c : Cons) (h : c.buffered = []) : c.pop cfg = none := by
  simp [Cons.pop, h]

theorem pop_cons (cfg : CCfg) (c : Cons) (m : PMsg) (rest : List PMsg) (h : c.buffered = m :: rest) :
    c.pop cfg = some ({ c with
      buffered := rest
      consumed := c.consumed.set c.curPart m.off
      strat := if rest.isEmpty then nextStrat c.strat m.off else c.strat
      pending := c.pending ++ (if commitNow cfg m.off then [(c.curPart, m.off)] else []) ++
        (if rest.isEmpty && cfg.afterAll then [(c.curPart, m.off)] else []) }, ⟨c.curPart, m⟩) := by
  obtain ⟨strat, buffered, curPart, consumed, stored, pending⟩ := c
  simp only at h; subst h
  rcases Bool.eq_false_or_eq_true (decide (cfg.nth > 0) && m.off % cfg.nth == 0 || cfg.eachMsg) with h1 | h1 <;>
  rcases Bool.eq_false_or_eq_true rest.isEmpty with h2 | h2 <;>
  rcases Bool.eq_false_or_eq_true cfg.afterAll with h3 | h3 <;>
  cases strat <;> simp [Cons.pop, commitNow, nextStrat, h1, h2, h3]

theorem onPolled_nil (cfg : CCfg) (c : Cons) (r : Reply) (h : r.msgs = []) :
    c.onPolled cfg r = ({ c with curPart := r.pid }, none) := by
  simp [Cons.onPolled, h]

theorem onPolled_cons (cfg : CCfg) (c : Cons) (r : Reply) (m : PMsg) (rest : List PMsg) (h : r.msgs = m :: rest) :
    c.onPolled cfg r = ({ c with
      curPart := r.pid
      buffered := c.buffered ++ rest
      strat := nextStrat c.strat m.off
      consumed := c.consumed.set r.pid m.off
      pending := c.pending ++ (if commitNow cfg m.off || (cfg.afterAll && (c.buffered ++ rest).isEmpty)
        then [(r.pid, m.off)] else []) }, some ⟨r.pid, m⟩) := by
  obtain ⟨strat, buffered, curPart, consumed, stored, pending⟩ := c
  rcases Bool.eq_false_or_eq_true (decide (cfg.nth > 0) && m.off % cfg.nth == 0 || cfg.eachMsg) with h1 | h1 <;>
  rcases Bool.eq_false_or_eq_true (buffered ++ rest).isEmpty with h2 | h2 <;>
  rcases Bool.eq_false_or_eq_true cfg.afterAll with h3 | h3 <;>
  cases strat <;> simp [Cons.onPolled, h, commitNow, nextStrat, h1, h2, h3]
/-! ## `storeOne` -/

/-- the offset the client believes is stored (`last_stored_offsets`, 0 when absent) -/
def localStored (c : Cons) (p : Nat) : Nat := (c.stored.get? p).getD 0

/-- the map after `store_consumer_offset` looked at it: an absent entry is created as 0 -/
def touched (c : Cons) (p : Nat) : OffMap :=
  match c.stored.get? p with
  | some _ => c.stored
  | none => c.stored.set p 0

theorem storeReq_eq (c : Cons) (p o : Nat) :
    c.storeReq p o false =
      ({ c with stored := touched c p }, !(decide (o ≤ localStored c p) && decide (1 ≤ o))) := by
  unfold Cons.storeReq localStored touched
  cases hs : c.stored.get? p <;> simp <;> split <;> simp_all <;> omega

theorem storeOne_skip (c : Cons) (s : Srv) (p o : Nat) (h : o ≤ localStored c p) (h1 : 1 ≤ o) :
    storeOne c s p o = ({ c with stored := touched c p }, s, []) := by
  simp [storeOne, storeReq_eq, h, h1]

theorem storeOne_send (c : Cons) (s : Srv) (p o : Nat) (h : localStored c p < o ∨ o = 0) (hlen : o < s.len) :
    storeOne c s p o =
      ({ c with stored := (touched c p).set p o }, { s with stored := some o }, [.store o true]) := by
  have : (decide (o ≤ localStored c p) && decide (1 ≤ o)) = false := by
    simp; omega
  simp [storeOne, storeReq_eq, this, Srv.store, hlen, Cons.storeAck]

/-- for the invariants that do not look at the client's `stored` map -/
theorem storeOne_cases (c : Cons) (s : Srv) (p o : Nat) (hlen : o < s.len) :
    ∃ st', storeOne c s p o = ({ c with stored := st' }, s, []) ∨
      storeOne c s p o = ({ c with stored := st' }, { s with stored := some o }, [.store o true]) := by
  by_cases h : localStored c p < o ∨ o = 0
  · exact ⟨_, Or.inr (storeOne_send c s p o h hlen)⟩
  · exact ⟨_, Or.inl (storeOne_skip c s p o (by omega) (by omega))⟩

end Iggy.Sdk
