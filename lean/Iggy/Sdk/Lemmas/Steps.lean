/- C20 helpers: every event preserves the invariant -/
import Iggy.Sdk.Lemmas.Inv
namespace Iggy.Sdk
variable {rew : Bool} {cfg : CCfg} {pid : Nat} {strat0 : Strat} {srv0 : Srv}

theorem stratOK_pop (hg : Good cfg strat0) {c : Cons} {a l b : Nat} (h : StratOK strat0 c a l (b + 1)) (c' : Cons)
    (hs : c'.strat = if b = 0 then nextStrat c.strat (l + 1) else c.strat) :
    StratOK strat0 c' a (l + 1) b := by
  rcases hg.strat with rfl | ⟨k, rfl⟩
  · simp only [StratOK] at h ⊢
    rw [hs, h]; simp [nextStrat]
  · simp only [StratOK] at h ⊢
    obtain ⟨h1, j, h2, h3⟩ := h
    refine ⟨h1, ?_⟩
    rw [hs, h2]
    by_cases hb : b = 0
    · simp [hb, nextStrat]
    · simp [hb]

theorem lastYield_going {tr : List Obs} {a n : Nat} (hi : offsOf (curInc tr) = List.range' a (n + 1)) :
    lastYield tr = some (a + n) := by
  rw [lastYield, hi, getLast?_range']

/-! ## what the modes mean for the commit flags -/

theorem ConsumeMode.not_polling (h : ConsumeMode cfg) : cfg.polling = false := by
  rcases h with h | h | ⟨n, _, h⟩ <;> simp [CCfg.polling, h]

theorem ConsumeMode.auto (h : ConsumeMode cfg) : cfg.autoCommitEnabled = true := by
  rcases h with h | h | ⟨n, _, h⟩ <;> simp [CCfg.autoCommitEnabled, h]

theorem polling_commitNow (h : cfg.polling = true) (o : Nat) : commitNow cfg o = false := by
  have : cfg.mode = .polling := by simpa [CCfg.polling] using h
  simp [commitNow, CCfg.nth, CCfg.eachMsg, this]

theorem polling_afterAll (h : cfg.polling = true) : cfg.afterAll = false := by
  have : cfg.mode = .polling := by simpa [CCfg.polling] using h
  simp [CCfg.afterAll, this]

/-- in a consume mode offset 0 is committed when consumed, or (mode `all`) when the batch ends -/
theorem ConsumeMode.zero (h : ConsumeMode cfg) :
    commitNow cfg 0 = true ∨ (cfg.mode = .all ∧ cfg.afterAll = true) := by
  rcases h with h | h | ⟨n, hn, h⟩
  · left; simp [commitNow, CCfg.eachMsg, h]
  · right; simp [CCfg.afterAll, h]
  · left; simp [commitNow, CCfg.nth, h]; omega

theorem StratOK.congr {c c' : Cons} {a l b : Nat} (h : StratOK strat0 c a l b) (e : c'.strat = c.strat) :
    StratOK strat0 c' a l b := by
  cases strat0 <;> simp_all [StratOK]

theorem Inv.pop (hg : Good cfg strat0) (h : Inv rew cfg pid strat0 srv0 sys tr) :
    Inv rew cfg pid strat0 srv0 (step cfg pid strat0 sys .pop).1 (tr ++ (step cfg pid strat0 sys .pop).2) := by
  obtain ⟨c, s⟩ := sys
  cases h.phase with
  | fresh hi hc hb hp hs hst =>
    simp only [step, pop_nil cfg c hb, List.append_nil]; exact h
  | going a n b hi hc hcp hb hlen hso hst hp hC hP =>
    cases b with
    | zero =>
      simp only [step, pop_nil cfg c (by simpa using hb), List.append_nil]; exact h
    | succ b =>
      simp only at hi hc hcp hb hlen hso hst hp hC hP
      have hb' : c.buffered = msgAt (a + n + 1) :: (List.range' (a + n + 1 + 1) b).map msgAt := by
        rw [hb, List.range'_succ, List.map_cons]
      simp only [step, pop_cons cfg c _ _ hb', hcp, msgAt_off]
      have hinc : offsOf (curInc (tr ++ [Obs.yield ⟨pid, msgAt (a + n + 1)⟩])) = List.range' a (n + 1 + 1) := by
        rw [curInc_snoc _ _ (by simp), offsOf_append, hi, range'_snoc a (n + 1)]; simp; omega
      have hbf := h.g.bFetched
      simp only [hb'] at hbf
      refine ⟨?_, ?_⟩
      · refine .going a (n + 1) b hinc ?_ rfl ?_ (by simp at hlen ⊢; omega) ?_ ?_ ?_ ?_ ?_
        · simp [hc]; omega
        · simp; congr 1
        · intro hn so hso'; have := hso hn so hso'; simp at hso' ⊢; omega
        · have := stratOK_pop hg hst (c' := { c with strat := if b = 0 then nextStrat c.strat (a + n + 1) else c.strat }) (hs := rfl)
          have e : a + (n + 1) = a + n + 1 := by omega
          rw [e]
          cases strat0 <;> simp_all [StratOK]
        · intro e he
          simp only [List.mem_append] at he
          rw [hinc, range'_snoc a (n + 1)]
          have hnew : ∀ (cond : Bool), e ∈ (if cond = true then [(pid, a + n + 1)] else []) →
              e.1 = pid ∧ e.2 ∈ List.range' a (n + 1) ++ [a + (n + 1)] := by
            intro cond he; cases cond <;> simp at he; subst he; simp; omega
          rcases he with (he | he) | he
          · have := hp e he; rw [hi] at this; exact ⟨this.1, by simp [this.2]⟩
          · exact hnew _ he
          · exact hnew _ he
        · intro hrw hn hm
          obtain ⟨v, hv, hor⟩ := hC hrw hn hm
          refine ⟨v, hv, ?_⟩
          rcases hor with ⟨hv0, _⟩ | hsv
          · exact Or.inl ⟨hv0, fun h0 => absurd h0 (by omega)⟩
          · exact Or.inr hsv
        · intro hrw hn hpol
          obtain ⟨hpe, hbb, so, hso', hle⟩ := hP hrw hn hpol
          refine ⟨?_, by omega, so, hso', by omega⟩
          simp [hpe, polling_commitNow hpol, polling_afterAll hpol]
      · refine h.g.yield ⟨pid, msgAt (a + n + 1)⟩ rfl rfl (by simp; omega) ?_ ?_ ?_
        · exact hbf _ (by simp)
        · intro m hm; exact hbf m (by simp [hm])
        · rw [lastYield_going hi]; rfl

/-- a background store of an offset this incarnation yielded (in polling mode: the consumed one) -/
theorem Inv.storeOne {c : Cons} {s : Srv} {tr : List Obs} (h : Inv rew cfg pid strat0 srv0 (c, s) tr)
    (pend' : List (Nat × Nat)) (hsub : ∀ e ∈ pend', e ∈ c.pending) (o : Nat) (ho : o ∈ offsOf (curInc tr))
    (hpo : rew = false → strat0 = .next → cfg.polling = true → c.consumed = [(pid, o)]) :
    Inv rew cfg pid strat0 srv0
      ((storeOne { c with pending := pend' } s pid o).1, (storeOne { c with pending := pend' } s pid o).2.1)
      (tr ++ (storeOne { c with pending := pend' } s pid o).2.2) := by
  cases h.phase with
  | fresh hi hc hb hp hs hst => rw [hi] at ho; simp at ho
  | going a n b hi hc hcp hb hlen hso hst hp hC hP =>
    simp only at hi hc hcp hb hlen hso hst hp hC hP
    have hol : o ≤ a + n := by
      rw [hi] at ho; simp [List.mem_range'] at ho; omega
    have hpe' : c.pending = [] → pend' = [] := by
      intro e; cases pend' with
      | nil => rfl
      | cons x t => have := hsub x (by simp); rw [e] at this; simp at this
    by_cases hsend : localStored { c with pending := pend' } pid < o ∨ o = 0
    · rw [storeOne_send _ s pid o hsend (by omega)]
      have hi' : offsOf (curInc (tr ++ [Obs.store o true])) = List.range' a (n + 1) := by
        rw [curInc_snoc _ _ (by simp)]; simpa using hi
      refine ⟨.going a n b hi' hc hcp hb hlen ?_ (hst.congr rfl) ?_ ?_ ?_, h.g.store o (offsOf_curInc_sub tr o ho)⟩
      · intro _ so hso'; simp at hso'; omega
      · intro e he; rw [hi', ← hi]; exact hp e (hsub e he)
      · intro hrw hn hm
        obtain ⟨v, hv, _⟩ := hC hrw hn hm
        exact ⟨o, by simp [touched, hv], Or.inr rfl⟩
      · intro hrw hn hpol
        obtain ⟨hpe, hbb, so, hso', hle⟩ := hP hrw hn hpol
        have := hpo hrw hn hpol
        rw [hc] at this
        have e : o = a + n := by simpa using this.symm
        exact ⟨hpe' hpe, hbb, o, rfl, by omega⟩
    · rw [storeOne_skip _ s pid o (by omega) (by omega)]
      simp only [List.append_nil]
      refine ⟨.going a n b hi hc hcp hb hlen hso (hst.congr rfl) (fun e he => hp e (hsub e he)) ?_ ?_, h.g⟩
      · intro hrw hn hm
        obtain ⟨v, hv, hor⟩ := hC hrw hn hm
        have hls : localStored { c with pending := pend' } pid = v := by simp [localStored, hv]
        refine ⟨v, by simp [touched, hv], ?_⟩
        rcases hor with ⟨hv0, _⟩ | hsv
        · omega
        · exact Or.inr hsv
      · intro hrw hn hpol
        obtain ⟨hpe, hbb, so, hso', hle⟩ := hP hrw hn hpol
        exact ⟨hpe' hpe, hbb, so, hso', hle⟩

theorem Inv.deliver (h : Inv rew cfg pid strat0 srv0 sys tr) :
    Inv rew cfg pid strat0 srv0 (step cfg pid strat0 sys .deliver).1 (tr ++ (step cfg pid strat0 sys .deliver).2) := by
  obtain ⟨c, s⟩ := sys
  simp only [step]
  cases hpe : c.pending with
  | nil => simpa using h
  | cons e rest =>
    obtain ⟨p, o⟩ := e
    simp only
    cases h.phase with
    | fresh hi hc hb hp hs hst => simp only at hp; rw [hp] at hpe; cases hpe
    | going a n b hi hc hcp hb hlen hso hst hp hC hP =>
      have hpo := hp (p, o) (by simp [hpe])
      simp only at hpo
      obtain ⟨rfl, ho⟩ := hpo
      refine h.storeOne rest (by intro e he; simp [hpe, he]) o ho ?_
      intro hrw hn hpol
      have := (hP hrw hn hpol).1
      simp only at this; rw [this] at hpe; cases hpe

theorem Inv.tick (h : Inv rew cfg pid strat0 srv0 sys tr) :
    Inv rew cfg pid strat0 srv0 (step cfg pid strat0 sys .tick).1 (tr ++ (step cfg pid strat0 sys .tick).2) := by
  obtain ⟨c, s⟩ := sys
  simp only [step]
  by_cases hi : cfg.interval
  · simp only [hi, ↓reduceIte]
    cases h.phase with
    | fresh hi hc hb hp hs hst =>
      simp only at hc
      simp only [hc, storeMany, List.append_nil]; exact h
    | going a n b hi hc hcp hb hlen hso hst hp hC hP =>
      simp only at hc hi
      simp only [hc, storeMany, List.append_nil]
      have := h.storeOne c.pending (fun e he => he) (a + n) (by rw [hi]; simp [List.mem_range'])
        (fun _ _ _ => hc)
      exact this
  · simp only [hi, Bool.false_eq_true, ↓reduceIte, List.append_nil]; exact h

/-- the poll event, unfolded once -/
theorem step_poll (cfg : CCfg) (pid : Nat) (strat0 : Strat) (c : Cons) (s : Srv) (hb : c.buffered = [])
    (st k : Nat) (hst : st = s.start c.strat cfg.batch) (hk : k = min (st + cfg.batch) s.len - st) :
    step cfg pid strat0 (c, s) .poll =
      (let r : Reply := ⟨pid, s.len - 1, (List.range' st k).map msgAt⟩
       let s1 : Srv := if cfg.polling && k > 0 then { s with stored := some (st + k - 1) } else s
       let x := c.onReply cfg r
       let y := x.1.onPolled cfg x.2.1
       ((y.1, match x.2.2 with | some (_, o) => (s1.store o).1 | none => s1),
        [.polled s.stored r.msgs] ++ (match x.2.2 with | some (_, o) => [.store o (s1.store o).2] | none => []) ++
          (match y.2 with | some y => [.yield y] | none => []))) := by
  subst hst hk
  simp only [step, hb, List.isEmpty_nil, ↓reduceIte, Srv.poll]
  generalize c.onReply cfg _ = x
  obtain ⟨c1, r1, sync⟩ := x
  rcases sync with _ | ⟨_, o⟩ <;> rfl


theorem mem_ite_single {α : Type} {e x : α} {c : Prop} [Decidable c] (h : e ∈ (if c then [x] else [])) : e = x := by
  split at h <;> simp at h; exact h

theorem start_fresh (hg : Good cfg strat0) (s : Srv) : s.start strat0 cfg.batch = firstOff strat0 s.stored := by
  rcases hg.strat with rfl | ⟨k, rfl⟩ <;> rfl

theorem lastYield_fresh {tr : List Obs} (hi : offsOf (curInc tr) = []) : lastYield tr = none := by
  rw [lastYield, hi]; rfl

theorem Inv.poll_fresh (hg : Good cfg strat0) {c : Cons} {s : Srv} {tr : List Obs}
    (h : Inv rew cfg pid strat0 srv0 (c, s) tr)
    (hi : offsOf (curInc tr) = []) (hc : c.consumed = []) (hb : c.buffered = []) (hp : c.pending = [])
    (hs : c.stored = []) (hst : c.strat = strat0) :
    Inv rew cfg pid strat0 srv0 (step cfg pid strat0 (c, s) .poll).1 (tr ++ (step cfg pid strat0 (c, s) .poll).2) := by
  rw [step_poll cfg pid strat0 c s hb _ _ rfl rfl]
  rw [hst, start_fresh hg]
  generalize hst' : firstOff strat0 s.stored = st
  generalize hk : min (st + cfg.batch) s.len - st = k
  cases k with
  | zero =>
    simp only [List.range'_zero, List.map_nil, onReply_empty, onPolled_nil, Nat.lt_irrefl, decide_false,
      Bool.and_false, Bool.false_eq_true, ↓reduceIte, List.append_nil]
    have hi' : offsOf (curInc (tr ++ [Obs.polled s.stored []])) = [] := by
      rw [curInc_snoc _ _ (by simp)]; simpa using hi
    exact ⟨.fresh hi' hc hb hp hs hst, (h.g.polled [] rfl (Or.inl rfl))⟩
  | succ k =>
    have hne : (List.range' st (k + 1)).map msgAt ≠ [] := by simp
    simp only [onReply_fresh cfg c ⟨pid, s.len - 1, (List.range' st (k + 1)).map msgAt⟩ hc hs hne]
    have hcons : (List.range' st (k + 1)).map msgAt = msgAt st :: (List.range' (st + 1) k).map msgAt := by
      rw [List.range'_succ, List.map_cons]
    simp only [onPolled_cons cfg _ ⟨pid, s.len - 1, (List.range' st (k + 1)).map msgAt⟩ _ _ hcons, hb, hp,
      List.nil_append, OffMap.set_single, msgAt_off, List.append_nil, List.cons_append]
    generalize hs1 : (if (cfg.polling && decide (k + 1 > 0)) = true then
      ({ len := s.len, stored := some (st + (k + 1) - 1) } : Srv) else s) = s1
    have hs1len : s1.len = s.len := by subst hs1; split <;> rfl
    have hs1st : (cfg.polling = false ∧ s1.stored = s.stored) ∨ (cfg.polling = true ∧ s1.stored = some (st + k)) := by
      subst hs1; cases hpol : cfg.polling <;> simp
    have hlen : st + k < s.len := by omega
    have hmem : msgAt (st + k) ∈ (List.range' st (k + 1)).map msgAt :=
      List.mem_map.mpr ⟨st + k, List.mem_range'_1.mpr ⟨by omega, by omega⟩, rfl⟩
    have g1 := h.g.polled (s' := s1) ((List.range' st (k + 1)).map msgAt) hs1len (by
      rcases hs1st with ⟨_, e⟩ | ⟨hp', e⟩
      · exact Or.inl e
      · exact Or.inr ⟨hp', _, hmem, e⟩)
    rw [show ∀ (a b : Obs), tr ++ [a, b] = (tr ++ [a]) ++ [b] by simp]
    have hinc : offsOf (curInc (tr ++ [Obs.polled s.stored ((List.range' st (k + 1)).map msgAt)] ++
        [Obs.yield ⟨pid, msgAt st⟩])) = List.range' st (0 + 1) := by
      rw [curInc_snoc _ _ (by simp), curInc_snoc _ _ (by simp)]; simp [hi]
    have hfetch : ∀ o, st ≤ o → o < st + (k + 1) →
        o ∈ fetchedOf (tr ++ [Obs.polled s.stored ((List.range' st (k + 1)).map msgAt)]) := by
      intro o h1 h2
      simp only [fetchedOf_append, fetchedOf_cons_polled, fetchedOf_nil, List.append_nil, List.mem_append,
        List.mem_map]
      exact Or.inr ⟨msgAt o, ⟨o, List.mem_range'_1.mpr ⟨h1, h2⟩, rfl⟩, rfl⟩
    refine ⟨.going st 0 k hinc rfl rfl (by simp) (by simp [hs1len]; omega) ?_ ?_ ?_ ?hC ?hP,
      g1.yield ⟨pid, msgAt st⟩ rfl rfl (by simp [hs1len]; omega) ?_ ?_ ?_⟩
    case hC =>
      intro _ _ hm
      refine ⟨0, rfl, Or.inl ⟨rfl, ?_⟩⟩
      intro h0
      have hst0 : st = 0 := by omega
      subst hst0
      rcases hm.zero with hz | ⟨hall, haa⟩
      · left; simp [hz]
      · cases k with
        | zero => left; simp [haa]
        | succ k => right; exact ⟨hall, by omega⟩
    case hP =>
      intro _ _ hpol
      refine ⟨?_, by omega, st + k, ?_, by omega⟩
      · simp [polling_commitNow hpol, polling_afterAll hpol]
      · rcases hs1st with ⟨e, _⟩ | ⟨_, e⟩
        · rw [hpol] at e; cases e
        · exact e
    · intro hn so hso
      subst hn
      simp only [firstOff] at hst'
      rcases hs1st with ⟨_, e⟩ | ⟨_, e⟩
      · rw [e] at hso; rw [hso] at hst'; simp [resume] at hst'; simp; omega
      · rw [e] at hso; simp at hso ⊢; omega
    · rcases hg.strat with rfl | ⟨k0, rfl⟩
      · simp [StratOK, hst, nextStrat]
      · simp [StratOK, hst, nextStrat, firstOff] at hst' ⊢; omega
    · intro e he
      rw [hinc]
      have := mem_ite_single he
      subst this; simp
    · exact hfetch st (by omega) (by omega)
    · intro m hm
      simp only [List.mem_map, List.mem_range'_1] at hm
      obtain ⟨o, ⟨h1, h2⟩, rfl⟩ := hm
      exact hfetch _ (by simp; omega) (by simp; omega)
    · have : lastYield (tr ++ [Obs.polled s.stored ((List.range' st (k + 1)).map msgAt)]) = none := by
        apply lastYield_fresh
        rw [curInc_snoc _ _ (by simp)]; simpa using hi
      rw [this]
      exact ⟨tr, s.stored, _, rfl, by simp [hst']⟩
theorem start_going (hg : Good cfg strat0) {c : Cons} {s : Srv} {a l : Nat}
    (hso : strat0 = .next → ∀ so, s.stored = some so → so ≤ l)
    (hst : StratOK strat0 c a l 0) : s.start c.strat cfg.batch ≤ l + 1 := by
  rcases hg.strat with rfl | ⟨k, rfl⟩
  · simp only [StratOK] at hst
    rw [hst]; simp only [Srv.start]
    cases hs : s.stored with
    | none => simp [resume]
    | some so => have := hso rfl so hs; simp [resume]; omega
  · simp only [StratOK] at hst
    obtain ⟨_, j, h1, h2⟩ := hst
    rw [h1]; simp at h2; simp [Srv.start, h2]

theorem s1_facts (cfg : CCfg) (s : Srv) (st k : Nat) :
    (if (cfg.polling && decide (k + 1 > 0)) = true then ({ len := s.len, stored := some (st + (k + 1) - 1) } : Srv)
      else s).len = s.len ∧
    ((cfg.polling = false ∧ (if (cfg.polling && decide (k + 1 > 0)) = true then
        ({ len := s.len, stored := some (st + (k + 1) - 1) } : Srv) else s).stored = s.stored) ∨
     (cfg.polling = true ∧ (if (cfg.polling && decide (k + 1 > 0)) = true then
        ({ len := s.len, stored := some (st + (k + 1) - 1) } : Srv) else s).stored = some (st + k))) := by
  cases cfg.polling <;> simp

theorem Srv.store_lt (s : Srv) (o : Nat) (h : o < s.len) : s.store o = ({ s with stored := some o }, true) := by
  simp [Srv.store, h]

theorem Inv.poll_going (hg : Good cfg strat0) {c : Cons} {s : Srv} {tr : List Obs}
    (h : Inv rew cfg pid strat0 srv0 (c, s) tr) (a n : Nat)
    (hi : offsOf (curInc tr) = List.range' a (n + 1)) (hc : c.consumed = [(pid, a + n)])
    (hb : c.buffered = []) (hlen : a + n < s.len)
    (hso : strat0 = .next → ∀ so, s.stored = some so → so ≤ a + n)
    (hst : StratOK strat0 c a (a + n) 0)
    (hp : ∀ e ∈ c.pending, e.1 = pid ∧ e.2 ∈ offsOf (curInc tr))
    (hC : rew = false → strat0 = .next → ConsumeMode cfg → CInv cfg pid c s (a + n) 0)
    (hP : rew = false → strat0 = .next → cfg.polling = true → PInv cfg c s (a + n) 0) :
    Inv rew cfg pid strat0 srv0 (step cfg pid strat0 (c, s) .poll).1 (tr ++ (step cfg pid strat0 (c, s) .poll).2) := by
  rw [step_poll cfg pid strat0 c s hb _ _ rfl rfl]
  have hstart := start_going hg hso hst
  have hstN : strat0 = .next → s.start c.strat cfg.batch = resume s.stored := by
    intro hn; subst hn; simp only [StratOK] at hst; rw [hst]; rfl
  generalize hst' : s.start c.strat cfg.batch = st at hstart hstN
  generalize hk : min (st + cfg.batch) s.len - st = k
  cases k with
  | zero =>
    simp only [List.range'_zero, List.map_nil, onReply_empty, onPolled_nil, Nat.lt_irrefl, decide_false,
      Bool.and_false, Bool.false_eq_true, ↓reduceIte, List.append_nil]
    have hi' : offsOf (curInc (tr ++ [Obs.polled s.stored []])) = List.range' a (n + 1) := by
      rw [curInc_snoc _ _ (by simp)]; simpa using hi
    refine ⟨.going a n 0 hi' hc rfl (by simpa using hb) (by simpa using hlen) (by simpa using hso)
      (hst.congr rfl) ?_ ?_ ?_, (h.g.polled [] rfl (Or.inl rfl))⟩
    · intro e he; rw [hi', ← hi]; exact hp e he
    · exact hC
    · exact hP
  | succ k =>
    have hne : (List.range' st (k + 1)).map msgAt ≠ [] := by simp
    have hcur : ∀ m ∈ (List.range' st (k + 1)).map msgAt, m.off ≤ s.len - 1 := by
      intro m hm
      simp only [List.mem_map, List.mem_range'_1] at hm
      obtain ⟨o, ⟨h1, h2⟩, rfl⟩ := hm
      simp; omega
    have hR := onReply_has cfg hg.replay c ⟨pid, s.len - 1, (List.range' st (k + 1)).map msgAt⟩ (a + n) hc hne hcur
    have hmax : max st (a + n + 1) = a + n + 1 := by omega
    simp only [filter_run, hmax] at hR
    generalize hw : st + (k + 1) - (a + n + 1) = w at hR
    obtain ⟨hs1len, hs1st⟩ := s1_facts cfg s st k
    have hlenk : st + k < s.len := by omega
    have hmem : msgAt (st + k) ∈ (List.range' st (k + 1)).map msgAt :=
      List.mem_map.mpr ⟨st + k, List.mem_range'_1.mpr ⟨by omega, by omega⟩, rfl⟩
    have hfetch : ∀ o, st ≤ o → o < st + (k + 1) →
        o ∈ fetchedOf (tr ++ [Obs.polled s.stored ((List.range' st (k + 1)).map msgAt)]) := by
      intro o h1 h2
      simp only [fetchedOf_append, fetchedOf_cons_polled, fetchedOf_nil, List.append_nil, List.mem_append,
        List.mem_map]
      exact Or.inr ⟨msgAt o, ⟨o, List.mem_range'_1.mpr ⟨h1, h2⟩, rfl⟩, rfl⟩
    have hi1 : offsOf (curInc (tr ++ [Obs.polled s.stored ((List.range' st (k + 1)).map msgAt)])) =
        List.range' a (n + 1) := by
      rw [curInc_snoc _ _ (by simp)]; simpa using hi
    cases w with
    | zero =>
      simp only [List.range'_zero, List.map_nil, ↓reduceIte] at hR
      by_cases hsync : (cfg.autoCommitEnabled && !cfg.polling && (decide ((c.stored.get? pid).getD 0 < a + n) || c.strat == .next)) = true
      · simp only [hsync, ↓reduceIte] at hR
        simp only [hR, onPolled_nil, List.append_nil]
        generalize (if (cfg.polling && decide (k + 1 > 0)) = true then
          ({ len := s.len, stored := some (st + (k + 1) - 1) } : Srv) else s) = s1 at hs1len hs1st ⊢
        have g1 := h.g.polled (s' := s1) ((List.range' st (k + 1)).map msgAt) hs1len (by
          rcases hs1st with ⟨_, e⟩ | ⟨hp', e⟩
          · exact Or.inl e
          · exact Or.inr ⟨hp', _, hmem, e⟩)
        rw [Srv.store_lt s1 (a + n) (by omega), ← List.append_assoc]
        have hi2 : offsOf (curInc (tr ++ [Obs.polled s.stored ((List.range' st (k + 1)).map msgAt)] ++
            [Obs.store (a + n) true])) = List.range' a (n + 1) := by
          rw [curInc_snoc _ _ (by simp)]; simpa using hi1
        refine ⟨.going a n 0 hi2 hc rfl (by simpa using hb) (by simp [hs1len]; omega) ?_ (hst.congr rfl) ?_ ?_ ?_,
          g1.store (a + n) ?_⟩
        · intro _ so hso'; simp at hso'; omega
        · intro e he; rw [hi2, ← hi]; exact hp e he
        · intro hrw hn hm
          obtain ⟨v, hv, _⟩ := hC hrw hn hm
          exact ⟨a + n, by simp [hv], Or.inr rfl⟩
        · intro hrw hn hpol
          obtain ⟨hpe, hbb, so, hso', hle⟩ := hP hrw hn hpol
          exact ⟨hpe, hbb, a + n, rfl, by omega⟩
        · simp only [offsOf_append, offsOf_cons_polled, offsOf_nil, List.append_nil]
          exact offsOf_curInc_sub tr _ (by rw [hi]; exact List.mem_range'_1.mpr ⟨by omega, by omega⟩)
      · simp only [hsync, Bool.false_eq_true, ↓reduceIte] at hR
        simp only [hR, onPolled_nil, List.append_nil]
        generalize (if (cfg.polling && decide (k + 1 > 0)) = true then
          ({ len := s.len, stored := some (st + (k + 1) - 1) } : Srv) else s) = s1 at hs1len hs1st ⊢
        have g1 := h.g.polled (s' := s1) ((List.range' st (k + 1)).map msgAt) hs1len (by
          rcases hs1st with ⟨_, e⟩ | ⟨hp', e⟩
          · exact Or.inl e
          · exact Or.inr ⟨hp', _, hmem, e⟩)
        refine ⟨.going a n 0 hi1 hc rfl (by simpa using hb) (by simp [hs1len]; omega) ?_ (hst.congr rfl) ?_ ?_ ?_, g1⟩
        · intro hn so hso'
          rcases hs1st with ⟨_, e⟩ | ⟨_, e⟩
          · rw [e] at hso'; have := hso hn so hso'; simpa using this
          · rw [e] at hso'; simp at hso' ⊢; omega
        · intro e he; rw [hi1, ← hi]; exact hp e he
        · intro hrw hn hm
          obtain ⟨v, hv, hor⟩ := hC hrw hn hm
          refine ⟨v, hv, ?_⟩
          rcases hs1st with ⟨_, e⟩ | ⟨e, _⟩
          · rw [e]; exact hor
          · rw [hm.not_polling] at e; cases e
        · intro hrw hn hpol
          obtain ⟨hpe, hbb, so, hso', hle⟩ := hP hrw hn hpol
          rcases hs1st with ⟨e, _⟩ | ⟨_, e⟩
          · rw [hpol] at e; cases e
          · have := hstN hn
            rw [hso'] at this; simp only [resume] at this
            exact ⟨hpe, hbb, st + k, e, by omega⟩
    | succ w =>
      have hfne : ¬ (List.range' (a + n + 1) (w + 1)).map msgAt = [] := by simp
      simp only [hfne, ↓reduceIte] at hR
      have hcons : (List.range' (a + n + 1) (w + 1)).map msgAt =
          msgAt (a + n + 1) :: (List.range' (a + n + 1 + 1) w).map msgAt := by
        rw [List.range'_succ, List.map_cons]
      simp only [hR, onPolled_cons cfg _ ⟨pid, s.len - 1, (List.range' (a + n + 1) (w + 1)).map msgAt⟩ _ _ hcons,
        hb, hc, List.nil_append, OffMap.set_single, msgAt_off, List.append_nil, List.cons_append]
      generalize (if (cfg.polling && decide (k + 1 > 0)) = true then
        ({ len := s.len, stored := some (st + (k + 1) - 1) } : Srv) else s) = s1 at hs1len hs1st ⊢
      have g1 := h.g.polled (s' := s1) ((List.range' st (k + 1)).map msgAt) hs1len (by
        rcases hs1st with ⟨_, e⟩ | ⟨hp', e⟩
        · exact Or.inl e
        · exact Or.inr ⟨hp', _, hmem, e⟩)
      rw [show ∀ (x y : Obs), tr ++ [x, y] = (tr ++ [x]) ++ [y] by simp]
      have hi2 : offsOf (curInc (tr ++ [Obs.polled s.stored ((List.range' st (k + 1)).map msgAt)] ++
          [Obs.yield ⟨pid, msgAt (a + n + 1)⟩])) = List.range' a (n + 1 + 1) := by
        rw [curInc_snoc _ _ (by simp), offsOf_append, hi1, range'_snoc a (n + 1)]; simp; omega
      have e1 : a + (n + 1) = a + n + 1 := by omega
      refine ⟨.going a (n + 1) w hi2 (by simp [e1]) rfl (by simp [e1]) (by simp [hs1len]; omega) ?_ ?_ ?_ ?hC ?hP,
        g1.yield ⟨pid, msgAt (a + n + 1)⟩ rfl rfl (by simp [hs1len]; omega) ?_ ?_ ?_⟩
      case hC =>
        intro hrw hn hm
        obtain ⟨v, hv, hor⟩ := hC hrw hn hm
        refine ⟨v, by simp [hm.not_polling, hv], ?_⟩
        rcases hor with ⟨hv0, _⟩ | hsv
        · exact Or.inl ⟨hv0, fun h0 => absurd h0 (by omega)⟩
        · rcases hs1st with ⟨_, e⟩ | ⟨e, _⟩
          · rw [e]; exact Or.inr hsv
          · rw [hm.not_polling] at e; cases e
      case hP =>
        intro hrw hn hpol
        obtain ⟨hpe, hbb, so, hso', hle⟩ := hP hrw hn hpol
        rcases hs1st with ⟨e, _⟩ | ⟨_, e⟩
        · rw [hpol] at e; cases e
        · refine ⟨?_, by omega, st + k, e, by omega⟩
          simp [hpe, polling_commitNow hpol, polling_afterAll hpol]
      · intro hn so hso'
        rcases hs1st with ⟨_, e⟩ | ⟨_, e⟩
        · rw [e] at hso'; have := hso hn so hso'; omega
        · rw [e] at hso'; simp at hso' ⊢; omega
      · rw [e1]
        rcases hg.strat with rfl | ⟨k0, rfl⟩
        · simp only [StratOK] at hst ⊢; simp [hst, nextStrat]
        · simp only [StratOK] at hst ⊢
          obtain ⟨h1, j, h2, _⟩ := hst
          exact ⟨h1, a + n + 1 + 1, by simp [h2, nextStrat], fun _ => rfl⟩
      · intro e he
        rw [hi2, range'_snoc a (n + 1)]
        simp only [List.mem_append] at he
        rcases he with he | he
        · have := hp e he; rw [hi] at this; exact ⟨this.1, by simp [this.2]⟩
        · have := mem_ite_single he; subst this; simp; omega
      · exact hfetch _ (by simp; omega) (by simp; omega)
      · intro m hm
        simp only [List.mem_map, List.mem_range'_1] at hm
        obtain ⟨o, ⟨h1, h2⟩, rfl⟩ := hm
        exact hfetch _ (by simp; omega) (by simp; omega)
      · rw [show lastYield (tr ++ [Obs.polled s.stored ((List.range' st (k + 1)).map msgAt)]) = some (a + n) from
          lastYield_going hi1]
        rfl

theorem Inv.poll (hg : Good cfg strat0) (h : Inv rew cfg pid strat0 srv0 sys tr) :
    Inv rew cfg pid strat0 srv0 (step cfg pid strat0 sys .poll).1 (tr ++ (step cfg pid strat0 sys .poll).2) := by
  obtain ⟨c, s⟩ := sys
  by_cases hbuf : c.buffered = []
  · cases h.phase with
    | fresh hi hc hb hp hs hst => exact h.poll_fresh hg hi hc hb hp hs hst
    | going a n b hi hc hcp hb hlen hso hst hp hC hP =>
      simp only at hb
      have hb0 : b = 0 := by
        cases b with
        | zero => rfl
        | succ b => rw [hb, List.range'_succ] at hbuf; simp at hbuf
      subst hb0
      exact h.poll_going hg a n hi hc hbuf (by simpa using hlen) (by simpa using hso) hst hp hC hP
  · have : c.buffered.isEmpty = false := by simpa using hbuf
    simp only [step, this, Bool.false_eq_true, ↓reduceIte, List.append_nil]; exact h

theorem Inv.step (hg : Good cfg strat0) (h : Inv rew cfg pid strat0 srv0 sys tr) (e : Ev) :
    Inv rew cfg pid strat0 srv0 (step cfg pid strat0 sys e).1 (tr ++ (step cfg pid strat0 sys e).2) := by
  cases e with
  | pop => exact h.pop hg
  | poll => exact h.poll hg
  | deliver => exact h.deliver
  | tick => exact h.tick
  | append k => exact h.append k
  | drop => exact h.drop

theorem Reach.inv (hg : Good cfg strat0) {sys : Sys} {tr : List Obs} (h : Reach cfg pid strat0 srv0 sys tr) :
    Inv rew cfg pid strat0 srv0 sys tr := by
  induction h with
  | init => exact Inv.init
  | step e _ ih => exact ih.step hg e

/-- schedules and reachability are the same thing -/
theorem run_reach {sys : Sys} {tr : List Obs} (h : Reach cfg pid strat0 srv0 sys tr) (evs : List Ev) :
    Reach cfg pid strat0 srv0 (run cfg pid strat0 sys evs).1 (tr ++ (run cfg pid strat0 sys evs).2) := by
  induction evs generalizing sys tr with
  | nil => simpa [run] using h
  | cons e es ih =>
    have := ih (h.step e)
    simpa [run, List.append_assoc] using this

theorem reach_run {sys : Sys} {tr : List Obs} (h : Reach cfg pid strat0 srv0 sys tr) :
    ∃ evs, run cfg pid strat0 (Cons.new strat0, srv0) evs = (sys, tr) := by
  induction h with
  | init => exact ⟨[], rfl⟩
  | @step sys tr e _ ih =>
    obtain ⟨evs, he⟩ := ih
    refine ⟨evs ++ [e], ?_⟩
    have key : ∀ (evs : List Ev) (s0 : Sys), run cfg pid strat0 s0 (evs ++ [e]) =
        ((Iggy.Sdk.step cfg pid strat0 (run cfg pid strat0 s0 evs).1 e).1,
         (run cfg pid strat0 s0 evs).2 ++ (Iggy.Sdk.step cfg pid strat0 (run cfg pid strat0 s0 evs).1 e).2) := by
      intro evs
      induction evs with
      | nil => intro s0; simp [run]
      | cons e' es ih' => intro s0; simp [run, ih', List.append_assoc]
    rw [key, he]
end Iggy.Sdk
