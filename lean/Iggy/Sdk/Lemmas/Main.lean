/- C20 helpers: the property theorems, proved from the invariant -/
import Iggy.Sdk.Lemmas.Progress
namespace Iggy.Sdk
variable {rew : Bool} {cfg : CCfg} {pid : Nat} {strat0 : Strat} {srv0 : Srv}

theorem mem_incarnations {tr : List Obs} {inc : List Obs} (h : inc ∈ incarnations tr) :
    inc ∈ pastIncs tr ∨ inc = curInc tr := by
  simpa [incarnations] using h

/-- what an incarnation yielded was yielded -/
theorem yieldsOf_curInc_sub (tr : List Obs) : ∀ y ∈ yieldsOf (curInc tr), y ∈ yieldsOf tr := by
  induction tr using snoc_ind with
  | nil => simp
  | snoc tr x ih =>
    by_cases hx : x = .dropped
    · subst hx; simp
    · rw [curInc_snoc tr x hx]
      intro o ho
      simp only [yieldsOf_append, List.mem_append] at ho ⊢
      rcases ho with ho | ho
      · exact Or.inl (ih o ho)
      · exact Or.inr ho

theorem yieldsOf_pastIncs_sub (tr : List Obs) : ∀ inc ∈ pastIncs tr, ∀ y ∈ yieldsOf inc, y ∈ yieldsOf tr := by
  induction tr using snoc_ind with
  | nil => simp
  | snoc tr x ih =>
    by_cases hx : x = .dropped
    · subst hx
      intro inc hinc y hy
      simp only [pastIncs_snoc_dropped, List.mem_append, List.mem_singleton] at hinc
      simp only [yieldsOf_append, yieldsOf_cons_dropped, yieldsOf_nil, List.append_nil]
      rcases hinc with hinc | rfl
      · exact ih inc hinc y hy
      · exact yieldsOf_curInc_sub tr y hy
    · rw [pastIncs_snoc tr x hx]
      intro inc hinc y hy
      simp only [yieldsOf_append, List.mem_append]
      exact Or.inl (ih inc hinc y hy)

theorem yieldsOf_incarnations_sub (tr : List Obs) : ∀ inc ∈ incarnations tr, ∀ y ∈ yieldsOf inc, y ∈ yieldsOf tr := by
  intro inc hinc
  rcases mem_incarnations hinc with h | rfl
  · exact yieldsOf_pastIncs_sub tr inc h
  · exact yieldsOf_curInc_sub tr

theorem Inv.incarnations_range {sys : Sys} {tr : List Obs} (h : Inv rew cfg pid strat0 srv0 sys tr) :
    ∀ inc ∈ incarnations tr, ∃ a, offsOf inc = List.range' a (offsOf inc).length := by
  intro inc hinc
  rcases mem_incarnations hinc with hp | rfl
  · exact h.g.past inc hp
  · cases h.phase with
    | fresh hi _ _ _ _ _ => exact ⟨0, by rw [hi]; simp⟩
    | going a n b hi _ _ _ _ _ _ _ _ _ => exact ⟨a, by rw [hi]; simp⟩


theorem Always.prefix {P : List Obs → Obs → Prop} {tr new : List Obs} (h : Always P (tr ++ new)) : Always P tr := by
  intro pre x post e
  exact h pre x (post ++ new) (by rw [e]; simp)

theorem Always.last {P : List Obs → Obs → Prop} {tr : List Obs} {x : Obs} (h : Always P (tr ++ [x])) : P tr x :=
  h tr x [] rfl

theorem lastYield_mem {tr : List Obs} {l : Nat} (h : lastYield tr = some l) : l ∈ offsOf tr := by
  apply offsOf_curInc_sub
  exact List.mem_of_getLast? h

/-- the offsets yielded so far (by all incarnations) form an interval that starts at `r0` -/
def Covered (r0 : Nat) (offs : List Nat) : Prop :=
  (∀ o ∈ offs, r0 ≤ o) ∧ (∀ o o', o' ∈ offs → r0 ≤ o → o ≤ o' → o ∈ offs)

theorem Covered.snoc {r0 : Nat} {offs : List Nat} (h : Covered r0 offs) (off : Nat)
    (hoff : off = r0 ∨ ∃ o' ∈ offs, off = o' + 1) : Covered r0 (offs ++ [off]) := by
  have hr : r0 ≤ off := by
    rcases hoff with e | ⟨o', ho', e⟩
    · omega
    · have := h.1 o' ho'; omega
  refine ⟨?_, ?_⟩
  · intro o ho
    simp only [List.mem_append, List.mem_singleton] at ho
    rcases ho with ho | rfl
    · exact h.1 o ho
    · exact hr
  · intro o o' ho' hro hle
    simp only [List.mem_append, List.mem_singleton] at ho' ⊢
    rcases ho' with ho' | rfl
    · exact Or.inl (h.2 o o' ho' hro hle)
    · by_cases he : o = o'
      · exact Or.inr he
      · rcases hoff with e | ⟨o'', ho'', e⟩
        · omega
        · exact Or.inl (h.2 o o'' ho'' hro (by omega))

theorem covered_of_trace (hpol : cfg.polling = false) (tr : List Obs)
    (hy : Always (YieldOK pid .next) tr) (hp : Always (PolledOK cfg srv0) tr) :
    Covered (resume srv0.stored) (offsOf tr) := by
  induction tr using snoc_ind with
  | nil => exact ⟨by simp, by simp⟩
  | snoc tr x ih =>
    have ih := ih hy.prefix hp.prefix
    cases x with
    | yield y =>
      simp only [offsOf_append, offsOf_cons_yield, offsOf_nil]
      apply ih.snoc
      have hyo := (hy.last y rfl).2.2
      cases hl : lastYield tr with
      | some l =>
        rw [hl] at hyo
        exact Or.inr ⟨l, lastYield_mem hl, hyo⟩
      | none =>
        rw [hl] at hyo
        obtain ⟨pre', b, r, e, hoff⟩ := hyo
        subst e
        have := ((hp.prefix (new := [Obs.yield y])).last b r rfl).2 hpol
        simp only [firstOff] at hoff
        rcases this with e | ⟨o, ho, e⟩
        · left; rw [hoff, e]
        · right; exact ⟨o, by simpa using ho, by rw [hoff, e]; rfl⟩
    | polled b r => simpa using ih
    | store o ok => simpa using ih
    | dropped => simpa using ih

/-! ## the statements of Props/C20 -/

theorem yields_in_order_once (hg : Good cfg strat0) {sys : Sys} {tr : List Obs}
    (hr : Reach cfg pid strat0 srv0 sys tr) :
    Always (fun pre x => ∀ y, x = .yield y →
      y.pid = pid ∧ y.msg = msgAt y.msg.off ∧ ∀ l, lastYield pre = some l → y.msg.off = l + 1) tr ∧
    (∀ y ∈ yieldsOf tr, y.msg.off < sys.2.len) ∧
    (∀ inc ∈ incarnations tr, ∃ a, offsOf inc = List.range' a (offsOf inc).length) := by
  have h := hr.inv (rew := false) hg
  refine ⟨h.g.yieldOK.mono ?_, fun y hy => (h.g.genuine y hy).2.2, h.incarnations_range⟩
  intro pre x hx y e
  obtain ⟨h1, h2, h3⟩ := hx y e
  refine ⟨h1, h2, fun l hl => ?_⟩
  rw [hl] at h3; exact h3

theorem first_yield_resumes (hg : Good cfg strat0) {sys : Sys} {tr : List Obs}
    (hr : Reach cfg pid strat0 srv0 sys tr) :
    Always (fun pre x => ∀ y, x = .yield y → lastYield pre = none →
      ∃ pre' b r, pre = pre' ++ [.polled b r] ∧ y.msg.off = firstOff strat0 b) tr := by
  refine (hr.inv (rew := false) hg).g.yieldOK.mono ?_
  intro pre x hx y e hl
  have := (hx y e).2.2
  rw [hl] at this; exact this

theorem commit_le_yielded (hg : Good cfg strat0) {sys : Sys} {tr : List Obs}
    (hr : Reach cfg pid strat0 srv0 sys tr) :
    Always (fun pre x => ∀ off ok, x = .store off ok → ok = true ∧ off ∈ offsOf pre) tr ∧
    (cfg.polling = false → sys.2.stored = srv0.stored ∨ ∃ o ∈ offsOf tr, sys.2.stored = some o) := by
  have h := hr.inv (rew := false) hg
  refine ⟨h.g.storeOK, fun hp => ?_⟩
  rcases h.g.srvYielded rfl hp with e | ⟨o, e, ho⟩
  · exact Or.inl e
  · exact Or.inr ⟨o, ho, e⟩

theorem commit_le_fetched (hg : Good cfg strat0) {sys : Sys} {tr : List Obs}
    (hr : Reach cfg pid strat0 srv0 sys tr) :
    (sys.2.stored = srv0.stored ∨ ∃ o ∈ fetchedOf tr, sys.2.stored = some o) ∧
    (∀ o ∈ offsOf tr, o ∈ fetchedOf tr) := by
  have h := hr.inv (rew := false) hg
  refine ⟨?_, h.g.yFetched⟩
  rcases h.g.srvFetched rfl with e | ⟨o, e, ho⟩
  · exact Or.inl e
  · exact Or.inr ⟨o, ho, e⟩

theorem polled_stored (hg : Good cfg strat0) {sys : Sys} {tr : List Obs}
    (hr : Reach cfg pid strat0 srv0 sys tr) : Always (PolledOK cfg srv0) tr :=
  ((hr.inv (rew := false) hg).g.polledOK rfl)

theorem no_skip_across_incarnations (hg : Good cfg .next) (hpol : cfg.polling = false) {sys : Sys} {tr : List Obs}
    (hr : Reach cfg pid .next srv0 sys tr) :
    (∀ o ∈ offsOf tr, resume srv0.stored ≤ o) ∧
    (∀ o o', o' ∈ offsOf tr → resume srv0.stored ≤ o → o ≤ o' → o ∈ offsOf tr) :=
  covered_of_trace hpol tr (hr.inv (rew := false) hg).g.yieldOK ((hr.inv (rew := false) hg).g.polledOK rfl)

/-- what an incarnation yielded is the run of the server's messages from its first offset on -/
theorem Inv.yields_run {sys : Sys} {tr : List Obs} (hI : Inv rew cfg pid strat0 srv0 sys tr) :
    ∀ inc ∈ incarnations tr,
      ∃ a, yieldsOf inc = (List.range' a (yieldsOf inc).length).map (fun o => (⟨pid, msgAt o⟩ : Yield)) := by
  intro inc hinc
  obtain ⟨a, ha⟩ := hI.incarnations_range inc hinc
  refine ⟨a, ?_⟩
  have hgen : ∀ y ∈ yieldsOf inc, y = ⟨pid, msgAt y.msg.off⟩ := by
    intro y hy
    obtain ⟨h1, h2, _⟩ := hI.g.genuine y (yieldsOf_incarnations_sub tr inc hinc y hy)
    cases y with
    | mk p m => simp only at h1 h2 ⊢; rw [h1, ← h2]
  have hlen' : (offsOf inc).length = (yieldsOf inc).length := by simp [offsOf]
  rw [← hlen', ← ha, offsOf, List.map_map]
  conv => lhs; rw [← List.map_id (yieldsOf inc)]
  apply List.map_congr_left
  intro y hy
  simpa using hgen y hy

/-- two runs of the server's messages with the same head: the shorter is a prefix of the longer -/
theorem runs_prefix {pid : Nat} {l₁ l₂ : List Yield}
    (e₁ : ∃ a, l₁ = (List.range' a l₁.length).map (fun o => (⟨pid, msgAt o⟩ : Yield)))
    (e₂ : ∃ a, l₂ = (List.range' a l₂.length).map (fun o => (⟨pid, msgAt o⟩ : Yield)))
    (hhead : l₁.head? = l₂.head?) (hlen : l₁.length ≤ l₂.length) : l₁ = l₂.take l₁.length := by
  obtain ⟨a₁, e₁⟩ := e₁
  obtain ⟨a₂, e₂⟩ := e₂
  cases hn₁ : l₁.length with
  | zero => have : l₁ = [] := List.length_eq_zero_iff.mp hn₁; subst this; simp
  | succ n₁ =>
    cases hn₂ : l₂.length with
    | zero => omega
    | succ n₂ =>
      rw [hn₁] at e₁; rw [hn₂] at e₂
      have ha : a₁ = a₂ := by
        rw [e₁, e₂] at hhead
        simp [List.range'_succ] at hhead
        have := congrArg (fun m : PMsg => m.off) hhead
        simpa using this
      subst ha
      rw [e₁, e₂, ← List.map_take, List.take_range'_of_length_ge (by omega)]

/-- two incarnations (of any two schedules) that start at the same message yield the same sequence, as
far as both go -/
theorem yields_schedule_independent (hg : Good cfg strat0) {sys₁ sys₂ : Sys} {tr₁ tr₂ : List Obs}
    {srv₁ srv₂ : Srv}
    (h₁ : Reach cfg pid strat0 srv₁ sys₁ tr₁) (h₂ : Reach cfg pid strat0 srv₂ sys₂ tr₂)
    (inc₁ inc₂ : List Obs) (hi₁ : inc₁ ∈ incarnations tr₁) (hi₂ : inc₂ ∈ incarnations tr₂)
    (hhead : (yieldsOf inc₁).head? = (yieldsOf inc₂).head?) (hlen : (yieldsOf inc₁).length ≤ (yieldsOf inc₂).length) :
    yieldsOf inc₁ = (yieldsOf inc₂).take (yieldsOf inc₁).length :=
  runs_prefix ((h₁.inv (rew := false) hg).yields_run inc₁ hi₁) ((h₂.inv (rew := false) hg).yields_run inc₂ hi₂)
    hhead hlen

end Iggy.Sdk
