/- C20 helpers: progress (the consumer does not stall) -/
import Iggy.Sdk.Lemmas.Steps
namespace Iggy.Sdk
variable {rew : Bool} {cfg : CCfg} {pid : Nat} {strat0 : Strat} {srv0 : Srv}

/-- a fresh consumer polls and the server has the message asked for: it is yielded -/
theorem poll_fresh_obs (cfg : CCfg) (pid : Nat) (strat0 : Strat) (c : Cons) (s : Srv)
    (hc : c.consumed = []) (hb : c.buffered = []) (hs : c.stored = []) (hbatch : 1 ≤ cfg.batch)
    (hlen : s.start c.strat cfg.batch < s.len) :
    ∃ r, (step cfg pid strat0 (c, s) .poll).2 =
      [.polled s.stored r, .yield ⟨pid, msgAt (s.start c.strat cfg.batch)⟩] := by
  rw [step_poll cfg pid strat0 c s hb _ _ rfl rfl]
  generalize hst' : s.start c.strat cfg.batch = st at hlen
  generalize hk : min (st + cfg.batch) s.len - st = k
  cases k with
  | zero => omega
  | succ k =>
    have hne : (List.range' st (k + 1)).map msgAt ≠ [] := by simp
    simp only [onReply_fresh cfg c ⟨pid, s.len - 1, (List.range' st (k + 1)).map msgAt⟩ hc hs hne]
    have hcons : (List.range' st (k + 1)).map msgAt = msgAt st :: (List.range' (st + 1) k).map msgAt := by
      rw [List.range'_succ, List.map_cons]
    simp only [onPolled_cons cfg _ ⟨pid, s.len - 1, (List.range' st (k + 1)).map msgAt⟩ _ _ hcons]
    exact ⟨_, rfl⟩

/-- a poll whose reply reaches beyond the consumed offset `l` yields `l + 1` -/
theorem poll_going_obs_yield (cfg : CCfg) (hrep : cfg.replay = false) (pid : Nat) (strat0 : Strat) (c : Cons) (s : Srv)
    (l : Nat) (hc : c.consumed = [(pid, l)]) (hb : c.buffered = [])
    (hst : s.start c.strat cfg.batch ≤ l + 1)
    (hreach : l + 1 < min (s.start c.strat cfg.batch + cfg.batch) s.len) :
    ∃ r, (step cfg pid strat0 (c, s) .poll).2 = [.polled s.stored r, .yield ⟨pid, msgAt (l + 1)⟩] := by
  rw [step_poll cfg pid strat0 c s hb _ _ rfl rfl]
  generalize hst' : s.start c.strat cfg.batch = st at hst hreach
  generalize hk : min (st + cfg.batch) s.len - st = k
  cases k with
  | zero => omega
  | succ k =>
    have hne : (List.range' st (k + 1)).map msgAt ≠ [] := by simp
    have hcur : ∀ m ∈ (List.range' st (k + 1)).map msgAt, m.off ≤ s.len - 1 := by
      intro m hm
      simp only [List.mem_map, List.mem_range'_1] at hm
      obtain ⟨o, ⟨h1, h2⟩, rfl⟩ := hm
      simp; omega
    have hR := onReply_has cfg hrep c ⟨pid, s.len - 1, (List.range' st (k + 1)).map msgAt⟩ l hc hne hcur
    have hmax : max st (l + 1) = l + 1 := by omega
    simp only [filter_run, hmax] at hR
    generalize hw : st + (k + 1) - (l + 1) = w at hR
    cases w with
    | zero => omega
    | succ w =>
      have hfne : ¬ (List.range' (l + 1) (w + 1)).map msgAt = [] := by simp
      simp only [hfne, ↓reduceIte] at hR
      have hcons : (List.range' (l + 1) (w + 1)).map msgAt =
          msgAt (l + 1) :: (List.range' (l + 1 + 1) w).map msgAt := by
        rw [List.range'_succ, List.map_cons]
      simp only [hR, onPolled_cons cfg _ ⟨pid, s.len - 1, (List.range' (l + 1) (w + 1)).map msgAt⟩ _ _ hcons]
      exact ⟨_, rfl⟩

/-- a poll whose reply was consumed already, when the client believes the server lags or the strategy is
`next` (the reply itself shows the lag): the consumed offset is stored (the fixes of 47819f3 and of the
stale-member commit) -/
theorem poll_going_sync (cfg : CCfg) (hrep : cfg.replay = false) (pid : Nat) (strat0 : Strat) (c : Cons) (s : Srv)
    (l : Nat) (hc : c.consumed = [(pid, l)]) (hb : c.buffered = []) (hl : l < s.len) (hbatch : 1 ≤ cfg.batch)
    (hst : s.start c.strat cfg.batch ≤ l)
    (hreach : min (s.start c.strat cfg.batch + cfg.batch) s.len ≤ l + 1)
    (hauto : cfg.autoCommitEnabled = true) (hpol : cfg.polling = false)
    (hlag : (c.stored.get? pid).getD 0 < l ∨ c.strat = .next) :
    ∃ r, step cfg pid strat0 (c, s) .poll =
      (({ c with curPart := pid, stored := c.stored.set pid l }, { s with stored := some l }),
       [.polled s.stored r, .store l true]) := by
  rw [step_poll cfg pid strat0 c s hb _ _ rfl rfl]
  generalize hst' : s.start c.strat cfg.batch = st at hst hreach
  generalize hk : min (st + cfg.batch) s.len - st = k
  cases k with
  | zero => omega
  | succ k =>
    have hne : (List.range' st (k + 1)).map msgAt ≠ [] := by simp
    have hcur : ∀ m ∈ (List.range' st (k + 1)).map msgAt, m.off ≤ s.len - 1 := by
      intro m hm
      simp only [List.mem_map, List.mem_range'_1] at hm
      obtain ⟨o, ⟨h1, h2⟩, rfl⟩ := hm
      simp; omega
    have hR := onReply_has cfg hrep c ⟨pid, s.len - 1, (List.range' st (k + 1)).map msgAt⟩ l hc hne hcur
    have hmax : max st (l + 1) = l + 1 := by omega
    simp only [filter_run, hmax] at hR
    have hw : st + (k + 1) - (l + 1) = 0 := by omega
    have hlag' : (decide ((c.stored.get? pid).getD 0 < l) || c.strat == .next) = true := by
      rcases hlag with h | h <;> simp [h]
    simp only [hw, List.range'_zero, List.map_nil, ↓reduceIte, hauto, hpol, hlag', Bool.not_false, Bool.and_self] at hR
    simp only [hR, onPolled_nil, hpol, Bool.false_and, Bool.false_eq_true, ↓reduceIte, Srv.store_lt s l hl,
      List.append_nil]
    exact ⟨_, rfl⟩
theorem no_stall_inv (hg : Good cfg .next) (hm : ConsumeMode cfg ∨ cfg.polling = true)
    {sys : Sys} {tr : List Obs} (h : Inv false cfg pid .next srv0 sys tr)
    (hp : sys.1.pending = []) (hb : sys.1.buffered = []) (hw : wanted pid sys < sys.2.len) :
    (∃ r, (step cfg pid .next sys .poll).2 = [.polled sys.2.stored r, .yield ⟨pid, msgAt (wanted pid sys)⟩]) ∨
    (∃ r b' r', (step cfg pid .next sys .poll).2 = [.polled sys.2.stored r, .store (wanted pid sys - 1) true] ∧
      (step cfg pid .next (step cfg pid .next sys .poll).1 .poll).2 =
        [.polled b' r', .yield ⟨pid, msgAt (wanted pid sys)⟩]) := by
  obtain ⟨c, s⟩ := sys
  simp only at hp hb
  cases h.phase with
  | fresh hi hc _ _ hs hst =>
    simp only at hc hs hst
    have hwant : wanted pid (c, s) = s.start c.strat cfg.batch := by
      simp [wanted, hc, hst, Srv.start]
    left
    rw [hwant] at hw ⊢
    exact poll_fresh_obs cfg pid .next c s hc hb hs hg.batch hw
  | going a n b hi hc hcp hb' hlen hso hst hp' hC hP =>
    simp only at hc hb' hlen hso hst hC hP
    have hb0 : b = 0 := by
      cases b with
      | zero => rfl
      | succ b => rw [hb', List.range'_succ] at hb; simp at hb
    subst hb0
    have hwant : wanted pid (c, s) = a + n + 1 := by simp [wanted, hc]
    rw [hwant] at hw ⊢
    have hw' : a + n + 1 < s.len := hw
    simp only [StratOK] at hst
    have hstart : s.start c.strat cfg.batch = resume s.stored := by rw [hst]; rfl
    have hstle : s.start c.strat cfg.batch ≤ a + n + 1 := by
      rw [hstart]
      cases hs : s.stored with
      | none => simp [resume]
      | some so => have := hso trivial so hs; simp [resume]; omega
    by_cases hreach : a + n + 1 < min (s.start c.strat cfg.batch + cfg.batch) s.len
    · left
      exact poll_going_obs_yield cfg hg.replay pid .next c s (a + n) hc hb hstle hreach
    · right
      have hbatch := hg.batch
      rcases hm with hm | hpol
      · obtain ⟨v, hv, hor⟩ := hC trivial trivial hm
        have hlag : (c.stored.get? pid).getD 0 < a + n := by
          simp only [hv, OffMap.get?_single, Option.getD_some]
          rcases hor with ⟨hv0, hK⟩ | hsv
          · subst hv0
            by_cases hl0 : a + n = 0
            · rcases hK hl0 with hmem | ⟨_, hne⟩
              · rw [hp] at hmem; simp at hmem
              · exact absurd rfl hne
            · omega
          · rw [hstart, hsv] at hreach hstle
            simp only [resume] at hreach hstle
            omega
        have hstl : s.start c.strat cfg.batch ≤ a + n := by omega
        obtain ⟨r, hstep⟩ := poll_going_sync cfg hg.replay pid .next c s (a + n) hc hb (by omega) hbatch hstl
          (by omega) hm.auto hm.not_polling (Or.inl hlag)
        rw [hstep]
        simp only [Nat.add_sub_cancel]
        have h2 := poll_going_obs_yield cfg hg.replay pid .next
          { c with curPart := pid, stored := c.stored.set pid (a + n) } { s with stored := some (a + n) }
          (a + n) hc hb (by simp [hst, Srv.start, resume]) (by simp [hst, Srv.start, resume]; omega)
        obtain ⟨r', h2⟩ := h2
        exact ⟨r, _, r', rfl, h2⟩
      · obtain ⟨_, _, so, hso', hle⟩ := hP trivial trivial hpol
        rw [hstart, hso'] at hreach
        simp only [resume] at hreach
        omega

theorem no_stall_reach (hg : Good cfg .next) (hm : ConsumeMode cfg ∨ cfg.polling = true)
    {sys : Sys} {tr : List Obs} (hr : Reach cfg pid .next srv0 sys tr)
    (hp : sys.1.pending = []) (hb : sys.1.buffered = []) (hw : wanted pid sys < sys.2.len) :
    Obs.yield ⟨pid, msgAt (wanted pid sys)⟩ ∈ (run cfg pid .next sys [.poll, .poll]).2 := by
  have h := hr.inv (rew := false) hg
  simp only [run, List.append_nil]
  rcases no_stall_inv hg hm h hp hb hw with ⟨r, e⟩ | ⟨r, b', r', e1, e2⟩
  · rw [e]; simp
  · rw [e1, e2]; simp
/-- before the first yield of an incarnation the only event that yields is a poll, and it yields the
first message that poll asked for -/
theorem fresh_step_yield (hg : Good cfg strat0) (c : Cons) (s : Srv)
    (hc : c.consumed = []) (hb : c.buffered = []) (hp : c.pending = []) (hs : c.stored = [])
    (hst : c.strat = strat0) (e : Ev) (y : Yield) (hy : Obs.yield y ∈ (step cfg pid strat0 (c, s) e).2) :
    e = .poll ∧ y = ⟨pid, msgAt (firstOff strat0 s.stored)⟩ := by
  cases e with
  | pop => simp [step, pop_nil cfg c hb] at hy
  | deliver => simp [step, hp] at hy
  | tick =>
    by_cases hi : cfg.interval <;> simp [step, hi, hc, storeMany] at hy
  | append k => simp [step] at hy
  | drop => simp [step, hp] at hy
  | poll =>
    refine ⟨rfl, ?_⟩
    rw [step_poll cfg pid strat0 c s hb _ _ rfl rfl, hst, start_fresh hg] at hy
    generalize hst' : firstOff strat0 s.stored = st at hy
    generalize hk : min (st + cfg.batch) s.len - st = k at hy
    cases k with
    | zero => simp [onReply_empty, onPolled_nil] at hy
    | succ k =>
      have hne : (List.range' st (k + 1)).map msgAt ≠ [] := by simp
      simp only [onReply_fresh cfg c ⟨pid, s.len - 1, (List.range' st (k + 1)).map msgAt⟩ hc hs hne] at hy
      have hcons : (List.range' st (k + 1)).map msgAt = msgAt st :: (List.range' (st + 1) k).map msgAt := by
        rw [List.range'_succ, List.map_cons]
      simp only [onPolled_cons cfg _ ⟨pid, s.len - 1, (List.range' st (k + 1)).map msgAt⟩ _ _ hcons] at hy
      simpa using hy

theorem lastYield_none_fresh {sys : Sys} {tr : List Obs} (h : Inv rew cfg pid strat0 srv0 sys tr)
    (hl : lastYield tr = none) :
    sys.1.consumed = [] ∧ sys.1.buffered = [] ∧ sys.1.pending = [] ∧ sys.1.stored = [] ∧ sys.1.strat = strat0 := by
  cases h.phase with
  | fresh hi hc hb hp hs hst => exact ⟨hc, hb, hp, hs, hst⟩
  | going a n b hi _ _ _ _ _ _ _ _ _ => rw [lastYield_going hi] at hl; cases hl

theorem first_yield_state (hg : Good cfg strat0) {sys : Sys} {tr : List Obs}
    (hr : Reach cfg pid strat0 srv0 sys tr) (hl : lastYield tr = none) (e : Ev) (y : Yield)
    (hy : Obs.yield y ∈ (step cfg pid strat0 sys e).2) :
    e = .poll ∧ y = ⟨pid, msgAt (firstOff strat0 sys.2.stored)⟩ := by
  obtain ⟨hc, hb, hp, hs, hst⟩ := lastYield_none_fresh (hr.inv (rew := false) hg) hl
  obtain ⟨c, s⟩ := sys
  exact fresh_step_yield hg c s hc hb hp hs hst e y hy
end Iggy.Sdk
