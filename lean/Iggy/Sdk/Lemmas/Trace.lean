/- C20 helpers: reading traces, `Always` -/
import Iggy.Sdk.Spec
namespace Iggy.Sdk

/-! ## traces -/

@[simp] theorem yieldsOf_nil : yieldsOf [] = [] := rfl
@[simp] theorem yieldsOf_append (a b : List Obs) : yieldsOf (a ++ b) = yieldsOf a ++ yieldsOf b := by
  simp [yieldsOf]
@[simp] theorem yieldsOf_cons_yield (y : Yield) (t : List Obs) : yieldsOf (.yield y :: t) = y :: yieldsOf t := by
  simp [yieldsOf]
@[simp] theorem yieldsOf_cons_polled (b r) (t : List Obs) : yieldsOf (.polled b r :: t) = yieldsOf t := by
  simp [yieldsOf]
@[simp] theorem yieldsOf_cons_store (o k) (t : List Obs) : yieldsOf (.store o k :: t) = yieldsOf t := by
  simp [yieldsOf]
@[simp] theorem yieldsOf_cons_dropped (t : List Obs) : yieldsOf (.dropped :: t) = yieldsOf t := by
  simp [yieldsOf]

@[simp] theorem offsOf_nil : offsOf [] = [] := rfl
@[simp] theorem offsOf_append (a b : List Obs) : offsOf (a ++ b) = offsOf a ++ offsOf b := by
  simp [offsOf]
@[simp] theorem offsOf_cons_yield (y : Yield) (t : List Obs) : offsOf (.yield y :: t) = y.msg.off :: offsOf t := by
  simp [offsOf]
@[simp] theorem offsOf_cons_polled (b r) (t : List Obs) : offsOf (.polled b r :: t) = offsOf t := by
  simp [offsOf]
@[simp] theorem offsOf_cons_store (o k) (t : List Obs) : offsOf (.store o k :: t) = offsOf t := by
  simp [offsOf]
@[simp] theorem offsOf_cons_dropped (t : List Obs) : offsOf (.dropped :: t) = offsOf t := by
  simp [offsOf]

@[simp] theorem fetchedOf_nil : fetchedOf [] = [] := rfl
@[simp] theorem fetchedOf_append (a b : List Obs) : fetchedOf (a ++ b) = fetchedOf a ++ fetchedOf b := by
  simp [fetchedOf]
@[simp] theorem fetchedOf_cons_yield (y : Yield) (t : List Obs) : fetchedOf (.yield y :: t) = fetchedOf t := by
  simp [fetchedOf]
@[simp] theorem fetchedOf_cons_polled (b r) (t : List Obs) :
    fetchedOf (.polled b r :: t) = r.map (·.off) ++ fetchedOf t := by
  simp [fetchedOf]
@[simp] theorem fetchedOf_cons_store (o k) (t : List Obs) : fetchedOf (.store o k :: t) = fetchedOf t := by
  simp [fetchedOf]
@[simp] theorem fetchedOf_cons_dropped (t : List Obs) : fetchedOf (.dropped :: t) = fetchedOf t := by
  simp [fetchedOf]

theorem snoc_ind {α : Type} {P : List α → Prop} (nil : P []) (snoc : ∀ l a, P l → P (l ++ [a])) :
    ∀ l, P l := by
  intro l
  rw [← List.reverse_reverse l]
  generalize l.reverse = r
  induction r with
  | nil => exact nil
  | cons a r ih => simpa using snoc _ a ih

theorem incFold_snoc (tr : List Obs) (o : Obs) :
    incFold (tr ++ [o]) = if o = .dropped then (pastIncs tr ++ [curInc tr], []) else (pastIncs tr, curInc tr ++ [o]) := by
  simp [incFold, pastIncs, curInc, List.foldl_append]

@[simp] theorem curInc_nil : curInc [] = [] := rfl
@[simp] theorem pastIncs_nil : pastIncs [] = [] := rfl
@[simp] theorem curInc_snoc_dropped (tr : List Obs) : curInc (tr ++ [.dropped]) = [] := by
  simp [curInc, incFold_snoc]
@[simp] theorem pastIncs_snoc_dropped (tr : List Obs) : pastIncs (tr ++ [.dropped]) = pastIncs tr ++ [curInc tr] := by
  simp [pastIncs, incFold_snoc]

theorem curInc_append (tr new : List Obs) (h : Obs.dropped ∉ new) : curInc (tr ++ new) = curInc tr ++ new := by
  induction new using snoc_ind with
  | nil => simp
  | snoc new o ih =>
    have ho : o ≠ .dropped := by intro e; subst e; simp at h
    have hn : Obs.dropped ∉ new := by intro e; exact h (by simp [e])
    rw [← List.append_assoc]
    show (incFold (tr ++ new ++ [o])).2 = _
    rw [incFold_snoc]
    simp only [ho, ↓reduceIte, ih hn, List.append_assoc]

theorem pastIncs_append (tr new : List Obs) (h : Obs.dropped ∉ new) : pastIncs (tr ++ new) = pastIncs tr := by
  induction new using snoc_ind with
  | nil => simp
  | snoc new o ih =>
    have ho : o ≠ .dropped := by intro e; subst e; simp at h
    have hn : Obs.dropped ∉ new := by intro e; exact h (by simp [e])
    rw [← List.append_assoc]
    show (incFold (tr ++ new ++ [o])).1 = _
    rw [incFold_snoc]
    simp only [ho, ↓reduceIte, ih hn]

/-- what the current incarnation yielded was yielded -/
theorem offsOf_curInc_sub (tr : List Obs) : ∀ o ∈ offsOf (curInc tr), o ∈ offsOf tr := by
  induction tr using snoc_ind with
  | nil => simp
  | snoc tr x ih =>
    by_cases hx : x = .dropped
    · subst hx; simp
    · rw [curInc_append tr [x] (by simpa using fun e => hx e.symm)]
      intro o ho
      simp only [offsOf_append, List.mem_append] at ho ⊢
      rcases ho with ho | ho
      · exact Or.inl (ih o ho)
      · exact Or.inr ho

/-! ## `Always` -/

theorem Always.nil (P : List Obs → Obs → Prop) : Always P [] := by
  intro pre x post h; simp at h

theorem Always.append {P : List Obs → Obs → Prop} {tr new : List Obs}
    (h : Always P tr) (hn : Always (fun pre x => P (tr ++ pre) x) new) : Always P (tr ++ new) := by
  intro pre x post e
  rcases List.append_eq_append_iff.mp e with ⟨a', h1, h2⟩ | ⟨c', h1, h2⟩
  · -- pre = tr ++ a'
    subst h1
    exact hn a' x post h2
  · -- tr = pre ++ c'
    cases c' with
    | nil =>
      simp at h1 h2; subst h1
      exact (by simpa using hn [] x post h2.symm)
    | cons y c' =>
      simp at h2
      obtain ⟨rfl, rfl⟩ := h2
      exact h pre x c' h1

theorem Always.one {P : List Obs → Obs → Prop} {x : Obs} (h : P [] x) : Always P [x] := by
  intro pre y post e
  cases pre with
  | nil => simp at e; obtain ⟨rfl, _⟩ := e; exact h
  | cons a pre => simp at e

theorem Always.cons {P : List Obs → Obs → Prop} {x : Obs} {xs : List Obs}
    (h : P [] x) (hs : Always (fun pre y => P (x :: pre) y) xs) : Always P (x :: xs) := by
  intro pre y post e
  cases pre with
  | nil => simp at e; obtain ⟨rfl, _⟩ := e; exact h
  | cons a pre =>
    simp at e
    obtain ⟨rfl, e⟩ := e
    exact hs pre y post e

theorem Always.mono {P Q : List Obs → Obs → Prop} {tr : List Obs} (h : Always P tr)
    (hpq : ∀ pre x, P pre x → Q pre x) : Always Q tr :=
  fun pre x post e => hpq pre x (h pre x post e)

end Iggy.Sdk
