/- C20 helpers: the invariant of the composed system -/
import Iggy.Sdk.Lemmas.Trace
import Iggy.Sdk.Lemmas.Prim
namespace Iggy.Sdk

/-- the strategy the consumer holds: `next` stays; `offset` follows the last consumed message -/
def StratOK (strat0 : Strat) (c : Cons) (a l b : Nat) : Prop :=
  match strat0 with
  | .next => c.strat = .next
  | .offset k => a = k ∧ ∃ j, c.strat = .offset j ∧ (b = 0 → j = l + 1)
  | _ => False

/-- (consume modes) the client's `last_stored_offsets` entry is what the server holds, unless this
incarnation has not stored anything yet; and offset 0, once consumed, is on its way to the server -/
def CInv (cfg : CCfg) (pid : Nat) (c : Cons) (s : Srv) (l b : Nat) : Prop :=
  ∃ v, c.stored = [(pid, v)] ∧
    ((v = 0 ∧ (l = 0 → (pid, 0) ∈ c.pending ∨ (cfg.mode = .all ∧ b ≠ 0))) ∨ s.stored = some v)

/-- (polling mode) the server's offset is within one batch of the end of the buffer -/
def PInv (cfg : CCfg) (c : Cons) (s : Srv) (l b : Nat) : Prop :=
  c.pending = [] ∧ b < cfg.batch ∧ ∃ so, s.stored = some so ∧ l + b + 1 ≤ so + cfg.batch

/-- the consumer within an incarnation that has yielded the offsets `inc`:
`fresh`: nothing yielded, nothing held; `going a n b`: it yielded `a .. a+n`, remembers `a+n` as consumed,
buffers the next `b` messages, all of which the server has; with `next` the server's stored offset is
not ahead of the buffer; what waits in the channel was yielded by this incarnation.
`rew`: the stored offset may be moved back behind the consumer's back (`Iggy/Sdk/Rewind.lean`); the facts
that tie the server's stored offset to what this client did (`hC`, `hP`) hold in the world without rewinds. -/
inductive Phase (rew : Bool) (cfg : CCfg) (pid : Nat) (strat0 : Strat) (c : Cons) (s : Srv) (inc : List Nat) : Prop
  | fresh (hi : inc = []) (hc : c.consumed = []) (hb : c.buffered = []) (hp : c.pending = [])
      (hs : c.stored = []) (hst : c.strat = strat0)
  | going (a n b : Nat) (hi : inc = List.range' a (n + 1)) (hc : c.consumed = [(pid, a + n)])
      (hcp : c.curPart = pid) (hb : c.buffered = (List.range' (a + n + 1) b).map msgAt)
      (hlen : a + n + b < s.len)
      (hso : strat0 = .next → ∀ so, s.stored = some so → so ≤ a + n + b)
      (hst : StratOK strat0 c a (a + n) b)
      (hp : ∀ e ∈ c.pending, e.1 = pid ∧ e.2 ∈ inc)
      (hC : rew = false → strat0 = .next → ConsumeMode cfg → CInv cfg pid c s (a + n) b)
      (hP : rew = false → strat0 = .next → cfg.polling = true → PInv cfg c s (a + n) b)

/-- (also with rewinds; outside polling mode) the offset a poll finds stored on the server is not beyond
the initial one, or not beyond one the consumer yielded -/
def PolledBelow (cfg : CCfg) (srv0 : Srv) (pre : List Obs) (x : Obs) : Prop :=
  ∀ b r, x = .polled b r → cfg.polling = false →
    resume b ≤ resume srv0.stored ∨ ∃ o ∈ offsOf pre, resume b ≤ o + 1

/-- the part of the invariant that reads the trace (`rew = false`: nobody else moves the stored offset, so
it is the initial one or one this consumer committed) -/
structure GInv (rew : Bool) (cfg : CCfg) (pid : Nat) (strat0 : Strat) (srv0 : Srv) (buf : List PMsg) (s : Srv)
    (tr : List Obs) : Prop where
  genuine : ∀ y ∈ yieldsOf tr, y.pid = pid ∧ y.msg = msgAt y.msg.off ∧ y.msg.off < s.len
  yFetched : ∀ o ∈ offsOf tr, o ∈ fetchedOf tr
  bFetched : ∀ m ∈ buf, m.off ∈ fetchedOf tr
  srvFetched : rew = false → s.stored = srv0.stored ∨ ∃ o, s.stored = some o ∧ o ∈ fetchedOf tr
  srvYielded : rew = false → cfg.polling = false → s.stored = srv0.stored ∨ ∃ o, s.stored = some o ∧ o ∈ offsOf tr
  srvBelow : cfg.polling = false → resume s.stored ≤ resume srv0.stored ∨ ∃ o ∈ offsOf tr, resume s.stored ≤ o + 1
  polledBelow : Always (PolledBelow cfg srv0) tr
  yieldOK : Always (YieldOK pid strat0) tr
  storeOK : Always StoreOK tr
  polledOK : rew = false → Always (PolledOK cfg srv0) tr
  past : ∀ inc ∈ pastIncs tr, ∃ a, offsOf inc = List.range' a (offsOf inc).length

structure Inv (rew : Bool) (cfg : CCfg) (pid : Nat) (strat0 : Strat) (srv0 : Srv) (sys : Sys) (tr : List Obs) : Prop where
  phase : Phase rew cfg pid strat0 sys.1 sys.2 (offsOf (curInc tr))
  g : GInv rew cfg pid strat0 srv0 sys.1.buffered sys.2 tr

variable {rew : Bool} {cfg : CCfg} {pid : Nat} {strat0 : Strat} {srv0 : Srv}

theorem range'_snoc (a n : Nat) : List.range' a (n + 1) = List.range' a n ++ [a + n] := by
  rw [List.range'_concat]; simp

theorem getLast?_range' (a n : Nat) : (List.range' a (n + 1)).getLast? = some (a + n) := by
  rw [range'_snoc]; simp

theorem curInc_snoc (tr : List Obs) (o : Obs) (h : o ≠ .dropped) : curInc (tr ++ [o]) = curInc tr ++ [o] :=
  curInc_append tr [o] (by simpa using fun e => h e.symm)

theorem pastIncs_snoc (tr : List Obs) (o : Obs) (h : o ≠ .dropped) : pastIncs (tr ++ [o]) = pastIncs tr :=
  pastIncs_append tr [o] (by simpa using fun e => h e.symm)

theorem GInv.init : GInv rew cfg pid strat0 srv0 [] srv0 [] where
  genuine := by simp
  yFetched := by simp
  bFetched := by simp
  srvFetched := fun _ => Or.inl rfl
  srvYielded := fun _ _ => Or.inl rfl
  srvBelow := fun _ => Or.inl (Nat.le_refl _)
  polledBelow := Always.nil _
  yieldOK := Always.nil _
  storeOK := Always.nil _
  polledOK := fun _ => Always.nil _
  past := by simp

/-- a yield -/
theorem GInv.yield {buf buf' : List PMsg} {s : Srv} {tr : List Obs} (h : GInv rew cfg pid strat0 srv0 buf s tr)
    (y : Yield) (h1 : y.pid = pid) (h2 : y.msg = msgAt y.msg.off) (h3 : y.msg.off < s.len)
    (h4 : y.msg.off ∈ fetchedOf tr) (hb : ∀ m ∈ buf', m.off ∈ fetchedOf tr)
    (h5 : match lastYield tr with
      | some l => y.msg.off = l + 1
      | none => ∃ pre' b r, tr = pre' ++ [.polled b r] ∧ y.msg.off = firstOff strat0 b) :
    GInv rew cfg pid strat0 srv0 buf' s (tr ++ [.yield y]) where
  genuine := by
    intro z hz
    simp only [yieldsOf_append, yieldsOf_cons_yield, yieldsOf_nil, List.mem_append, List.mem_singleton] at hz
    rcases hz with hz | rfl
    · exact h.genuine z hz
    · exact ⟨h1, h2, h3⟩
  yFetched := by
    intro o ho
    simp only [offsOf_append, offsOf_cons_yield, offsOf_nil, List.mem_append, List.mem_singleton] at ho
    simp only [fetchedOf_append, fetchedOf_cons_yield, fetchedOf_nil, List.append_nil]
    rcases ho with ho | rfl
    · exact h.yFetched o ho
    · exact h4
  bFetched := by simpa using hb
  srvFetched := by simpa using h.srvFetched
  srvYielded := by
    intro hrw hp
    rcases h.srvYielded hrw hp with e | ⟨o, e, ho⟩
    · exact Or.inl e
    · exact Or.inr ⟨o, e, by simp [ho]⟩
  srvBelow := by
    intro hp
    rcases h.srvBelow hp with e | ⟨o, ho, e⟩
    · exact Or.inl e
    · exact Or.inr ⟨o, by simp [ho], e⟩
  polledBelow := h.polledBelow.append (Always.one (by intro b r hz; simp at hz))
  yieldOK := h.yieldOK.append (Always.one (by
    intro z hz
    simp only [Obs.yield.injEq] at hz; subst hz
    simp only [List.append_nil]
    exact ⟨h1, h2, h5⟩))
  storeOK := h.storeOK.append (Always.one (by intro o ok hz; simp at hz))
  polledOK := fun hrw => (h.polledOK hrw).append (Always.one (by intro b r hz; simp at hz))
  past := by rw [pastIncs_snoc _ _ (by simp)]; exact h.past

/-- a store request for a yielded offset reaches the server -/
theorem GInv.store {buf : List PMsg} {s : Srv} {tr : List Obs} (h : GInv rew cfg pid strat0 srv0 buf s tr)
    (o : Nat) (ho : o ∈ offsOf tr) :
    GInv rew cfg pid strat0 srv0 buf { s with stored := some o } (tr ++ [.store o true]) where
  genuine := by simpa using h.genuine
  yFetched := by simpa using h.yFetched
  bFetched := by simpa using h.bFetched
  srvFetched := fun _ => Or.inr ⟨o, rfl, by simpa using h.yFetched o ho⟩
  srvYielded := fun _ _ => Or.inr ⟨o, rfl, by simpa using ho⟩
  srvBelow := fun _ => Or.inr ⟨o, by simpa using ho, by simp [resume]⟩
  polledBelow := h.polledBelow.append (Always.one (by intro b r hz; simp at hz))
  yieldOK := h.yieldOK.append (Always.one (by intro z hz; simp at hz))
  storeOK := h.storeOK.append (Always.one (by
    intro o' ok hz
    simp only [Obs.store.injEq] at hz
    obtain ⟨rfl, rfl⟩ := hz
    exact ⟨rfl, by simpa using ho⟩))
  polledOK := fun hrw => (h.polledOK hrw).append (Always.one (by intro b r hz; simp at hz))
  past := by rw [pastIncs_snoc _ _ (by simp)]; exact h.past

/-- a poll reaches the server; with auto-commit the server stores the last offset it returns -/
theorem GInv.polled {buf : List PMsg} {s s' : Srv} {tr : List Obs} (h : GInv rew cfg pid strat0 srv0 buf s tr)
    (r : List PMsg) (hlen : s'.len = s.len)
    (hst : s'.stored = s.stored ∨ (cfg.polling = true ∧ ∃ m ∈ r, s'.stored = some m.off)) :
    GInv rew cfg pid strat0 srv0 buf s' (tr ++ [.polled s.stored r]) where
  genuine := by simpa [hlen] using h.genuine
  yFetched := by
    intro o ho
    have := h.yFetched o (by simpa using ho)
    simp [this]
  bFetched := by
    intro m hm
    have := h.bFetched m hm
    simp [this]
  srvFetched := by
    intro hrw
    rcases hst with e | ⟨_, m, hm, e⟩
    · rw [e]
      rcases h.srvFetched hrw with e' | ⟨o, e', ho⟩
      · exact Or.inl e'
      · exact Or.inr ⟨o, e', by simp [ho]⟩
    · exact Or.inr ⟨m.off, e, by simp; exact Or.inr ⟨m, hm, rfl⟩⟩
  srvYielded := by
    intro hrw hp
    rcases hst with e | ⟨hp', _⟩
    · rw [e]; simpa using h.srvYielded hrw hp
    · rw [hp] at hp'; cases hp'
  srvBelow := by
    intro hp
    rcases hst with e | ⟨hp', _⟩
    · rw [e]; simpa using h.srvBelow hp
    · rw [hp] at hp'; cases hp'
  polledBelow := h.polledBelow.append (Always.one (by
    intro b r' hz hp
    simp only [Obs.polled.injEq] at hz
    obtain ⟨rfl, rfl⟩ := hz
    simp only [List.append_nil]
    exact h.srvBelow hp))
  yieldOK := h.yieldOK.append (Always.one (by intro z hz; simp at hz))
  storeOK := h.storeOK.append (Always.one (by intro o ok hz; simp at hz))
  polledOK := fun hrw => (h.polledOK hrw).append (Always.one (by
    intro b r' hz
    simp only [Obs.polled.injEq] at hz
    obtain ⟨rfl, rfl⟩ := hz
    simp only [List.append_nil]
    refine ⟨?_, fun hp => ?_⟩
    · rcases h.srvFetched hrw with e | ⟨o, e, ho⟩
      · exact Or.inl e
      · exact Or.inr ⟨o, ho, e⟩
    · rcases h.srvYielded hrw hp with e | ⟨o, e, ho⟩
      · exact Or.inl e
      · exact Or.inr ⟨o, ho, e⟩))
  past := by rw [pastIncs_snoc _ _ (by simp)]; exact h.past

theorem GInv.len {buf : List PMsg} {s : Srv} {tr : List Obs} (h : GInv rew cfg pid strat0 srv0 buf s tr) (k : Nat) :
    GInv rew cfg pid strat0 srv0 buf { s with len := s.len + k } tr := by
  have hgen : ∀ y ∈ yieldsOf tr, y.pid = pid ∧ y.msg = msgAt y.msg.off ∧ y.msg.off < s.len + k := by
    intro y hy
    obtain ⟨h1, h2, h3⟩ := h.genuine y hy
    exact ⟨h1, h2, by omega⟩
  exact { h with genuine := hgen }

theorem GInv.buf {buf buf' : List PMsg} {s : Srv} {tr : List Obs} (h : GInv rew cfg pid strat0 srv0 buf s tr)
    (hb : ∀ m ∈ buf', m.off ∈ fetchedOf tr) : GInv rew cfg pid strat0 srv0 buf' s tr :=
  { h with bFetched := hb }

theorem Inv.init : Inv rew cfg pid strat0 srv0 (Cons.new strat0, srv0) [] where
  phase := .fresh rfl rfl rfl rfl rfl rfl
  g := GInv.init

theorem Inv.append (h : Inv rew cfg pid strat0 srv0 sys tr) (k : Nat) :
    Inv rew cfg pid strat0 srv0 (step cfg pid strat0 sys (.append k)).1 (tr ++ (step cfg pid strat0 sys (.append k)).2) := by
  obtain ⟨c, s⟩ := sys
  simp only [step, List.append_nil]
  refine ⟨?_, h.g.len k⟩
  cases h.phase with
  | fresh hi hc hb hp hs hst => exact .fresh hi hc hb hp hs hst
  | going a n b hi hc hcp hb hlen hso hst hp hC hP =>
    exact .going a n b hi hc hcp hb (by simp at hlen ⊢; omega) hso hst hp hC hP

theorem Inv.drop (h : Inv rew cfg pid strat0 srv0 sys tr) :
    Inv rew cfg pid strat0 srv0 (step cfg pid strat0 sys .drop).1 (tr ++ (step cfg pid strat0 sys .drop).2) := by
  obtain ⟨c, s⟩ := sys
  simp only [step]
  by_cases hp : c.pending.isEmpty
  · simp only [hp, ↓reduceIte]
    refine ⟨?_, ?_⟩
    · simp only [curInc_snoc_dropped]
      exact .fresh rfl rfl rfl rfl rfl rfl
    · have hg := h.g
      exact {
        genuine := by simpa using hg.genuine
        yFetched := by simpa using hg.yFetched
        bFetched := by simp [Cons.new]
        srvFetched := by simpa using hg.srvFetched
        srvYielded := by simpa using hg.srvYielded
        srvBelow := by simpa using hg.srvBelow
        polledBelow := hg.polledBelow.append (Always.one (by intro b r hy; simp at hy))
        yieldOK := hg.yieldOK.append (Always.one (by intro y hy; simp at hy))
        storeOK := hg.storeOK.append (Always.one (by intro y ok hy; simp at hy))
        polledOK := fun hrw => (hg.polledOK hrw).append (Always.one (by intro b r hy; simp at hy))
        past := by
          intro inc hinc
          simp only [pastIncs_snoc_dropped, List.mem_append, List.mem_singleton] at hinc
          rcases hinc with hinc | rfl
          · exact hg.past inc hinc
          · cases h.phase with
            | fresh hi _ _ _ _ _ => exact ⟨0, by rw [hi]; simp⟩
            | going a n b hi _ _ _ _ _ _ _ _ _ => exact ⟨a, by rw [hi]; simp⟩ }
  · simp only [hp, Bool.false_eq_true, ↓reduceIte, List.append_nil]
    exact h

end Iggy.Sdk
