/-
Model of the SDK's high-level clients (sdk/src/clients/producer.rs, consumer.rs).
Producer: which requests a call turns into (addressing, partitioning, chunking).
Consumer: the client-side cursor / commit state machine, split at its real seams:
  `onReply`   = the post-processing inside `create_poll_messages_future` (l.569-713),
  `onPolled`  = `poll_next` handling a completed poll (l.845-930),
  `pop`       = `poll_next` serving a buffered message (l.811-843),
  `deliver`   = the background task that drains the store-offset channel (init, l.347-363),
  `tick`      = `store_offsets_in_background` (interval commit),
  `storeReq`/`storeAck` = `store_consumer_offset` (l.372-411).
The server is a parameter: a poll reply is an input. No imports outside core (linked into the judge).
-/
namespace Iggy.Sdk

/-! ## producer -/

structure PCfg (Id Part : Type) where
  stream : Id
  topic : Id
  batch : Option Nat          -- `batch_size`
  interval : Bool             -- a send interval is configured (`can_send_immediately = false`)
  partitioning : Option Part  -- the builder's partitioning
  dflt : Part                 -- `Partitioning::balanced()`

inductive Call (Id Part M : Type)
  | send (msgs : List M)
  | sendOne (m : M)
  | sendWithPartitioning (msgs : List M) (p : Option Part)
  | sendTo (stream topic : Id) (msgs : List M) (p : Option Part)

structure Request (Id Part M : Type) where
  stream : Id
  topic : Id
  part : Part
  msgs : List M

def MAX_BATCH_SIZE : Nat := 1000000

/-- `chunks(n)`; `n = 0` cannot happen (`batch_size` 0 is stored as `None`) -/
def chunks {α : Type} (n : Nat) (l : List α) : List (List α) :=
  if h : n = 0 ∨ l = [] then (if l.isEmpty then [] else [l]) else
  l.take n :: chunks n (l.drop n)
termination_by l.length
decreasing_by
  simp only [List.length_drop]
  have : l.length ≠ 0 := by
    intro h0; exact h (Or.inr (List.length_eq_zero_iff.mp h0))
  omega

variable {Id Part M : Type}

/-- `send_immediately` / `send_buffered`: both chunk by `batch_size` and address every chunk to the
stream and topic they were given -/
def PCfg.path (c : PCfg Id Part) (s t : Id) (msgs : List M) (p : Option Part) : List (Request Id Part M) :=
  if msgs.isEmpty then [] else
  let part := p.getD (c.partitioning.getD c.dflt)
  (chunks (c.batch.getD MAX_BATCH_SIZE) msgs).map (fun ch => ⟨s, t, part, ch⟩)

/-- the requests one call of the producer turns into, in order (empty input: nothing is sent) -/
def PCfg.requests (c : PCfg Id Part) : Call Id Part M → List (Request Id Part M)
  | .send msgs => c.path c.stream c.topic msgs none
  | .sendOne m => c.path c.stream c.topic [m] none
  | .sendWithPartitioning msgs p => c.path c.stream c.topic msgs p
  | .sendTo s t msgs p => c.path s t msgs p

/-! ## consumer -/

inductive Mode
  | disabled | polling | each | nth (n : Nat) | all
deriving Repr, DecidableEq

inductive Strat
  | next | offset (k : Nat) | first | last | timestamp (t : Nat)
deriving Repr, DecidableEq

structure CCfg where
  batch : Nat
  mode : Mode
  /-- a background task also stores the consumed offsets periodically (`AutoCommit::Interval…`) -/
  interval : Bool := false
  replay : Bool := false
deriving Repr

def CCfg.autoCommitEnabled (c : CCfg) : Bool := c.mode ≠ .disabled || c.interval
def CCfg.polling (c : CCfg) : Bool := c.mode = .polling
def CCfg.eachMsg (c : CCfg) : Bool := c.mode = .each
def CCfg.afterAll (c : CCfg) : Bool := c.mode = .all
def CCfg.nth (c : CCfg) : Nat := match c.mode with | .nth n => n | _ => 0

structure PMsg where
  off : Nat
  id : Nat
deriving Repr, DecidableEq

structure Reply where
  pid : Nat
  cur : Nat
  msgs : List PMsg
deriving Repr

abbrev OffMap := List (Nat × Nat)

def OffMap.get? (m : OffMap) (k : Nat) : Option Nat := (m.find? (fun e => e.1 == k)).map (·.2)
def OffMap.set (m : OffMap) (k v : Nat) : OffMap :=
  if m.any (fun e => e.1 == k) then m.map (fun e => if e.1 == k then (k, v) else e) else m ++ [(k, v)]

structure Cons where
  strat : Strat
  buffered : List PMsg := []
  curPart : Nat := 0
  /-- `last_consumed_offsets` -/
  consumed : OffMap := []
  /-- `last_stored_offsets` (what this client believes the server holds) -/
  stored : OffMap := []
  /-- the store-offset channel, oldest first -/
  pending : List (Nat × Nat) := []
deriving Repr

def Cons.new (s : Strat) : Cons := { strat := s }

/-- a request to the server to store an offset, made synchronously inside the poll future -/
abbrev SyncCommit := Option (Nat × Nat)

/-- `create_poll_messages_future` after the reply arrived. Returns the new state, the reply handed to
`poll_next`, and the offset committed synchronously (the "no new messages" branch). -/
def Cons.onReply (cfg : CCfg) (c : Cons) (r : Reply) : Cons × Reply × SyncCommit :=
  if r.msgs.isEmpty then (c, r, none) else
  let pid := r.pid
  let (has, consumedOff, c) := match c.consumed.get? pid with
    | some o => (true, o, c)
    | none => (false, 0, { c with consumed := c.consumed.set pid 0 })
  let msgs := if !cfg.replay && has then r.msgs.filter (fun m => m.off > consumedOff) else r.msgs
  if !cfg.replay && has && msgs.isEmpty then
    -- everything returned was consumed already: the stored offset lags behind; store the consumed one
    -- (fix: without it the next poll returns the same messages and the consumer never advances)
    -- (fix: with `next` the reply itself shows the lag, whatever this client stored before - another
    -- member of the group may have stored an older offset since)
    if cfg.autoCommitEnabled && !cfg.polling && ((c.stored.get? pid).getD 0 < consumedOff || c.strat == .next) then
      ({ c with stored := c.stored.set pid consumedOff }, { r with msgs := [] }, some (pid, consumedOff))
    else (c, { r with msgs := [] }, none)
  else
  let (storedOff, c) := match c.stored.get? pid with
    | some s => if cfg.polling then (consumedOff, { c with stored := c.stored.set pid consumedOff }) else (s, c)
    | none =>
      let s := if cfg.polling then consumedOff else 0
      (s, { c with stored := c.stored.set pid s })
  if !cfg.replay && has && r.cur == consumedOff then
    if cfg.autoCommitEnabled && storedOff < consumedOff then
      ({ c with stored := c.stored.set pid consumedOff }, { r with msgs := [] }, some (pid, consumedOff))
    else (c, { r with msgs := [] }, none)
  else (c, { r with msgs := msgs }, none)

structure Yield where
  pid : Nat
  msg : PMsg
deriving Repr, DecidableEq

/-- `poll_next` with a completed poll: `none` = empty reply, poll again -/
def Cons.onPolled (cfg : CCfg) (c : Cons) (r : Reply) : Cons × Option Yield :=
  let c := { c with curPart := r.pid }
  match r.msgs with
  | [] => (c, none)
  | m :: rest =>
    let c := { c with buffered := c.buffered ++ rest }
    let c := match c.strat with
      | .offset _ => { c with strat := .offset (m.off + 1) }
      | _ => c
    let c := { c with consumed := c.consumed.set r.pid m.off }
    let commit := (cfg.nth > 0 && m.off % cfg.nth == 0) || cfg.eachMsg || (cfg.afterAll && c.buffered.isEmpty)
    let c := if commit then { c with pending := c.pending ++ [(r.pid, m.off)] } else c
    (c, some ⟨r.pid, m⟩)

/-- `poll_next` with a buffered message -/
def Cons.pop (cfg : CCfg) (c : Cons) : Option (Cons × Yield) :=
  match c.buffered with
  | [] => none
  | m :: rest =>
    let pid := c.curPart
    let c := { c with buffered := rest, consumed := c.consumed.set pid m.off }
    let c := if (cfg.nth > 0 && m.off % cfg.nth == 0) || cfg.eachMsg
      then { c with pending := c.pending ++ [(pid, m.off)] } else c
    let c := if rest.isEmpty then
        let c := match c.strat with
          | .offset _ => { c with strat := .offset (m.off + 1) }
          | _ => c
        if cfg.afterAll then { c with pending := c.pending ++ [(pid, m.off)] } else c
      else c
    some (c, ⟨pid, m⟩)

/-- `store_consumer_offset` up to the request: does it go to the server? (`allowReplay` is the
function's last argument: `false` from the background tasks, the consumer's setting from `store_offset`) -/
def Cons.storeReq (c : Cons) (pid off : Nat) (allowReplay : Bool) : Cons × Bool :=
  let (storedOff, c) := match c.stored.get? pid with
    | some s => (s, c)
    | none => (0, { c with stored := c.stored.set pid 0 })
  if !allowReplay && (off ≤ storedOff && off ≥ 1) then (c, false) else (c, true)

/-- the server accepted the offset -/
def Cons.storeAck (c : Cons) (pid off : Nat) : Cons := { c with stored := c.stored.set pid off }

end Iggy.Sdk
