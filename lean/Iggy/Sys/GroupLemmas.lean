/-
Helper lemmas about consumer groups (Iggy/Sys/Model.lean: `assignShares`, `Group.*`, `Member.calc`)
used by property C08 (Iggy/Props/C08.lean).
-/
import Iggy.Sys.Model
import Iggy.Log.SpecRun
namespace Iggy.Sys

/-! ## arithmetic -/

theorem succ_div_mod (n m : Nat) (hm : 0 < m) :
    (n % m + 1 < m ∧ (n + 1) / m = n / m ∧ (n + 1) % m = n % m + 1) ∨
    (n % m + 1 = m ∧ (n + 1) / m = n / m + 1 ∧ (n + 1) % m = 0) := by
  have h1 := Nat.mod_lt n hm
  have h2 := Nat.div_add_mod n m
  by_cases h : n % m + 1 < m
  · left; refine ⟨h, ?_⟩
    exact (Nat.div_mod_unique hm).mpr ⟨by omega, h⟩
  · right
    have h3 : n % m + 1 = m := by omega
    refine ⟨h3, ?_⟩
    exact (Nat.div_mod_unique hm).mpr ⟨by rw [Nat.mul_add]; omega, hm⟩

/-! ## the share of position `j` among `m` members -/

/-- the share of the member at (0-based) position `j` among `m` members: the partitions `i+1` with
`i < nparts`, `i % m = j`, ascending -/
def shareOf (nparts m j : Nat) : List Nat :=
  (List.range nparts).filterMap (fun i => if i % m = j then some (i + 1) else none)

/-- a freshly assigned member: cursor on the first partition of the share -/
def Member.fresh (id : Nat) (share : List Nat) : Member :=
  { id := id, share := share, idx := if share.isEmpty then none else some 0, cur := share.head? }

theorem mem_shareOf {n m j p : Nat} : p ∈ shareOf n m j ↔ ∃ i, i < n ∧ i % m = j ∧ p = i + 1 := by
  unfold shareOf
  simp only [List.mem_filterMap, List.mem_range]
  constructor
  · rintro ⟨i, hi, h⟩
    split at h
    · rename_i hj; exact ⟨i, hi, hj, by cases h; rfl⟩
    · cases h
  · rintro ⟨i, hi, hj, rfl⟩
    exact ⟨i, hi, by simp [hj]⟩

theorem mem_shareOf' {n m j p : Nat} : p ∈ shareOf n m j ↔ 1 ≤ p ∧ p ≤ n ∧ (p - 1) % m = j := by
  rw [mem_shareOf]
  constructor
  · rintro ⟨i, hi, hj, rfl⟩
    exact ⟨by omega, by omega, by simpa using hj⟩
  · rintro ⟨h1, h2, h3⟩
    exact ⟨p - 1, by omega, h3, by omega⟩

theorem shareOf_succ (n m j : Nat) :
    shareOf (n + 1) m j = shareOf n m j ++ (if n % m = j then [n + 1] else []) := by
  unfold shareOf
  rw [List.range_succ, List.filterMap_append]
  congr 1
  by_cases h : n % m = j <;> simp [h]

/-- size of a share: `n / m`, plus one for the first `n % m` positions -/
theorem length_shareOf (n m j : Nat) (hj : j < m) :
    (shareOf n m j).length = n / m + (if j < n % m then 1 else 0) := by
  have hm : 0 < m := by omega
  induction n with
  | zero => simp [shareOf]
  | succ n ih =>
    rw [shareOf_succ, List.length_append, ih]
    rcases succ_div_mod n m hm with ⟨h1, h2, h3⟩ | ⟨h1, h2, h3⟩
    · rw [h2, h3]
      by_cases a : n % m = j
      · simp only [a, if_true, List.length_singleton]
        rw [if_neg (by omega), if_pos (by omega)]
      · simp only [a, if_false, List.length_nil]
        by_cases b : j < n % m
        · rw [if_pos b, if_pos (by omega)]
        · rw [if_neg b, if_neg (by omega)]
    · rw [h2, h3]
      by_cases a : n % m = j
      · simp only [a, if_true, List.length_singleton]
        rw [if_neg (by omega), if_neg (by omega)]
      · simp only [a, if_false, List.length_nil]
        rw [if_pos (by omega), if_neg (by omega)]

/-! ## `assignShares` -/

theorem assignShares_eq (n : Nat) (ms : List Member) :
    assignShares n ms =
      ms.zipIdx.map (fun mj => Member.fresh mj.1.id (shareOf n ms.length mj.2)) := by
  unfold assignShares
  simp only
  split
  · rename_i h
    have : ms = [] := List.eq_nil_of_length_eq_zero h
    subst this; rfl
  · rfl

theorem length_assignShares (n : Nat) (ms : List Member) : (assignShares n ms).length = ms.length := by
  rw [assignShares_eq]; simp

theorem getElem?_assignShares (n : Nat) (ms : List Member) (j : Nat) :
    (assignShares n ms)[j]? = ms[j]?.map (fun x => Member.fresh x.id (shareOf n ms.length j)) := by
  rw [assignShares_eq, List.getElem?_map, List.getElem?_zipIdx]
  cases ms[j]? <;> simp

theorem mem_assignShares {n : Nat} {ms : List Member} {a : Member} :
    a ∈ assignShares n ms ↔
      ∃ j x, ms[j]? = some x ∧ a = Member.fresh x.id (shareOf n ms.length j) := by
  rw [List.mem_iff_getElem?]
  constructor
  · rintro ⟨j, hj⟩
    rw [getElem?_assignShares] at hj
    cases hx : ms[j]? with
    | none => rw [hx] at hj; cases hj
    | some x => rw [hx] at hj; exact ⟨j, x, hx, by cases hj; rfl⟩
  · rintro ⟨j, x, hx, rfl⟩
    exact ⟨j, by rw [getElem?_assignShares, hx]; rfl⟩

theorem map_id_assignShares (n : Nat) (ms : List Member) :
    (assignShares n ms).map (·.id) = ms.map (·.id) := by
  apply List.ext_getElem?
  intro j
  rw [List.getElem?_map, getElem?_assignShares, List.getElem?_map]
  cases ms[j]? <;> rfl

/-- `assignShares` reads nothing of the members but their ids (and their order) -/
theorem assignShares_congr (n : Nat) (ms ms' : List Member) (h : ms.map (·.id) = ms'.map (·.id)) :
    assignShares n ms = assignShares n ms' := by
  have hl : ms.length = ms'.length := by simpa using congrArg List.length h
  apply List.ext_getElem?
  intro j
  rw [getElem?_assignShares, getElem?_assignShares, hl]
  have hj : (ms.map (·.id))[j]? = (ms'.map (·.id))[j]? := by rw [h]
  rw [List.getElem?_map, List.getElem?_map] at hj
  cases h1 : ms[j]? <;> cases h2 : ms'[j]? <;> simp_all

theorem assignShares_idem (n : Nat) (ms : List Member) :
    assignShares n (assignShares n ms) = assignShares n ms :=
  assignShares_congr n _ _ (map_id_assignShares n ms)

/-! ## group operations -/

/-- the members carry exactly the assignment `assign_partitions` computes for the current partition
count and member order (cursors at the start of each share) -/
def Group.Assigned (g : Group) : Prop := g.members = assignShares g.nparts g.members

instance (g : Group) : Decidable g.Assigned := inferInstanceAs (Decidable (_ = _))

theorem Group.assign_assigned (g : Group) : g.assign.Assigned := by
  unfold Group.Assigned Group.assign
  exact (assignShares_idem _ _).symm

theorem Group.assign_ids (g : Group) : g.assign.members.map (·.id) = g.members.map (·.id) :=
  map_id_assignShares _ _

theorem map_id_filter_ne (ms : List Member) (id : Nat) :
    (ms.filter (fun m => m.id ≠ id)).map (·.id) = (ms.map (·.id)).filter (· ≠ id) := by
  rw [List.filter_map]; rfl

theorem Group.addMember_ids (g : Group) (id : Nat) :
    (g.addMember id).members.map (·.id) = (g.members.map (·.id)).filter (· ≠ id) ++ [id] := by
  unfold Group.addMember
  rw [Group.assign_ids]
  simp only [List.map_append, map_id_filter_ne, List.map_cons, List.map_nil]

theorem filter_ne_eq_self (l : List Nat) (id : Nat) (h : id ∉ l) : l.filter (· ≠ id) = l := by
  rw [List.filter_eq_self]
  intro a ha
  simp only [ne_eq, decide_eq_true_eq]
  rintro rfl; exact h ha

theorem Group.deleteMember_ids (g : Group) (id : Nat) :
    (g.deleteMember id).members.map (·.id) = (g.members.map (·.id)).filter (· ≠ id) := by
  unfold Group.deleteMember
  split
  · rw [Group.assign_ids]; exact map_id_filter_ne _ _
  · rename_i h
    rw [filter_ne_eq_self]
    intro hin
    apply h
    obtain ⟨m, hm, hid⟩ := List.mem_map.mp hin
    exact List.any_eq_true.mpr ⟨m, hm, by simpa using hid⟩

theorem Group.setParts_ids (g : Group) (n : Nat) :
    (g.setParts n).members.map (·.id) = g.members.map (·.id) := by
  unfold Group.setParts; rw [Group.assign_ids]

theorem Group.setParts_nparts (g : Group) (n : Nat) : (g.setParts n).nparts = n := rfl
theorem Group.addMember_nparts (g : Group) (id : Nat) : (g.addMember id).nparts = g.nparts := rfl
theorem Group.deleteMember_nparts (g : Group) (id : Nat) : (g.deleteMember id).nparts = g.nparts := by
  unfold Group.deleteMember; split <;> rfl
theorem Group.adoptOrder_nparts (g : Group) (o : List Nat) : (g.adoptOrder o).nparts = g.nparts := by
  unfold Group.adoptOrder; simp only; split <;> rfl

theorem Group.addMember_assigned (g : Group) (id : Nat) : (g.addMember id).Assigned :=
  Group.assign_assigned _

theorem Group.deleteMember_assigned (g : Group) (id : Nat) (h : g.Assigned) :
    (g.deleteMember id).Assigned := by
  unfold Group.deleteMember
  split
  · exact Group.assign_assigned _
  · exact h

theorem Group.setParts_assigned (g : Group) (n : Nat) : (g.setParts n).Assigned :=
  Group.assign_assigned _

theorem Group.adoptOrder_assigned (g : Group) (o : List Nat) (h : g.Assigned) :
    (g.adoptOrder o).Assigned := by
  unfold Group.adoptOrder
  simp only
  split
  · exact Group.assign_assigned _
  · exact h

/-- when every id of `order` is found, the members picked carry exactly the ids of `order` -/
theorem adopt_pick_ids (ms : List Member) (order : List Nat)
    (h : (order.filterMap (fun id => ms.find? (fun m => m.id = id))).length = order.length) :
    (order.filterMap (fun id => ms.find? (fun m => m.id = id))).map (·.id) = order ∧
    ∀ id ∈ order, id ∈ ms.map (·.id) := by
  induction order with
  | nil => simp
  | cons a t ih =>
    rw [List.filterMap_cons] at h ⊢
    cases hf : ms.find? (fun m => m.id = a) with
    | none =>
      rw [hf] at h
      have := List.length_filterMap_le (fun id => ms.find? (fun m => m.id = id)) t
      simp only [List.length_cons] at h; omega
    | some x =>
      rw [hf] at h
      simp only [List.length_cons, Nat.add_right_cancel_iff] at h
      obtain ⟨ih1, ih2⟩ := ih h
      have hx : x.id = a := by simpa using List.find?_some hf
      have hxm : x ∈ ms := List.mem_of_find?_eq_some hf
      refine ⟨by simp only [List.map_cons, ih1, hx], ?_⟩
      intro id hid
      simp only [List.mem_cons] at hid
      rcases hid with rfl | hid
      · exact List.mem_map.mpr ⟨x, hxm, hx⟩
      · exact ih2 id hid

/-- pigeonhole: a duplicate-free list inside a list that is no longer covers it -/
theorem subset_of_nodup_of_length_le {l₁ l₂ : List Nat} (h₁ : l₁.Nodup) (hsub : l₁ ⊆ l₂)
    (hlen : l₂.length ≤ l₁.length) : l₂ ⊆ l₁ := by
  induction l₁ generalizing l₂ with
  | nil =>
    have : l₂ = [] := List.eq_nil_of_length_eq_zero (by simpa using hlen)
    subst this; exact fun _ h => h
  | cons a t ih =>
    rw [List.nodup_cons] at h₁
    have ha : a ∈ l₂ := hsub List.mem_cons_self
    have htsub : t ⊆ l₂.erase a := by
      intro x hx
      have hxa : x ≠ a := fun h => h₁.1 (h ▸ hx)
      exact (List.mem_erase_of_ne hxa).2 (hsub (List.mem_cons_of_mem _ hx))
    have hl : (l₂.erase a).length = l₂.length - 1 := by rw [List.length_erase]; simp [ha]
    have := ih h₁.2 htsub (by simp only [List.length_cons] at hlen; omega)
    intro x hx
    by_cases hxa : x = a
    · subst hxa; exact List.mem_cons_self
    · exact List.mem_cons_of_mem _ (this ((List.mem_erase_of_ne hxa).2 hx))

/-- what `adoptOrder` does to the member ids: nothing, or (when it fires) they become `order` -/
theorem Group.adoptOrder_ids (g : Group) (o : List Nat) :
    (g.adoptOrder o).members.map (·.id) = g.members.map (·.id) ∨
    ((g.adoptOrder o).members.map (·.id) = o ∧ o.length = g.members.length ∧
      ∀ id ∈ o, id ∈ g.members.map (·.id)) := by
  unfold Group.adoptOrder
  simp only
  split
  · rename_i h
    right
    obtain ⟨h1, h2, _⟩ := h
    obtain ⟨a, b⟩ := adopt_pick_ids g.members o (by rw [h1, h2])
    rw [Group.assign_ids]
    exact ⟨a, h2, b⟩
  · left; rfl

/-- with a duplicate-free observed order, `adoptOrder` permutes the members and loses none -/
theorem Group.adoptOrder_perm (g : Group) (o : List Nat) (ho : o.Nodup)
    (hg : (g.members.map (·.id)).Nodup) :
    ((g.adoptOrder o).members.map (·.id)).Perm (g.members.map (·.id)) := by
  rcases Group.adoptOrder_ids g o with h | ⟨h1, h2, h3⟩
  · rw [h]
  · rw [h1, List.perm_ext_iff_of_nodup ho hg]
    intro a
    exact ⟨h3 a, fun ha => subset_of_nodup_of_length_le ho h3 (by simp [h2]) ha⟩

theorem Group.adoptOrder_nodup (g : Group) (o : List Nat) (ho : o.Nodup)
    (hg : (g.members.map (·.id)).Nodup) : ((g.adoptOrder o).members.map (·.id)).Nodup :=
  (Group.adoptOrder_perm g o ho hg).symm.nodup hg

theorem Group.addMember_nodup (g : Group) (id : Nat) (hg : (g.members.map (·.id)).Nodup) :
    ((g.addMember id).members.map (·.id)).Nodup := by
  rw [Group.addMember_ids, List.nodup_append]
  refine ⟨hg.sublist List.filter_sublist, by simp, ?_⟩
  intro a ha b hb
  simp only [List.mem_filter, ne_eq, decide_eq_true_eq] at ha
  simp only [List.mem_singleton] at hb
  subst hb; exact ha.2

theorem Group.deleteMember_nodup (g : Group) (id : Nat) (hg : (g.members.map (·.id)).Nodup) :
    ((g.deleteMember id).members.map (·.id)).Nodup := by
  rw [Group.deleteMember_ids]; exact hg.sublist List.filter_sublist

theorem Group.setParts_nodup (g : Group) (n : Nat) (hg : (g.members.map (·.id)).Nodup) :
    ((g.setParts n).members.map (·.id)).Nodup := by
  rw [Group.setParts_ids]; exact hg

/-! ## histories of group operations -/

/-- what can happen to a consumer group: a client joins, a client leaves (or its connection drops), the
topic's partition count changes, the implementation's hash-map order is observed -/
inductive GOp
  | join (id : Nat)
  | leave (id : Nat)
  | setParts (n : Nat)
  | adopt (order : List Nat)
deriving Repr, DecidableEq

def Group.step (g : Group) : GOp → Group
  | .join id => g.addMember id
  | .leave id => g.deleteMember id
  | .setParts n => g.setParts n
  | .adopt o => g.adoptOrder o

/-- an observed hash-map order never lists a key twice -/
def GOp.WF : GOp → Prop
  | .adopt o => o.Nodup
  | _ => True

instance : (op : GOp) → Decidable op.WF
  | .adopt o => inferInstanceAs (Decidable o.Nodup)
  | .join _ => isTrue trivial
  | .leave _ => isTrue trivial
  | .setParts _ => isTrue trivial

def Group.run (g0 : Group) (ops : List GOp) : Group := ops.foldl Group.step g0

theorem Group.step_assigned (g : Group) (op : GOp) (h : g.Assigned) : (g.step op).Assigned := by
  cases op with
  | join id => exact Group.addMember_assigned g id
  | leave id => exact Group.deleteMember_assigned g id h
  | setParts n => exact Group.setParts_assigned g n
  | adopt o => exact Group.adoptOrder_assigned g o h

theorem Group.step_nodup (g : Group) (op : GOp) (hop : op.WF) (h : (g.members.map (·.id)).Nodup) :
    ((g.step op).members.map (·.id)).Nodup := by
  cases op with
  | join id => exact Group.addMember_nodup g id h
  | leave id => exact Group.deleteMember_nodup g id h
  | setParts n => exact Group.setParts_nodup g n h
  | adopt o => exact Group.adoptOrder_nodup g o hop h

theorem Group.run_assigned (g0 : Group) (ops : List GOp) (h : g0.Assigned) : (g0.run ops).Assigned := by
  unfold Group.run
  induction ops generalizing g0 with
  | nil => exact h
  | cons op rest ih => exact ih _ (Group.step_assigned g0 op h)

theorem Group.run_nodup (g0 : Group) (ops : List GOp) (hops : ∀ op ∈ ops, op.WF)
    (h : (g0.members.map (·.id)).Nodup) : (((g0.run ops)).members.map (·.id)).Nodup := by
  unfold Group.run
  induction ops generalizing g0 with
  | nil => exact h
  | cons op rest ih =>
    exact ih _ (fun o ho => hops o (List.mem_cons_of_mem _ ho))
      (Group.step_nodup g0 op (hops op List.mem_cons_self) h)

/-! ## what an assignment looks like -/

theorem lt_length_of_getElem? {α} {l : List α} {j : Nat} {x : α} (h : l[j]? = some x) : j < l.length := by
  rcases Nat.lt_or_ge j l.length with h' | h'
  · exact h'
  · rw [List.getElem?_eq_none h'] at h; cases h

theorem Member.fresh_share (id : Nat) (sh : List Nat) : (Member.fresh id sh).share = sh := rfl
theorem Member.fresh_id (id : Nat) (sh : List Nat) : (Member.fresh id sh).id = id := rfl

/-- partition `p` lies in the share of position `(p-1) % m` and of no other position -/
theorem assignShares_cover (n : Nat) (ms : List Member) (hne : ms ≠ []) (p : Nat) (h1 : 1 ≤ p) (h2 : p ≤ n) :
    ∃ j : Nat, (∃ m : Member, (assignShares n ms)[j]? = some m ∧ p ∈ m.share) ∧
      ∀ j' : Nat, (∃ m' : Member, (assignShares n ms)[j']? = some m' ∧ p ∈ m'.share) → j' = j := by
  have hm : 0 < ms.length := List.length_pos_iff.mpr hne
  have hj : (p - 1) % ms.length < ms.length := Nat.mod_lt _ hm
  refine ⟨(p - 1) % ms.length, ?_, ?_⟩
  · refine ⟨Member.fresh (ms[(p - 1) % ms.length]).id (shareOf n ms.length ((p - 1) % ms.length)), ?_, ?_⟩
    · rw [getElem?_assignShares, List.getElem?_eq_getElem hj]; rfl
    · rw [Member.fresh_share, mem_shareOf']; exact ⟨h1, h2, rfl⟩
  · rintro j' ⟨m', hm', hp⟩
    rw [getElem?_assignShares] at hm'
    cases hx : ms[j']? with
    | none => rw [hx] at hm'; cases hm'
    | some x =>
      rw [hx] at hm'
      simp only [Option.map_some, Option.some.injEq] at hm'
      subst hm'
      rw [Member.fresh_share, mem_shareOf'] at hp
      exact hp.2.2.symm

theorem assignShares_share_mem {n : Nat} {ms : List Member} {a : Member} (ha : a ∈ assignShares n ms)
    {p : Nat} (hp : p ∈ a.share) : 1 ≤ p ∧ p ≤ n := by
  obtain ⟨j, x, _, rfl⟩ := mem_assignShares.mp ha
  rw [Member.fresh_share, mem_shareOf'] at hp
  exact ⟨hp.1, hp.2.1⟩

theorem assignShares_share_length {n : Nat} {ms : List Member} {a : Member} (ha : a ∈ assignShares n ms) :
    n / ms.length ≤ a.share.length ∧ a.share.length ≤ n / ms.length + 1 := by
  obtain ⟨j, x, hx, rfl⟩ := mem_assignShares.mp ha
  rw [Member.fresh_share, length_shareOf n ms.length j (lt_length_of_getElem? hx)]
  split <;> omega

theorem shareOf_le (n m j : Nat) : ∀ p ∈ shareOf n m j, p ≤ n := fun _ hp => (mem_shareOf'.mp hp).2.1

/-- a share lists its partitions in ascending order, none twice -/
theorem shareOf_sorted (n m j : Nat) : (shareOf n m j).Pairwise (· < ·) := by
  induction n with
  | zero => simp [shareOf]
  | succ n ih =>
    rw [shareOf_succ, List.pairwise_append]
    refine ⟨ih, ?_, ?_⟩
    · split <;> simp
    · intro a ha b hb
      have := shareOf_le n m j a ha
      split at hb
      · simp only [List.mem_singleton] at hb; omega
      · cases hb

theorem assignShares_share_sorted {n : Nat} {ms : List Member} {a : Member} (ha : a ∈ assignShares n ms) :
    a.share.Pairwise (· < ·) := by
  obtain ⟨j, x, _, rfl⟩ := mem_assignShares.mp ha
  exact shareOf_sorted _ _ _

/-- a position gets nothing exactly when there are not enough partitions to reach it -/
theorem shareOf_eq_nil_iff (n m j : Nat) (hj : j < m) : shareOf n m j = [] ↔ n ≤ j := by
  constructor
  · intro h
    apply Nat.le_of_not_lt
    intro hlt
    have : j + 1 ∈ shareOf n m j := mem_shareOf.mpr ⟨j, hlt, Nat.mod_eq_of_lt hj, rfl⟩
    rw [h] at this; cases this
  · intro h
    rw [List.eq_nil_iff_forall_not_mem]
    intro p hp
    obtain ⟨i, hi, him, _⟩ := mem_shareOf.mp hp
    rw [Nat.mod_eq_of_lt (by omega)] at him
    omega

/-- an assigned member is a fresh one -/
theorem assignShares_fresh {n : Nat} {ms : List Member} {a : Member} (ha : a ∈ assignShares n ms) :
    a = Member.fresh a.id a.share := by
  obtain ⟨j, x, _, rfl⟩ := mem_assignShares.mp ha
  rfl

/-- with pairwise distinct ids, a client id names one member -/
theorem assignShares_id_inj {n : Nat} {ms : List Member} (hnd : (ms.map (·.id)).Nodup) {a b : Member}
    (ha : a ∈ assignShares n ms) (hb : b ∈ assignShares n ms) (hid : a.id = b.id) : a = b := by
  obtain ⟨j, x, hx, rfl⟩ := mem_assignShares.mp ha
  obtain ⟨j', x', hx', rfl⟩ := mem_assignShares.mp hb
  simp only [Member.fresh_id] at hid
  have hj := lt_length_of_getElem? hx
  have hj' := lt_length_of_getElem? hx'
  have e1 : (ms.map (·.id))[j]? = some x.id := by rw [List.getElem?_map, hx]; rfl
  have e2 : (ms.map (·.id))[j']? = some x.id := by rw [List.getElem?_map, hx', hid]; rfl
  have : j = j' := by
    exact (List.getElem?_inj (by simpa using hj) hnd).mp (e1.trans e2.symm)
  subst this
  rw [hx] at hx'; cases hx'; rfl

/-! ## rotation (`Member.calc`) -/

/-- the result and the state after the `k`-th successive call (`k = 0`: the first) of `calc` -/
def calcIter (m : Member) : Nat → Option Nat × Member
  | 0 => m.calc
  | k + 1 => calcIter m.calc.2 k

theorem Member.calc_share (m : Member) : m.calc.2.share = m.share := by
  unfold Member.calc; split; rfl; split <;> rfl

theorem Member.calc_id (m : Member) : m.calc.2.id = m.id := by
  unfold Member.calc; split; rfl; split <;> rfl

theorem Member.calc_mem (m : Member) (p : Nat) (h : m.calc.1 = some p) : p ∈ m.share := by
  unfold Member.calc at h
  split at h
  · cases h
  · split at h
    · cases h
    · rename_i pid hp
      simp only [Option.some.injEq] at h
      subst h
      exact List.mem_of_getElem? hp

theorem Member.calc_nil (m : Member) (h : m.share = []) : m.calc.1 = none := by
  unfold Member.calc
  split
  · rfl
  · rw [h]; simp

theorem Member.calc_spec (m : Member) (i : Nat) (hi : m.idx = some i) (hlt : i < m.share.length) :
    m.calc.1 = some m.share[i] ∧
    m.calc.2.idx = some (if m.share.length ≤ i + 1 then 0 else i + 1) := by
  unfold Member.calc
  rw [hi]
  simp only [List.getElem?_eq_getElem hlt, and_self]

theorem calcIter_share (m : Member) (k : Nat) : (calcIter m k).2.share = m.share := by
  induction k generalizing m with
  | zero => exact m.calc_share
  | succ k ih => rw [calcIter, ih, m.calc_share]

theorem calcIter_id (m : Member) (k : Nat) : (calcIter m k).2.id = m.id := by
  induction k generalizing m with
  | zero => exact m.calc_id
  | succ k ih => rw [calcIter, ih, m.calc_id]

theorem calcIter_mem (m : Member) (k p : Nat) (h : (calcIter m k).1 = some p) : p ∈ m.share := by
  induction k generalizing m with
  | zero => exact m.calc_mem p h
  | succ k ih => rw [← m.calc_share]; exact ih _ h

/-- from cursor position `i`, the `k`-th call yields the share entry `(i + k) mod length` -/
theorem calcIter_spec (m : Member) (i k : Nat) (hi : m.idx = some i) (hlt : i < m.share.length) :
    (calcIter m k).1 = m.share[(i + k) % m.share.length]? := by
  induction k generalizing m i with
  | zero =>
    rw [calcIter, (m.calc_spec i hi hlt).1, Nat.add_zero, Nat.mod_eq_of_lt hlt,
      List.getElem?_eq_getElem hlt]
  | succ k ih =>
    rw [calcIter]
    have hs := m.calc_share
    have hidx := (m.calc_spec i hi hlt).2
    by_cases hw : m.share.length ≤ i + 1
    · rw [if_pos hw] at hidx
      rw [ih m.calc.2 0 hidx (by rw [hs]; omega), hs]
      have : i + (k + 1) = m.share.length + k := by omega
      rw [this, Nat.add_mod_left, Nat.zero_add]
    · rw [if_neg hw] at hidx
      rw [ih m.calc.2 (i + 1) hidx (by rw [hs]; omega), hs]
      congr 2; omega

theorem Member.fresh_idx (id : Nat) (sh : List Nat) (h : sh ≠ []) : (Member.fresh id sh).idx = some 0 := by
  unfold Member.fresh
  cases sh with
  | nil => exact absurd rfl h
  | cons a t => rfl

/-! ## polls between membership changes: cursors move, shares do not -/

theorem nodup_id_inj {ms : List Member} (h : (ms.map (·.id)).Nodup) {x y : Member}
    (hx : x ∈ ms) (hy : y ∈ ms) (hid : x.id = y.id) : x = y := by
  induction ms with
  | nil => cases hx
  | cons a t ih =>
    simp only [List.map_cons, List.nodup_cons, List.mem_map, not_exists, not_and] at h
    simp only [List.mem_cons] at hx hy
    rcases hx with rfl | hx <;> rcases hy with rfl | hy
    · rfl
    · exact absurd hid.symm (h.1 y hy)
    · exact absurd hid (h.1 x hx)
    · exact ih h.2 hx hy

/-- who the member is and what it owns (everything but the rotation cursor) -/
def Member.key (m : Member) : Nat × List Nat := (m.id, m.share)

/-- ids and shares are those `assign_partitions` computes for the current partition count and member
order; the rotation cursors may have moved -/
def Group.SharesAssigned (g : Group) : Prop :=
  g.members.map Member.key = (assignShares g.nparts g.members).map Member.key

instance (g : Group) : Decidable g.SharesAssigned := inferInstanceAs (Decidable (_ = _))

/-- the rotation cursor of a member points into its share (no cursor iff empty share) -/
def Member.CursorOk (m : Member) : Prop :=
  match m.idx with
  | none => m.share = []
  | some i => i < m.share.length

def Group.CursorsOk (g : Group) : Prop := ∀ m ∈ g.members, m.CursorOk

theorem Group.Assigned.shares {g : Group} (h : g.Assigned) : g.SharesAssigned :=
  congrArg (List.map Member.key) h

theorem Member.fresh_cursorOk (id : Nat) (sh : List Nat) : (Member.fresh id sh).CursorOk := by
  unfold Member.CursorOk Member.fresh
  cases sh with
  | nil => rfl
  | cons a t => simp

theorem Group.Assigned.cursors {g : Group} (h : g.Assigned) : g.CursorsOk := by
  intro m hm
  rw [h] at hm
  rw [assignShares_fresh hm]
  exact Member.fresh_cursorOk _ _

theorem Member.calc_cursorOk (m : Member) (h : m.CursorOk) : m.calc.2.CursorOk := by
  unfold Member.CursorOk at h
  unfold Member.calc
  split
  · exact h
  · rename_i i hi
    rw [hi] at h
    simp only at h
    rw [List.getElem?_eq_getElem h]
    simp only [Member.CursorOk]
    split <;> omega

/-- a member whose cursor is in order and whose share is non-empty is always handed a partition -/
theorem Member.calc_some (m : Member) (h : m.CursorOk) (hne : m.share ≠ []) : ∃ p, m.calc.1 = some p := by
  unfold Member.CursorOk at h
  cases hi : m.idx with
  | none => rw [hi] at h; exact absurd h hne
  | some i =>
    rw [hi] at h
    exact ⟨_, (m.calc_spec i hi h).1⟩

/-- the member update `Topic.resolve` performs for a poll by `client` that names no partition -/
def Group.poll (g : Group) (client : Nat) : Group :=
  match g.members.find? (fun m => m.id = client) with
  | none => g
  | some m => { g with members := g.members.map (fun x => if x.id = client then m.calc.2 else x) }

theorem Group.poll_nparts (g : Group) (c : Nat) : (g.poll c).nparts = g.nparts := by
  unfold Group.poll; split <;> rfl

theorem Group.poll_ids (g : Group) (c : Nat) : (g.poll c).members.map (·.id) = g.members.map (·.id) := by
  unfold Group.poll
  split
  · rfl
  · rename_i m hm
    have hid : m.id = c := by simpa using List.find?_some hm
    simp only [List.map_map]
    apply List.map_congr_left
    intro x _
    simp only [Function.comp]
    split
    · rename_i hx; rw [m.calc_id, hid, hx]
    · rfl

theorem Group.poll_keys (g : Group) (c : Nat) (hnd : (g.members.map (·.id)).Nodup) :
    (g.poll c).members.map Member.key = g.members.map Member.key := by
  unfold Group.poll
  split
  · rfl
  · rename_i m hm
    have hid : m.id = c := by simpa using List.find?_some hm
    have hmm : m ∈ g.members := List.mem_of_find?_eq_some hm
    simp only [List.map_map]
    apply List.map_congr_left
    intro x hx
    simp only [Function.comp]
    split
    · rename_i hxc
      have : x = m := nodup_id_inj hnd hx hmm (by rw [hxc, hid])
      subst this
      simp only [Member.key, x.calc_id, x.calc_share]
    · rfl

theorem Group.poll_sharesAssigned (g : Group) (c : Nat) (hnd : (g.members.map (·.id)).Nodup)
    (h : g.SharesAssigned) : (g.poll c).SharesAssigned := by
  unfold Group.SharesAssigned
  rw [Group.poll_keys g c hnd, Group.poll_nparts,
    assignShares_congr g.nparts (g.poll c).members g.members (Group.poll_ids g c)]
  exact h

theorem Group.poll_cursorsOk (g : Group) (c : Nat) (h : g.CursorsOk) : (g.poll c).CursorsOk := by
  unfold Group.poll
  split
  · exact h
  · rename_i m hm
    have hmm : m ∈ g.members := List.mem_of_find?_eq_some hm
    intro y hy
    simp only [List.mem_map] at hy
    obtain ⟨x, hx, rfl⟩ := hy
    split
    · exact m.calc_cursorOk (h m hmm)
    · exact h x hx

/-- histories with polls: a membership / partition-count / order event, or a poll by a client that
names no partition -/
inductive GOpP
  | op (o : GOp)
  | poll (client : Nat)
deriving Repr, DecidableEq

def Group.stepP (g : Group) : GOpP → Group
  | .op o => g.step o
  | .poll c => g.poll c

def GOpP.WF : GOpP → Prop
  | .op o => o.WF
  | .poll _ => True

instance : (op : GOpP) → Decidable op.WF
  | .op o => inferInstanceAs (Decidable o.WF)
  | .poll _ => isTrue trivial

def Group.runP (g0 : Group) (ops : List GOpP) : Group := ops.foldl Group.stepP g0

/-- the invariant of histories with polls -/
def Group.Good (g : Group) : Prop :=
  g.SharesAssigned ∧ (g.members.map (·.id)).Nodup ∧ g.CursorsOk

theorem Group.step_good (g : Group) (op : GOp) (hop : op.WF) (h : g.Good) : (g.step op).Good := by
  obtain ⟨h1, h2, h3⟩ := h
  refine ⟨?_, Group.step_nodup g op hop h2, ?_⟩
  · cases op with
    | join id => exact (Group.addMember_assigned g id).shares
    | leave id =>
      simp only [Group.step, Group.deleteMember]
      split
      · exact (Group.assign_assigned _).shares
      · exact h1
    | setParts n => exact (Group.setParts_assigned g n).shares
    | adopt o =>
      simp only [Group.step, Group.adoptOrder]
      split
      · exact (Group.assign_assigned _).shares
      · exact h1
  · cases op with
    | join id => exact (Group.addMember_assigned g id).cursors
    | leave id =>
      simp only [Group.step, Group.deleteMember]
      split
      · exact (Group.assign_assigned _).cursors
      · exact h3
    | setParts n => exact (Group.setParts_assigned g n).cursors
    | adopt o =>
      simp only [Group.step, Group.adoptOrder]
      split
      · exact (Group.assign_assigned _).cursors
      · exact h3

theorem Group.stepP_good (g : Group) (op : GOpP) (hop : op.WF) (h : g.Good) : (g.stepP op).Good := by
  cases op with
  | op o => exact Group.step_good g o hop h
  | poll c =>
    obtain ⟨h1, h2, h3⟩ := h
    refine ⟨Group.poll_sharesAssigned g c h2 h1, ?_, Group.poll_cursorsOk g c h3⟩
    show ((g.poll c).members.map (·.id)).Nodup
    rw [Group.poll_ids]; exact h2

theorem Group.runP_good (g0 : Group) (ops : List GOpP) (hops : ∀ op ∈ ops, op.WF) (h : g0.Good) :
    (g0.runP ops).Good := by
  unfold Group.runP
  induction ops generalizing g0 with
  | nil => exact h
  | cons op rest ih =>
    exact ih _ (fun o ho => hops o (List.mem_cons_of_mem _ ho))
      (Group.stepP_good g0 op (hops op List.mem_cons_self) h)

theorem keys_getElem? {ms ms' : List Member} (h : ms.map Member.key = ms'.map Member.key) {j : Nat}
    {m : Member} (hm : ms[j]? = some m) : ∃ m', ms'[j]? = some m' ∧ m'.id = m.id ∧ m'.share = m.share := by
  have := congrArg (·[j]?) h
  simp only [List.getElem?_map, hm, Option.map_some] at this
  cases hm' : ms'[j]? with
  | none => rw [hm'] at this; cases this
  | some m' =>
    rw [hm'] at this
    simp only [Option.map_some, Option.some.injEq, Member.key, Prod.mk.injEq] at this
    exact ⟨m', rfl, this.1.symm, this.2.symm⟩

theorem keys_mem {ms ms' : List Member} (h : ms.map Member.key = ms'.map Member.key) {m : Member}
    (hm : m ∈ ms) : ∃ m' ∈ ms', m'.id = m.id ∧ m'.share = m.share := by
  obtain ⟨j, hj⟩ := List.mem_iff_getElem?.mp hm
  obtain ⟨m', h1, h2⟩ := keys_getElem? h hj
  exact ⟨m', List.mem_of_getElem? h1, h2⟩

theorem Group.SharesAssigned.cover {g : Group} (h : g.SharesAssigned) (hne : g.members ≠ []) (p : Nat)
    (h1 : 1 ≤ p) (h2 : p ≤ g.nparts) :
    ∃ j : Nat, (∃ m : Member, g.members[j]? = some m ∧ p ∈ m.share) ∧
      ∀ j' : Nat, (∃ m' : Member, g.members[j']? = some m' ∧ p ∈ m'.share) → j' = j := by
  obtain ⟨j, ⟨m0, hm0, hp0⟩, huniq⟩ := assignShares_cover g.nparts g.members hne p h1 h2
  refine ⟨j, ?_, ?_⟩
  · obtain ⟨m, hm, _, hs⟩ := keys_getElem? h.symm hm0
    exact ⟨m, hm, by rw [hs]; exact hp0⟩
  · rintro j' ⟨m', hm', hp'⟩
    obtain ⟨m0', hm0', _, hs⟩ := keys_getElem? h hm'
    exact huniq j' ⟨m0', hm0', by rw [hs]; exact hp'⟩

theorem Group.SharesAssigned.client {g : Group} (h : g.SharesAssigned)
    (hnd : (g.members.map (·.id)).Nodup) (hne : g.members ≠ []) (p : Nat)
    (h1 : 1 ≤ p) (h2 : p ≤ g.nparts) :
    ∃ id ∈ g.members.map (·.id), ∀ m ∈ g.members, (p ∈ m.share ↔ m.id = id) := by
  obtain ⟨j, ⟨m, hm, hp⟩, huniq⟩ := h.cover hne p h1 h2
  have hmm : m ∈ g.members := List.mem_of_getElem? hm
  refine ⟨m.id, List.mem_map_of_mem hmm, ?_⟩
  intro m' hm'
  constructor
  · intro hp'
    obtain ⟨j', hj'⟩ := List.mem_iff_getElem?.mp hm'
    have := huniq j' ⟨m', hj', hp'⟩
    subst this
    rw [hm] at hj'; cases hj'; rfl
  · intro hid
    rw [nodup_id_inj hnd hm' hmm hid]; exact hp

theorem Group.SharesAssigned.share_mem {g : Group} (h : g.SharesAssigned) {m : Member}
    (hm : m ∈ g.members) {p : Nat} (hp : p ∈ m.share) : 1 ≤ p ∧ p ≤ g.nparts := by
  obtain ⟨m0, hm0, _, hs⟩ := keys_mem h hm
  exact assignShares_share_mem hm0 (by rw [hs]; exact hp)

theorem Group.SharesAssigned.share_length {g : Group} (h : g.SharesAssigned) {m : Member}
    (hm : m ∈ g.members) :
    g.nparts / g.members.length ≤ m.share.length ∧ m.share.length ≤ g.nparts / g.members.length + 1 := by
  obtain ⟨m0, hm0, _, hs⟩ := keys_mem h hm
  rw [← hs]
  exact assignShares_share_length hm0

theorem Group.SharesAssigned.share_sorted {g : Group} (h : g.SharesAssigned) {m : Member}
    (hm : m ∈ g.members) : m.share.Pairwise (· < ·) := by
  obtain ⟨m0, hm0, _, hs⟩ := keys_mem h hm
  rw [← hs]
  exact assignShares_share_sorted hm0

end Iggy.Sys

/-! ## group delivery on the abstract partition: `next` polling with auto-commit -/
namespace Iggy.Log

/-- what the group has not been handed yet: everything when no offset is stored for the group,
otherwise the retained messages beyond the stored offset -/
def SPart.undelivered (p : SPart) (gid : Nat) : List Msg :=
  match p.getOffset true gid with
  | none => p.msgs
  | some o => p.msgs.filter (fun m => o < m.off)

theorem consecutiveFrom_filter_ge (lo a : Nat) (l : List Msg) (h : consecutiveFrom lo l) :
    l.filter (fun m => a ≤ m.off) = l.drop (a - lo) := by
  induction l generalizing lo with
  | nil => simp
  | cons m rest ih =>
    have h1 := h.1
    rw [List.filter_cons]
    by_cases ha : a ≤ m.off
    · have hz : a - lo = 0 := by omega
      have ih' := ih (lo + 1) h.2
      have hz' : a - (lo + 1) = 0 := by omega
      rw [hz'] at ih'
      simp only [ha, decide_true, if_true, hz, List.drop_zero]
      rw [ih']; rfl
    · have : a - lo = (a - (lo + 1)) + 1 := by omega
      simp only [ha, decide_false, Bool.false_eq_true, if_false]
      rw [this, List.drop_succ_cons]
      exact ih (lo + 1) h.2

theorem consecutiveFrom_filter_lt (lo b : Nat) (l : List Msg) (h : consecutiveFrom lo l) :
    l.filter (fun m => m.off < b) = l.take (b - lo) := by
  induction l generalizing lo with
  | nil => simp
  | cons m rest ih =>
    have h1 := h.1
    rw [List.filter_cons]
    by_cases hb : m.off < b
    · have : b - lo = (b - (lo + 1)) + 1 := by omega
      simp only [hb, decide_true, if_true]
      rw [this, List.take_succ_cons, ih (lo + 1) h.2]
    · have hz : b - lo = 0 := by omega
      have ih' := ih (lo + 1) h.2
      have hz' : b - (lo + 1) = 0 := by omega
      rw [hz'] at ih'
      simp only [hb, decide_false, Bool.false_eq_true, if_false, hz, List.take_zero]
      rw [ih']; rfl

theorem consecutiveFrom_take (lo : Nat) (l : List Msg) (n : Nat) (h : consecutiveFrom lo l) :
    consecutiveFrom lo (l.take n) := by
  have := (consecutiveFrom_append lo (l.take n) (l.drop n)).mp (by rwa [List.take_append_drop])
  exact this.1

/-- the window `[a, a+c)` of a gap-free run starting at `lo ≤ a` -/
theorem consecutiveFrom_window (lo a c : Nat) (l : List Msg) (h : consecutiveFrom lo l) (hle : lo ≤ a) :
    l.filter (fun m => a ≤ m.off ∧ m.off < a + c) = (l.drop (a - lo)).take c := by
  have e : l.filter (fun m => a ≤ m.off ∧ m.off < a + c) =
      (l.filter (fun m => m.off < a + c)).filter (fun m => a ≤ m.off) := by
    rw [List.filter_filter]
    congr 1; funext m; simp [Bool.decide_and]
  rw [e, consecutiveFrom_filter_lt lo _ l h,
    consecutiveFrom_filter_ge lo a _ (consecutiveFrom_take lo l _ h), List.drop_take]
  congr 1; omega

theorem consecutiveFrom_head (lo : Nat) (l : List Msg) (h : consecutiveFrom lo l) (f : Msg)
    (hf : l.head? = some f) : f.off = lo := by
  cases l with
  | nil => cases hf
  | cons m rest => simp only [List.head?_cons, Option.some.injEq] at hf; subst hf; exact h.1

/-- a poll by offset on a gap-free partition, as a slice of the retained list -/
theorem SPart.pollOffset_slice (p : SPart) (lo off count : Nat) (h : consecutiveFrom lo p.msgs) :
    p.pollOffset off count = (p.msgs.drop (off - lo)).take count := by
  unfold SPart.pollOffset
  cases hh : p.msgs.head? with
  | none =>
    have : p.msgs = [] := List.head?_eq_none_iff.mp hh
    simp [this]
  | some f =>
    have hf := consecutiveFrom_head lo p.msgs h f hh
    simp only
    rw [consecutiveFrom_window lo (max off f.off) count p.msgs h (by omega)]
    congr 2; omega

theorem SPart.undelivered_slice (p : SPart) (lo gid : Nat) (h : consecutiveFrom lo p.msgs) :
    p.undelivered gid = p.msgs.drop (match p.getOffset true gid with | none => 0 | some o => o + 1 - lo) := by
  unfold SPart.undelivered
  cases p.getOffset true gid with
  | none => simp
  | some o =>
    simp only
    have := consecutiveFrom_filter_ge lo (o + 1) p.msgs h
    simpa [Nat.succ_le_iff] using this

/-- `next` polling by the group returns the first `count` undelivered messages -/
theorem SPart.pollNext_undelivered (p : SPart) (gid count : Nat) (h : p.Inv) :
    p.pollNext true gid count = (p.undelivered gid).take count := by
  obtain ⟨lo, hc, _⟩ := h
  rw [SPart.pollNext_spec, SPart.undelivered_slice p lo gid hc]
  cases p.getOffset true gid with
  | none => simp only; rw [SPart.pollOffset_slice p lo 0 count hc]; simp
  | some o => simp only; rw [SPart.pollOffset_slice p lo (o + 1) count hc]

theorem consecutiveFrom_getLast (lo : Nat) (l : List Msg) (h : consecutiveFrom lo l) (x : Msg)
    (hx : l.getLast? = some x) : x.off + 1 = lo + l.length := by
  obtain ⟨ys, rfl⟩ := List.getLast?_eq_some_iff.mp hx
  have := ((consecutiveFrom_append lo ys [x]).mp h).2.1
  simp only [List.length_append, List.length_singleton]; omega

theorem consecutiveFrom_mem_lt (lo : Nat) (l : List Msg) (h : consecutiveFrom lo l) :
    ∀ x ∈ l, x.off < lo + l.length := by
  induction l generalizing lo with
  | nil => intro x hx; cases hx
  | cons y ys ih =>
    intro x hx
    simp only [List.mem_cons] at hx
    simp only [List.length_cons]
    rcases hx with rfl | hx
    · have := h.1; omega
    · have := ih (lo + 1) h.2 x hx; omega

theorem drop_min_length {α} (l : List α) (c : Nat) : l.drop (min c l.length) = l.drop c := by
  rcases Nat.le_total c l.length with h | h
  · rw [Nat.min_eq_left h]
  · rw [Nat.min_eq_right h, List.drop_eq_nil_of_le (Nat.le_refl _), List.drop_eq_nil_of_le h]

/-- auto-commit after a non-empty group poll: storing the offset of the last message handed out is
accepted, touches nothing but the group's offset, and removes exactly the handed-out messages from the
undelivered ones -/
theorem SPart.commit_last (p : SPart) (gid count : Nat) (last : Msg) (h : p.Inv)
    (hl : ((p.undelivered gid).take count).getLast? = some last) :
    ∃ p', p.storeOffset true gid last.off = .ok p' ∧ p'.msgs = p.msgs ∧ p'.next = p.next ∧
      p'.ids = p.ids ∧ p'.getOffset true gid = some last.off ∧ last.off < p.next ∧
      p'.undelivered gid = (p.undelivered gid).drop count := by
  obtain ⟨lo, hc, hn⟩ := h
  have hsl := SPart.undelivered_slice p lo gid hc
  generalize hk : (match p.getOffset true gid with | none => 0 | some o => o + 1 - lo) = k at hsl
  -- the handed-out run is gap-free from `lo + k`
  have hne : (p.undelivered gid).take count ≠ [] := by intro e; rw [e] at hl; cases hl
  have hklt : k < p.msgs.length := by
    apply Nat.lt_of_not_le; intro hge
    rw [hsl, List.drop_eq_nil_of_le hge] at hne; simp at hne
  have hcu : consecutiveFrom (lo + k) (p.undelivered gid) := by
    have := consecutiveFrom_drop lo p.msgs k hc
    rwa [Nat.min_eq_left (Nat.le_of_lt hklt), ← hsl] at this
  have hct := consecutiveFrom_take (lo + k) _ count hcu
  have hlast := consecutiveFrom_getLast (lo + k) _ hct last hl
  have hlen : ((p.undelivered gid).take count).length = min count (p.undelivered gid).length :=
    List.length_take
  have hpos : 0 < ((p.undelivered gid).take count).length := List.length_pos_iff.mpr hne
  have hmem : last ∈ p.msgs := by
    have h1 : last ∈ (p.undelivered gid).take count := List.mem_of_getLast? hl
    have h2 : last ∈ p.undelivered gid := List.mem_of_mem_take h1
    rw [hsl] at h2; exact List.mem_of_mem_drop h2
  have hlt := consecutiveFrom_mem_lt lo p.msgs hc last hmem
  have hok : ¬ p.cur < last.off := by unfold SPart.cur; omega
  refine ⟨{ p with grpOffs := insertKV p.grpOffs gid last.off }, ?_, rfl, rfl, rfl, ?_, by omega, ?_⟩
  · unfold SPart.storeOffset; rw [if_neg hok]; rfl
  · simp [SPart.getOffset, lookup_insertKV_same]
  · have hg : SPart.getOffset { p with grpOffs := insertKV p.grpOffs gid last.off } true gid = some last.off := by
      simp [SPart.getOffset, lookup_insertKV_same]
    have := SPart.undelivered_slice { p with grpOffs := insertKV p.grpOffs gid last.off } lo gid hc
    rw [hg] at this
    simp only at this
    rw [this, ← drop_min_length (p.undelivered gid) count, ← hlen, hsl, List.drop_drop]
    congr 1
    rw [← hsl]; omega

theorem SPart.undelivered_append (p : SPart) (gid now : Nat) (msgs : List InMsg)
    (ho : ∀ o, p.getOffset true gid = some o → o < p.next) :
    (p.append now msgs).undelivered gid =
      p.undelivered gid ++ (number p.ids p.next now msgs 0 []).2 := by
  unfold SPart.undelivered
  rw [SPart.append_keeps_offsets]
  have hm : (p.append now msgs).msgs = p.msgs ++ (number p.ids p.next now msgs 0 []).2 := rfl
  cases hg : p.getOffset true gid with
  | none => exact hm
  | some o =>
    simp only
    rw [hm, List.filter_append]
    congr 1
    rw [List.filter_eq_self]
    intro x hx
    have hc := number_consecutive p.ids p.next now msgs 0
    have := consecutiveFrom_mem_ge _ _ hc x hx
    have := ho o hg
    simp only [decide_eq_true_eq]; omega

theorem SPart.undelivered_dropPrefix (p : SPart) (gid n : Nat) :
    ∃ gone, p.undelivered gid = gone ++ (p.dropPrefix n).undelivered gid := by
  unfold SPart.undelivered
  have hg : (p.dropPrefix n).getOffset true gid = p.getOffset true gid := rfl
  rw [hg]
  cases p.getOffset true gid with
  | none => exact ⟨p.msgs.take n, (List.take_append_drop n p.msgs).symm⟩
  | some o =>
    refine ⟨(p.msgs.take n).filter (fun m => o < m.off), ?_⟩
    simp only [SPart.dropPrefix]
    rw [← List.filter_append, List.take_append_drop]

theorem consecutiveFrom_pairwise (lo : Nat) (l : List Msg) (h : consecutiveFrom lo l) :
    l.Pairwise (fun a b => a.off < b.off) := by
  induction l generalizing lo with
  | nil => exact List.Pairwise.nil
  | cons m rest ih =>
    rw [List.pairwise_cons]
    refine ⟨?_, ih (lo + 1) h.2⟩
    intro x hx
    have := consecutiveFrom_mem_ge (lo + 1) rest h.2 x hx
    have := h.1; omega

/-- per partition: what the group was handed so far (`d`) followed by what it was not is the message
list, and the committed offset is that of a message that exists -/
def SPart.GroupInv (gid : Nat) (p : SPart) (d : List Msg) : Prop :=
  p.Inv ∧ d ++ p.undelivered gid = p.msgs ∧ ∀ o, p.getOffset true gid = some o → o < p.next

theorem SPart.GroupInv.init (gid : Nat) (p : SPart) (h : p.Inv) (ho : p.getOffset true gid = none) :
    SPart.GroupInv gid p [] := by
  refine ⟨h, ?_, ?_⟩
  · simp [SPart.undelivered, ho]
  · intro o h'; rw [ho] at h'; cases h'

theorem SPart.GroupInv.append {gid : Nat} {p : SPart} {d : List Msg} (h : SPart.GroupInv gid p d)
    (now : Nat) (msgs : List InMsg) : SPart.GroupInv gid (p.append now msgs) d := by
  obtain ⟨hi, hd, ho⟩ := h
  refine ⟨SPart.append_inv _ now msgs hi, ?_, ?_⟩
  · rw [SPart.undelivered_append p gid now msgs ho, ← List.append_assoc, hd]; rfl
  · intro o h'
    rw [SPart.append_keeps_offsets] at h'
    have := ho o h'
    show o < p.next + _
    omega

/-- a step that hands out the first `count` undelivered messages and commits exactly that -/
theorem SPart.GroupInv.deliver {gid : Nat} {p : SPart} {d : List Msg} (h : SPart.GroupInv gid p d)
    (p' : SPart) (ms : List Msg) (count : Nat)
    (h1 : ms = (p.undelivered gid).take count) (h2 : p'.undelivered gid = (p.undelivered gid).drop count)
    (h3 : p'.msgs = p.msgs) (h4 : p'.next = p.next)
    (h6 : (∀ o, p.getOffset true gid = some o → o < p.next) →
      ∀ o, p'.getOffset true gid = some o → o < p.next) :
    SPart.GroupInv gid p' (d ++ ms) := by
  obtain ⟨hi, hd, ho⟩ := h
  refine ⟨?_, ?_, ?_⟩
  · unfold SPart.Inv; rw [h3, h4]; exact hi
  · rw [h1, h2, h3, List.append_assoc, List.take_append_drop, hd]
  · rw [h4]; exact h6 ho

/-- apply `f` to the entry of partition `pid` (entries are partitions 1, 2, … in order) -/
def modAt {α} (l : List α) (pid : Nat) (f : α → α) : List α :=
  l.zipIdx.map (fun xi => if xi.2 + 1 = pid then f xi.1 else xi.1)

theorem mem_modAt {α} {l : List α} {pid : Nat} {f : α → α} {y : α} (h : y ∈ modAt l pid f) :
    ∃ x ∈ l, y = x ∨ y = f x := by
  unfold modAt at h
  obtain ⟨⟨x, i⟩, hx, rfl⟩ := List.mem_map.mp h
  have hx' : x ∈ l := by
    have := List.mem_zipIdx hx
    simp only [Nat.sub_zero] at this
    rw [this.2.2]; exact List.getElem_mem _
  refine ⟨x, hx', ?_⟩
  simp only
  split
  · exact Or.inr rfl
  · exact Or.inl rfl

end Iggy.Log
