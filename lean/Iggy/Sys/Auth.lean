/-
Authentication, users, personal access tokens and permission guards around the core system model
(`Iggy.Sys.step`): `stepA` = what a connection's request does.  The permission rules are the
GENERATED ones (Iggy/Perm/Generated.lean), evaluated on tables maintained as permissioner.rs does.
Order of checks per operation follows server/src/streaming/systems/*.rs:
ensure_authenticated → resolve stream (→ get_stream rule) → resolve topic (→ get_topic rule) → the
operation's own rule → act.
-/
import Iggy.Sys.Model
import Iggy.Perm.Generated
namespace Iggy.Sys
open Iggy.Log Iggy.Perm

structure Tok where
  name : String
  idx : Nat                 -- k-th raw token created in this history (stands for the random token)
  expiry : Option Nat       -- absolute µs; none = never
deriving Repr, DecidableEq

structure User where
  id : Nat
  name : String
  pw : String               -- stands for the salted hash: `verify p (hash q) ↔ p = q` (Scheme law)
  active : Bool
  perms : Option Permissions
  tokens : List Tok := []
deriving Repr

structure ASys where
  sys : Sys
  users : List (Nat × User)
  userCursor : Nat := 2         -- USER_ID
  lastUserId : Nat := 1         -- ids handed out so far (what the journal replay counts)
  sessions : List (Nat × Nat) := []   -- connection ↦ user id
  tables : Tables := {}
  tokenCount : Nat := 0
  patMax : Nat := 100
deriving Repr

inductive UStatus | active | inactive
deriving Repr, DecidableEq

inductive AOp
  | ping (c : Nat)
  | login (c : Nat) (name pw : String)
  | loginPat (c : Nat) (k : Nat)
  | logout (c : Nat)
  | createUser (c : Nat) (name pw : String) (active : Bool) (perms : Option Permissions)
  | deleteUser (c : Nat) (u : Ident)
  | updateUser (c : Nat) (u : Ident) (name : Option String) (status : Option Bool)
  | updatePerms (c : Nat) (u : Ident) (perms : Option Permissions)
  | changePw (c : Nat) (u : Ident) (cur new : String)
  | userInfo (c : Nat) (u : Ident)
  | users (c : Nat)
  | createPat (c : Nat) (name : String) (expiry : Option Nat)
  | deletePat (c : Nat) (name : String)
  | pats (c : Nat)
  | cleanPats
  | core (c : Nat) (op : Op)
deriving Repr

def rootUser : User :=
  { id := 1, name := "iggy", pw := "iggy", active := true, perms := some Permissions.root }

def ASys.init (y : Sys) (patMax : Nat) : ASys :=
  { sys := y, users := [(1, rootUser)], tables := tablesOf 1 (some Permissions.root), patMax := patMax }

def ASys.userOf (a : ASys) (c : Nat) : Nat := (find? a.sessions c).getD 0

def ASys.findUser (a : ASys) : Ident → Option User
  | .num n => find? a.users n
  | .name nm => (a.users.find? (fun e => e.2.name = nm)).map (·.2)

def ASys.putUser (a : ASys) (u : User) : ASys := { a with users := insertAsc a.users u.id u }

def okR (r : Res) : Bool := r == Res.ok

/-- guard of a core operation for user `u`: `some err` = refused before acting. Resolution failures
are left to the core step (it reports them), in the order the real code meets them. -/
def guardCore (a : ASys) (u : Nat) (op : Op) : Option String :=
  let t := a.tables
  let y := a.sys
  let unauth : Option String := some "unauthorized"
  -- find_stream: get_stream rule when the stream exists
  let viaStream (si : Ident) (k : Stream → Option String) : Option String :=
    match y.findStream si with
    | .error _ => none
    | .ok s => k s
  -- find_topic: stream (+get_stream rule), topic (+get_topic rule)
  let viaTopic (si ti : Ident) (k : Stream → Topic → Option String) : Option String :=
    viaStream si (fun s =>
      if !okR (rule_get_stream t u s.id) then unauth else
      match s.findTopic ti with
      | .error _ => none
      | .ok tp => if !okR (rule_get_topic t u s.id tp.id) then unauth else k s tp)
  let need (r : Res) : Option String := if okR r then none else unauth
  match op with
  | .clock _ | .save | .maintain | .restart _ | .evict .. => none      -- not wire commands
  | .createStream .. => need (rule_create_stream t u)
  | .updateStream si _ => viaStream si (fun s => need (rule_update_stream t u s.id))
  | .deleteStream si => viaStream si (fun s => need (rule_delete_stream t u s.id))
  | .purgeStream si => viaStream si (fun s => need (rule_purge_stream t u s.id))
  | .streams => need (rule_get_streams t u)
  | .streamInfo si => viaStream si (fun s => need (rule_get_stream t u s.id))
  | .topics si => viaStream si (fun s => need (rule_get_topics t u s.id))
  | .topicInfo si ti => viaTopic si ti (fun _ _ => none)
  | .createTopic si .. => viaStream si (fun s => need (rule_create_topic t u s.id))
  | .updateTopic si ti .. => viaTopic si ti (fun s tp => need (rule_update_topic t u s.id tp.id))
  | .deleteTopic si ti => viaTopic si ti (fun s tp => need (rule_delete_topic t u s.id tp.id))
  | .purgeTopic si ti => viaTopic si ti (fun s tp => need (rule_purge_topic t u s.id tp.id))
  | .createParts si ti _ => viaTopic si ti (fun s tp => need (rule_create_partitions t u s.id tp.id))
  | .deleteParts si ti _ => viaTopic si ti (fun s tp => need (rule_delete_partitions t u s.id tp.id))
  | .createGroup si ti .. => viaTopic si ti (fun s tp => need (rule_create_consumer_group t u s.id tp.id))
  | .deleteGroup si ti _ => viaTopic si ti (fun s tp => need (rule_delete_consumer_group t u s.id tp.id))
  | .join _ si ti _ => viaTopic si ti (fun s tp => need (rule_join_consumer_group t u s.id tp.id))
  | .leave _ si ti _ => viaTopic si ti (fun s tp => need (rule_leave_consumer_group t u s.id tp.id))
  | .groupInfo si ti .. => viaTopic si ti (fun s tp => need (rule_get_consumer_group t u s.id tp.id))
  | .groups si ti => viaTopic si ti (fun s tp => need (rule_get_consumer_groups t u s.id tp.id))
  | .me .. => need (rule_get_client t u)
  | .close _ => none
  | .send si ti .. => viaTopic si ti (fun s tp => need (rule_append_messages t u s.id tp.id))
  | .flush si ti _ => viaTopic si ti (fun s tp => need (rule_append_messages t u s.id tp.id))
  | .poll _ si ti .. => viaTopic si ti (fun s tp => need (rule_poll_messages t u s.id tp.id))
  | .storeOffset _ si ti .. => viaTopic si ti (fun s tp => need (rule_store_consumer_offset t u s.id tp.id))
  | .getOffset _ si ti .. => viaTopic si ti (fun s tp => need (rule_get_consumer_offset t u s.id tp.id))
  | .deleteOffset _ si ti .. => viaTopic si ti (fun s tp => need (rule_delete_consumer_offset t u s.id tp.id))
  | .stats => none          -- the binary handler never consults permissioner.get_stats (known finding)

/-- operations that do not call ensure_authenticated first (the permission rule then sees user 0) -/
def skipsAuthCheck : Op → Bool
  | .stats => true          -- binary get_stats handler: no ensure_authenticated, no rule (known finding)
  | .clock _ | .save | .maintain | .restart _ | .evict .. | .close _ => true
  | _ => false

def insertTok (t : Tok) : List Tok → List Tok
  | [] => [t]
  | x :: rest => if t.name < x.name then t :: x :: rest else x :: insertTok t rest

def sortToks (l : List Tok) : List Tok := l.foldr insertTok []

def userLine (u : User) : String := s!"{u.id}:{u.name}:{if u.active then "active" else "inactive"}"

def stepA0 (a : ASys) : AOp → ASys × Out × List Effect
  | .ping _ => (a, .ok, [])
  | .login c name pw =>
    match a.findUser (.name name) with
    | none => (a, .err "invalid_credentials", [])
    | some u =>
      if !u.active then (a, .err "user_inactive", [])
      else if u.pw ≠ pw then (a, .err "invalid_credentials", [])
      -- an already authenticated session is logged out first; that fails if its user was deleted
      else if a.userOf c ≠ 0 ∧ (find? a.users (a.userOf c)).isNone then (a, .err "resource_not_found", [])
      else ({ a with sessions := insertAsc a.sessions c u.id }, .okId u.id, [])
  | .loginPat c k =>
    match a.users.find? (fun e => e.2.tokens.any (fun tk => tk.idx = k)) with
    | none => (a, .err "resource_not_found", [])
    | some e =>
      match e.2.tokens.find? (fun tk => tk.idx = k) with
      | none => (a, .err "resource_not_found", [])
      | some tk =>
        if (match tk.expiry with | some x => decide (x ≤ a.sys.now) | none => false) then
          (a, .err "personal_access_token_expired", [])
        else if !e.2.active then (a, .err "user_inactive", [])
        else if a.userOf c ≠ 0 ∧ (find? a.users (a.userOf c)).isNone then (a, .err "resource_not_found", [])
        else ({ a with sessions := insertAsc a.sessions c e.2.id }, .okId e.2.id, [])
  | .logout c =>
    if a.userOf c = 0 then (a, .err "unauthenticated", [])
    else if (find? a.users (a.userOf c)).isNone then (a, .err "resource_not_found", [])  -- user deleted meanwhile
    else ({ a with sessions := erase a.sessions c }, .ok, [])
  | .createUser c name pw active perms =>
    let me := a.userOf c
    if me = 0 then (a, .err "unauthenticated", []) else
    if !okR (rule_create_user a.tables me) then (a, .err "unauthorized", []) else
    if a.users.any (fun e => e.2.name = name) then (a, .err "user_already_exists", []) else
    let id := a.userCursor
    let u : User := { id := id, name := name, pw := pw, active := active, perms := perms }
    ({ a with users := insertAsc a.users id u, userCursor := id + 1, lastUserId := a.lastUserId + 1,
              tables := a.tables.initUser id perms }, .okId id, [])
  | .deleteUser c ui =>
    let me := a.userOf c
    if me = 0 then (a, .err "unauthenticated", []) else
    if !okR (rule_delete_user a.tables me) then (a, .err "unauthorized", []) else
    match a.findUser ui with
    | none => (a, .err "resource_not_found", [])
    | some u =>
      if u.id = 1 then (a, .err "cannot_delete_user", []) else
      -- open sessions of the deleted user keep their user id (Session is not touched); the user's
      -- permission tables are gone
      ({ a with users := erase a.users u.id, tables := a.tables.deleteUser u.id }, .ok, [])
  | .updateUser c ui name status =>
    let me := a.userOf c
    if me = 0 then (a, .err "unauthenticated", []) else
    if !okR (rule_update_user a.tables me) then (a, .err "unauthorized", []) else
    match a.findUser ui with
    | none => (a, .err "resource_not_found", [])
    | some u =>
      if (match name with
          | some nm => a.users.any (fun e => e.2.name = nm ∧ e.1 ≠ u.id)
          | none => false) then (a, .err "user_already_exists", []) else
      (a.putUser { u with name := name.getD u.name, active := status.getD u.active }, .ok, [])
  | .updatePerms c ui perms =>
    let me := a.userOf c
    if me = 0 then (a, .err "unauthenticated", []) else
    if !okR (rule_update_permissions a.tables me) then (a, .err "unauthorized", []) else
    match a.findUser ui with
    | none => (a, .err "resource_not_found", [])
    | some u =>
      if u.id = 1 then (a, .err "cannot_change_permissions", []) else
      ({ (a.putUser { u with perms := perms }) with tables := a.tables.updateUser u.id perms }, .ok, [])
  | .changePw c ui cur new =>
    let me := a.userOf c
    if me = 0 then (a, .err "unauthenticated", []) else
    match a.findUser ui with
    | none => (a, .err "resource_not_found", [])
    | some u =>
      if u.id ≠ me ∧ !okR (rule_change_password a.tables me) then (a, .err "unauthorized", []) else
      if u.pw ≠ cur then (a, .err "invalid_credentials", []) else
      (a.putUser { u with pw := new }, .ok, [])
  | .userInfo c ui =>
    -- find_user: not found → none (before any permission check); one's own record needs no permission
    let me := a.userOf c
    if me = 0 then (a, .err "unauthenticated", []) else
    match a.findUser ui with
    | none => (a, .none', [])
    | some u =>
      if u.id ≠ me ∧ !okR (rule_get_user a.tables me) then (a, .err "unauthorized", []) else
      (a, .text (userLine u), [])
  | .users c =>
    let me := a.userOf c
    if me = 0 then (a, .err "unauthenticated", []) else
    if !okR (rule_get_users a.tables me) then (a, .err "unauthorized", []) else
    (a, .text (",".intercalate (a.users.map (fun e => userLine e.2))), [])
  | .createPat c name expiry =>
    let me := a.userOf c
    if me = 0 then (a, .err "unauthenticated", []) else
    match find? a.users me with
    | none => (a, .err "resource_not_found", [])
    | some u =>
      if a.patMax ≤ u.tokens.length then (a, .err "personal_access_tokens_limit_reached", []) else
      if u.tokens.any (fun tk => tk.name = name) then (a, .err "personal_access_token_already_exists", []) else
      let tk : Tok := { name := name, idx := a.tokenCount, expiry := expiry.map (· + a.sys.now) }
      ({ (a.putUser { u with tokens := u.tokens ++ [tk] }) with tokenCount := a.tokenCount + 1 },
        .okId a.tokenCount, [])
  | .deletePat c name =>
    let me := a.userOf c
    if me = 0 then (a, .err "unauthenticated", []) else
    match find? a.users me with
    | none => (a, .err "resource_not_found", [])
    | some u =>
      if !u.tokens.any (fun tk => tk.name = name) then (a, .err "resource_not_found", []) else
      (a.putUser { u with tokens := u.tokens.filter (fun tk => tk.name ≠ name) }, .ok, [])
  | .pats c =>
    let me := a.userOf c
    if me = 0 then (a, .err "unauthenticated", []) else
    match find? a.users me with
    | none => (a, .err "resource_not_found", [])
    | some u => (a, .text (",".intercalate ((sortToks u.tokens).map (fun tk =>
        s!"{tk.name}:{match tk.expiry with | some x => toString x | none => "never"}"))), [])
  | .cleanPats =>
    ({ a with users := a.users.map (fun e => (e.1, { e.2 with tokens := e.2.tokens.filter (fun tk =>
        match tk.expiry with | some x => decide (a.sys.now < x) | none => true) })) }, .ok, [])
  | .core c op =>
    let me := a.userOf c
    let run : ASys × Out × List Effect :=
      let (y', out, effs) := step a.sys op
      ({ a with sys := y' }, out, effs)
    match op with
    | .restart _ =>
      -- users survive through the journal; sessions do not; tokens already expired at start-up are
      -- dropped; the id counter continues after the last id ever assigned (fix c461ac8)
      let (a', out, effs) := run
      let maxId := a.users.foldl (fun m e => max m e.1) 1
      ({ a' with sessions := [], userCursor := max maxId a.lastUserId + 1,
                 users := a'.users.map (fun e => (e.1, { e.2 with tokens := e.2.tokens.filter (fun tk =>
                   match tk.expiry with | some x => decide (a.sys.now < x) | none => true) })),
                 tables := a.users.foldl (fun t e => t.initUser e.1 e.2.perms) {} }, out, effs)
    | .close _ => let (a', out, effs) := run; ({ a' with sessions := erase a'.sessions c }, out, effs)
    | _ =>
      if me = 0 ∧ !skipsAuthCheck op then (a, .err "unauthenticated", [])
      else match guardCore a me op with
        | some e => (a, .err e, [])
        | none => run

/-- the binary handlers of the single-entity reads (get_stream, get_topic, get_consumer_group,
get_consumer_offset, get_user) answer ANY failure — not found, unauthenticated, unauthorized — with
an empty response -/
def emptyOnError : AOp → Bool
  | .userInfo .. => true
  | .core _ (.streamInfo _) | .core _ (.topicInfo ..) | .core _ (.groupInfo ..) | .core _ (.getOffset ..) => true
  | _ => false

def stepA (a : ASys) (op : AOp) : ASys × Out × List Effect :=
  let r := stepA0 a op
  match r.2.1 with
  | .err e => if emptyOnError op ∧ e ≠ "unauthenticated" then (r.1, .none', r.2.2) else r
  | _ => r

end Iggy.Sys
