/-
Helper lemmas about the authentication layer (`Iggy.Sys.stepA0`, Iggy/Sys/Auth.lean): the user table
as a finite map, its well-formedness invariant `ASys.UWF`, what a login / token login resolves to under
the invariant, and what each operation does to the user table.
-/
import Iggy.Sys.Auth
import Iggy.Sys.Catalog.Assoc
namespace Iggy.Sys
open Iggy.Log Iggy.Perm

/-! ## tokens: validity at a time -/

/-- the token has not expired at time `now` (no expiry = never expires) -/
def Tok.validAt (now : Nat) (tk : Tok) : Bool :=
  match tk.expiry with
  | some x => decide (now < x)
  | none => true

/-- the token has expired at time `now` -/
def Tok.expiredAt (now : Nat) (tk : Tok) : Bool :=
  match tk.expiry with
  | some x => decide (x ≤ now)
  | none => false

theorem Tok.validAt_iff {now : Nat} {tk : Tok} : tk.validAt now = true ↔ ∀ x, tk.expiry = some x → now < x := by
  unfold Tok.validAt
  cases tk.expiry with
  | none => simp
  | some x => simp

theorem Tok.expiredAt_iff {now : Nat} {tk : Tok} : tk.expiredAt now = true ↔ ∃ x, tk.expiry = some x ∧ x ≤ now := by
  unfold Tok.expiredAt
  cases tk.expiry with
  | none => simp
  | some x => simp

theorem Tok.expiredAt_eq_not_validAt (now : Nat) (tk : Tok) : tk.expiredAt now = !tk.validAt now := by
  unfold Tok.expiredAt Tok.validAt
  cases tk.expiry with
  | none => rfl
  | some x => by_cases h : now < x <;> simp [h] <;> omega

/-- keep only the tokens satisfying `p` -/
def User.keepToks (p : Tok → Bool) (u : User) : User := { u with tokens := u.tokens.filter p }

/-- the user table with every user's tokens filtered by `p` (everything else untouched) -/
def keepToks (p : Tok → Bool) (us : List (Nat × User)) : List (Nat × User) :=
  mapE (fun _ u => u.keepToks p) us

@[simp] theorem User.keepToks_id (p : Tok → Bool) (u : User) : (u.keepToks p).id = u.id := rfl
@[simp] theorem User.keepToks_name (p : Tok → Bool) (u : User) : (u.keepToks p).name = u.name := rfl
@[simp] theorem User.keepToks_pw (p : Tok → Bool) (u : User) : (u.keepToks p).pw = u.pw := rfl
@[simp] theorem User.keepToks_active (p : Tok → Bool) (u : User) : (u.keepToks p).active = u.active := rfl
@[simp] theorem User.keepToks_perms (p : Tok → Bool) (u : User) : (u.keepToks p).perms = u.perms := rfl
@[simp] theorem User.keepToks_tokens (p : Tok → Bool) (u : User) : (u.keepToks p).tokens = u.tokens.filter p := rfl

/-! ## the invariant of the user table -/

/-- well-formed user table `us` with token counter `tc` and id cursor `cur` -/
structure UsersWF (us : List (Nat × User)) (tc cur : Nat) : Prop where
  /-- ids ascend strictly -/
  asc : Asc us
  /-- every user is stored under its own id -/
  key : ∀ e ∈ us, e.2.id = e.1
  /-- user names are pairwise distinct: two entries with the same name are the same entry -/
  names : ∀ e₁ ∈ us, ∀ e₂ ∈ us, e₁.2.name = e₂.2.name → e₁.1 = e₂.1
  /-- a raw token belongs to one user only … -/
  tokOwner : ∀ e₁ ∈ us, ∀ e₂ ∈ us, ∀ t₁ ∈ e₁.2.tokens, ∀ t₂ ∈ e₂.2.tokens, t₁.idx = t₂.idx → e₁.1 = e₂.1
  /-- … and occurs once among that user's tokens -/
  tokNodup : ∀ e ∈ us, e.2.tokens.Pairwise (fun s t => s.idx ≠ t.idx)
  /-- every raw token was handed out before -/
  tokLt : ∀ e ∈ us, ∀ t ∈ e.2.tokens, t.idx < tc
  /-- the root user exists -/
  root : (find? us 1).isSome = true
  /-- the id cursor is beyond every id in use (so that `createUser` never overwrites a user) -/
  fresh : ∀ e ∈ us, e.1 < cur

/-- the invariant of the authentication layer: users strictly ascending in id, each stored under its
id, names pairwise distinct, raw tokens (`idx`) pairwise distinct across all users and `< tokenCount`,
root (id 1) present, id cursor beyond every id in use -/
def ASys.UWF (a : ASys) : Prop := UsersWF a.users a.tokenCount a.userCursor

theorem pairwise_idx_inj {l : List Tok} (h : l.Pairwise (fun s t => s.idx ≠ t.idx)) {s t : Tok}
    (hs : s ∈ l) (ht : t ∈ l) (he : s.idx = t.idx) : s = t := by
  induction l with
  | nil => simp at hs
  | cons x l ih =>
    rw [List.pairwise_cons] at h
    rcases List.mem_cons.1 hs with hs' | hs' <;> rcases List.mem_cons.1 ht with ht' | ht'
    · rw [hs', ht']
    · subst hs'; exact absurd he (h.1 _ ht')
    · subst ht'; exact absurd he.symm (h.1 _ hs')
    · exact ih h.2 hs' ht'

namespace UsersWF
variable {us : List (Nat × User)} {tc cur : Nat}

theorem eq_of_name (h : UsersWF us tc cur) {e₁ e₂ : Nat × User} (h1 : e₁ ∈ us) (h2 : e₂ ∈ us)
    (hn : e₁.2.name = e₂.2.name) : e₁ = e₂ :=
  h.asc.eq_of_key h1 h2 (h.names _ h1 _ h2 hn)

theorem eq_of_tok (h : UsersWF us tc cur) {e₁ e₂ : Nat × User} (h1 : e₁ ∈ us) (h2 : e₂ ∈ us)
    {t₁ t₂ : Tok} (ht1 : t₁ ∈ e₁.2.tokens) (ht2 : t₂ ∈ e₂.2.tokens) (hi : t₁.idx = t₂.idx) :
    e₁ = e₂ ∧ t₁ = t₂ := by
  have he := h.asc.eq_of_key h1 h2 (h.tokOwner _ h1 _ h2 _ ht1 _ ht2 hi)
  subst he
  exact ⟨rfl, pairwise_idx_inj (h.tokNodup _ h1) ht1 ht2 hi⟩

/-- lookup by name finds exactly the entry carrying that name -/
theorem find?_name (h : UsersWF us tc cur) {e : Nat × User} (hm : e ∈ us) :
    us.find? (fun x => decide (x.2.name = e.2.name)) = some e := by
  cases hf : us.find? (fun x => decide (x.2.name = e.2.name)) with
  | none =>
    rw [List.find?_eq_none] at hf
    have := hf e hm
    simp at this
  | some e' =>
    have h1 := List.mem_of_find?_eq_some hf
    have h2 := List.find?_some hf
    simp at h2
    rw [h.eq_of_name h1 hm h2]

/-- lookup by raw token finds exactly its owner, and then the token itself -/
theorem find?_tok (h : UsersWF us tc cur) {e : Nat × User} (hm : e ∈ us) {tk : Tok} (ht : tk ∈ e.2.tokens) :
    us.find? (fun x => x.2.tokens.any (fun t => decide (t.idx = tk.idx))) = some e ∧
    e.2.tokens.find? (fun t => decide (t.idx = tk.idx)) = some tk := by
  constructor
  · cases hf : us.find? (fun x => x.2.tokens.any (fun t => decide (t.idx = tk.idx))) with
    | none =>
      rw [List.find?_eq_none] at hf
      have := hf e hm
      simp at this
      exact absurd rfl (this tk ht)
    | some e' =>
      have h1 := List.mem_of_find?_eq_some hf
      have h2 := List.find?_some hf
      simp at h2
      obtain ⟨t, ht', hi⟩ := h2
      rw [(h.eq_of_tok h1 hm ht' ht hi).1]
  · cases hf : e.2.tokens.find? (fun t => decide (t.idx = tk.idx)) with
    | none =>
      rw [List.find?_eq_none] at hf
      have := hf tk ht
      simp at this
    | some t =>
      have h1 := List.mem_of_find?_eq_some hf
      have h2 := List.find?_some hf
      simp at h2
      rw [pairwise_idx_inj (h.tokNodup _ hm) h1 ht h2]

theorem mem_of_find? (_h : UsersWF us tc cur) {k : Nat} {u : User} (hf : find? us k = some u) : (k, u) ∈ us :=
  Iggy.Sys.mem_of_find? hf

theorem id_of_find? (h : UsersWF us tc cur) {k : Nat} {u : User} (hf : find? us k = some u) : u.id = k :=
  h.key _ (Iggy.Sys.mem_of_find? hf)

end UsersWF


/-! ## the invariant is preserved by the ways the table is edited -/

namespace UsersWF
variable {us : List (Nat × User)} {tc cur : Nat}

/-- overwrite an existing user `u` by `u'`: same id, a name no other user has, tokens that are tokens
of `u` or freshly numbered ones -/
theorem put (h : UsersWF us tc cur) {u u' : User} {tc' : Nat}
    (hf : find? us u.id = some u) (hid : u'.id = u.id)
    (hname : ∀ e ∈ us, e.2.name = u'.name → e.1 = u.id)
    (hle : tc ≤ tc')
    (htok : ∀ t ∈ u'.tokens, t ∈ u.tokens ∨ (tc ≤ t.idx ∧ t.idx < tc'))
    (hnd : u'.tokens.Pairwise (fun s t => s.idx ≠ t.idx)) :
    UsersWF (insertAsc us u'.id u') tc' cur := by
  have hmu : (u.id, u) ∈ us := Iggy.Sys.mem_of_find? hf
  have hmem : ∀ e ∈ insertAsc us u'.id u', e = (u.id, u') ∨ (e ∈ us ∧ e.1 ≠ u.id) := by
    intro e he
    rcases mem_insertAsc he with he | ⟨he, hne⟩
    · left; rw [he, hid]
    · right; exact ⟨he, by rw [← hid]; exact hne h.asc⟩
  refine ⟨asc_insertAsc h.asc _ _, ?_, ?_, ?_, ?_, ?_, ?_, ?_⟩
  · intro e he
    rcases hmem e he with rfl | ⟨he, _⟩
    · exact hid
    · exact h.key e he
  · intro e1 he1 e2 he2 hn
    rcases hmem e1 he1 with rfl | ⟨h1, n1⟩ <;> rcases hmem e2 he2 with rfl | ⟨h2, n2⟩
    · rfl
    · exact (hname e2 h2 hn.symm).symm
    · exact hname e1 h1 hn
    · exact h.names _ h1 _ h2 hn
  · intro e1 he1 e2 he2 t1 ht1 t2 ht2 hi
    rcases hmem e1 he1 with rfl | ⟨h1, n1⟩ <;> rcases hmem e2 he2 with rfl | ⟨h2, n2⟩
    · rfl
    · rcases htok t1 ht1 with ht | ⟨hl, _⟩
      · exact h.tokOwner (u.id, u) hmu _ h2 _ ht _ ht2 hi
      · have := h.tokLt _ h2 _ ht2; omega
    · rcases htok t2 ht2 with ht | ⟨hl, _⟩
      · exact h.tokOwner _ h1 (u.id, u) hmu _ ht1 _ ht hi
      · have := h.tokLt _ h1 _ ht1; omega
    · exact h.tokOwner _ h1 _ h2 _ ht1 _ ht2 hi
  · intro e he
    rcases hmem e he with rfl | ⟨h1, _⟩
    · exact hnd
    · exact h.tokNodup _ h1
  · intro e he t ht
    rcases hmem e he with rfl | ⟨h1, _⟩
    · rcases htok t ht with ht' | ⟨_, hl⟩
      · have := h.tokLt (u.id, u) hmu _ ht'; omega
      · exact hl
    · have := h.tokLt _ h1 _ ht; omega
  · by_cases hk : u'.id = 1
    · rw [hk, find?_insertAsc_self]; rfl
    · rw [find?_insertAsc_ne _ _ (Ne.symm hk)]; exact h.root
  · intro e he
    rcases hmem e he with rfl | ⟨h1, _⟩
    · exact h.fresh (u.id, u) hmu
    · exact h.fresh _ h1

/-- overwrite an existing user keeping its name and (a sublist of) its tokens -/
theorem put_same (h : UsersWF us tc cur) {u u' : User}
    (hf : find? us u.id = some u) (hid : u'.id = u.id) (hname : u'.name = u.name)
    (htok : ∀ t ∈ u'.tokens, t ∈ u.tokens)
    (hnd : u'.tokens.Pairwise (fun s t => s.idx ≠ t.idx)) :
    UsersWF (insertAsc us u'.id u') tc cur :=
  h.put hf hid (fun e he hn => h.names e he (u.id, u) (Iggy.Sys.mem_of_find? hf) (by rw [hn, hname]))
    (Nat.le_refl _) (fun t ht => Or.inl (htok t ht)) hnd

/-- add a new user at the cursor -/
theorem add (h : UsersWF us tc cur) {u : User} (hid : u.id = cur) (hname : ∀ e ∈ us, e.2.name ≠ u.name)
    (htok : u.tokens = []) : UsersWF (insertAsc us cur u) tc (cur + 1) := by
  have hmem : ∀ e ∈ insertAsc us cur u, e = (cur, u) ∨ e ∈ us := by
    intro e he
    rcases mem_insertAsc he with he | ⟨he, _⟩
    · exact Or.inl he
    · exact Or.inr he
  refine ⟨asc_insertAsc h.asc _ _, ?_, ?_, ?_, ?_, ?_, ?_, ?_⟩
  · intro e he
    rcases hmem e he with rfl | he
    · exact hid
    · exact h.key e he
  · intro e1 he1 e2 he2 hn
    rcases hmem e1 he1 with rfl | h1 <;> rcases hmem e2 he2 with rfl | h2
    · rfl
    · exact absurd hn.symm (hname e2 h2)
    · exact absurd hn (hname e1 h1)
    · exact h.names _ h1 _ h2 hn
  · intro e1 he1 e2 he2 t1 ht1 t2 ht2 hi
    rcases hmem e1 he1 with rfl | h1 <;> rcases hmem e2 he2 with rfl | h2
    · rfl
    · simp [htok] at ht1
    · simp [htok] at ht2
    · exact h.tokOwner _ h1 _ h2 _ ht1 _ ht2 hi
  · intro e he
    rcases hmem e he with rfl | h1
    · simp [htok]
    · exact h.tokNodup _ h1
  · intro e he t ht
    rcases hmem e he with rfl | h1
    · simp [htok] at ht
    · exact h.tokLt _ h1 _ ht
  · have h1 : (1 : Nat) ≠ cur := by
      intro hc
      obtain ⟨e, he, hk⟩ := find?_isSome.1 h.root
      have := h.fresh e he
      omega
    rw [find?_insertAsc_ne _ _ h1]; exact h.root
  · intro e he
    rcases hmem e he with rfl | h1
    · exact Nat.lt_succ_self _
    · exact Nat.lt_succ_of_lt (h.fresh _ h1)

/-- remove a user other than root -/
theorem erase (h : UsersWF us tc cur) {k : Nat} (hk : k ≠ 1) : UsersWF (erase us k) tc cur := by
  have hmem : ∀ e ∈ Iggy.Sys.erase us k, e ∈ us := fun e he => (mem_erase.1 he).1
  refine ⟨asc_erase h.asc _, fun e he => h.key e (hmem e he),
    fun e1 h1 e2 h2 => h.names e1 (hmem _ h1) e2 (hmem _ h2),
    fun e1 h1 e2 h2 => h.tokOwner e1 (hmem _ h1) e2 (hmem _ h2),
    fun e he => h.tokNodup e (hmem e he), fun e he => h.tokLt e (hmem e he), ?_,
    fun e he => h.fresh e (hmem e he)⟩
  rw [find?_erase_ne _ (Ne.symm hk)]; exact h.root

theorem mem_keepToks {p : Tok → Bool} {e : Nat × User} :
    e ∈ Iggy.Sys.keepToks p us ↔ ∃ a ∈ us, e = (a.1, a.2.keepToks p) := mem_mapE

/-- drop tokens everywhere -/
theorem keepToks (h : UsersWF us tc cur) (p : Tok → Bool) : UsersWF (keepToks p us) tc cur := by
  refine ⟨(asc_mapE _ _).2 h.asc, ?_, ?_, ?_, ?_, ?_, ?_, ?_⟩
  · rintro e he
    obtain ⟨a, ha, rfl⟩ := mem_keepToks.1 he
    exact h.key a ha
  · intro e1 he1 e2 he2 hn
    obtain ⟨a1, ha1, rfl⟩ := mem_keepToks.1 he1
    obtain ⟨a2, ha2, rfl⟩ := mem_keepToks.1 he2
    exact h.names a1 ha1 a2 ha2 hn
  · intro e1 he1 e2 he2 t1 ht1 t2 ht2 hi
    obtain ⟨a1, ha1, rfl⟩ := mem_keepToks.1 he1
    obtain ⟨a2, ha2, rfl⟩ := mem_keepToks.1 he2
    exact h.tokOwner a1 ha1 a2 ha2 t1 (List.mem_filter.1 ht1).1 t2 (List.mem_filter.1 ht2).1 hi
  · intro e he
    obtain ⟨a, ha, rfl⟩ := mem_keepToks.1 he
    exact List.Pairwise.filter _ (h.tokNodup a ha)
  · intro e he t ht
    obtain ⟨a, ha, rfl⟩ := mem_keepToks.1 he
    exact h.tokLt a ha t (List.mem_filter.1 ht).1
  · unfold Iggy.Sys.keepToks
    rw [find?_mapE]
    cases hr : find? us 1 with
    | none => have := h.root; rw [hr] at this; simp at this
    | some r => rfl
  · intro e he
    obtain ⟨a, ha, rfl⟩ := mem_keepToks.1 he
    exact h.fresh a ha

/-- move the cursor -/
theorem cursor (h : UsersWF us tc cur) {cur' : Nat} (hc : ∀ e ∈ us, e.1 < cur') : UsersWF us tc cur' :=
  { h with fresh := hc }

end UsersWF

theorem le_foldl_max (l : List (Nat × User)) (m : Nat) :
    m ≤ l.foldl (fun m e => max m e.1) m ∧ ∀ e ∈ l, e.1 ≤ l.foldl (fun m e => max m e.1) m := by
  induction l generalizing m with
  | nil => simp
  | cons x l ih =>
    simp only [List.foldl_cons, List.mem_cons, forall_eq_or_imp]
    have := ih (max m x.1)
    refine ⟨by omega, by omega, this.2⟩


/-! ## resolving a user -/

theorem ASys.findUser_mem' {a : ASys} {ui : Ident} {u : User} (hf : a.findUser ui = some u) :
    ∃ k, (k, u) ∈ a.users := by
  cases ui with
  | num n => exact ⟨n, mem_of_find? (show find? a.users n = some u from hf)⟩
  | name nm =>
    simp only [ASys.findUser, Option.map_eq_some_iff] at hf
    obtain ⟨e, he, rfl⟩ := hf
    exact ⟨e.1, List.mem_of_find?_eq_some he⟩

theorem ASys.findUser_mem {a : ASys} (h : a.UWF) {ui : Ident} {u : User} (hf : a.findUser ui = some u) :
    (u.id, u) ∈ a.users := by
  obtain ⟨k, hk⟩ := ASys.findUser_mem' hf
  have := h.key _ hk
  simp only at this
  rw [this]; exact hk

theorem ASys.findUser_find? {a : ASys} (h : a.UWF) {ui : Ident} {u : User} (hf : a.findUser ui = some u) :
    find? a.users u.id = some u := find?_of_mem h.asc (ASys.findUser_mem h hf)

theorem ASys.findUser_name_spec {a : ASys} {nm : String} {u : User} (hf : a.findUser (.name nm) = some u) :
    u.name = nm := by
  simp only [ASys.findUser, Option.map_eq_some_iff] at hf
  obtain ⟨e, he, rfl⟩ := hf
  simpa using List.find?_some he

theorem ASys.findUser_name {a : ASys} (h : a.UWF) {k : Nat} {u : User} (hm : (k, u) ∈ a.users) :
    a.findUser (.name u.name) = some u := by
  have := h.find?_name hm
  simp only [ASys.findUser]
  rw [this]; rfl

theorem ASys.findUser_name_none {a : ASys} {nm : String} (hn : ∀ e ∈ a.users, e.2.name ≠ nm) :
    a.findUser (.name nm) = none := by
  simp only [ASys.findUser, Option.map_eq_none_iff, List.find?_eq_none]
  intro e he
  simpa using hn e he

theorem ASys.findUser_num {a : ASys} (n : Nat) : a.findUser (.num n) = find? a.users n := rfl

/-! ## what a login does once the credential is resolved -/

/-- the outcome of a password login once the name resolved to `u` -/
def loginAs (a : ASys) (c : Nat) (u : User) (pw : String) : ASys × Out × List Effect :=
  if !u.active then (a, .err "user_inactive", [])
  else if u.pw ≠ pw then (a, .err "invalid_credentials", [])
  else if a.userOf c ≠ 0 ∧ (find? a.users (a.userOf c)).isNone then (a, .err "resource_not_found", [])
  else ({ a with sessions := insertAsc a.sessions c u.id }, .okId u.id, [])

/-- the outcome of a token login once the raw token resolved to token `tk` of user `u` -/
def loginTokAs (a : ASys) (c : Nat) (u : User) (tk : Tok) : ASys × Out × List Effect :=
  if tk.expiredAt a.sys.now then (a, .err "personal_access_token_expired", [])
  else if !u.active then (a, .err "user_inactive", [])
  else if a.userOf c ≠ 0 ∧ (find? a.users (a.userOf c)).isNone then (a, .err "resource_not_found", [])
  else ({ a with sessions := insertAsc a.sessions c u.id }, .okId u.id, [])

theorem stepA0_login_some {a : ASys} {c : Nat} {name pw : String} {u : User}
    (hf : a.findUser (.name name) = some u) : stepA0 a (.login c name pw) = loginAs a c u pw := by
  simp only [stepA0, hf]; rfl

theorem stepA0_login_none {a : ASys} {c : Nat} {name pw : String}
    (hf : a.findUser (.name name) = none) : stepA0 a (.login c name pw) = (a, .err "invalid_credentials", []) := by
  simp only [stepA0, hf]

theorem stepA0_loginPat_none {a : ASys} {c k : Nat} (hn : ∀ e ∈ a.users, ∀ t ∈ e.2.tokens, t.idx ≠ k) :
    stepA0 a (.loginPat c k) = (a, .err "resource_not_found", []) := by
  have : a.users.find? (fun e => e.2.tokens.any (fun tk => decide (tk.idx = k))) = none := by
    rw [List.find?_eq_none]
    intro e he
    simp only [List.any_eq_true, decide_eq_true_eq, not_exists, not_and]
    exact hn e he
  simp only [stepA0, this]

/-- a token login either finds nothing or resolves to some user's token with that raw value -/
theorem stepA0_loginPat_cases (a : ASys) (c k : Nat) :
    stepA0 a (.loginPat c k) = (a, .err "resource_not_found", []) ∨
    ∃ e ∈ a.users, ∃ tk ∈ e.2.tokens, tk.idx = k ∧ stepA0 a (.loginPat c k) = loginTokAs a c e.2 tk := by
  cases hf : a.users.find? (fun e => e.2.tokens.any (fun tk => decide (tk.idx = k))) with
  | none => left; simp only [stepA0, hf]
  | some e =>
    cases hg : e.2.tokens.find? (fun tk => decide (tk.idx = k)) with
    | none => left; simp only [stepA0, hf, hg]
    | some tk =>
      right
      refine ⟨e, List.mem_of_find?_eq_some hf, tk, List.mem_of_find?_eq_some hg, by simpa using List.find?_some hg, ?_⟩
      simp only [stepA0, hf, hg]; rfl

theorem stepA0_loginPat_some {a : ASys} {tc cur : Nat} (h : UsersWF a.users tc cur) {c k : Nat} {u : User}
    (hm : (k, u) ∈ a.users) {tk : Tok}
    (ht : tk ∈ u.tokens) : stepA0 a (.loginPat c tk.idx) = loginTokAs a c u tk := by
  obtain ⟨h1, h2⟩ := h.find?_tok hm ht
  simp only [stepA0, h1, h2]; rfl


/-! ## what the operations do to the user table -/

theorem stepA0_cleanPats (a : ASys) :
    stepA0 a .cleanPats = ({ a with users := keepToks (Tok.validAt a.sys.now) a.users }, .ok, []) := rfl

theorem stepA0_restart_users (a : ASys) (c : Nat) (cl : List (PKey × Nat)) :
    (stepA0 a (.core c (.restart cl))).1.users = keepToks (Tok.validAt a.sys.now) a.users := rfl

theorem stepA0_restart_sessions (a : ASys) (c : Nat) (cl : List (PKey × Nat)) :
    (stepA0 a (.core c (.restart cl))).1.sessions = [] := rfl

theorem stepA0_restart_sys (a : ASys) (c : Nat) (cl : List (PKey × Nat)) :
    (stepA0 a (.core c (.restart cl))).1.sys = (step a.sys (.restart cl)).1 := rfl

theorem stepA0_restart_tokenCount (a : ASys) (c : Nat) (cl : List (PKey × Nat)) :
    (stepA0 a (.core c (.restart cl))).1.tokenCount = a.tokenCount := rfl

theorem stepA0_restart_userCursor (a : ASys) (c : Nat) (cl : List (PKey × Nat)) :
    (stepA0 a (.core c (.restart cl))).1.userCursor =
      max (a.users.foldl (fun m e => max m e.1) 1) a.lastUserId + 1 := rfl

/-- a core operation other than `restart` leaves the user table, the token counter and the id cursor
alone (the inner `step` only changes `sys`) -/
theorem stepA0_core_users (a : ASys) (c : Nat) (op : Op) (hop : ∀ cl, op ≠ .restart cl) :
    (stepA0 a (.core c op)).1.users = a.users ∧ (stepA0 a (.core c op)).1.tokenCount = a.tokenCount ∧
    (stepA0 a (.core c op)).1.userCursor = a.userCursor := by
  cases op
  case restart cl => exact absurd rfl (hop cl)
  all_goals
    simp only [stepA0]
    repeat' split
    all_goals first | exact ⟨rfl, rfl, rfl⟩ | simp

/-- the restart of the core system keeps the clock -/
theorem step_restart_now (y : Sys) (cl : List (PKey × Nat)) : (step y (.restart cl)).1.now = y.now := by
  simp only [step]
  split
  · rfl
  · rfl


/-! ## the invariant holds initially and is preserved by every operation -/

theorem uwf_init (y : Sys) (patMax : Nat) : (ASys.init y patMax).UWF := by
  refine ⟨?_, ?_, ?_, ?_, ?_, ?_, ?_, ?_⟩ <;>
    simp [ASys.init, Asc, rootUser, find?_cons]

theorem ASys.UWF.putUser_same {a : ASys} (h : a.UWF) {u u' : User}
    (hf : find? a.users u.id = some u) (hid : u'.id = u.id) (hname : u'.name = u.name)
    (htok : ∀ t ∈ u'.tokens, t ∈ u.tokens)
    (hnd : u'.tokens.Pairwise (fun s t => s.idx ≠ t.idx)) : (a.putUser u').UWF :=
  UsersWF.put_same h hf hid hname htok hnd

theorem uwf_step {a : ASys} (h : a.UWF) (op : AOp) : (stepA0 a op).1.UWF := by
  cases op with
  | ping c => exact h
  | login c name pw =>
    simp only [stepA0]
    repeat' split
    all_goals exact h
  | loginPat c k =>
    simp only [stepA0]
    repeat' split
    all_goals exact h
  | logout c =>
    simp only [stepA0]
    repeat' split
    all_goals exact h
  | createUser c name pw active perms =>
    simp only [stepA0]
    split; exact h
    split; exact h
    split; exact h
    next _ _ hn =>
      refine UsersWF.add h rfl ?_ rfl
      intro e he hne
      apply hn
      simp only [List.any_eq_true, decide_eq_true_eq]
      exact ⟨e, he, hne⟩
  | deleteUser c ui =>
    simp only [stepA0]
    split; exact h
    split; exact h
    split; exact h
    split; exact h
    next hne => exact UsersWF.erase h hne
  | updateUser c ui name status =>
    simp only [stepA0]
    split; exact h
    split; exact h
    split; exact h
    next u hf =>
    have hfu := ASys.findUser_find? h hf
    cases name with
    | none =>
      simp only [Bool.false_eq_true, if_false]
      exact UsersWF.put_same h hfu rfl rfl (fun t ht => ht) (h.tokNodup _ (mem_of_find? hfu))
    | some nm =>
      simp only
      split; exact h
      next hn =>
        refine UsersWF.put h hfu rfl ?_ (Nat.le_refl _) (fun t ht => Or.inl ht) (h.tokNodup _ (mem_of_find? hfu))
        intro e he hne
        simp only [Option.getD_some] at hne
        simp only [List.any_eq_true, decide_eq_true_eq, not_exists, not_and] at hn
        exact Decidable.byContradiction (fun hc => hn e he hne hc)
  | updatePerms c ui perms =>
    simp only [stepA0]
    split; exact h
    split; exact h
    split; exact h
    next u hf =>
    split; exact h
    have hfu := ASys.findUser_find? h hf
    exact UsersWF.put_same h hfu rfl rfl (fun t ht => ht) (h.tokNodup _ (mem_of_find? hfu))
  | changePw c ui cur new =>
    simp only [stepA0]
    split; exact h
    split; exact h
    next u hf =>
    split; exact h
    split; exact h
    have hfu := ASys.findUser_find? h hf
    exact UsersWF.put_same h hfu rfl rfl (fun t ht => ht) (h.tokNodup _ (mem_of_find? hfu))
  | userInfo c ui =>
    simp only [stepA0]
    repeat' split
    all_goals exact h
  | users c =>
    simp only [stepA0]
    repeat' split
    all_goals exact h
  | createPat c name expiry =>
    simp only [stepA0]
    split; exact h
    split; exact h
    next u hf =>
    split; exact h
    split; exact h
    have hid := h.id_of_find? hf
    have hfu : find? a.users u.id = some u := by rw [hid]; exact hf
    have hm := mem_of_find? hfu
    refine UsersWF.put h hfu rfl (fun e he hn => h.names e he (u.id, u) hm hn) (Nat.le_succ _) ?_ ?_
    · intro t ht
      rcases List.mem_append.1 ht with ht | ht
      · exact Or.inl ht
      · right
        simp only [List.mem_singleton] at ht
        subst ht
        exact ⟨Nat.le_refl _, Nat.lt_succ_self _⟩
    · simp only [List.pairwise_append, List.pairwise_cons, List.Pairwise.nil, List.mem_singleton,
        and_true, List.not_mem_nil, false_imp_iff, implies_true, true_and]
      refine ⟨h.tokNodup _ hm, ?_⟩
      intro s hs t ht
      subst ht
      have := h.tokLt _ hm s hs
      simp only
      omega
  | deletePat c name =>
    simp only [stepA0]
    split; exact h
    split; exact h
    next u hf =>
    split; exact h
    have hid := h.id_of_find? hf
    have hfu : find? a.users u.id = some u := by rw [hid]; exact hf
    exact UsersWF.put_same h hfu rfl rfl (fun t ht => (List.mem_filter.1 ht).1)
      (List.Pairwise.filter _ (h.tokNodup _ (mem_of_find? hfu)))
  | pats c =>
    simp only [stepA0]
    repeat' split
    all_goals exact h
  | cleanPats => exact UsersWF.keepToks h _
  | core c op =>
    by_cases hop : ∃ cl, op = .restart cl
    · obtain ⟨cl, rfl⟩ := hop
      have h1 : UsersWF (keepToks (Tok.validAt a.sys.now) a.users) a.tokenCount a.userCursor :=
        UsersWF.keepToks h _
      refine UsersWF.cursor h1 ?_
      intro e he
      obtain ⟨x, hx, rfl⟩ := UsersWF.mem_keepToks.1 he
      have := (le_foldl_max a.users 1).2 x hx
      show x.1 < max (a.users.foldl (fun m e => max m e.1) 1) a.lastUserId + 1
      omega
    · obtain ⟨h1, h2, h3⟩ := stepA0_core_users a c op (fun cl hc => hop ⟨cl, hc⟩)
      unfold ASys.UWF
      rw [h1, h2, h3]; exact h


/-! ## outcomes of a resolved login -/

/-- the connection is unauthenticated, or the user it is authenticated as still exists (otherwise the
implicit logout that precedes a login fails) -/
def ASys.sessOK (a : ASys) (c : Nat) : Prop := a.userOf c = 0 ∨ (find? a.users (a.userOf c)).isSome = true

instance (a : ASys) (c : Nat) : Decidable (a.sessOK c) := by unfold ASys.sessOK; exact inferInstance

theorem ASys.sessOK_iff (a : ASys) (c : Nat) :
    a.sessOK c ↔ ¬ (a.userOf c ≠ 0 ∧ (find? a.users (a.userOf c)).isNone = true) := by
  unfold ASys.sessOK
  cases find? a.users (a.userOf c) <;> by_cases h : a.userOf c = 0 <;> simp [h]

theorem ASys.userOf_set (a : ASys) (c uid : Nat) :
    ({ a with sessions := insertAsc a.sessions c uid } : ASys).userOf c = uid := by
  simp [ASys.userOf, find?_insertAsc_self]

theorem loginAs_cases (a : ASys) (c : Nat) (u : User) (pw : String) :
    (u.active = false ∧ loginAs a c u pw = (a, .err "user_inactive", [])) ∨
    (u.active = true ∧ u.pw ≠ pw ∧ loginAs a c u pw = (a, .err "invalid_credentials", [])) ∨
    (u.active = true ∧ u.pw = pw ∧ ¬ a.sessOK c ∧ loginAs a c u pw = (a, .err "resource_not_found", [])) ∨
    (u.active = true ∧ u.pw = pw ∧ a.sessOK c ∧
      loginAs a c u pw = ({ a with sessions := insertAsc a.sessions c u.id }, .okId u.id, [])) := by
  rw [ASys.sessOK_iff]
  unfold loginAs
  cases hact : u.active
  · simp
  · by_cases hpw : u.pw = pw
    · by_cases hs : a.userOf c ≠ 0 ∧ (find? a.users (a.userOf c)).isNone = true
      · simp [hpw, hs]
      · simp only [Bool.not_true, Bool.false_eq_true, if_false, hpw, ne_eq, not_true_eq_false, hs]
        simp
    · simp [hpw]

theorem loginTokAs_cases (a : ASys) (c : Nat) (u : User) (tk : Tok) :
    (tk.validAt a.sys.now = false ∧ loginTokAs a c u tk = (a, .err "personal_access_token_expired", [])) ∨
    (tk.validAt a.sys.now = true ∧ u.active = false ∧ loginTokAs a c u tk = (a, .err "user_inactive", [])) ∨
    (tk.validAt a.sys.now = true ∧ u.active = true ∧ ¬ a.sessOK c ∧
      loginTokAs a c u tk = (a, .err "resource_not_found", [])) ∨
    (tk.validAt a.sys.now = true ∧ u.active = true ∧ a.sessOK c ∧
      loginTokAs a c u tk = ({ a with sessions := insertAsc a.sessions c u.id }, .okId u.id, [])) := by
  rw [ASys.sessOK_iff]
  unfold loginTokAs
  rw [Tok.expiredAt_eq_not_validAt]
  cases hv : tk.validAt a.sys.now
  · simp
  · cases hact : u.active
    · simp
    · by_cases hs : a.userOf c ≠ 0 ∧ (find? a.users (a.userOf c)).isNone = true
      · simp [hs]
      · simp only [Bool.not_true, Bool.false_eq_true, if_false, hs]
        simp


/-! ## what a successful user / token operation did -/

theorem stepA0_logout_ok {a : ASys} {c : Nat} (h : (stepA0 a (.logout c)).2.1 = .ok) :
    a.userOf c ≠ 0 ∧ stepA0 a (.logout c) = ({ a with sessions := erase a.sessions c }, .ok, []) := by
  revert h
  simp only [stepA0]
  split; · simp
  split; · simp
  next h1 _ => exact fun _ => ⟨h1, rfl⟩

theorem stepA0_deleteUser_ok {a : ASys} {c : Nat} {ui : Ident} (h : (stepA0 a (.deleteUser c ui)).2.1 = .ok) :
    ∃ u, a.findUser ui = some u ∧ u.id ≠ 1 ∧ a.userOf c ≠ 0 ∧ okR (rule_delete_user a.tables (a.userOf c)) = true ∧
      stepA0 a (.deleteUser c ui) =
        ({ a with users := erase a.users u.id, tables := a.tables.deleteUser u.id }, .ok, []) := by
  revert h
  simp only [stepA0]
  split; · simp
  split; · simp
  split; · simp
  next h1 h2 _ u hf =>
  split; · simp
  next h3 => exact fun _ => ⟨u, hf, h3, h1, by simpa using h2, rfl⟩

theorem stepA0_changePw_ok {a : ASys} {c : Nat} {ui : Ident} {cur new : String}
    (h : (stepA0 a (.changePw c ui cur new)).2.1 = .ok) :
    ∃ u, a.findUser ui = some u ∧ u.pw = cur ∧ a.userOf c ≠ 0 ∧
      (u.id = a.userOf c ∨ okR (rule_change_password a.tables (a.userOf c)) = true) ∧
      stepA0 a (.changePw c ui cur new) = (a.putUser { u with pw := new }, .ok, []) := by
  revert h
  simp only [stepA0]
  split; · simp
  split; · simp
  next h1 _ u hf =>
  split; · simp
  next h2 =>
  split; · simp
  next h3 =>
    refine fun _ => ⟨u, hf, by simpa using h3, h1, ?_, rfl⟩
    by_cases hid : u.id = a.userOf c
    · exact Or.inl hid
    · right
      simp only [ne_eq, hid, not_false_eq_true, true_and, Bool.not_eq_true', Bool.not_eq_false] at h2
      exact h2

theorem stepA0_updatePerms_ok {a : ASys} {c : Nat} {ui : Ident} {perms : Option Permissions}
    (h : (stepA0 a (.updatePerms c ui perms)).2.1 = .ok) :
    ∃ u, a.findUser ui = some u ∧ u.id ≠ 1 ∧ a.userOf c ≠ 0 ∧
      okR (rule_update_permissions a.tables (a.userOf c)) = true ∧
      stepA0 a (.updatePerms c ui perms) =
        ({ (a.putUser { u with perms := perms }) with tables := a.tables.updateUser u.id perms }, .ok, []) := by
  revert h
  simp only [stepA0]
  split; · simp
  split; · simp
  split; · simp
  next h1 h2 _ u hf =>
  split; · simp
  next h3 => exact fun _ => ⟨u, hf, h3, h1, by simpa using h2, rfl⟩

theorem stepA0_deletePat_ok {a : ASys} {c : Nat} {name : String} (h : (stepA0 a (.deletePat c name)).2.1 = .ok) :
    ∃ u, find? a.users (a.userOf c) = some u ∧ a.userOf c ≠ 0 ∧ (∃ tk ∈ u.tokens, tk.name = name) ∧
      stepA0 a (.deletePat c name) =
        (a.putUser { u with tokens := u.tokens.filter (fun tk => decide (tk.name ≠ name)) }, .ok, []) := by
  revert h
  simp only [stepA0]
  split; · simp
  split; · simp
  next h1 _ u hf =>
  split; · simp
  next h2 =>
    refine fun _ => ⟨u, hf, h1, ?_, rfl⟩
    simpa using h2

theorem stepA0_createPat_ok {a : ASys} {c : Nat} {name : String} {expiry : Option Nat} {k : Nat}
    (h : (stepA0 a (.createPat c name expiry)).2.1 = .okId k) :
    ∃ u, find? a.users (a.userOf c) = some u ∧ a.userOf c ≠ 0 ∧ k = a.tokenCount ∧
      stepA0 a (.createPat c name expiry) =
        ({ (a.putUser { u with tokens := u.tokens ++
              [{ name := name, idx := a.tokenCount, expiry := expiry.map (· + a.sys.now) }] }) with
            tokenCount := a.tokenCount + 1 }, .okId a.tokenCount, []) := by
  revert h
  simp only [stepA0]
  split; · simp
  split; · simp
  next h1 _ u hf =>
  split; · simp
  split; · simp
  exact fun hk => ⟨u, hf, h1, by simpa using hk.symm, rfl⟩

/-! ## requests that demand an authenticated connection -/

/-- `op` is a request of connection `c` that the server answers only to an authenticated connection:
the user and token management commands, logout, and every core command that calls
`ensure_authenticated` (all wire commands except `get_stats`; `clock`, `save`, `maintain`, `restart`,
`evict`, `close` are not wire commands) -/
def AOp.guardedBy (c : Nat) : AOp → Prop
  | .logout c' => c' = c
  | .createUser c' .. => c' = c
  | .deleteUser c' _ => c' = c
  | .updateUser c' .. => c' = c
  | .updatePerms c' .. => c' = c
  | .changePw c' .. => c' = c
  | .userInfo c' _ => c' = c
  | .users c' => c' = c
  | .createPat c' .. => c' = c
  | .deletePat c' _ => c' = c
  | .pats c' => c' = c
  | .core c' op => c' = c ∧ skipsAuthCheck op = false
  | _ => False

theorem stepA0_core_unauth {a : ASys} {c : Nat} {op : Op} (hu : a.userOf c = 0) (hs : skipsAuthCheck op = false) :
    stepA0 a (.core c op) = (a, .err "unauthenticated", []) := by
  cases op
  case restart cl => simp [skipsAuthCheck] at hs
  case close c' => simp [skipsAuthCheck] at hs
  all_goals simp [stepA0, hu, hs]

theorem stepA0_unauth {a : ASys} {c : Nat} {op : AOp} (hu : a.userOf c = 0) (hg : op.guardedBy c) :
    stepA0 a op = (a, .err "unauthenticated", []) := by
  cases op
  case core c' o => obtain ⟨rfl, hs⟩ := hg; exact stepA0_core_unauth hu hs
  all_goals first
    | (simp only [AOp.guardedBy] at hg; subst hg; simp [stepA0, hu]; done)
    | (simp only [AOp.guardedBy] at hg; done)


/-! ## logins against a table whose tokens were filtered (clean-up of expired tokens, restart) -/

theorem findUser_keepToks {a a' : ASys} {p : Tok → Bool} (hu : a'.users = keepToks p a.users) (ui : Ident) :
    a'.findUser ui = (a.findUser ui).map (·.keepToks p) := by
  cases ui with
  | num n => simp only [ASys.findUser, hu, keepToks, find?_mapE]
  | name nm =>
    simp only [ASys.findUser, hu, keepToks, mapE, List.find?_map, Option.map_map]
    rfl

theorem find?_keepToks_isNone {a a' : ASys} {p : Tok → Bool} (hu : a'.users = keepToks p a.users) (k : Nat) :
    (find? a'.users k).isNone = (find? a.users k).isNone := by
  rw [hu, keepToks, find?_mapE]
  cases find? a.users k <;> rfl

theorem loginAs_out_congr {a a' : ASys} {c : Nat} {u u' : User} {pw : String}
    (h1 : u'.active = u.active) (h2 : u'.pw = u.pw) (h3 : u'.id = u.id) (h4 : a'.userOf c = a.userOf c)
    (h5 : (find? a'.users (a.userOf c)).isNone = (find? a.users (a.userOf c)).isNone) :
    (loginAs a' c u' pw).2.1 = (loginAs a c u pw).2.1 := by
  unfold loginAs
  rw [h1, h2, h3, h4, h5]
  repeat' split
  all_goals rfl

theorem loginTokAs_out_congr {a a' : ASys} {c : Nat} {u u' : User} {tk : Tok}
    (h0 : a'.sys.now = a.sys.now)
    (h1 : u'.active = u.active) (h3 : u'.id = u.id) (h4 : a'.userOf c = a.userOf c)
    (h5 : (find? a'.users (a.userOf c)).isNone = (find? a.users (a.userOf c)).isNone) :
    (loginTokAs a' c u' tk).2.1 = (loginTokAs a c u tk).2.1 := by
  unfold loginTokAs
  rw [h0, h1, h3, h4, h5]
  repeat' split
  all_goals rfl

theorem userOf_congr {a a' : ASys} (hs : a'.sessions = a.sessions) (c : Nat) : a'.userOf c = a.userOf c := by
  unfold ASys.userOf; rw [hs]

/-- filtering tokens does not change the answer to a password login -/
theorem login_keepToks {a a' : ASys} {p : Tok → Bool} (hu : a'.users = keepToks p a.users)
    (hs : a'.sessions = a.sessions) (c : Nat) (name pw : String) :
    (stepA0 a' (.login c name pw)).2.1 = (stepA0 a (.login c name pw)).2.1 := by
  have hf' := findUser_keepToks hu (.name name)
  cases hf : a.findUser (.name name) with
  | none =>
    rw [hf] at hf'
    rw [stepA0_login_none hf, stepA0_login_none hf']
  | some u =>
    rw [hf] at hf'
    rw [stepA0_login_some hf, stepA0_login_some hf']
    exact loginAs_out_congr rfl rfl rfl (userOf_congr hs c) (find?_keepToks_isNone hu _)

theorem loginTokAs_not_expired {a : ASys} {c : Nat} {u : User} {tk : Tok} (hv : tk.validAt a.sys.now = true) :
    (loginTokAs a c u tk).2.1 ≠ .err "personal_access_token_expired" := by
  rcases loginTokAs_cases a c u tk with ⟨h, _⟩ | ⟨_, _, h⟩ | ⟨_, _, _, h⟩ | ⟨_, _, _, h⟩
  · rw [hv] at h; cases h
  all_goals rw [h]; simp

/-- dropping the tokens that have expired does not change the answer to a token login, except that an
expired token, refused as expired before, is afterwards refused as unknown -/
theorem loginPat_keepToks {a a' : ASys} (h : a.UWF) (hu : a'.users = keepToks (Tok.validAt a.sys.now) a.users)
    (hnow : a'.sys.now = a.sys.now) (hs : a'.sessions = a.sessions) (c k : Nat) :
    (stepA0 a' (.loginPat c k)).2.1 =
      if (stepA0 a (.loginPat c k)).2.1 = .err "personal_access_token_expired" then .err "resource_not_found"
      else (stepA0 a (.loginPat c k)).2.1 := by
  have h' : UsersWF a'.users a.tokenCount a.userCursor := by rw [hu]; exact UsersWF.keepToks h _
  by_cases hex : ∃ e ∈ a.users, ∃ t ∈ e.2.tokens, t.idx = k
  · obtain ⟨e, he, t, ht, rfl⟩ := hex
    rw [stepA0_loginPat_some h (u := e.2) (k := e.1) he ht]
    cases hv : t.validAt a.sys.now
    · have hnone : ∀ e' ∈ a'.users, ∀ t' ∈ e'.2.tokens, t'.idx ≠ t.idx := by
        intro e' he' t' ht' hi
        rw [hu] at he'
        obtain ⟨x, hx, rfl⟩ := UsersWF.mem_keepToks.1 he'
        obtain ⟨ht1, ht2⟩ := List.mem_filter.1 ht'
        have := (h.eq_of_tok hx he ht1 ht hi).2
        rw [this, hv] at ht2
        cases ht2
      rw [stepA0_loginPat_none hnone]
      rcases loginTokAs_cases a c e.2 t with ⟨_, hr⟩ | ⟨hv', _⟩ | ⟨hv', _⟩ | ⟨hv', _⟩
      · rw [hr]; rfl
      all_goals rw [hv] at hv'; cases hv'
    · have he' : (e.1, e.2.keepToks (Tok.validAt a.sys.now)) ∈ a'.users := by
        rw [hu]; exact UsersWF.mem_keepToks.2 ⟨e, he, rfl⟩
      have ht' : t ∈ (e.2.keepToks (Tok.validAt a.sys.now)).tokens := List.mem_filter.2 ⟨ht, hv⟩
      rw [stepA0_loginPat_some h' he' ht', if_neg (loginTokAs_not_expired hv)]
      exact loginTokAs_out_congr hnow rfl rfl (userOf_congr hs c) (find?_keepToks_isNone hu _)
  · have hn : ∀ e ∈ a.users, ∀ t ∈ e.2.tokens, t.idx ≠ k := fun e he t ht hi => hex ⟨e, he, t, ht, hi⟩
    have hn' : ∀ e ∈ a'.users, ∀ t ∈ e.2.tokens, t.idx ≠ k := by
      intro e' he' t' ht'
      rw [hu] at he'
      obtain ⟨x, hx, rfl⟩ := UsersWF.mem_keepToks.1 he'
      exact hn x hx t' (List.mem_filter.1 ht').1
    rw [stepA0_loginPat_none hn, stepA0_loginPat_none hn']
    rfl


/-! ## histories -/

/-- the state after a history of requests -/
def runA (a : ASys) (ops : List AOp) : ASys := ops.foldl (fun a op => (stepA0 a op).1) a

/-- the answers to a history of requests -/
def outsA (a : ASys) : List AOp → List Out
  | [] => []
  | op :: ops => (stepA0 a op).2.1 :: outsA (stepA0 a op).1 ops

theorem uwf_run {a : ASys} (h : a.UWF) (ops : List AOp) : (runA a ops).UWF := by
  induction ops generalizing a with
  | nil => exact h
  | cons op ops ih => exact ih (uwf_step h op)

/-- `stepA` is `stepA0` except that the single-entity reads answer a failure with an empty response -/
theorem stepA_fst (a : ASys) (op : AOp) : (stepA a op).1 = (stepA0 a op).1 := by
  unfold stepA
  simp only
  split
  · split <;> rfl
  · rfl

theorem stepA_eq (a : ASys) {op : AOp} (h : emptyOnError op = false) : stepA a op = stepA0 a op := by
  unfold stepA
  simp only [h, Bool.false_eq_true, false_and, if_false]
  split <;> rfl


/-! ## root's permissions -/

theorem root_perms_put {us : List (Nat × User)} {u u' : User} (hf : find? us u.id = some u) (hid : u'.id = u.id)
    (hp : u.id = 1 → u'.perms = u.perms) :
    (find? (insertAsc us u'.id u') 1).map (·.perms) = (find? us 1).map (·.perms) := by
  by_cases h1 : u.id = 1
  · rw [hid, h1, find?_insertAsc_self, ← h1, hf]
    simp only [Option.map_some, hp h1]
  · rw [hid, find?_insertAsc_ne _ _ (Ne.symm h1)]

/-- no request changes the permissions of the root user -/
theorem root_perms_step {a : ASys} (h : a.UWF) (op : AOp) :
    (find? (stepA0 a op).1.users 1).map (·.perms) = (find? a.users 1).map (·.perms) := by
  cases op with
  | ping c => rfl
  | login c name pw =>
    simp only [stepA0]
    repeat' split
    all_goals rfl
  | loginPat c k =>
    simp only [stepA0]
    repeat' split
    all_goals rfl
  | logout c =>
    simp only [stepA0]
    repeat' split
    all_goals rfl
  | createUser c name pw active perms =>
    simp only [stepA0]
    split; rfl
    split; rfl
    split; rfl
    have h1 : (1 : Nat) ≠ a.userCursor := by
      intro hc
      obtain ⟨e, he, hk⟩ := find?_isSome.1 h.root
      have := h.fresh e he
      omega
    show (find? (insertAsc a.users a.userCursor _) 1).map _ = _
    rw [find?_insertAsc_ne _ _ h1]
  | deleteUser c ui =>
    simp only [stepA0]
    split; rfl
    split; rfl
    split; rfl
    split; rfl
    next hne =>
      show (find? (erase a.users _) 1).map _ = _
      rw [find?_erase_ne _ (Ne.symm hne)]
  | updateUser c ui name status =>
    simp only [stepA0]
    split; rfl
    split; rfl
    split; rfl
    next u hf =>
    cases name with
    | none =>
      simp only [Bool.false_eq_true, if_false]
      exact root_perms_put (ASys.findUser_find? h hf) rfl (fun _ => rfl)
    | some nm =>
      simp only
      split; rfl
      exact root_perms_put (ASys.findUser_find? h hf) rfl (fun _ => rfl)
  | updatePerms c ui perms =>
    simp only [stepA0]
    split; rfl
    split; rfl
    split; rfl
    next u hf =>
    split; rfl
    next hne => exact root_perms_put (ASys.findUser_find? h hf) rfl (fun h1 => absurd h1 hne)
  | changePw c ui cur new =>
    simp only [stepA0]
    split; rfl
    split; rfl
    next u hf =>
    split; rfl
    split; rfl
    exact root_perms_put (ASys.findUser_find? h hf) rfl (fun _ => rfl)
  | userInfo c ui =>
    simp only [stepA0]
    repeat' split
    all_goals rfl
  | users c =>
    simp only [stepA0]
    repeat' split
    all_goals rfl
  | createPat c name expiry =>
    simp only [stepA0]
    split; rfl
    split; rfl
    next u hf =>
    split; rfl
    split; rfl
    have hfu : find? a.users u.id = some u := by rw [h.id_of_find? hf]; exact hf
    exact root_perms_put hfu rfl (fun _ => rfl)
  | deletePat c name =>
    simp only [stepA0]
    split; rfl
    split; rfl
    next u hf =>
    split; rfl
    have hfu : find? a.users u.id = some u := by rw [h.id_of_find? hf]; exact hf
    exact root_perms_put hfu rfl (fun _ => rfl)
  | pats c =>
    simp only [stepA0]
    repeat' split
    all_goals rfl
  | cleanPats =>
    rw [stepA0_cleanPats]
    show (find? (mapE (fun _ u => u.keepToks (Tok.validAt a.sys.now)) a.users) 1).map _ = _
    rw [find?_mapE]
    cases find? a.users 1 <;> rfl
  | core c op =>
    by_cases hop : ∃ cl, op = .restart cl
    · obtain ⟨cl, rfl⟩ := hop
      rw [stepA0_restart_users]
      show (find? (mapE (fun _ u => u.keepToks (Tok.validAt a.sys.now)) a.users) 1).map _ = _
      rw [find?_mapE]
      cases find? a.users 1 <;> rfl
    · rw [(stepA0_core_users a c op (fun cl hc => hop ⟨cl, hc⟩)).1]

theorem root_perms_run {a : ASys} (h : a.UWF) (ops : List AOp) :
    (find? (runA a ops).users 1).map (·.perms) = (find? a.users 1).map (·.perms) := by
  induction ops generalizing a with
  | nil => rfl
  | cons op ops ih =>
    show (find? (runA (stepA0 a op).1 ops).users 1).map _ = _
    rw [ih (uwf_step h op), root_perms_step h op]

/-! ## a concrete server, for examples -/

/-- an empty server at time 0 -/
def demoSys : Sys := Sys.init ⟨10, 1000, false, false, false⟩ ⟨false, none, none⟩ 0

/-- … with the root user only -/
def demoInit : ASys := ASys.init demoSys 100

end Iggy.Sys
