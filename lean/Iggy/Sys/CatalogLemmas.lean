/-
Helper lemmas for the catalogue properties C05 (restart reproduces the acknowledged catalogue) and
C06 (the catalogue is a sequential map of uniquely named and numbered entities).  Split over
`Iggy/Sys/Catalog/*.lean`:

* `Assoc`      – ascending association lists as finite maps
* `View`       – the catalogue view (`viewY` / `viewR`), scopes, well-formedness
* `Lookup`     – resolution of identifiers, runtime and replay
* `Trans`      – the runtime's building blocks on the view
* `Replay`     – `applyEntry` / `loadCatalog` on the view
* `Spec`       – the two shapes of a step (`Spec.same`, `Spec.logged`)
* `Admin`, `AdminTopic`, `Data` – every operation satisfies `Spec`
* `Invariant`  – `Sys.WF`, `wf_step`, reachable states
* `Restart`    – restarts under the invariant
* `Map`, `Create` – the sequential-map facts of C06
-/
import Iggy.Sys.Catalog.Create
